#!/bin/bash
# usage: seedtool.sh collect <Cxx> [name]   - verify the demo in /tmp/seed/<Cxx> and store patch+demo+meta under /verif/seeded/<name>
#        seedtool.sh run <name> <check ids...> [tier]  - apply seeded/<name>/patch.diff to /repo, run the checks, undo
export GOFLAGS=-mod=mod GOPROXY=off GOSUMDB=off GOTOOLCHAIN=local
ROOT=$(dirname $(readlink -f $0))
cmd=$1; shift
case $cmd in
collect)
  id=$1; name=${2:-$id-a}; wt=${SEEDROOT:-/tmp/seed}/$id; out=$ROOT/seeded/$name
  mkdir -p $out
  cd $wt || exit 2
  demo=$(git status --porcelain | grep seeded_demo_test.go | awk '{print $2}' | head -1)
  [ -z "$demo" ] && demo=$(find . -name seeded_demo_test.go | head -1)
  pkg=./$(dirname $demo)
  git diff -- . ':(exclude)*seeded_demo_test.go' ':(exclude)SEEDED.md' > $out/patch.diff
  cp $demo $out/seeded_demo_test.go.txt
  [ -f SEEDED.md ] && cp SEEDED.md $out/SEEDED.md
  echo "demo=$demo pkg=$pkg patch lines=$(wc -l < $out/patch.diff)"
  tags="-tags verif"
  # with change
  go build -tags verif ./ ./codec/... ./socket/ ./utils/... ./xfer/... ./proto/... ./plugin/... ./mixer/websocket/... > $out/build.log 2>&1; echo "build rc=$?"
  go test -vet=off -count=1 -skip '^TestSeededDemo$' ./codec/ ./socket/ ./utils/ ./xfer/gzip/ ./mixer/websocket/websocket/ > $out/pinned.log 2>&1; echo "pinned suite rc=$?"
  timeout 300 go test $tags -run TestSeededDemo -count=1 $pkg > $out/demo_with.log 2>&1; w=$?; echo "demo WITH change rc=$w (expect !=0)"
  git apply -R $out/patch.diff || echo "cannot reverse patch"
  timeout 300 go test $tags -run TestSeededDemo -count=1 $pkg > $out/demo_without.log 2>&1; wo=$?; echo "demo WITHOUT change rc=$wo (expect 0)"
  git apply $out/patch.diff
  echo "{\"source_worktree\":\"$wt\",\"demo_pkg\":\"$pkg\",\"demo_with_rc\":$w,\"demo_without_rc\":$wo}" > $out/verify.json
  ;;
run)
  # runs in a scratch worktree (never in /repo): VERIF_ALT_REPO makes check.py build against it
  name=$1; shift
  tier=quick
  wt=/tmp/seedrun/$(basename $ROOT)-$name
  git -C /repo worktree remove --force $wt 2>/dev/null; rm -rf $wt; mkdir -p /tmp/seedrun
  git -C /repo worktree add --detach -q $wt HEAD || exit 2
  (cd $wt && git apply $ROOT/seeded/$name/patch.diff) || { echo "patch does not apply"; git -C /repo worktree remove --force $wt; exit 2; }
  for c in "$@"; do
    if [ "$c" = thorough ] || [ "$c" = quick ]; then tier=$c; continue; fi
  done
  for c in "$@"; do
    if [ "$c" = thorough ] || [ "$c" = quick ]; then continue; fi
    t0=$(date +%s)
    (cd $ROOT && VERIF_ALT_REPO=$wt python3 check.py $c $tier 2>&1 | grep -a -E "VIOLATION|^OK|INCONCLUSIVE|rapid\] failed|KNOWN" | cut -c1-400 | head -5)
    echo "  [$c $tier: $(( $(date +%s) - t0 )) s]"
  done
  git -C /repo worktree remove --force $wt; git -C /repo worktree prune
  ;;
esac
