HOOK_COMMITS = ["6bc6b08"]
NOT_APPLICABLE = {}
TEXT = {
 "C05": {
  "technique": "property-based round-trip + metamorphic size/stream oracles (rapid), per protocol",
  "level_text": "Generated-input search: for every shipped wire protocol, messages drawn from the protocol's documented field set are packed and unpacked (field-by-field equality incl. ordered multimap metadata), streams of 1-6 frames are decoded under generated read chunkings with a byte-exact consumed counter, and reported sizes are compared between a used and a fresh protocol instance. Exploration, not proof: absence of a counterexample within the generated cases.",
  "level_note": "Trusts: rapid's generators, the in-memory reader/writer, third-party gzip/md5/thrift/protobuf/gjson libraries. Field domains follow the documented limits (DESIGN.md C05 table).",
 },
 "C01": {
  "technique": "property-based generated concurrent programs with self-authenticating messages and a pure-function handler oracle (rapid)",
  "level_text": "Generated concurrent programs (sessions x worker goroutines x Call/AsyncCall/Push in both directions x carrier type per codec x payload length x filter pipe x read chunking) run against the real session/peer/router code over an in-memory transport. Every message authenticates itself (token in body and metadata + payload checksum); handlers re-read their argument after yielding; callers compare result and reply metadata with the pure function of their own argument. Exploration of scheduler-chosen interleavings, not an enumeration.",
  "level_note": "Trusts the in-memory transport and rapid. Interleavings inside pack/unpack are sampled by load, not forced.",
 },
 "C11": {
  "technique": "property-based round-trip with aliasing probe + garbage/other-shape decoding between canaries (rapid)",
  "level_text": "Per codec, typed values from the supported domain are marshalled and unmarshalled (deep equality incl. element order; nil/empty identified; NaN by class), the decoder's input buffer is then overwritten to expose values that alias it, and arbitrary / mutated / other-shape inputs are decoded into every destination type between canary words with panics turned into failures.",
  "level_note": "Value domains are bounded by what encoding/json, encoding/xml, gogo/protobuf and thrift accept; struct shapes are a fixed library of types, not arbitrary reflect.StructOf types.",
 },
 "C12": {
  "technique": "property-based inversion over generated pipes/payloads + exhaustive single-byte corruption enumeration (rapid + enumeration)",
  "level_text": "Pipes over the registered filters (length 0..255, repeats) x payload classes are packed and unpacked (exact inversion; receiver rebuilds the pipe from a raw frame); pipes naming an unregistered id must be refused by Append and by Unpack; for pipes containing md5 every byte position of the packed payload is corrupted (3 masks quick; all 255 masks for payloads <=64 B in the thorough tier, a complete enumeration for those payloads). The end-to-end 'reply travels through the caller's pipe' part is checked with sessions in the same run group.",
  "level_note": "compress/gzip and crypto/md5 are trusted; corruption model = one byte xor-ed.",
 },
}
