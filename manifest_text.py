HOOK_COMMITS = ["6bc6b08"]
NOT_APPLICABLE = {}
TEXT = {
 "C05": {
  "technique": "property-based round-trip + metamorphic size/stream oracles (rapid), per protocol",
  "level_text": "Generated-input search: for every shipped wire protocol, messages drawn from the protocol's documented field set are packed and unpacked (field-by-field equality incl. ordered multimap metadata), streams of 1-6 frames are decoded under generated read chunkings with a byte-exact consumed counter, and reported sizes are compared between a used and a fresh protocol instance. Exploration, not proof: absence of a counterexample within the generated cases.",
  "level_note": "Trusts: rapid's generators, the in-memory reader/writer, third-party gzip/md5/thrift/protobuf/gjson libraries. Field domains follow the documented limits (DESIGN.md C05 table).",
 },
}
