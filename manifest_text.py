HOOK_COMMITS = ["6bc6b08", "8d4cd3d", "0da9cec"]
NOT_APPLICABLE = {}
TEXT = {
 "C05": {
  "technique": "property-based round-trip + metamorphic size/stream oracles (rapid), per protocol",
  "level_text": "Generated-input search: for every shipped wire protocol, messages drawn from the protocol's documented field set are packed and unpacked (field-by-field equality incl. ordered multimap metadata), streams of 1-6 frames are decoded under generated read chunkings with a byte-exact consumed counter, and reported sizes are compared between a used and a fresh protocol instance. Exploration, not proof: absence of a counterexample within the generated cases.",
  "level_note": "Trusts: rapid's generators, the in-memory reader/writer, third-party gzip/md5/thrift/protobuf/gjson libraries. Field domains follow the documented limits (DESIGN.md C05 table).",
 },
 "C01": {
  "technique": "property-based generated concurrent programs with self-authenticating messages and a pure-function handler oracle (rapid)",
  "level_text": "Generated concurrent programs (sessions x worker goroutines x Call/AsyncCall/Push in both directions x carrier type per codec x payload length x filter pipe x read chunking) run against the real session/peer/router code over an in-memory transport. Every message authenticates itself (token in body and metadata + payload checksum); handlers re-read their argument after yielding; callers compare result and reply metadata with the pure function of their own argument. Exploration of scheduler-chosen interleavings, not an enumeration.",
  "level_note": "Trusts the in-memory transport and rapid. Interleavings inside pack/unpack are sampled by load, not forced.",
 },
 "C11": {
  "technique": "property-based round-trip with aliasing probes + garbage/other-shape decoding between canaries (rapid) + coverage-guided native fuzzing (thorough)",
  "level_text": "Per codec, typed values from the supported domain are marshalled and unmarshalled (deep equality incl. element order; nil/empty identified; NaN by class), the decoder's input buffer is then overwritten to expose values that alias it, and arbitrary / mutated / other-shape inputs are decoded into every destination type between canary words with panics turned into failures; an encoding returned by Marshal is compared with itself after further Marshal calls of other values. Thorough tier: coverage-guided native fuzzing of Unmarshal per codec with the canary oracle inside the target.",
  "level_note": "Value domains are bounded by what encoding/json, encoding/xml, gogo/protobuf and thrift accept; struct shapes are a fixed library of types, not arbitrary reflect.StructOf types.",
 },
 "C12": {
  "technique": "property-based inversion over generated pipes/payloads + exhaustive single-byte corruption enumeration (rapid + enumeration)",
  "level_text": "Pipes over the registered filters (length 0..255, repeats) x payload classes are packed and unpacked (exact inversion; receiver rebuilds the pipe from a raw frame); pipes naming an unregistered id must be refused by Append and by Unpack; one pipe object is driven through Reset/Append/AppendFrom steps (as pooled messages do) with every view (IDs, Len, Names, Range) and cross-inversion against a fresh pipe checked after each step; for pipes containing md5 every byte position of the packed payload is corrupted (3 masks quick; all 255 masks for payloads <=64 B in the thorough tier, a complete enumeration for those payloads). The end-to-end 'reply travels through the caller's pipe' part is checked with sessions in the same run group.",
  "level_note": "compress/gzip and crypto/md5 are trusted; corruption model = one byte xor-ed.",
 },
 "C02": {
  "technique": "property-based fault/event scripts against a scripted remote, incl. harness-gated pre-write hooks and calls issued from handlers (rapid) + exhaustive cut-offset enumeration",
  "level_text": "A real client session with 1-5 outstanding calls faces a scripted remote whose event script is generated: per-call reply classes (valid, error, duplicate, unknown seq, codec 0 with body, undecodable, truncated) with reply-path vetoes, interleaved with local Close, remote close, cut, over-limit garbage. Oracle: every call's Done fires after its terminal event (20 s bound + goroutine dump), exactly one completion-channel delivery, never OK without a reply, Close returns; a process crash is reported from the journalled case. In addition the connection is cut at EVERY byte offset of the request and reply streams of a fixed two-call scenario per protocol (complete over that finite space). Two further generated sub-checks: the send window (calls parked inside a harness-controlled PreWriteCall hook while the link is cut / closed / an early REPLY with their sequence number arrives, then passed or vetoed) and nested calls (handlers that call back over their own session and wait, then the connection is lost).",
  "level_note": "Liveness is bounded-time evidence. Orderings are those generated (script order + settle pauses); no gate inside the framework is used in this check.",
 },
 "C03": {
  "technique": "property-based frame sequences from a scripted raw peer against a reference model of dispatch (rapid)",
  "level_text": "A scripted raw peer sends generated frame sequences (any type byte, known/unknown/empty/255-byte routes, decodable/undecodable/empty bodies, registered/unregistered/nil codec ids, pre-handler plugin vetoes, duplicate/extreme seqs; handler returns, fails, panics with string/error/*Status, is gated, returns an unmarshalable reply or a result larger than a configured message size limit; plugins panicking before the handler, before and after the reply write) to a real server session, pipelined or frame by frame under generated read chunkings. A model decides expected REPLY count per seq, handler invocations per request id, reply status code and whether the session must disconnect; a graceful Close is the final barrier so counts are taken at quiescence.",
  "level_note": "Write faults during the reply are not injected. Concurrency is whatever pipelining + the pool scheduler produce.",
 },
 "C04": {
  "technique": "property-based cause x protocol x codec matrix against a model of the expected status triple (rapid)",
  "level_text": "One call per case over raw/json/pb/http and the two websocket sub-protocols (real HTTP upgrade over the in-memory transport), body codecs json/xml/form: the cause of the outcome is generated (handler OK/any status, 404, 400, panic, server veto per stage, caller veto before write and per reply stage, cut while the handler runs, result-type mismatch) and the observed (code,msg,cause) at accessor level is compared with a small model; whether a mismatching result type must fail is decided by the codec alone. Every status is re-checked after follow-up calls on the same and on other sessions. Over the two thrift wire protocols (separate binary) sequential histories of 2-10 operations (OK, handler status, unknown route, failing pushes; either direction; thrift and json bodies) must each show exactly their own outcome.",
  "level_note": "protobuf/thrift body codecs are covered by C01/C11, not by this matrix; thrift wire protocols are covered by the status-history sub-check and the round-trip checks of the thrift binary, not by the cause matrix.",
 },
 "C09": {
  "technique": "property-based plugin arrangements against a reference model of the hook trace (rapid)",
  "level_text": "Generated plugin arrangements (global left/right, nested router groups, handler-level, late global attachment; generated stage subsets; at most one veto) with calls and pushes to handlers at generated nesting depth; the exact ordered hook trace on both peers, the caller-visible status, 'nothing written after a pre-write veto' and 'handler not run after a veto' are compared with a reference model; a graceful close is the final barrier against late extra hooks.",
  "level_note": "PreReadHeader hooks are not compared (no message to attribute them to). Messages are issued one at a time so traces can be attributed exactly.",
 },
 "C10": {
  "technique": "property-based router programs over a handler library + mapper function properties (rapid)",
  "level_text": "Router programs (mapper x SubRoute tree x registrations from a library of 9 controller structs / 11 functions with the documented identifier shapes and deliberate collisions x unknown handlers x requesting session established before or after the configuration) are built on a real peer; every returned name, its twin in the other namespace, near-misses and random names are requested and the set of handlers that ran is compared with the model after every request and at quiescence; predicted collisions must be reported. The mapper is checked literally against the documented table, against word-template instances of it, and for determinism/totality on arbitrary identifier strings.",
  "level_note": "Expected names use the public mapper functions; handler programs are limited to the library.",
 },
 "C20": {
  "technique": "property-based differential testing: recycled object vs fresh object under generated op histories (rapid)",
  "level_text": "For messages, metadata containers and pooled sockets a generated dirtying history is followed by the documented recycle path and a generated next-user history that is applied to the recycled and to a fresh object; every public getter and the packed bytes must agree after every step. For handler contexts (black box) generated dirty requests (reply metadata, codec, pipe, swap entries, error status, large bodies, a context.Context with a value / deadline attached by the caller, a session with a context age, pushes in both directions; half the cases on a single P so that pooled objects are reused at once) precede a probe request whose handler records everything it can observe and whose reply frame is captured from the wire.",
  "level_note": "Pool identity is not guaranteed by sync.Pool; reuse is measured and reported, and the reset functions are also driven directly.",
 },
 "C06": {
  "technique": "property-based hostile byte strings at protocol, body-codec and live-session level (rapid) + exhaustive truncation-offset enumeration + coverage-guided native fuzzing (thorough)",
  "level_text": "Protocol level: random / mutated / truncated / length-boundary / inner-length / spliced / duplicated / bare-announcement byte strings are fed to each protocol's Unpack under read limits 64..65536 with the allocation around the call measured and, for size-prefixed protocols, the bytes consumed after an over-limit announcement counted; HTTP gets text-level announcements (Content-Length, endless lines, header floods). Every proper prefix of six fixed valid frames per protocol is enumerated (complete). Session level: a live serving or calling session (with pending calls) of a real peer receives generated hostile chunks then EOF; the close notification must fire, pending calls complete exactly once, Close returns, the index forgets the session and a control session on the same peer works before, during and after; a process crash is reported from the journalled case. Body-codec level: a body derived from a valid encoding with a length-like 4-byte window overwritten by 2^26..2^31-1 (big/little endian, varint) is decoded by every built-in codec under the same allocation bound. Thorough tier: coverage-guided native fuzzing (go test -fuzz, instrumented build) of Unpack for raw/json/pb/http with the same oracles inside the target.",
  "level_note": "TotalAlloc is a coarse, over-approximating monitor with deliberately wide slack. Thrift: element lengths inside a frame are decoded by the third-party thrift library, which allocates what is announced (listed known finding); the allocation oracle is suspended for the thrift protocols while that finding is listed, and inner-length corruption classes are steered away and counted.",
 },
 "C07": {
  "technique": "model-based stateful property testing (rapid state machine) with an invariant after every action",
  "level_text": "A rapid state machine drives one serving and one dialling peer through generated histories of connect (accept-hook accept/reject, hook SetID fresh/colliding), SetID (fresh/same/colliding), call, close (local/remote/cut), local Close racing a disconnect, repeated Close, call and push on closed sessions; after every action the session index (GetSession/CountSession/RangeSession), Health, close notifications and the per-session disconnect-hook count are compared with a reference model at a quiescent point, and again after the final peer close. A second property holds the accept hook while a raw remote pipelines traffic and checks that nothing is handled or indexed before the hook returns OK (and never after a reject).",
  "level_note": "Interleavings of Close vs disconnect are sampled (two goroutines, generated head start), not enumerated; no in-framework gate points are used.",
 },
 "C08": {
  "technique": "property-based schedules over gated handlers, judged on a logical-clock history and wire capture (rapid)",
  "level_text": "After a generated prior history on the closing side's session (completed calls, pushes, calls that failed locally because their argument cannot be marshalled or their context is cancelled), calls in both directions are parked inside gated handlers (all entered), then Close (session or peer, either end) is invoked, optional late calls are issued, handlers are released in a generated permutation with an optional cut; the oracle reads the logical-clock log and the captured wire: Close blocked while entered handlers run / own calls are unanswered, genuine replies (never 102) for entered handlers unless the connection was cut first, Close returns after handler exits and after their REPLY frames are on the wire. A second sub-check runs the same scenario over websocket sessions (both sub-protocols, real HTTP upgrade), closing the serving or the dialling end.",
  "level_note": "The placement of Close relative to handler entry is controlled (always after entry); 'request arrived but handler not entered' is only exercised by the late calls and judged for exactly-once completion.",
 },
 "C15": {
  "technique": "property-based histories with a before/after snapshot invariant and a differential battery (rapid)",
  "level_text": "Generated histories of failures and plugin activity (closed-session calls/pushes, 404, 400, panics, unsupported frame types, PreSend outside its phase, refused dials, cuts / truncated or garbage replies / read deadlines mid-call, error replies that cannot be written because the reply context expired, proxied calls/pushes with the backend down or dying, auth rejection, secure with a wrong key, overloader rejection); after every step the (code,msg,cause) of every predefined status is compared with the snapshot taken before the history, and a fixed battery of failing operations on fresh sessions must yield the same triples before and after.",
  "level_note": "Relies on the verif accessor H2 for the list of shared statuses.",
 },
 "C16": {
  "technique": "property-based first-bytes / pipelining scripts against the auth checker with handler and hook counters (rapid)",
  "level_text": "A raw client opens a connection to a peer running the auth checker (verdict by credentials, a second receive attempt on bad credentials, reject after SetID, panic) with any first frame (good/bad AUTH_CALL, CALL, PUSH, REPLY, AUTH_REPLY, unknown type, garbage, half an auth frame, nothing, CALL before auth) and CALL/PUSH frames pipelined behind it, under generated write splitting and read chunking; without a successful exchange no handler and no per-message hook runs, at most one AUTH_REPLY is sent before EOF, nothing is indexed; with one, pipelined CALLs are answered exactly once. The dialling side (bearer plugin) is checked against a scripted TCP server with the same oracle.",
  "level_note": "Timing of client traffic relative to the exchange is generated through write splitting and read chunking, not through in-framework gates.",
 },
 "C17": {
  "technique": "property-based marker/key/codec matrix with wire capture (rapid)",
  "level_text": "Calls and pushes between two peers running the secure plugin over the full matrix of secure / accept-secure markers, codecs json and protobuf, key lengths and equal/different keys, with random 24-character markers (or empty ones: zero-byte protobuf bodies) in argument and result; end-to-end equality with equal keys, handler-not-invoked / result-not-delivered with the plugin's status code with different keys, and a scan of both captured byte streams for the markers (raw, hex, base64) deciding encrypted-vs-clear per frame.",
  "level_note": "Only the shipped codecs able to carry the envelope (json, protobuf).",
 },
 "C18": {
  "technique": "model-based stateful testing of the limiters with a manual clock + end-to-end state machine and sound rate bound (rapid)",
  "level_text": "Exact part: rapid state machines drive the connection limiter (take/release/update) and the rate limiter (bursts from concurrent goroutines, manual ticks, limit updates) against integer models. End to end: a state machine over a real peer with the plugin (connect with expected verdict, connect while another accept hook before/after the overloader rejects, close/remote close/cut, limit updates) with 'admitted == model' checked at quiescent points, and bursts of calls/pushes under a rate limit judged by handler-runs == OK replies, error replies for the rest and a wall-clock bound that can only loosen.",
  "level_note": "Needs the verif-only wrappers H3 for the manual clock.",
 },
 "C19": {
  "technique": "property-based differential testing: direct vs proxied request (rapid)",
  "level_text": "The same generated request is sent to a backend directly and through a peer running the proxy plugin; caller-visible status triple, body bytes, reply codec and reply metadata and the backend's view (method, body, codec, metadata, exactly-once, real-IP injection iff absent) must agree; backend failures before and during forwarding must yield 502 on that call only, with the next proxied call (same and another proxy session) equal to the direct result.",
  "level_note": "Backend statuses avoid the framework-reserved range 100-199.",
 },
 "C14": {
  "technique": "property-based generation of concurrent programs + exhaustive pairwise contention sweep, with the Go race detector as the monitor (rapid + enumeration + -race)",
  "level_text": "Generated concurrent programs (2-10 goroutines x 1-12 documented-safe operations on 1-2 shared sessions: Call, AsyncCall, Push in both directions, handler replies, SetID, swap store/load/range, age getters, Health, CloseNotify, GetSession, RangeSession, CountSession, Close) run in a binary built with -race, once with logging off and once with run-logging at INFO; two programs in five are contention bursts (2-4 goroutines repeating 1-3 operation kinds 40..3000 times), and a systematic sweep lets every unordered pair of operation kinds (a kind with itself included) meet on one session with 2+2 goroutines and 3000 rounds (30000 in the thorough tier); the driver parses every detector report and reports a violation for each unordered pair of framework functions not listed as a known finding.",
  "level_note": "Only executed interleavings are observed. The harness itself must be race-free: reports touching harness frames or non-concurrency-safe global setters are infrastructure errors, not findings.",
 },
 "C13": {
  "technique": "property-based fault sequences against a harness-owned listener over loopback TCP (rapid)",
  "level_text": "A client session created by Dial with redial budget 1/3/unlimited faces a harness-owned listener that can kill every accepted connection and refuse new ones; generated fault sequences (killed idle, killed while a call awaits its gated reply, calls and pushes issued while the server is away, short outage, budget-exhausting outage, a dial hook refusing every redial attempt, long outage with unlimited budget, concurrent call bursts), optionally with the secure plugin on both peers; in-flight calls complete with a connection-class status or their genuine reply, after re-establishment calls succeed on the same Session value with the user-assigned id kept and indexed, after exhaustion the close notification fires, the index forgets the session and pending/later calls fail with a connection error (calls on ended sessions run under a liveness bound so a deadlock is a verdict); pre-write hooks fire once per message even when it is re-sent after a redial.",
  "level_note": "Real sockets: timing is not owned by the harness; liveness is bounded-time evidence.",
 },
}
