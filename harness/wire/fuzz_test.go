package wire

import (
	"testing"

	"verifharness/vt"
)

func fuzzProto(f *testing.F, spec vt.ProtoSpec) {
	for _, s := range vt.FuzzSeeds(spec) {
		f.Add(s, uint8(2))
		f.Add(s, uint8(0))
	}
	f.Fuzz(func(t *testing.T, data []byte, limitSel uint8) { vt.FuzzOneUnpack(t, spec, data, limitSel) })
}

func FuzzUnpackRaw(f *testing.F)  { fuzzProto(f, specRaw()) }
func FuzzUnpackJSON(f *testing.F) { fuzzProto(f, specJSON()) }
func FuzzUnpackPB(f *testing.F)   { fuzzProto(f, specPB()) }
func FuzzUnpackHTTP(f *testing.F) { fuzzProto(f, specHTTP()) }
