package wire

import (
	"bytes"
	"fmt"
	"strconv"
	"testing"
	"unicode/utf8"

	erpc "github.com/henrylee2cn/erpc/v6"
	"github.com/henrylee2cn/erpc/v6/mixer/websocket/jsonSubProto"
	"github.com/henrylee2cn/erpc/v6/mixer/websocket/pbSubProto"
	"github.com/henrylee2cn/erpc/v6/proto/httproto"
	"github.com/henrylee2cn/erpc/v6/proto/jsonproto"
	"github.com/henrylee2cn/erpc/v6/proto/pbproto"
	"github.com/henrylee2cn/erpc/v6/socket"
	"pgregory.net/rapid"

	"verifharness/vt"
)

// protoSpec describes one shipped wire protocol for the round-trip checks.
type protoSpec struct {
	name     string
	fn       func() erpc.ProtoFunc
	gen      func(t *rapid.T, rec *vt.Rec) vt.Msg // documented supported field set
	cmp      func(m vt.Msg) vt.CompareOpts
	perFrame bool // the protocol reads one frame per underlying reader (websocket sub-protocols)
}

func genStatus(t *rapid.T, m *vt.Msg, maxLen int, text func(t *rapid.T, label string, max int) string) {
	m.HasStatus = rapid.IntRange(0, 2).Draw(t, "hasStatus") != 0
	if !m.HasStatus {
		return
	}
	m.Code = vt.StatusCode(t, "code")
	if rapid.IntRange(0, 5).Draw(t, "codeZero") == 0 {
		m.Code = 0
	}
	m.StatMsg = text(t, "statmsg", maxLen)
	m.HasCause = rapid.Bool().Draw(t, "hasCause")
	if m.HasCause {
		m.Cause = text(t, "cause", maxLen)
	}
}

func anyText(t *rapid.T, label string, max int) string { return string(vt.Bytes(t, label, max)) }

func genPipe(t *rapid.T, ids []byte, maxLen int) []byte {
	switch rapid.IntRange(0, 5).Draw(t, "pipeclass") {
	case 0, 1:
		return nil
	case 2:
		return []byte{rapid.SampledFrom(ids).Draw(t, "pipe1")}
	case 3, 4:
		n := 4
		if n > maxLen {
			n = maxLen
		}
		return rapid.SliceOfN(rapid.SampledFrom(ids), 0, n).Draw(t, "pipe")
	default:
		n := rapid.SampledFrom([]int{5, 17, 64, 254, 255}).Draw(t, "pipelen")
		if n > maxLen {
			n = maxLen
		}
		return rapid.SliceOfN(rapid.SampledFrom(ids), n, n).Draw(t, "longpipe")
	}
}

func genBody(t *rapid.T, longPipe bool) []byte {
	if longPipe {
		return vt.Bytes(t, "body", 64)
	}
	if rapid.IntRange(0, 40).Draw(t, "bigbody") == 40 {
		n := rapid.SampledFrom([]int{65535, 65536, 70000, 200000}).Draw(t, "bigbodylen")
		b := make([]byte, n)
		seed := rapid.Byte().Draw(t, "bigbodyseed")
		for i := range b {
			b[i] = byte(i*7) ^ seed
		}
		return b
	}
	return vt.Bytes(t, "body", 4097)
}

// genRawLike generates the field set carried by the raw protocol family
// (raw, json, pb): every header field, ordered multimap metadata, any codec
// byte, any body bytes, pipes over the registered filters.
func genRawLike(methodGen func(t *rapid.T) string, statusText func(t *rapid.T, label string, max int) string, bodyFix func(t *rapid.T, rec *vt.Rec, b []byte) []byte) func(t *rapid.T, rec *vt.Rec) vt.Msg {
	return func(t *rapid.T, rec *vt.Rec) vt.Msg {
		var m vt.Msg
		m.Seq = vt.Seq(t, "seq")
		if rapid.IntRange(0, 3).Draw(t, "mtypeclass") == 0 {
			m.Mtype = rapid.Byte().Draw(t, "mtype")
		} else {
			m.Mtype = rapid.SampledFrom([]byte{erpc.TypeCall, erpc.TypeReply, erpc.TypePush, erpc.TypeAuthCall, erpc.TypeAuthReply}).Draw(t, "mtype")
		}
		m.Method = methodGen(t)
		genStatus(t, &m, 600, statusText)
		m.Meta = vt.Meta(t, "meta", 6, 300)
		if rapid.IntRange(0, 3).Draw(t, "codecclass") == 0 {
			m.Codec = rapid.Byte().Draw(t, "codec")
		} else {
			m.Codec = rapid.SampledFrom([]byte{0, 'j', 'p', 'f', 's', 'x', 't'}).Draw(t, "codec")
		}
		m.Pipe = genPipe(t, vt.RegisteredXfer, 255)
		m.Body = genBody(t, len(m.Pipe) > 4)
		if bodyFix != nil {
			m.Body = bodyFix(t, rec, m.Body)
		}
		return m
	}
}

func methodAnyBytes(t *rapid.T) string {
	if rapid.IntRange(0, 9).Draw(t, "methodlenclass") == 0 {
		n := rapid.SampledFrom([]int{254, 255}).Draw(t, "methodblen")
		return string(rapid.SliceOfN(rapid.Byte(), n, n).Draw(t, "methodb"))
	}
	return string(vt.Bytes(t, "method", 255))
}

func methodUTF8(t *rapid.T) string {
	if rapid.IntRange(0, 2).Draw(t, "methodclass") == 0 {
		return rapid.StringMatching(`/[a-z0-9_/]{0,40}`).Draw(t, "method")
	}
	return vt.ValidUTF8(t, "method", 255)
}

// methodPrintable: the JSON protocols document the service method as a %q
// quoted string; Go quoting and JSON string syntax agree on printable text.
func methodPrintable(t *rapid.T) string {
	if rapid.IntRange(0, 2).Draw(t, "methodclass") == 0 {
		return rapid.StringMatching(`/[a-z0-9_/]{0,40}`).Draw(t, "method")
	}
	s := vt.ValidUTF8(t, "method", 200)
	out := make([]rune, 0, len(s))
	for _, r := range s {
		if strconv.IsPrint(r) && r != utf8.RuneError && r < 0x10000 {
			out = append(out, r)
		}
	}
	return string(out)
}

func specRaw() protoSpec {
	return protoSpec{
		name: "raw",
		fn:   func() erpc.ProtoFunc { return socket.RawProtoFunc },
		gen:  genRawLike(methodAnyBytes, anyText, nil),
		cmp:  func(vt.Msg) vt.CompareOpts { return vt.CompareOpts{} },
	}
}

// jsonBodyFix steers bodies away from the known finding "JSON protocols only
// escape the double quote in the body" when that finding is listed as known.
func jsonBodyFix(key string) func(t *rapid.T, rec *vt.Rec, b []byte) []byte {
	return func(t *rapid.T, rec *vt.Rec, b []byte) []byte {
		if !vt.IsKnown(key) {
			return b
		}
		if jsonBodyNeedsEscaping(b) {
			rec.Exclude(key)
			out := make([]byte, 0, len(b))
			for _, c := range b {
				if c == '\\' || c < 0x20 {
					c = 'x'
				}
				out = append(out, c)
			}
			return out
		}
		return b
	}
}

func jsonBodyNeedsEscaping(b []byte) bool {
	for _, c := range b {
		if c == '\\' || c < 0x20 {
			return true
		}
	}
	return !utf8.Valid(b)
}

func specJSON() protoSpec {
	return protoSpec{
		name: "json",
		fn:   jsonproto.NewJSONProtoFunc,
		gen:  genRawLike(methodPrintable, anyText, jsonBodyFix("C05:jsonproto:body-escaping")),
		cmp:  func(vt.Msg) vt.CompareOpts { return vt.CompareOpts{} },
	}
}

func specPB() protoSpec {
	return protoSpec{
		name: "pb",
		fn:   pbproto.NewPbProtoFunc,
		gen:  genRawLike(methodUTF8, anyText, nil),
		cmp:  func(vt.Msg) vt.CompareOpts { return vt.CompareOpts{} },
	}
}

// The websocket sub-protocol frames have no status field in the shipped
// format (see C04); the round-trip check covers every other field.
func specWsJSON() protoSpec {
	base := genRawLike(methodPrintable, anyText, nil)
	return protoSpec{
		name: "ws-json",
		fn:   jsonSubProto.NewJSONSubProtoFunc,
		gen: func(t *rapid.T, rec *vt.Rec) vt.Msg {
			m := base(t, rec)
			if !wsSubStatusSupported("C05:ws-jsonSubProto:no-status-field") {
				m.HasStatus, m.Code, m.StatMsg, m.Cause, m.HasCause = false, 0, "", "", false
			}
			if vt.IsKnown("C05:ws-jsonSubProto:body-escaping") {
				// the body travels after the pipe was applied: with a pipe the
				// packed bytes are binary; without it the body itself
				if len(m.Pipe) > 0 {
					rec.Exclude("C05:ws-jsonSubProto:body-escaping")
					m.Pipe = nil
				}
				m.Body = jsonBodyFix("C05:ws-jsonSubProto:body-escaping")(t, rec, m.Body)
			}
			return m
		},
		cmp:      func(vt.Msg) vt.CompareOpts { return vt.CompareOpts{SkipStatus: !wsSubStatusSupported("C05:ws-jsonSubProto:no-status-field")} },
		perFrame: true,
	}
}

func specWsPB() protoSpec {
	base := genRawLike(methodUTF8, anyText, nil)
	return protoSpec{
		name: "ws-pb",
		fn:   pbSubProto.NewPbSubProtoFunc,
		gen: func(t *rapid.T, rec *vt.Rec) vt.Msg {
			m := base(t, rec)
			if !wsSubStatusSupported("C05:ws-pbSubProto:no-status-field") {
				if m.HasStatus {
					rec.Exclude("C05:ws-pbSubProto:no-status-field")
				}
				m.HasStatus, m.Code, m.StatMsg, m.Cause, m.HasCause = false, 0, "", "", false
			}
			return m
		},
		cmp:      func(vt.Msg) vt.CompareOpts { return vt.CompareOpts{SkipStatus: !wsSubStatusSupported("C05:ws-pbSubProto:no-status-field")} },
		perFrame: true,
	}
}

// wsSubStatusSupported: while the missing status field is a listed known
// finding, the status is excluded from the round-trip comparison (it is
// reported by the C04 check); once it is repaired the field is compared.
func wsSubStatusSupported(key string) bool { return !vt.IsKnown(key) }

var httpReserved = map[string]bool{
	"Content-Type": true, "Content-Length": true, "X-Seq": true, "X-Mtype": true, "Content-Encoding": true,
	"X-Content-Encoding": true, "Host": true, "User-Agent": true, "Accept-Encoding": true,
}

// specHTTP: CALL/REPLY only; the service method is a URL path; metadata maps
// onto HTTP headers (canonical keys, one value per key); codecs are those in
// the content-type table; at most one gzip filter; an error reply carries the
// status as JSON instead of a body.
func specHTTP() protoSpec {
	return protoSpec{
		name: "http",
		fn:   func() erpc.ProtoFunc { return httproto.NewHTTProtoFunc() },
		gen: func(t *rapid.T, rec *vt.Rec) vt.Msg {
			var m vt.Msg
			m.Seq = vt.Seq(t, "seq")
			m.Mtype = rapid.SampledFrom([]byte{erpc.TypeCall, erpc.TypeReply, erpc.TypeAuthCall, erpc.TypeAuthReply}).Draw(t, "mtype")
			isReply := m.Mtype == erpc.TypeReply || m.Mtype == erpc.TypeAuthReply
			if !isReply {
				// a URL path as the HTTP mapper produces it: /seg/seg...
				m.Method = rapid.StringMatching(`(/[a-zA-Z0-9_.-]{1,12}){1,5}`).Draw(t, "method")
			}
			nmeta := rapid.IntRange(0, 4).Draw(t, "nmeta")
			seen := map[string]bool{}
			for i := 0; i < nmeta; i++ {
				k := rapid.StringMatching(`[A-Z][a-z0-9]{0,8}(-[A-Z][a-z0-9]{0,8}){0,2}`).Draw(t, "metak")
				if httpReserved[k] || seen[k] {
					continue
				}
				seen[k] = true
				v := rapid.StringMatching(`[!-~]([ -~]{0,30}[!-~])?`).Draw(t, "metav")
				m.Meta = append(m.Meta, vt.KV{K: k, V: v})
			}
			m.Codec = rapid.SampledFrom([]byte{'j', 'p', 'f', 's', 'x'}).Draw(t, "codec")
			if rapid.IntRange(0, 2).Draw(t, "gz") == 0 {
				m.Pipe = []byte{rapid.SampledFrom(vt.GzipIDs).Draw(t, "gzid")}
			}
			if isReply && rapid.IntRange(0, 2).Draw(t, "errreply") == 0 {
				m.HasStatus = true
				m.Code = vt.StatusCode(t, "code")
				m.StatMsg = vt.ValidUTF8(t, "statmsg", 300)
				m.HasCause = rapid.Bool().Draw(t, "hasCause")
				if m.HasCause {
					m.Cause = vt.ValidUTF8(t, "cause", 300)
				}
				if m.Cause == "" {
					// the JSON status representation cannot distinguish an
					// empty cause from an absent one (documented format)
					m.HasCause = false
				}
				m.Body = nil
			} else {
				m.Body = genBody(t, false)
			}
			return m
		},
		cmp: func(m vt.Msg) vt.CompareOpts {
			isReply := m.Mtype == erpc.TypeReply || m.Mtype == erpc.TypeAuthReply
			// an error reply is carried as application/json, so the codec is
			// not the message's codec; a request carries no status
			return vt.CompareOpts{MetaAsSet: true, SkipMethod: isReply, SkipStatus: !isReply, SkipCodec: isReply && m.HasStatus && m.Code != 0}
		},
	}
}

func nontrivialMsg(m vt.Msg) bool {
	if vt.IsSpecial([]byte(m.Method)) && len(m.Method) > 1 || m.Seq < 0 || m.Seq == 2147483647 || len(m.Pipe) > 0 {
		return true
	}
	if vt.IsBoundaryLen(len(m.Body)) || vt.IsBoundaryLen(len(m.Method)) || vt.IsSpecial(m.Body) {
		return true
	}
	for _, kv := range m.Meta {
		if vt.IsSpecial([]byte(kv.K)) || vt.IsSpecial([]byte(kv.V)) {
			return true
		}
	}
	return m.HasStatus && (vt.IsSpecial([]byte(m.StatMsg)) || vt.IsSpecial([]byte(m.Cause)))
}

func classesOf(m vt.Msg) []string {
	cls := []string{"mtype=" + strconv.Itoa(int(m.Mtype))}
	if len(m.Pipe) > 0 {
		cls = append(cls, "pipe")
	}
	if len(m.Pipe) > 4 {
		cls = append(cls, "longpipe")
	}
	if m.HasStatus && m.Code != 0 {
		cls = append(cls, "status-nonok")
	}
	if len(m.Meta) > 1 {
		cls = append(cls, "meta>=2")
	}
	if len(m.Body) > 1024 {
		cls = append(cls, "body>1KiB")
	}
	if len(m.Body) >= 65535 {
		cls = append(cls, "body>=64KiB")
	}
	if vt.IsSpecial(m.Body) {
		cls = append(cls, "body-special")
	}
	if m.Seq < 0 {
		cls = append(cls, "seq<0")
	}
	return cls
}

// packOne packs m on proto (whose writer is rw) and returns the frame bytes.
func packOne(proto erpc.Proto, rw *vt.RW, m vt.Msg) (frame []byte, size uint32, err error) {
	before := len(rw.Writes)
	msg := m.Build()
	if err = proto.Pack(msg); err != nil {
		return nil, 0, err
	}
	if n := len(rw.Writes) - before; n != 1 {
		return nil, 0, fmt.Errorf("one frame must be written with exactly one Write, saw %d", n)
	}
	return rw.Writes[len(rw.Writes)-1], msg.Size(), nil
}

func checkRoundTrip(t *rapid.T, spec protoSpec, rec *vt.Rec) {
	vt.Init()
	m := spec.gen(t, rec)
	rec.Case(m.Canon(), nontrivialMsg(m), classesOf(m)...)
	if rec.WantSample() && nontrivialMsg(m) {
		rec.Sample(map[string]interface{}{"proto": spec.name, "msg": m.Sample()})
	}
	wrw := &vt.RW{}
	frame, psize, err := packOne(spec.fn()(wrw), wrw, m)
	if err != nil {
		t.Fatalf("%s: Pack of a message inside the documented set failed: %v\nmsg=%v", spec.name, err, m.Sample())
	}
	chunks, cycle := vt.Chunks(t, "chunks")
	rrw := &vt.RW{In: frame, Chunks: chunks, Cycle: cycle}
	got := vt.NewReceiver()
	var uerr error
	func() {
		defer func() {
			if p := recover(); p != nil {
				uerr = fmt.Errorf("panic: %v", p)
			}
		}()
		uerr = spec.fn()(rrw).Unpack(got)
	}()
	if uerr != nil {
		t.Fatalf("%s: Unpack(Pack(m)) failed: %v\nmsg=%v", spec.name, uerr, m.Sample())
	}
	if d := m.Compare(got, spec.cmp(m)); d != "" {
		t.Fatalf("%s: round trip differs: %s\nmsg=%v", spec.name, d, m.Sample())
	}
	if rrw.Consumed() != len(frame) {
		t.Fatalf("%s: Unpack consumed %d of %d frame bytes", spec.name, rrw.Consumed(), len(frame))
	}
	_ = psize
}

func checkStream(t *rapid.T, spec protoSpec, rec *vt.Rec) {
	vt.Init()
	k := rapid.IntRange(1, 6).Draw(t, "frames")
	msgs := make([]vt.Msg, k)
	for i := range msgs {
		msgs[i] = spec.gen(t, rec)
	}
	chunks, cycle := vt.Chunks(t, "chunks")
	small := len(chunks) > 0 && cycle
	canon := ""
	for _, m := range msgs {
		canon += m.Canon() + "#"
	}
	rec.Case(canon+fmt.Sprint(chunks, cycle), k >= 2 && small, fmt.Sprintf("frames=%d", k), fmt.Sprintf("smallchunks=%v", small))
	if rec.WantSample() && k >= 2 && small {
		ss := []interface{}{}
		for _, m := range msgs {
			ss = append(ss, m.Sample())
		}
		rec.Sample(map[string]interface{}{"proto": spec.name, "stream": ss, "chunks": chunks, "cycle": cycle})
	}

	// pack all frames through ONE protocol instance (shared writer)
	wrw := &vt.RW{}
	wp := spec.fn()(wrw)
	frames := make([][]byte, k)
	psizes := make([]uint32, k)
	for i, m := range msgs {
		f, sz, err := packOne(wp, wrw, m)
		if err != nil {
			t.Fatalf("%s: Pack #%d failed: %v", spec.name, i, err)
		}
		frames[i], psizes[i] = f, sz
		// size independence on the packing side: a fresh instance reports the same size
		frw := &vt.RW{}
		_, fsz, err := packOne(spec.fn()(frw), frw, m)
		if err != nil {
			t.Fatalf("%s: Pack #%d on a fresh instance failed: %v", spec.name, i, err)
		}
		if fsz != sz {
			t.Fatalf("%s: size of packed message #%d depends on preceding traffic: %d after %d frames, %d on a fresh protocol instance", spec.name, i, sz, i, fsz)
		}
	}
	stream := bytes.Join(frames, nil)
	if spec.perFrame {
		return
	}
	rrw := &vt.RW{In: stream, Chunks: chunks, Cycle: cycle}
	rp := spec.fn()(rrw)
	consumed := 0
	for i, m := range msgs {
		got := vt.NewReceiver()
		var uerr error
		func() {
			defer func() {
				if p := recover(); p != nil {
					uerr = fmt.Errorf("panic: %v", p)
				}
			}()
			uerr = rp.Unpack(got)
		}()
		if uerr != nil {
			t.Fatalf("%s: frame #%d of %d in a chunked stream failed to decode: %v", spec.name, i, k, uerr)
		}
		if d := m.Compare(got, spec.cmp(m)); d != "" {
			t.Fatalf("%s: frame #%d of %d in a chunked stream differs: %s", spec.name, i, k, d)
		}
		consumed += len(frames[i])
		if rrw.Consumed() != consumed {
			t.Fatalf("%s: after frame #%d the reader consumed %d bytes, frames so far are %d bytes (lost frame sync)", spec.name, i, rrw.Consumed(), consumed)
		}
		// size independence on the reading side
		arw := &vt.RW{In: frames[i]}
		alone := vt.NewReceiver()
		if err := spec.fn()(arw).Unpack(alone); err != nil {
			t.Fatalf("%s: frame #%d alone failed to decode: %v", spec.name, i, err)
		}
		if alone.Size() != got.Size() {
			t.Fatalf("%s: reported size of frame #%d depends on preceding traffic: %d in the stream, %d decoded alone", spec.name, i, got.Size(), alone.Size())
		}
	}
	// the stream is exhausted: the next Unpack must report an error, not a message
	extra := vt.NewReceiver()
	var uerr error
	func() {
		defer func() {
			if p := recover(); p != nil {
				uerr = fmt.Errorf("panic: %v", p)
			}
		}()
		uerr = rp.Unpack(extra)
	}()
	if uerr == nil {
		t.Fatalf("%s: Unpack on an exhausted stream returned a message", spec.name)
	}
}

const ruleMsg = "one message per case drawn from the protocol's documented field set (see DESIGN.md C05 table); non-trivial = a text field with a byte outside [A-Za-z0-9], a boundary length, a negative/extreme seq or a non-empty filter pipe; distinct by canonical encoding of all fields"
const ruleStream = "1-6 back-to-back frames packed through one protocol instance, decoded from the concatenated stream under a generated read-chunk schedule; non-trivial = >=2 frames and a cycling small-chunk schedule"

func runSpec(t *testing.T, spec protoSpec) {
	t.Run("msg", func(t *testing.T) {
		rec := vt.NewRec(t, "C05", spec.name+"/msg", ruleMsg)
		rapid.Check(t, func(rt *rapid.T) { checkRoundTrip(rt, spec, rec) })
	})
	t.Run("stream", func(t *testing.T) {
		rec := vt.NewRec(t, "C05", spec.name+"/stream", ruleStream)
		rapid.Check(t, func(rt *rapid.T) { checkStream(rt, spec, rec) })
	})
}

func TestC05Raw(t *testing.T)    { runSpec(t, specRaw()) }
func TestC05JSON(t *testing.T)   { runSpec(t, specJSON()) }
func TestC05PB(t *testing.T)     { runSpec(t, specPB()) }
func TestC05HTTP(t *testing.T)   { runSpec(t, specHTTP()) }
func TestC05WsJSON(t *testing.T) { runSpec(t, specWsJSON()) }
func TestC05WsPB(t *testing.T)   { runSpec(t, specWsPB()) }

// TestC05KnownProbes re-checks every listed known finding of C05 with a
// deterministic reproduction and reports the ones that still reproduce.
func TestC05KnownProbes(t *testing.T) {
	rec := vt.NewRec(t, "C05", "known-probes", "deterministic reproductions of listed known findings")
	vt.Init()
	if key := "C05:ws-pbSubProto:no-status-field"; vt.IsKnown(key) {
		m := vt.Msg{Seq: 7, Mtype: erpc.TypeReply, HasStatus: true, Code: 404, StatMsg: "Not Found"}
		wrw := &vt.RW{}
		frame, _, err := packOne(pbSubProto.NewPbSubProtoFunc()(wrw), wrw, m)
		if err != nil {
			t.Fatalf("probe: %v", err)
		}
		got := vt.NewReceiver()
		if err := pbSubProto.NewPbSubProtoFunc()(&vt.RW{In: frame}).Unpack(got); err != nil {
			t.Fatalf("probe: %v", err)
		}
		if got.Status().Code() != 404 {
			rec.KnownFinding(key, "ws pbSubProto: a REPLY packed with status 404 unpacks with status code "+strconv.Itoa(int(got.Status().Code())))
		}
	}
}
