package wire

import (
	"strconv"
	"testing"
	"unicode/utf8"

	erpc "github.com/henrylee2cn/erpc/v6"
	"github.com/henrylee2cn/erpc/v6/mixer/websocket/jsonSubProto"
	"github.com/henrylee2cn/erpc/v6/mixer/websocket/pbSubProto"
	"github.com/henrylee2cn/erpc/v6/proto/httproto"
	"github.com/henrylee2cn/erpc/v6/proto/jsonproto"
	"github.com/henrylee2cn/erpc/v6/proto/pbproto"
	"github.com/henrylee2cn/erpc/v6/socket"
	"pgregory.net/rapid"

	"verifharness/vt"
)

func specRaw() vt.ProtoSpec {
	return vt.ProtoSpec{
		Name:         "raw",
		SizePrefixed: true,
		Fn:           func() erpc.ProtoFunc { return socket.RawProtoFunc },
		Gen:          vt.GenRawLike(vt.MethodAnyBytes, vt.AnyText, nil),
		Cmp:          func(vt.Msg) vt.CompareOpts { return vt.CompareOpts{} },
	}
}

// jsonBodyFix steers bodies away from the known finding "JSON protocols only
// escape the double quote in the body" when that finding is listed as known.
func jsonBodyFix(key string) func(t *rapid.T, rec *vt.Rec, b []byte) []byte {
	return func(t *rapid.T, rec *vt.Rec, b []byte) []byte {
		if !vt.IsKnown(key) {
			return b
		}
		if jsonBodyNeedsEscaping(b) {
			rec.Exclude(key)
			out := make([]byte, 0, len(b))
			for _, c := range b {
				if c == '\\' || c < 0x20 {
					c = 'x'
				}
				out = append(out, c)
			}
			return out
		}
		return b
	}
}

func jsonBodyNeedsEscaping(b []byte) bool {
	for _, c := range b {
		if c == '\\' || c < 0x20 {
			return true
		}
	}
	return !utf8.Valid(b)
}

func specJSON() vt.ProtoSpec {
	return vt.ProtoSpec{
		Name:         "json",
		SizePrefixed: true,
		Fn:           jsonproto.NewJSONProtoFunc,
		Gen:          vt.GenRawLike(vt.MethodPrintable, vt.AnyText, jsonBodyFix("C05:jsonproto:body-escaping")),
		Cmp:          func(vt.Msg) vt.CompareOpts { return vt.CompareOpts{} },
	}
}

func specPB() vt.ProtoSpec {
	return vt.ProtoSpec{
		Name:         "pb",
		SizePrefixed: true,
		Fn:           pbproto.NewPbProtoFunc,
		Gen:          vt.GenRawLike(vt.MethodUTF8, vt.AnyText, nil),
		Cmp:          func(vt.Msg) vt.CompareOpts { return vt.CompareOpts{} },
	}
}

// The websocket sub-protocol frames have no status field in the shipped
// format (see C04); the round-trip check covers every other field.
func specWsJSON() vt.ProtoSpec {
	base := vt.GenRawLike(vt.MethodPrintable, vt.AnyText, nil)
	return vt.ProtoSpec{
		Name: "ws-json",
		Fn:   jsonSubProto.NewJSONSubProtoFunc,
		Gen: func(t *rapid.T, rec *vt.Rec) vt.Msg {
			m := base(t, rec)
			if !wsSubStatusSupported("C05:ws-jsonSubProto:no-status-field") {
				m.HasStatus, m.Code, m.StatMsg, m.Cause, m.HasCause = false, 0, "", "", false
			}
			if vt.IsKnown("C05:ws-jsonSubProto:body-escaping") {
				// the body travels after the pipe was applied: with a pipe the
				// packed bytes are binary; without it the body itself
				if len(m.Pipe) > 0 {
					rec.Exclude("C05:ws-jsonSubProto:body-escaping")
					m.Pipe = nil
				}
				m.Body = jsonBodyFix("C05:ws-jsonSubProto:body-escaping")(t, rec, m.Body)
			}
			return m
		},
		Cmp: func(vt.Msg) vt.CompareOpts {
			return vt.CompareOpts{SkipStatus: !wsSubStatusSupported("C05:ws-jsonSubProto:no-status-field")}
		},
		PerFrame: true,
	}
}

func specWsPB() vt.ProtoSpec {
	base := vt.GenRawLike(vt.MethodUTF8, vt.AnyText, nil)
	return vt.ProtoSpec{
		Name: "ws-pb",
		Fn:   pbSubProto.NewPbSubProtoFunc,
		Gen: func(t *rapid.T, rec *vt.Rec) vt.Msg {
			m := base(t, rec)
			if !wsSubStatusSupported("C05:ws-pbSubProto:no-status-field") {
				if m.HasStatus {
					rec.Exclude("C05:ws-pbSubProto:no-status-field")
				}
				m.HasStatus, m.Code, m.StatMsg, m.Cause, m.HasCause = false, 0, "", "", false
			}
			return m
		},
		Cmp: func(vt.Msg) vt.CompareOpts {
			return vt.CompareOpts{SkipStatus: !wsSubStatusSupported("C05:ws-pbSubProto:no-status-field")}
		},
		PerFrame: true,
	}
}

// wsSubStatusSupported: while the missing status field is a listed known
// finding, the status is excluded from the round-trip comparison (it is
// reported by the C04 check); once it is repaired the field is compared.
func wsSubStatusSupported(key string) bool { return !vt.IsKnown(key) }

var httpReserved = map[string]bool{
	"Content-Type": true, "Content-Length": true, "X-Seq": true, "X-Mtype": true, "Content-Encoding": true,
	"X-Content-Encoding": true, "Host": true, "User-Agent": true, "Accept-Encoding": true,
}

// specHTTP: CALL/REPLY only; the service method is a URL path; metadata maps
// onto HTTP headers (canonical keys, one value per key); codecs are those in
// the content-type table; at most one gzip filter; an error reply carries the
// status as JSON instead of a body.
func specHTTP() vt.ProtoSpec {
	return vt.ProtoSpec{
		Name: "http",
		Fn:   func() erpc.ProtoFunc { return httproto.NewHTTProtoFunc() },
		Gen: func(t *rapid.T, rec *vt.Rec) vt.Msg {
			var m vt.Msg
			m.Seq = vt.Seq(t, "seq")
			m.Mtype = rapid.SampledFrom([]byte{erpc.TypeCall, erpc.TypeReply, erpc.TypeAuthCall, erpc.TypeAuthReply}).Draw(t, "mtype")
			isReply := m.Mtype == erpc.TypeReply || m.Mtype == erpc.TypeAuthReply
			if !isReply {
				// a URL path as the HTTP mapper produces it: /seg/seg...
				m.Method = rapid.StringMatching(`(/[a-zA-Z0-9_.-]{1,12}){1,5}`).Draw(t, "method")
			}
			nmeta := rapid.IntRange(0, 4).Draw(t, "nmeta")
			seen := map[string]bool{}
			for i := 0; i < nmeta; i++ {
				k := rapid.StringMatching(`[A-Z][a-z0-9]{0,8}(-[A-Z][a-z0-9]{0,8}){0,2}`).Draw(t, "metak")
				if httpReserved[k] || seen[k] {
					continue
				}
				seen[k] = true
				v := rapid.StringMatching(`[!-~]([ -~]{0,30}[!-~])?`).Draw(t, "metav")
				m.Meta = append(m.Meta, vt.KV{K: k, V: v})
			}
			m.Codec = rapid.SampledFrom([]byte{'j', 'p', 'f', 's', 'x'}).Draw(t, "codec")
			if rapid.IntRange(0, 2).Draw(t, "gz") == 0 {
				m.Pipe = []byte{rapid.SampledFrom(vt.GzipIDs).Draw(t, "gzid")}
			}
			if isReply && rapid.IntRange(0, 2).Draw(t, "errreply") == 0 {
				m.HasStatus = true
				m.Code = vt.StatusCode(t, "code")
				m.StatMsg = vt.ValidUTF8(t, "statmsg", 300)
				m.HasCause = rapid.Bool().Draw(t, "hasCause")
				if m.HasCause {
					m.Cause = vt.ValidUTF8(t, "cause", 300)
				}
				if m.Cause == "" {
					// the JSON status representation cannot distinguish an
					// empty cause from an absent one (documented format)
					m.HasCause = false
				}
				m.Body = nil
			} else {
				m.Body = vt.GenBody(t, false)
			}
			return m
		},
		Cmp: func(m vt.Msg) vt.CompareOpts {
			isReply := m.Mtype == erpc.TypeReply || m.Mtype == erpc.TypeAuthReply
			// an error reply is carried as application/json, so the codec is
			// not the message's codec; a request carries no status
			return vt.CompareOpts{MetaAsSet: true, SkipMethod: isReply, SkipStatus: !isReply, SkipCodec: isReply && m.HasStatus && m.Code != 0}
		},
		// an error reply carries the status document instead of a body of its own
		NoTypedBody: func(m vt.Msg) bool { return m.HasStatus },
	}
}

func TestC05Raw(t *testing.T)    { vt.RunSpec(t, specRaw()) }
func TestC05JSON(t *testing.T)   { vt.RunSpec(t, specJSON()) }
func TestC05PB(t *testing.T)     { vt.RunSpec(t, specPB()) }
func TestC05HTTP(t *testing.T)   { vt.RunSpec(t, specHTTP()) }
func TestC05WsJSON(t *testing.T) { vt.RunSpec(t, specWsJSON()) }
func TestC05WsPB(t *testing.T)   { vt.RunSpec(t, specWsPB()) }

// TestC05KnownProbes re-checks every listed known finding of C05 with a
// deterministic reproduction and reports the ones that still reproduce.
func TestC05KnownProbes(t *testing.T) {
	rec := vt.NewRec(t, "C05", "known-probes", "deterministic reproductions of listed known findings")
	vt.Init()
	if key := "C05:ws-pbSubProto:no-status-field"; vt.IsKnown(key) {
		m := vt.Msg{Seq: 7, Mtype: erpc.TypeReply, HasStatus: true, Code: 404, StatMsg: "Not Found"}
		wrw := &vt.RW{}
		frame, _, err := vt.PackOne(specWsPB(), pbSubProto.NewPbSubProtoFunc()(wrw), wrw, m)
		if err != nil {
			t.Fatalf("probe: %v", err)
		}
		got := vt.NewReceiver()
		if err := pbSubProto.NewPbSubProtoFunc()(&vt.RW{In: frame}).Unpack(got); err != nil {
			t.Fatalf("probe: %v", err)
		}
		if got.Status().Code() != 404 {
			rec.KnownFinding(key, "ws pbSubProto: a REPLY packed with status 404 unpacks with status code "+strconv.Itoa(int(got.Status().Code())))
		}
	}
}
