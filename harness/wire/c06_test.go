package wire

import (
	"bytes"
	"fmt"
	"strings"
	"testing"

	"pgregory.net/rapid"

	"verifharness/vt"
)

func TestC06RawUnpack(t *testing.T)  { vt.RunHostileProto(t, specRaw()) }
func TestC06JSONUnpack(t *testing.T) { vt.RunHostileProto(t, specJSON()) }
func TestC06PBUnpack(t *testing.T)   { vt.RunHostileProto(t, specPB()) }
func TestC06HTTPUnpack(t *testing.T) { vt.RunHostileProto(t, specHTTP()) }

// TestC06HTTPAnnounce: the HTTP protocol announces sizes in text: a
// Content-Length above the read limit, or a header line that never ends.
func TestC06HTTPAnnounce(t *testing.T) {
	rec := vt.NewRec(t, "C06", "http/announce", "HTTP-style frames whose Content-Length announces more than the read limit (limit+1 .. 2^28) with a short body, header / request lines longer than the read limit, floods of unknown headers and of repeated headers the protocol interprets itself (X-Seq, X-Mtype, Content-Type, Content-Length, X-Content-Encoding); oracle: allocation around the Unpack <= 16*limit + 16*len(input) + 24 MiB, an error is returned, no more than 2*limit + 256 bytes of an over-limit header block are consumed, and for an over-limit Content-Length nothing after the header block is consumed; every case non-trivial; distinct by input")
	spec := specHTTP()
	rapid.Check(t, func(rt *rapid.T) {
		vt.Init()
		limit := rapid.SampledFrom(vt.HostileLimits).Draw(rt, "limit")
		kind := rapid.SampledFrom([]string{"content-length", "long-line", "many-headers", "repeated-known-header"}).Draw(rt, "kind")
		first := rapid.SampledFrom([]string{"POST /a/b HTTP/1.1\r\n", "HTTP/1.1 200 OK\r\n", "HTTP/1.1 299 Business Error\r\n"}).Draw(rt, "first")
		var in []byte
		switch kind {
		case "content-length":
			n := rapid.SampledFrom([]uint32{limit + 1, limit * 4, 1 << 26, 1 << 28}).Draw(rt, "cl")
			in = []byte(fmt.Sprintf("%sX-Seq: 1\r\nContent-Type: application/json\r\nContent-Length: %d\r\n\r\n%s", first, n, strings.Repeat("x", rapid.IntRange(0, 50).Draw(rt, "tail"))))
		case "long-line":
			n := int(limit)*rapid.IntRange(2, 6).Draw(rt, "mult") + 7
			if n > 1<<20 {
				n = 1 << 20
			}
			in = []byte(first + "X-Long: " + strings.Repeat("h", n))
		case "repeated-known-header":
			// a header the protocol itself interprets, repeated until the header block exceeds the limit
			line := rapid.SampledFrom([]string{"X-Seq: 7\r\n", "X-Mtype: 1\r\n", "Content-Type: application/json\r\n", "Content-Length: 3\r\n", "X-Content-Encoding: gzip-5\r\n"}).Draw(rt, "knownline")
			n := (int(limit)*8)/len(line) + 40
			var b bytes.Buffer
			b.WriteString(first)
			for i := 0; i < n; i++ {
				b.WriteString(line)
			}
			in = b.Bytes()
		default:
			n := (int(limit)*8)/20 + 40
			var b bytes.Buffer
			b.WriteString(first)
			for i := 0; i < n; i++ {
				fmt.Fprintf(&b, "X-H%d: %s\r\n", i, strings.Repeat("v", 12))
			}
			in = b.Bytes()
		}
		rec.Case(fmt.Sprintf("%d|%x", limit, in), true, "kind="+kind, fmt.Sprintf("limit=%d", limit))
		if rec.WantSample() {
			rec.Sample(map[string]interface{}{"limit": limit, "kind": kind, "input_len": len(in), "input_head": vt.Trunc(string(in))})
		}
		_, err, consumed, alloc, _ := vt.UnpackMeasured(spec, in, limit)
		if b := vt.AllocBound(limit, len(in)); alloc > b {
			rt.Fatalf("http: one Unpack under read limit %d allocated %d bytes (bound %d); input (%s) %s", limit, alloc, b, kind, vt.Trunc(string(in)))
		}
		if err == nil {
			rt.Fatalf("http: a message exceeding the read limit %d (%s) was accepted", limit, kind)
		}
		if kind != "content-length" {
			// a header block that exceeds the read limit must be refused once the limit is
			// passed: the receiver must not keep consuming what belongs to one message
			if slack := 2*int(limit) + len(first) + 256; consumed > slack { // line terminators are consumed but not buffered
				rt.Fatalf("http: under read limit %d the receiver consumed %d bytes of one message's header block (%s) before giving up", limit, consumed, kind)
			}
		}
		if kind == "content-length" {
			if hdrEnd := bytes.Index(in, []byte("\r\n\r\n")) + 4; consumed > hdrEnd {
				rt.Fatalf("http: Content-Length above the read limit %d but %d bytes after the header block were consumed", limit, consumed-hdrEnd)
			}
		}
	})
}

func TestC06TruncationSweep(t *testing.T) {
	for _, spec := range []vt.ProtoSpec{specRaw(), specJSON(), specPB(), specHTTP()} {
		spec := spec
		t.Run(spec.Name, func(t *testing.T) { vt.RunTruncationSweep(t, spec) })
	}
}
