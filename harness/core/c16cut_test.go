package core

// C16, first frames that are complete as far as their length prefix says but stop early: a
// valid AUTH_CALL (or CALL) frame is rebuilt so that it ends at a generated point - at every
// field boundary of the protocol's layout and at arbitrary byte offsets - with the announced
// frame length made consistent with what is left. Such a frame never leaves the reader waiting
// for more bytes (unlike "half a frame then close" of TestC16Auth), so whether it is refused
// depends on the protocol's parsing alone.
//
// What each shortening is, is decided by parsers of the three layouts that live in this file:
//
//	raw   {4 size}{1 xfer len}{1 seq len}{seq}{1 type}{1 method len}{method}{2 status len}{status}
//	      {2 meta len}{meta}{1 body codec}{body}     (socket/protocol.go documents every field as present)
//	      cut before or inside any header field, or right after the meta field (no body codec
//	      byte): malformed, must be refused. Cut after the codec byte or inside the body: a
//	      well-formed AUTH_CALL with a shorter (possibly empty) body.
//	pb    {4 size}{1 xfer len}{protobuf Payload}: a cut inside a protobuf field is malformed; a cut
//	      between fields is a well-formed Payload whose later fields have their defaults - an
//	      AUTH_CALL iff the mtype field is still there, otherwise type 0, which is not an AUTH_CALL.
//	json  {4 size}{1 xfer len}{JSON text}: the protocol reads fields out of the text without
//	      validating it (it documents frames with absent fields), so a cut behind the mtype value
//	      is left open: only the invariants that hold either way are asserted. A cut before the
//	      mtype value is complete has no AUTH_CALL type in any reading and must be refused.

import (
	"bytes"
	"encoding/binary"
	"fmt"
	"strings"
	"sync/atomic"
	"testing"
	"time"

	erpc "github.com/henrylee2cn/erpc/v6"
	"github.com/henrylee2cn/erpc/v6/plugin/auth"
	"pgregory.net/rapid"

	"verifharness/vt"
)

type c16CutCase struct {
	Proto    string
	Base     string // authgood | authbad | call : the valid frame that is shortened
	Method   string // service method of the AUTH_CALL frame (the exchange ignores it)
	Meta     []vt.KV
	CutKind  string // boundary | offset | sizeonly | full
	Boundary string // for boundary: which one
	Cut      int    // payload bytes kept (payload = what follows the xfer-pipe length byte)
	Verdict  string // bycreds | retry | accept-any | accept-noinfo | reject-after-setid | panic
	Pipeline int
	Pushes   int
	OneWrite bool
	Chunks   []int
	Cycle    bool
	// how the serving peer was built and which of its routes the client names (c16Hist)
	Hist   phHistory
	CallAt int
	PushAt int
	// derived
	Class string // wellformed | mustreject | lenient
	Body  string // body of a well-formed shortening
}

type c16Bound struct {
	name string
	off  int
}

// rawBounds walks the payload of a raw-protocol frame.
func rawBounds(p []byte) (bs []c16Bound, codecOff int, ok bool) {
	pos := 0
	need := func(n int) bool { return pos+n <= len(p) }
	if !need(1) || !need(1+int(p[pos])) {
		return nil, 0, false
	}
	bs = append(bs, c16Bound{"in-seq", pos + 1})
	pos += 1 + int(p[pos])
	bs = append(bs, c16Bound{"after-seq", pos})
	if !need(1) {
		return nil, 0, false
	}
	pos++
	bs = append(bs, c16Bound{"after-mtype", pos})
	if !need(1) || !need(1+int(p[pos])) {
		return nil, 0, false
	}
	pos += 1 + int(p[pos])
	bs = append(bs, c16Bound{"after-method", pos})
	for _, name := range []string{"after-status", "after-meta"} {
		if !need(2) {
			return nil, 0, false
		}
		n := int(binary.BigEndian.Uint16(p[pos:]))
		bs = append(bs, c16Bound{"in-" + name[6:] + "-len", pos + 1})
		if !need(2 + n) {
			return nil, 0, false
		}
		pos += 2 + n
		bs = append(bs, c16Bound{name, pos})
	}
	codecOff = pos
	if !need(1) {
		return nil, 0, false
	}
	bs = append(bs, c16Bound{"after-codec", pos + 1})
	return bs, codecOff, true
}

// pbBounds walks a protobuf Payload and returns the offset behind every field.
func pbBounds(p []byte) (bs []c16Bound, ok bool) {
	names := map[uint64]string{1: "after-seq", 2: "after-mtype", 3: "after-method", 4: "after-status", 5: "after-meta", 6: "after-codec", 7: "after-body"}
	pos := 0
	for pos < len(p) {
		tag, n := binary.Uvarint(p[pos:])
		if n <= 0 {
			return bs, false
		}
		pos += n
		switch tag & 7 {
		case 0:
			_, n := binary.Uvarint(p[pos:])
			if n <= 0 {
				return bs, false
			}
			pos += n
		case 2:
			l, n := binary.Uvarint(p[pos:])
			if n <= 0 || l > uint64(len(p)-pos-n) {
				return bs, false
			}
			pos += n + int(l)
		default:
			return bs, false
		}
		name, known := names[tag>>3]
		if !known {
			return bs, false
		}
		bs = append(bs, c16Bound{name, pos})
	}
	return bs, true
}

// pbField returns the bytes / varint of a field of a well-formed Payload prefix.
func pbField(p []byte, field uint64) (val []byte, varint uint64, present bool) {
	pos := 0
	for pos < len(p) {
		tag, n := binary.Uvarint(p[pos:])
		pos += n
		switch tag & 7 {
		case 0:
			v, n := binary.Uvarint(p[pos:])
			pos += n
			if tag>>3 == field {
				return nil, v, true
			}
		case 2:
			l, n := binary.Uvarint(p[pos:])
			pos += n
			if tag>>3 == field {
				return p[pos : pos+int(l)], 0, true
			}
			pos += int(l)
		}
	}
	return nil, 0, false
}

// jsonBounds finds the field boundaries of the JSON protocol's text (the separators cannot
// occur inside its quoted values, where quotes are escaped).
func jsonBounds(p []byte) (bs []c16Bound, mtypeEnd int, ok bool) {
	seps := []struct{ sep, name string }{
		{`,"mtype":`, "after-seq"}, {`,"serviceMethod":`, "after-mtype"}, {`,"status":`, "after-method"},
		{`,"meta":`, "after-status"}, {`,"bodyCodec":`, "after-meta"}, {`,"body":"`, "after-codec"},
	}
	from := 0
	for _, s := range seps {
		i := bytes.Index(p[from:], []byte(s.sep))
		if i < 0 {
			return nil, 0, false
		}
		bs = append(bs, c16Bound{s.name, from + i})
		if s.name == "after-mtype" {
			mtypeEnd = from + i
		}
		from += i + len(s.sep)
	}
	bs = append(bs, c16Bound{"before-body-text", from})
	return bs, mtypeEnd, true
}

const c16PrefixLen = 5 // {4 size}{1 xfer-pipe length = 0}

// c16Bounds returns the boundaries of a valid frame's payload.
func c16Bounds(proto string, payload []byte) ([]c16Bound, bool) {
	switch proto {
	case "raw":
		bs, _, ok := rawBounds(payload)
		return bs, ok
	case "pb":
		return pbBounds(payload)
	default:
		bs, _, ok := jsonBounds(payload)
		return bs, ok
	}
}

// c16Classify says what the first cut bytes of a valid frame's payload are.
func c16Classify(proto, base string, payload []byte, cut int) (class, body string) {
	if cut >= len(payload) {
		class = "wellformed"
		switch proto {
		case "raw":
			_, codecOff, _ := rawBounds(payload)
			body = string(payload[codecOff+1:])
		case "pb":
			b, _, _ := pbField(payload, 7)
			body = string(b)
		default:
			body = "?" // the full frame: the body is what was packed (set by the caller)
		}
	} else {
		switch proto {
		case "raw":
			_, codecOff, _ := rawBounds(payload)
			if cut <= codecOff {
				class = "mustreject"
			} else {
				class, body = "wellformed", string(payload[codecOff+1:cut])
			}
		case "pb":
			if _, ok := pbBounds(payload[:cut]); !ok {
				class = "mustreject" // ends inside a field
			} else if _, mt, present := pbField(payload[:cut], 2); !present || mt != uint64(erpc.TypeAuthCall) {
				class = "mustreject" // no AUTH_CALL type in it
			} else {
				b, _, _ := pbField(payload[:cut], 7)
				class, body = "wellformed", string(b)
			}
		default:
			_, mtypeEnd, _ := jsonBounds(payload)
			if cut < mtypeEnd {
				class = "mustreject"
			} else {
				class = "lenient"
			}
		}
	}
	if base == "call" && class != "mustreject" {
		// a CALL is not an AUTH_CALL in any reading of any shortening
		class, body = "mustreject", ""
	}
	return class, body
}

func c16Reframe(proto string, payload []byte) []byte {
	size := uint32(1 + len(payload))
	if proto == "raw" {
		size += 4 // the raw protocol counts the size field itself
	}
	out := make([]byte, 4, c16PrefixLen+len(payload))
	binary.BigEndian.PutUint32(out, size)
	out = append(out, 0)
	return append(out, payload...)
}

const (
	c16Good = "good-credentials"
	c16Bad  = "wrong-credentials"
)

// c16Frames packs the frames of a case: the shortened first frame and what is pipelined behind it.
type c16Packed struct {
	first    []byte
	calls    [][]byte
	pushes   [][]byte
	sizeOnly bool
}

func c16Pack(c *c16CutCase, proto vt.NamedProto, callRoute, pushRoute string) (c16Packed, string) {
	pack := func(m vt.Msg) []byte {
		wrw := &vt.RW{}
		if err := proto.Fn(wrw).Pack(m.Build()); err != nil {
			panic(err)
		}
		return wrw.Written()
	}
	var out c16Packed
	var valid []byte
	fullBody := ""
	switch c.Base {
	case "authgood":
		fullBody = c16Good
		valid = pack(vt.Msg{Seq: 1, Mtype: erpc.TypeAuthCall, Method: c.Method, Meta: c.Meta, Codec: 's', Body: []byte(fullBody)})
	case "authbad":
		fullBody = c16Bad
		valid = pack(vt.Msg{Seq: 1, Mtype: erpc.TypeAuthCall, Method: c.Method, Meta: c.Meta, Codec: 's', Body: []byte(fullBody)})
	default:
		valid = pack(vt.Msg{Seq: 1, Mtype: erpc.TypeCall, Method: callRoute, Meta: c.Meta, Codec: 'j', Body: []byte(`{"Rid":"first","Act":"ret","Val":"v"}`)})
	}
	if len(valid) < c16PrefixLen || valid[4] != 0 {
		return out, fmt.Sprintf("harness: packed %s frame has no empty transfer pipe: %x", c.Proto, valid)
	}
	payload := valid[c16PrefixLen:]
	if !bytes.Equal(c16Reframe(c.Proto, payload), valid) {
		return out, fmt.Sprintf("harness: the length prefix of a packed %s frame is not what the harness computes: %x", c.Proto, valid)
	}
	bounds, ok := c16Bounds(c.Proto, payload)
	if !ok {
		return out, fmt.Sprintf("harness: the %s layout parser of the harness does not accept a packed frame: %x", c.Proto, valid)
	}
	switch c.CutKind {
	case "full":
		c.Cut = len(payload)
	case "sizeonly":
		// only the length prefix, announcing nothing behind it (raw: the size field itself;
		// json/pb: zero bytes): not even the transfer-pipe length byte is there
		out.sizeOnly = true
	case "boundary":
		// Cut holds an index into the boundaries (drawn before the frame existed)
		b := bounds[c.Cut%len(bounds)]
		c.Boundary, c.Cut = b.name, b.off
	default:
		c.Cut = c.Cut % (len(payload) + 1)
	}
	if out.sizeOnly {
		c.Class, c.Body = "mustreject", ""
		out.first = make([]byte, 4)
		if c.Proto == "raw" {
			binary.BigEndian.PutUint32(out.first, 4)
		}
	} else {
		c.Class, c.Body = c16Classify(c.Proto, c.Base, payload, c.Cut)
		if c.Body == "?" {
			c.Body = fullBody
		}
		out.first = c16Reframe(c.Proto, payload[:c.Cut])
	}
	for i := 0; i < c.Pipeline; i++ {
		out.calls = append(out.calls, pack(vt.Msg{Seq: int32(10 + i), Mtype: erpc.TypeCall, Method: callRoute, Codec: 'j', Body: []byte(fmt.Sprintf(`{"Rid":"c%d","Act":"ret","Val":"v"}`, i))}))
	}
	for i := 0; i < c.Pushes; i++ {
		out.pushes = append(out.pushes, pack(vt.Msg{Seq: int32(50 + i), Mtype: erpc.TypePush, Method: pushRoute, Codec: 'j', Body: []byte(fmt.Sprintf(`{"Rid":"p%d","Act":"ret","Val":"v"}`, i))}))
	}
	return out, ""
}

// c16Verdict is the checker's decision for a well-formed AUTH_CALL with the given body.
func c16Verdict(verdict, body string) bool {
	switch verdict {
	case "bycreds", "retry":
		return body == c16Good
	case "accept-any", "accept-noinfo":
		return true
	}
	return false
}

func runC16Cut(c *c16CutCase, protos []vt.NamedProto) (fails []string, accepted bool) {
	vt.Init()
	lib := newLib()
	proto := protoByName(protos, c.Proto)
	hooks := &msgHookCounter{}
	var checkerRuns int64
	checker := auth.NewCheckerPlugin(func(sess auth.Session, recv auth.RecvOnce) (interface{}, *erpc.Status) {
		atomic.AddInt64(&checkerRuns, 1)
		var info string
		var stat *erpc.Status
		if c.Verdict == "accept-noinfo" {
			// a checker that has no use for the content (the peer's address decides, say)
			stat = recv(nil)
		} else {
			stat = recv(&info)
		}
		if !stat.OK() {
			return nil, stat
		}
		switch c.Verdict {
		case "accept-any", "accept-noinfo":
			// whoever completes the exchange is let in (credentials are only recorded)
			return "welcome", nil
		case "reject-after-setid":
			sess.SetID("claimed-user")
			return nil, erpc.NewStatus(erpc.CodeUnauthorized, "no", "rejected after SetID")
		case "panic":
			panic("checker exploded")
		}
		if info != c16Good && c.Verdict == "retry" {
			if stat := recv(&info); !stat.OK() {
				return nil, stat
			}
		}
		if info != c16Good {
			return nil, erpc.NewStatus(erpc.CodeUnauthorized, erpc.CodeText(erpc.CodeUnauthorized), "bad credentials")
		}
		return "welcome", nil
	}, erpc.WithBodyCodec('s'))
	w := vt.NewWorld()
	defer w.Close()
	srv, callRoute, pushRoute := c16Server(w, c.Hist, c.CallAt, c.PushAt, checker, hooks)
	failf := func(format string, a ...interface{}) { fails = append(fails, fmt.Sprintf(format, a...)) }

	packed, herr := c16Pack(c, proto, callRoute, pushRoute)
	if herr != "" {
		return []string{herr}, false
	}
	pair := vt.NewPair()
	pair.SetChunks(vt.AtoB, c.Chunks, c.Cycle)
	raw := vt.NewRawPeer(pair, pair.A, proto.Fn)
	defer raw.Close()
	chunks := [][]byte{packed.first}
	chunks = append(chunks, packed.calls...)
	chunks = append(chunks, packed.pushes...)
	type res struct {
		s  erpc.Session
		st *erpc.Status
	}
	served := make(chan res, 1)
	go func() { s, st := srv.ServeConn(pair.B, proto.Fn); served <- res{s, st} }()
	if c.OneWrite {
		var all []byte
		for _, ch := range chunks {
			all = append(all, ch...)
		}
		raw.SendBytes(all)
	} else {
		for _, ch := range chunks {
			raw.SendBytes(ch)
		}
	}
	// A frame that is nothing but a length prefix may leave a reader waiting for the byte that
	// every frame has behind the prefix; the client goes away so that the wait ends.
	closeAfter := packed.sizeOnly
	if closeAfter {
		raw.Close()
	}
	var r res
	select {
	case r = <-served:
	case <-time.After(vt.LivenessBound):
		return []string{vt.Hang("return of ServeConn (the authentication exchange)")}, false
	}
	if n := atomic.LoadInt64(&checkerRuns); n != 1 {
		failf("the checker ran %d times for one connection", n)
	}
	accepted = r.s != nil
	what := fmt.Sprintf("%s %s frame cut %s", c.Proto, c.Base, c.CutKind)
	if c.CutKind == "boundary" {
		what += " " + c.Boundary
	}
	what += fmt.Sprintf(" (%d payload bytes left, %s)", c.Cut, c.Class)
	switch c.Class {
	case "mustreject":
		if accepted {
			failf("a connection whose first frame is not a well-formed AUTH_CALL was authenticated (verdict %s): %s; frame %x", c.Verdict, what, packed.first)
		}
	case "wellformed":
		if want := c16Verdict(c.Verdict, c.Body); accepted != want {
			failf("well-formed AUTH_CALL with body %q under verdict %s: authenticated=%v, want %v: %s; frame %x", c.Body, c.Verdict, accepted, want, what, packed.first)
			if !accepted {
				return fails, accepted
			}
		}
	}
	if accepted {
		if !r.st.OK() {
			failf("ServeConn returned a session together with the status %v", r.st)
		}
		// the gate does not merely drop traffic: the auth reply and then exactly one reply per pipelined CALL
		if !raw.WaitFor(func(fr []vt.RawFrame) bool { return len(fr) >= 1+c.Pipeline }) {
			failf("%s", vt.Hang("auth reply and replies to the CALLs pipelined behind the auth frame"))
			return fails, accepted
		}
		vt.WaitUntilFor(3*time.Second, func() bool {
			for i := 0; i < c.Pushes; i++ {
				if lib.Pushes(fmt.Sprintf("p%d", i)) == 0 {
					return false
				}
			}
			return true
		})
		if n := srv.CountSession(); n != 1 {
			failf("%d sessions listed while the only (accepted) connection is open", n)
		}
		r.s.Close()
		raw.WaitEOF()
		if n := srv.CountSession(); n != 0 {
			failf("%d sessions are still listed after the only (accepted) connection was closed", n)
		}
		fr := raw.Frames()
		if len(fr) != 1+c.Pipeline {
			failf("accepted connection: %d frames written by the server, want 1 auth reply + %d replies", len(fr), c.Pipeline)
		}
		if len(fr) > 0 && (fr[0].Mtype != erpc.TypeAuthReply || fr[0].Status.Code != 0 || string(fr[0].Body) != "welcome") {
			failf("first frame is not the OK auth reply: %+v", fr[0])
		}
		for i := 0; i < c.Pipeline; i++ {
			if n := lib.Calls(fmt.Sprintf("c%d", i)); n != 1 {
				failf("CALL %d pipelined behind a successful authentication was handled %d times", i, n)
			}
		}
		if n := lib.Calls("first"); n != 0 {
			failf("the first frame itself was dispatched to a handler %d times", n)
		}
		return fails, accepted
	}
	// not accepted ---------------------------------------------------------------------
	if r.st.OK() {
		failf("ServeConn returned no session but an OK status: %s", what)
	}
	if !closeAfter {
		if !raw.WaitEOF() {
			failf("%s", vt.Hang("EOF at the client of a rejected connection"))
		}
	}
	vt.WaitUntilFor(2*time.Millisecond, func() bool { return lib.TotalCalls() > 0 || hooks.count() > 0 })
	if n := lib.TotalCalls(); n != 0 {
		failf("%d call handler(s) ran on a connection whose authentication did not succeed: %s", n, what)
	}
	lib.mu.Lock()
	np := len(lib.pushes)
	lib.mu.Unlock()
	if np != 0 {
		failf("%d push handler(s) ran on a connection whose authentication did not succeed: %s", np, what)
	}
	if n := hooks.count(); n != 0 {
		failf("%d per-message hook(s) ran on a connection whose authentication did not succeed: %s", n, what)
	}
	if srv.CountSession() != 0 {
		failf("a rejected connection is listed as a session: %s", what)
	}
	if _, ok := srv.GetSession("claimed-user"); ok {
		failf("the id claimed by a rejected connection is listed")
	}
	srv.RangeSession(func(s erpc.Session) bool {
		failf("RangeSession lists session %q after the only connection was rejected", s.ID())
		return true
	})
	for _, f := range raw.Frames() {
		if f.Mtype != erpc.TypeAuthReply {
			failf("a rejected connection received a frame of type %d", f.Mtype)
		} else if f.Status.Code == 0 {
			failf("a rejected connection received an OK AUTH_REPLY: %s", what)
		}
	}
	if len(raw.Frames()) > 1 {
		failf("a rejected connection received %d frames", len(raw.Frames()))
	}
	return fails, accepted
}

func genC16Cut(t *rapid.T, protos []vt.NamedProto) *c16CutCase {
	c := &c16CutCase{Proto: rapid.SampledFrom(protos).Draw(t, "proto").Name}
	c.Base = rapid.SampledFrom([]string{"authgood", "authgood", "authgood", "authbad", "call"}).Draw(t, "base")
	c.Method = rapid.SampledFrom([]string{"", "", "/auth", "/a/b"}).Draw(t, "method")
	for i, n := 0, rapid.IntRange(0, 2).Draw(t, "nmeta"); i < n; i++ {
		c.Meta = append(c.Meta, vt.KV{K: rapid.SampledFrom([]string{"k", "key", "x-id"}).Draw(t, "mk"), V: rapid.SampledFrom([]string{"", "v", "value 1"}).Draw(t, "mv")})
	}
	c.CutKind = rapid.SampledFrom([]string{"boundary", "boundary", "boundary", "boundary", "offset", "offset", "sizeonly", "full"}).Draw(t, "cutkind")
	switch c.CutKind {
	case "boundary":
		c.Cut = rapid.IntRange(0, 62).Draw(t, "boundary")
	case "offset":
		c.Cut = rapid.IntRange(0, 1<<16).Draw(t, "offset")
	}
	c.Verdict = rapid.SampledFrom([]string{"accept-any", "accept-any", "accept-any", "accept-noinfo", "bycreds", "bycreds", "retry", "reject-after-setid", "panic"}).Draw(t, "verdict")
	c.Pipeline = rapid.IntRange(0, 3).Draw(t, "pipeline")
	c.Pushes = rapid.IntRange(0, 2).Draw(t, "pushes")
	c.OneWrite = rapid.Bool().Draw(t, "onewrite")
	c.Chunks, c.Cycle = vt.Chunks(t, "chunks")
	c.Hist, c.CallAt, c.PushAt = c16Hist(t)
	return c
}

const ruleC16Cut = "serving peer (built along a generated installation history as in the checker sub-check: checker given to NewPeer or appended before / after routes, groups and unknown handlers) with auth.NewCheckerPlugin (verdict: by credentials / second receive attempt / accept whoever completes the exchange, with and without an info receiver / reject after SetID / panic) and a counter on every per-message hook; the client's first frame is a valid AUTH_CALL (good or bad credentials, generated method and meta) or CALL frame of the raw, json or protobuf protocol re-built to end at a generated point - at each field boundary (after seq, type, method, status, meta = before the body codec, after the body codec, inside the length fields) or at any byte offset, or consisting of the length prefix alone - with the announced frame length consistent with what is left, followed by 0-3 CALLs and 0-2 PUSHes in the same write or in later writes, under a generated read chunking; the harness' own parsers of the three layouts classify each shortening: malformed or without AUTH_CALL type = must be refused (raw: anything short of the body codec byte; protobuf: a cut inside a field or before the type field; json: a cut before the type value; any shortened CALL), well-formed AUTH_CALL with a shorter body = the checker's verdict on that body decides, json text cut behind the type value = left open (the protocol does not validate the text); oracle: checker runs exactly once; a refused or rejected connection gets no session, no handler and no per-message hook runs, the client gets at most one non-OK AUTH_REPLY then EOF, nothing is listed; an authenticated connection got the OK AUTH_REPLY first and every pipelined CALL is answered exactly once; non-trivial = the frame was shortened; distinct by case"

func TestC16CutFrames(t *testing.T) {
	rec := vt.NewRec(t, "C16", "cutframes", ruleC16Cut)
	protos := vt.StreamProtos()
	rapid.Check(t, func(t *rapid.T) {
		c := genC16Cut(t, protos)
		vt.Journal("C16", c)
		fails, accepted := runC16Cut(c, protos)
		nt := c.CutKind != "full"
		cut := c.CutKind
		if c.CutKind == "boundary" {
			cut += ":" + c.Boundary
		}
		rec.Case(fmt.Sprintf("%+v", *c), nt, "proto="+c.Proto, "base="+c.Base, "cut="+cut, "class="+c.Class, "verdict="+c.Verdict,
			fmt.Sprintf("class=%s/accepted=%v", c.Class, accepted), "proto="+c.Proto+"/class="+c.Class, "checker="+c.Hist.install("auth-checker").How)
		if rec.WantSample() && nt {
			rec.Sample(c)
		}
		if len(fails) > 0 && strings.HasPrefix(fails[0], "harness:") {
			t.Fatalf("%s\ncase: %+v", fails[0], *c)
		}
		if len(fails) > 0 {
			t.Fatalf("C16 violated (%d findings), first: %s\ncase: %+v", len(fails), fails[0], *c)
		}
	})
}
