package core

import (
	"encoding/json"
	"fmt"
	"os"
	"sync"
	"testing"
	"time"

	erpc "github.com/henrylee2cn/erpc/v6"
	"pgregory.net/rapid"

	"verifharness/vt"
)

type c02Call struct {
	Mode   string // call | async | asyncnil
	Result string // lib | int
}

type c02Event struct {
	Kind   string // reply | localclose | remoteclose | cut | garbage | settle
	Call   int    // target call index for reply
	Class  string // valid | error | dup | unknownseq | codec0 | undecodable | truncated
	Offset int    // truncation offset (fraction in 1/16 of the frame)
	Veto   string // reply-path veto stage or ""
}

type c02Case struct {
	Proto   string
	Calls   []c02Call
	Events  []c02Event
	Final   string // cut | remoteclose
	ChanCap int
	Chunks  []int
	Cycle   bool
}

func genC02(t *rapid.T, protos []vt.NamedProto) c02Case {
	c := c02Case{Proto: rapid.SampledFrom(protos).Draw(t, "proto").Name}
	k := rapid.IntRange(1, 5).Draw(t, "calls")
	for i := 0; i < k; i++ {
		c.Calls = append(c.Calls, c02Call{
			Mode:   rapid.SampledFrom([]string{"call", "async", "async", "asyncnil"}).Draw(t, "mode"),
			Result: rapid.SampledFrom([]string{"lib", "lib", "lib", "int"}).Draw(t, "result"),
		})
	}
	n := rapid.IntRange(0, 8).Draw(t, "events")
	for i := 0; i < n; i++ {
		e := c02Event{Kind: rapid.SampledFrom([]string{"reply", "reply", "reply", "reply", "reply", "localclose", "remoteclose", "cut", "garbage", "settle", "settle"}).Draw(t, "kind")}
		if e.Kind == "reply" {
			e.Call = rapid.IntRange(0, k-1).Draw(t, "target")
			e.Class = rapid.SampledFrom([]string{"valid", "valid", "error", "dup", "unknownseq", "codec0", "undecodable", "truncated"}).Draw(t, "class")
			e.Offset = rapid.IntRange(0, 16).Draw(t, "offset")
			if rapid.IntRange(0, 5).Draw(t, "hasveto") == 0 {
				e.Veto = rapid.SampledFrom([]string{"PostReadReplyHeader", "PreReadReplyBody", "PostReadReplyBody"}).Draw(t, "veto")
			}
		}
		c.Events = append(c.Events, e)
	}
	c.Final = rapid.SampledFrom([]string{"cut", "remoteclose"}).Draw(t, "final")
	c.ChanCap = k + rapid.IntRange(0, 3).Draw(t, "chancap")
	c.Chunks, c.Cycle = vt.Chunks(t, "chunks")
	return c
}

type c02Pending struct {
	spec    c02Call
	cmd     erpc.CallCmd
	result  interface{}
	done    chan struct{} // closed when the issuing goroutine (Call mode) returned
	started chan struct{}
}

func runC02(c c02Case, protos []vt.NamedProto) []string {
	vt.Init()
	newLib()
	w := vt.NewWorld()
	defer w.Close()
	cli := w.Peer(erpc.PeerConfig{}, clientVeto{})
	proto := protoByName(protos, c.Proto)
	pair := vt.NewPair()
	pair.SetChunks(vt.BtoA, c.Chunks, c.Cycle)
	sess, stat := cli.ServeConn(pair.A, proto.Fn)
	if !stat.OK() {
		return []string{"ServeConn: " + stat.String()}
	}
	raw := vt.NewRawPeer(pair, pair.B, proto.Fn)
	defer raw.Close()
	var fails []string
	failf := func(format string, a ...interface{}) { fails = append(fails, fmt.Sprintf(format, a...)) }

	shared := make(chan erpc.CallCmd, c.ChanCap)
	pend := make([]*c02Pending, len(c.Calls))
	// issue the calls one after the other so that call i has seq i+1 on the wire
	for i, spec := range c.Calls {
		p := &c02Pending{spec: spec, done: make(chan struct{}), started: make(chan struct{})}
		pend[i] = p
		if spec.Result == "int" {
			p.result = new(int)
		} else {
			p.result = new(LibRes)
		}
		arg := &LibArg{Rid: fmt.Sprintf("c%d", i), Act: "ret", Val: "v"}
		switch spec.Mode {
		case "call":
			go func() {
				defer close(p.done)
				p.cmd = sess.Call("/lib_do", arg, p.result)
			}()
		case "async":
			p.cmd = sess.AsyncCall("/lib_do", arg, p.result, shared)
			close(p.done)
		default:
			p.cmd = sess.AsyncCall("/lib_do", arg, p.result, nil)
			close(p.done)
		}
		// wait until this CALL frame is on the wire (so seqs are in issue order)
		if !raw.WaitFrames(i + 1) {
			return []string{vt.Hang(fmt.Sprintf("CALL frame %d on the wire", i))}
		}
	}
	frames := raw.Frames()
	if len(frames) < len(c.Calls) {
		return []string{fmt.Sprintf("harness: saw %d CALL frames for %d calls", len(frames), len(c.Calls))}
	}
	seqOf := func(i int) int32 { return frames[i].Seq }

	replied := make([]bool, len(c.Calls)) // a complete reply frame was delivered for the call
	connLost := false
	var closeDone chan struct{}
	pack := func(m vt.Msg) []byte {
		wrw := &vt.RW{}
		if err := proto.Fn(wrw).Pack(m.Build()); err != nil {
			panic("harness pack: " + err.Error())
		}
		return wrw.Written()
	}
	validBody := func(i int) []byte {
		b, _ := json.Marshal(LibRes{Rid: fmt.Sprintf("c%d", i), Val: "reply"})
		return b
	}
	for _, e := range c.Events {
		if connLost {
			break
		}
		switch e.Kind {
		case "settle":
			time.Sleep(200 * time.Microsecond)
		case "localclose":
			if closeDone == nil {
				closeDone = make(chan struct{})
				go func() { sess.Close(); close(closeDone) }()
			}
		case "remoteclose":
			raw.Close()
			connLost = true
		case "cut":
			pair.Cut()
			connLost = true
		case "garbage":
			raw.SendBytes([]byte{0xff, 0xff, 0xff, 0xff, 0x01, 0x02, 0x03})
			// an over-limit size announcement must make the client disconnect by itself
			connLost = true
		case "reply":
			m := vt.Msg{Seq: seqOf(e.Call), Mtype: erpc.TypeReply, Codec: 'j', Body: validBody(e.Call)}
			if e.Veto != "" {
				m.Meta = []vt.KV{{K: "Rveto", V: e.Veto}}
			}
			switch e.Class {
			case "valid":
				raw.SendBytes(pack(m))
				replied[e.Call] = true
			case "error":
				m.Body, m.Codec = nil, 0
				m.HasStatus, m.Code, m.StatMsg, m.Cause, m.HasCause = true, 4242, "handler said no", "because", true
				raw.SendBytes(pack(m))
				replied[e.Call] = true
			case "dup":
				f := pack(m)
				raw.SendBytes(append(append([]byte(nil), f...), f...))
				replied[e.Call] = true
			case "unknownseq":
				m.Seq = 1<<30 + int32(e.Call)
				raw.SendBytes(pack(m))
			case "codec0":
				m.Codec = 0
				raw.SendBytes(pack(m))
				replied[e.Call] = true
			case "undecodable":
				m.Body = []byte(`{"Rid": [1,2`)
				raw.SendBytes(pack(m))
				replied[e.Call] = true
			case "truncated":
				f := pack(m)
				n := len(f) * e.Offset / 17
				raw.SendBytes(f[:n])
				raw.Close()
				connLost = true
			}
		}
	}
	// make sure every call has had its terminal event
	allReplied := true
	for _, r := range replied {
		allReplied = allReplied && r
	}
	if !connLost && !allReplied {
		if c.Final == "cut" {
			pair.Cut()
		} else {
			raw.Close()
		}
		connLost = true
	}

	// ---- oracle -------------------------------------------------------------
	for i, p := range pend {
		if !vt.WaitClosed(p.done) {
			failf("call %d (%+v): %s", i, p.spec, vt.Hang("return of Session.Call after its terminal event (reply delivered / connection lost)"))
			break
		}
		if !vt.WaitClosed(p.cmd.Done()) {
			failf("call %d (%+v): %s", i, p.spec, vt.Hang("Done() of the call after its terminal event (reply delivered / connection lost)"))
			break
		}
	}
	if len(fails) > 0 {
		return fails
	}
	// delivered exactly once to the completion channel (counted at quiescence)
	time.Sleep(300 * time.Microsecond)
	count := map[erpc.CallCmd]int{}
	for {
		select {
		case cmd := <-shared:
			count[cmd]++
			continue
		default:
		}
		break
	}
	for i, p := range pend {
		if p.spec.Mode == "async" && count[p.cmd] != 1 {
			failf("call %d: delivered %d times to its completion channel", i, count[p.cmd])
		}
		st := p.cmd.Status()
		if replied[i] {
			continue // status is the reply's or an error: both allowed by the property; details are C04
		}
		if st.OK() {
			failf("call %d completed OK although no reply was ever delivered for it", i)
		}
	}
	// the session can always be closed afterwards
	if closeDone == nil {
		closeDone = make(chan struct{})
		go func() { sess.Close(); close(closeDone) }()
	}
	if !vt.WaitClosed(closeDone) {
		failf("%s", vt.Hang("return of Session.Close after every call completed"))
	}
	return fails
}

func (c c02Case) nontrivial() bool {
	for _, e := range c.Events {
		if e.Kind != "settle" && !(e.Kind == "reply" && e.Class == "valid") {
			return true
		}
	}
	return len(c.Events) == 0
}

const ruleC02 = "a real client session with 1-5 outstanding calls (Call in a goroutine / AsyncCall with a shared completion channel of generated capacity / AsyncCall with nil channel; result type matching or not) against a scripted remote; generated event script: per-call reply classes {valid, error status, duplicate, unknown seq, codec id 0 with body, undecodable body, truncated at a generated offset + close} with optional reply-path plugin veto, interleaved with local Close, remote close, cut, over-limit garbage, settle pauses; a final cut/remote close gives every call its terminal event; oracle: Done() fires (20 s bound + goroutine dump), exactly one delivery on the completion channel, never OK without a reply, Close returns; non-trivial = any event other than a plain valid reply; distinct by the script"

func TestC02Completion(t *testing.T) {
	rec := vt.NewRec(t, "C02", "completion", ruleC02)
	protos := vt.StreamProtos()
	rapid.Check(t, func(t *rapid.T) {
		c := genC02(t, protos)
		rec.Case(fmt.Sprintf("%+v", c), c.nontrivial(), "proto="+c.Proto)
		for _, e := range c.Events {
			if e.Kind == "reply" {
				rec.Class("reply="+e.Class, 1)
			} else {
				rec.Class("event="+e.Kind, 1)
			}
		}
		if rec.WantSample() && c.nontrivial() {
			rec.Sample(c)
		}
		vt.Journal("C02", c)
		if fails := runC02(c, protos); len(fails) > 0 {
			t.Fatalf("C02 violated (%d findings), first: %s\ncase: %+v", len(fails), fails[0], c)
		}
	})
}

// TestC02Replay re-executes a journalled case (process-crash replays).
func TestC02Replay(t *testing.T) {
	path := os.Getenv("VERIF_REPLAY")
	if path == "" {
		t.Skip("no VERIF_REPLAY")
	}
	b, err := os.ReadFile(path)
	if err != nil {
		t.Fatal(err)
	}
	var doc struct {
		Case c02Case `json:"case"`
	}
	var wdoc struct {
		Case c02WindowCase `json:"case"`
	}
	json.Unmarshal(b, &wdoc)
	if err := json.Unmarshal(b, &doc); err != nil && wdoc.Case.During == "" {
		t.Fatal(err)
	}
	var wg sync.WaitGroup
	wg.Add(1)
	go func() {
		defer wg.Done()
		if wdoc.Case.During != "" {
			// a journalled send-window case
			if fails := runC02Window(wdoc.Case, vt.StreamProtos()); len(fails) > 0 {
				t.Errorf("C02 violated: %s", fails[0])
			}
			return
		}
		if fails := runC02(doc.Case, vt.StreamProtos()); len(fails) > 0 {
			t.Errorf("C02 violated: %s", fails[0])
		}
	}()
	wg.Wait()
}

// ---- exhaustive cut sweep (fault enumeration) -----------------------------------------

// sweepScenario runs the fixed scenario (two calls: one Call, one AsyncCall)
// between a real client and a real server with the connection cut after
// exactly cutAt bytes were delivered in direction dir (cutAt < 0: no cut).
// It returns the stream lengths seen and the findings.
func sweepScenario(proto vt.NamedProto, dir vt.Dir, cutAt int64) (reqLen, repLen int64, fails []string) {
	vt.Init()
	newLib()
	w := vt.NewWorld()
	defer w.Close()
	srv := w.Peer(erpc.PeerConfig{})
	cli := w.Peer(erpc.PeerConfig{})
	route, _ := registerLib(srv)
	l := w.Connect(cli, srv, proto, func(p *vt.Pair) {
		if cutAt >= 0 {
			p.CutAt(dir, cutAt)
		}
	})
	if l.A == nil || l.B == nil {
		return 0, 0, []string{fmt.Sprintf("connect: %v %v", l.AStat, l.BStat)}
	}
	shared := make(chan erpc.CallCmd, 4)
	r1, r2 := new(LibRes), new(LibRes)
	c2 := l.A.AsyncCall(route, &LibArg{Rid: "a", Act: "ret", Val: "async"}, r2, shared)
	callDone := make(chan erpc.CallCmd, 1)
	go func() { callDone <- l.A.Call(route, &LibArg{Rid: "b", Act: "ret", Val: "sync"}, r1) }()
	var c1 erpc.CallCmd
	select {
	case c1 = <-callDone:
	case <-time.After(vt.LivenessBound):
		return 0, 0, []string{vt.Hang(fmt.Sprintf("return of Session.Call with the connection cut after %d bytes of direction %d", cutAt, dir))}
	}
	if !vt.WaitClosed(c2.Done()) {
		return 0, 0, []string{vt.Hang(fmt.Sprintf("Done() of the AsyncCall with the connection cut after %d bytes of direction %d", cutAt, dir))}
	}
	for name, c := range map[string]erpc.CallCmd{"call": c1, "async": c2} {
		if c.StatusOK() {
			res := r1
			want := "sync"
			if name == "async" {
				res, want = r2, "async"
			}
			if res.Val != want {
				fails = append(fails, fmt.Sprintf("%s completed OK with result %+v, want Val=%q (cut at %d of dir %d)", name, *res, want, cutAt, dir))
			}
		} else if cutAt < 0 {
			fails = append(fails, fmt.Sprintf("%s failed without any cut: %v", name, c.Status()))
		}
	}
	n := 0
	for {
		select {
		case <-shared:
			n++
			continue
		default:
		}
		break
	}
	if n != 1 {
		fails = append(fails, fmt.Sprintf("AsyncCall delivered %d times to its completion channel (cut at %d of dir %d)", n, cutAt, dir))
	}
	closed := make(chan struct{})
	go func() { l.A.Close(); close(closed) }()
	if !vt.WaitClosed(closed) {
		fails = append(fails, vt.Hang("Session.Close after the sweep scenario"))
	}
	return l.Pair.Written(vt.AtoB), l.Pair.Written(vt.BtoA), fails
}

// TestC02CutSweep places the cut at EVERY byte offset of the request stream and
// of the reply stream of a fixed two-call scenario, for every stream protocol.
func TestC02CutSweep(t *testing.T) {
	rec := vt.NewRec(t, "C02", "cut-sweep", "fixed scenario (one Call + one AsyncCall against a real server) with the connection cut after exactly N delivered bytes, for EVERY N in [0, len(request stream)] and [0, len(reply stream)], per protocol (raw, json, pb) — complete enumeration of cut offsets for this scenario; oracle: both calls complete (OK with the right result or an error), exactly one channel delivery, Close returns; every case with 0 < N < len is non-trivial")
	for _, proto := range vt.StreamProtos() {
		reqLen, repLen, fails := sweepScenario(proto, vt.AtoB, -1)
		if len(fails) > 0 {
			t.Fatalf("%s: baseline: %s", proto.Name, fails[0])
		}
		for _, d := range []struct {
			dir vt.Dir
			n   int64
		}{{vt.AtoB, reqLen}, {vt.BtoA, repLen}} {
			for off := int64(0); off <= d.n; off++ {
				rec.Case(fmt.Sprintf("%s|%d|%d", proto.Name, d.dir, off), off > 0 && off < d.n, "proto="+proto.Name, fmt.Sprintf("dir=%d", d.dir))
				_, _, fails := sweepScenario(proto, d.dir, off)
				if len(fails) > 0 {
					t.Fatalf("C02 violated: %s: %s", proto.Name, fails[0])
				}
			}
		}
		rec.Sample(map[string]interface{}{"proto": proto.Name, "request_stream_bytes": reqLen, "reply_stream_bytes": repLen, "cut_offsets_enumerated": reqLen + repLen + 2})
	}
	rec.SetExhaustive()
}
