package core

import (
	"crypto/tls"
	"fmt"
	"net"
	"sync"
	"testing"
	"time"

	erpc "github.com/henrylee2cn/erpc/v6"
	"pgregory.net/rapid"

	"verifharness/vt"
)

type listenAddrHook struct {
	mu   sync.Mutex
	addr net.Addr
	ch   chan struct{}
}

func (h *listenAddrHook) Name() string { return "c06listen" }
func (h *listenAddrHook) PostListen(a net.Addr) error {
	h.mu.Lock()
	h.addr = a
	h.mu.Unlock()
	close(h.ch)
	return nil
}

var (
	c06TLSOnce sync.Once
	c06TLSConf *tls.Config
)

// a real ClientHello, recorded once: hostile connections send a prefix of it and stall
func c06ClientHello() []byte {
	a, b := net.Pipe()
	defer a.Close()
	defer b.Close()
	go func() {
		c := tls.Client(a, &tls.Config{InsecureSkipVerify: true})
		c.SetDeadline(time.Now().Add(200 * time.Millisecond))
		c.Handshake()
	}()
	buf := make([]byte, 4096)
	b.SetReadDeadline(time.Now().Add(time.Second))
	n, _ := b.Read(buf)
	return buf[:n]
}

// TestC06AcceptLoop: bytes received on one connection of a listening peer - among them the
// first bytes of a connection, which for a TLS listener are the handshake - cannot keep the
// peer from accepting and serving other connections.
func TestC06AcceptLoop(t *testing.T) {
	rec := vt.NewRec(t, "C06", "accept-loop", "a peer listening on loopback TCP through ListenAndServe, plain or with a TLS configuration; 1-4 hostile connections each send a generated prefix (nothing, 1-11 bytes or all of a real TLS ClientHello, random bytes, the first bytes of a valid frame) and then stay open and silent; oracle: a session established before keeps answering, and a well-behaved client that dials afterwards is accepted and served within the liveness bound; non-trivial = a TLS listener with a stalled partial handshake, or a stalled partial frame; distinct by case")
	hello := c06ClientHello()
	rapid.Check(t, func(t *rapid.T) {
		vt.Init()
		useTLS := rapid.Bool().Draw(t, "tls")
		nh := rapid.IntRange(1, 4).Draw(t, "hostile")
		type hostile struct {
			Kind string
			N    int
		}
		var hs []hostile
		nt := false
		for i := 0; i < nh; i++ {
			h := hostile{Kind: rapid.SampledFrom([]string{"nothing", "hello-prefix", "hello-prefix", "hello-full", "random", "frame-prefix"}).Draw(t, "kind")}
			switch h.Kind {
			case "hello-prefix":
				h.N = rapid.SampledFrom([]int{1, 2, 3, 4, 5, 6, 11, len(hello) - 1}).Draw(t, "n")
			case "random":
				h.N = rapid.IntRange(1, 64).Draw(t, "n")
			case "frame-prefix":
				h.N = rapid.IntRange(1, 12).Draw(t, "n")
			}
			nt = nt || useTLS && (h.Kind == "hello-prefix" || h.Kind == "nothing") || !useTLS && h.Kind == "frame-prefix"
			hs = append(hs, h)
		}
		rec.Case(fmt.Sprintf("%v|%+v", useTLS, hs), nt, fmt.Sprintf("tls=%v", useTLS))
		if rec.WantSample() && nt {
			rec.Sample(map[string]interface{}{"tls": useTLS, "hostile": hs})
		}
		newLib()
		w := vt.NewWorld()
		defer w.Close()
		hook := &listenAddrHook{ch: make(chan struct{})}
		srv := w.Peer(erpc.PeerConfig{LocalIP: "127.0.0.1", ListenPort: freePort()}, hook)
		route, _ := registerLib(srv)
		if useTLS {
			c06TLSOnce.Do(func() { c06TLSConf = erpc.GenerateTLSConfigForServer() })
			srv.SetTLSConfig(c06TLSConf)
		}
		addr := listenOn(srv, hook)
		if addr == "" {
			t.Skip("the loopback port picked for the listener could not be bound")
		}
		dial := func(name string) erpc.Session {
			cli := w.Peer(erpc.PeerConfig{DialTimeout: vt.LivenessBound / 2})
			if useTLS {
				cli.SetTLSConfig(erpc.GenerateTLSConfigForClient())
			}
			var sess erpc.Session
			var st *erpc.Status
			if !vt.Returns(func() { sess, st = cli.Dial(addr) }) {
				t.Fatalf("C06 violated: %s", vt.Hang("return of Dial by the "+name+" client"))
			}
			if !st.OK() {
				t.Fatalf("C06 violated: the %s client (tls=%v) cannot establish a session with a listening peer that has %d stalled hostile connections %+v: %v", name, useTLS, len(hs), hs, st)
			}
			return sess
		}
		call := func(sess erpc.Session, name string) {
			res := new(LibRes)
			cmd := sess.AsyncCall(route, &LibArg{Rid: name, Act: "ret", Val: name}, res, make(chan erpc.CallCmd, 1))
			if !vt.WaitClosed(cmd.Done()) {
				t.Fatalf("C06 violated: %s", vt.Hang("completion of a call by the "+name+" client while hostile connections stall"))
			}
			if !cmd.StatusOK() || res.Val != name {
				t.Fatalf("C06 violated: the call of the %s client failed while hostile connections stall: %v", name, cmd.Status())
			}
		}
		early := dial("early")
		call(early, "early")
		// the hostile connections
		var conns []net.Conn
		defer func() {
			for _, c := range conns {
				c.Close()
			}
		}()
		for i, h := range hs {
			c, err := net.DialTimeout("tcp", addr, 5*time.Second)
			if err != nil {
				t.Fatalf("harness: hostile dial %d: %v", i, err)
			}
			conns = append(conns, c)
			var b []byte
			switch h.Kind {
			case "hello-prefix":
				b = hello[:h.N]
			case "hello-full":
				b = hello
			case "random":
				b = make([]byte, h.N)
				for k := range b {
					b[k] = byte(k*37 + i*11 + 3)
				}
			case "frame-prefix":
				b = []byte{0, 0, 0, 60, 0, 6, 0, 0, 0, 1, 1, 9}[:h.N]
			}
			if len(b) > 0 {
				c.Write(b)
			}
		}
		time.Sleep(2 * time.Millisecond) // let the accept loop meet them
		call(early, "early")
		late := dial("late")
		call(late, "late")
	})
}

// listenOn starts p.ListenAndServe on a loopback port the harness picked and returns the
// address, or "" when the port could not be bound (taken meanwhile by another process: the
// case is skipped, this is not about the framework).
func listenOn(p erpc.Peer, hook *listenAddrHook, protoFunc ...erpc.ProtoFunc) string {
	failed := make(chan interface{}, 1)
	go func() {
		defer func() {
			if r := recover(); r != nil {
				failed <- r
			}
		}()
		p.ListenAndServe(protoFunc...)
	}()
	select {
	case <-hook.ch:
	case <-failed:
		return ""
	case <-time.After(vt.LivenessBound):
		return ""
	}
	hook.mu.Lock()
	defer hook.mu.Unlock()
	return hook.addr.String()
}

// freePort asks the kernel for a free loopback port.
func freePort() uint16 {
	l, err := net.Listen("tcp", "127.0.0.1:0")
	if err != nil {
		return 0
	}
	defer l.Close()
	return uint16(l.Addr().(*net.TCPAddr).Port)
}
