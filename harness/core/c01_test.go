package core

import (
	"context"
	"fmt"
	"hash/crc32"
	"runtime"
	"strconv"
	"strings"
	"sync"
	"sync/atomic"
	"testing"
	"time"

	erpc "github.com/henrylee2cn/erpc/v6"
	"github.com/henrylee2cn/erpc/v6/plugin/secure"
	"pgregory.net/rapid"

	"verifharness/vt"
)

// ---- self-authenticating messages ----------------------------------------------
//
// Every message carries one string  tok|crc32(payload)|payload  in its body and
// the same token in a metadata pair. The handler is the pure function
// F(s, metaTok) = "R<" + s + ">" + metaTok.

func mkBody(tok, payload string) string {
	return tok + "|" + strconv.FormatUint(uint64(crc32.ChecksumIEEE([]byte(payload))), 16) + "|" + payload
}

func checkBody(s string) (tok string, err error) {
	parts := strings.SplitN(s, "|", 3)
	if len(parts) != 3 {
		return "", fmt.Errorf("malformed body %s", vt.Trunc(s))
	}
	sum, perr := strconv.ParseUint(parts[1], 16, 32)
	if perr != nil || uint32(sum) != crc32.ChecksumIEEE([]byte(parts[2])) {
		return parts[0], fmt.Errorf("payload checksum mismatch in body %s", vt.Trunc(s))
	}
	return parts[0], nil
}

func replyFor(s, metaTok string) string { return "R<" + s + ">" + metaTok }

// ---- carriers: one argument/result Go type per body codec -------------------------

type JArg struct {
	S string
	L []string
}
type XArg struct {
	S string `xml:"s"`
}
type FArg struct {
	S string `form:"s"`
	N []int32
}
type (
	NStr   string
	NBytes []byte
)

type carrier struct {
	name  string
	codec byte
	route string // filled at registration
	mk    func(s string) interface{}
	newR  func() interface{}
	get   func(r interface{}) string
}

var carriers = map[string]*carrier{
	"json":    {name: "json", codec: 'j', mk: func(s string) interface{} { return &JArg{S: s, L: []string{"a", s[:len(s)/2]}} }, newR: func() interface{} { return new(JArg) }, get: func(r interface{}) string { return r.(*JArg).S }},
	"xml":     {name: "xml", codec: 'x', mk: func(s string) interface{} { return &XArg{S: s} }, newR: func() interface{} { return new(XArg) }, get: func(r interface{}) string { return r.(*XArg).S }},
	"form":    {name: "form", codec: 'f', mk: func(s string) interface{} { return &FArg{S: s, N: []int32{1, 2, 3}} }, newR: func() interface{} { return new(FArg) }, get: func(r interface{}) string { return r.(*FArg).S }},
	"pstr":    {name: "pstr", codec: 's', mk: func(s string) interface{} { return &s }, newR: func() interface{} { return new(string) }, get: func(r interface{}) string { return *r.(*string) }},
	"pbytes":  {name: "pbytes", codec: 's', mk: func(s string) interface{} { b := []byte(s); return &b }, newR: func() interface{} { return new([]byte) }, get: func(r interface{}) string { return string(*r.(*[]byte)) }},
	"pnstr":   {name: "pnstr", codec: 's', mk: func(s string) interface{} { v := NStr(s); return &v }, newR: func() interface{} { return new(NStr) }, get: func(r interface{}) string { return string(*r.(*NStr)) }},
	"pnbytes": {name: "pnbytes", codec: 's', mk: func(s string) interface{} { v := NBytes(s); return &v }, newR: func() interface{} { return new(NBytes) }, get: func(r interface{}) string { return string(*r.(*NBytes)) }},
	"pb":      {name: "pb", codec: 'p', mk: func(s string) interface{} { return &secure.Encrypt{Ciphertext: s} }, newR: func() interface{} { return new(secure.Encrypt) }, get: func(r interface{}) string { return r.(*secure.Encrypt).Ciphertext }},
}

var carrierNames = []string{"json", "xml", "form", "pstr", "pbytes", "pnstr", "pnbytes", "pb"}

// ---- per-case shared state reached by the (top level) handlers ----------------------

type c01State struct {
	mu        sync.Mutex
	errs      []string
	pushes    map[string]int
	inflight  int32
	maxInfl   int32
	handled   int64
	yieldMask uint32
	callRoute map[string]string // carrier kind -> service method its handler is registered under
	pushRoute map[string]string
}

var c01 atomic.Value // *c01State

func st() *c01State { return c01.Load().(*c01State) }

func (s *c01State) fail(format string, a ...interface{}) {
	s.mu.Lock()
	if len(s.errs) < 10 {
		s.errs = append(s.errs, fmt.Sprintf(format, a...))
	}
	s.mu.Unlock()
}

func (s *c01State) enter() {
	n := atomic.AddInt32(&s.inflight, 1)
	for {
		m := atomic.LoadInt32(&s.maxInfl)
		if n <= m || atomic.CompareAndSwapInt32(&s.maxInfl, m, n) {
			break
		}
	}
	atomic.AddInt64(&s.handled, 1)
}
func (s *c01State) leave() { atomic.AddInt32(&s.inflight, -1) }

type metaPeeker interface {
	PeekMeta(key string) []byte
	VisitMeta(f func(key, value []byte))
	ServiceMethod() string
}

// checkMeta verifies that the receiver sees exactly the metadata its sender
// supplied: tok, the extra pairs x0..xk with the announced value lengths
// (empty values included), xl and fill - nothing else, nothing stale.
func checkMeta(kind string, ctx metaPeeker, s *c01State) {
	var got []string
	ctx.VisitMeta(func(k, v []byte) { got = append(got, string(k)+"="+string(v)) })
	tok := string(ctx.PeekMeta("tok"))
	xl := strings.TrimPrefix(string(ctx.PeekMeta("xl")), "n")
	fill := string(ctx.PeekMeta("fill"))
	want := []string{"tok=" + tok}
	if xl != "" {
		for e, f := range strings.Split(xl, ",") {
			n, _ := strconv.Atoi(f)
			want = append(want, fmt.Sprintf("x%d=%s", e, strings.Repeat(fill, n)))
		}
	}
	want = append(want, "xl=n"+xl, "fill="+fill)
	if len(ctx.PeekMeta("slow")) > 0 {
		want = append(want, "slow=1")
	}
	if strings.Join(got, "&") != strings.Join(want, "&") {
		s.fail("%s receiver of %s sees metadata %q, its sender supplied %q", kind, tok, got, want)
	}
}

// handleCommon is what every CALL handler does with its (string view of the) argument.
func handleCommon(kind string, ctx metaPeeker, get func() string) (string, *erpc.Status) {
	s := st()
	s.enter()
	defer s.leave()
	arg := get()
	metaTok := string(ctx.PeekMeta("tok"))
	sm := ctx.ServiceMethod()
	if want := s.callRoute[kind]; sm != want {
		s.fail("handler(%s) of %s: ctx.ServiceMethod() = %q, it is registered under and was called as %q", kind, metaTok, sm, want)
	}
	checkMeta("handler("+kind+")", ctx, s)
	tok, err := checkBody(arg)
	if err != nil {
		s.fail("handler(%s): %v", kind, err)
	} else if tok != metaTok {
		s.fail("handler(%s): body token %q but metadata token %q (header/body of different messages)", kind, tok, metaTok)
	}
	// the argument must stay what it is while the handler runs
	for i := 0; i < 3; i++ {
		runtime.Gosched()
	}
	if len(ctx.PeekMeta("slow")) > 0 {
		time.Sleep(3 * time.Millisecond) // longer than the context deadline of the caller
	}
	if again := get(); again != arg {
		s.fail("handler(%s): argument changed while the handler was running:\n first %s\n later %s", kind, vt.Trunc(arg), vt.Trunc(again))
	}
	if again := ctx.ServiceMethod(); again != sm {
		s.fail("handler(%s) of %s: ctx.ServiceMethod() changed from %q to %q while the handler was running", kind, metaTok, sm, again)
	}
	return replyFor(arg, metaTok), nil
}

func C01Json(ctx erpc.CallCtx, a *JArg) (*JArg, *erpc.Status) {
	r, st := handleCommon("json", ctx, func() string { return a.S })
	ctx.SetMeta("tok", string(ctx.PeekMeta("tok")))
	ctx.SetMeta("e", "")
	return &JArg{S: r}, st
}
func C01Xml(ctx erpc.CallCtx, a *XArg) (*XArg, *erpc.Status) {
	r, st := handleCommon("xml", ctx, func() string { return a.S })
	ctx.SetMeta("tok", string(ctx.PeekMeta("tok")))
	ctx.SetMeta("e", "")
	return &XArg{S: r}, st
}
func C01Form(ctx erpc.CallCtx, a *FArg) (*FArg, *erpc.Status) {
	r, st := handleCommon("form", ctx, func() string { return a.S })
	ctx.SetMeta("tok", string(ctx.PeekMeta("tok")))
	ctx.SetMeta("e", "")
	return &FArg{S: r, N: []int32{9}}, st
}
func C01Pstr(ctx erpc.CallCtx, a *string) (string, *erpc.Status) {
	r, st := handleCommon("pstr", ctx, func() string { return *a })
	ctx.SetMeta("tok", string(ctx.PeekMeta("tok")))
	ctx.SetMeta("e", "")
	return r, st
}
func C01Pbytes(ctx erpc.CallCtx, a *[]byte) ([]byte, *erpc.Status) {
	r, st := handleCommon("pbytes", ctx, func() string { return string(*a) })
	ctx.SetMeta("tok", string(ctx.PeekMeta("tok")))
	ctx.SetMeta("e", "")
	return []byte(r), st
}
func C01Pnstr(ctx erpc.CallCtx, a *NStr) (NStr, *erpc.Status) {
	r, st := handleCommon("pnstr", ctx, func() string { return string(*a) })
	ctx.SetMeta("tok", string(ctx.PeekMeta("tok")))
	ctx.SetMeta("e", "")
	return NStr(r), st
}
func C01Pnbytes(ctx erpc.CallCtx, a *NBytes) (NBytes, *erpc.Status) {
	r, st := handleCommon("pnbytes", ctx, func() string { return string(*a) })
	ctx.SetMeta("tok", string(ctx.PeekMeta("tok")))
	ctx.SetMeta("e", "")
	return NBytes(r), st
}
func C01Pb(ctx erpc.CallCtx, a *secure.Encrypt) (*secure.Encrypt, *erpc.Status) {
	r, st := handleCommon("pb", ctx, func() string { return a.Ciphertext })
	ctx.SetMeta("tok", string(ctx.PeekMeta("tok")))
	ctx.SetMeta("e", "")
	return &secure.Encrypt{Ciphertext: r}, st
}

func pushCommon(kind string, ctx metaPeeker, get func() string) *erpc.Status {
	s := st()
	s.enter()
	defer s.leave()
	arg := get()
	metaTok := string(ctx.PeekMeta("tok"))
	sm := ctx.ServiceMethod()
	if want := s.pushRoute[kind]; sm != want {
		s.fail("push receiver(%s) of %s: ctx.ServiceMethod() = %q, want %q", kind, metaTok, sm, want)
	}
	checkMeta("push("+kind+")", ctx, s)
	tok, err := checkBody(arg)
	if err != nil {
		s.fail("push receiver(%s): %v", kind, err)
	} else if tok != metaTok {
		s.fail("push receiver(%s): body token %q but metadata token %q", kind, tok, metaTok)
	}
	runtime.Gosched()
	if again := get(); again != arg {
		s.fail("push receiver(%s): argument changed while the receiver was running", kind)
	}
	if again := ctx.ServiceMethod(); again != sm {
		s.fail("push receiver(%s) of %s: ctx.ServiceMethod() changed from %q to %q while the receiver was running", kind, metaTok, sm, again)
	}
	s.mu.Lock()
	s.pushes[tok]++
	s.mu.Unlock()
	return nil
}

func C01PushJson(ctx erpc.PushCtx, a *JArg) *erpc.Status {
	return pushCommon("json", ctx, func() string { return a.S })
}
func C01PushXml(ctx erpc.PushCtx, a *XArg) *erpc.Status {
	return pushCommon("xml", ctx, func() string { return a.S })
}
func C01PushForm(ctx erpc.PushCtx, a *FArg) *erpc.Status {
	return pushCommon("form", ctx, func() string { return a.S })
}
func C01PushPstr(ctx erpc.PushCtx, a *string) *erpc.Status {
	return pushCommon("pstr", ctx, func() string { return *a })
}
func C01PushPbytes(ctx erpc.PushCtx, a *[]byte) *erpc.Status {
	return pushCommon("pbytes", ctx, func() string { return string(*a) })
}
func C01PushPnstr(ctx erpc.PushCtx, a *NStr) *erpc.Status {
	return pushCommon("pnstr", ctx, func() string { return string(*a) })
}
func C01PushPnbytes(ctx erpc.PushCtx, a *NBytes) *erpc.Status {
	return pushCommon("pnbytes", ctx, func() string { return string(*a) })
}
func C01PushPb(ctx erpc.PushCtx, a *secure.Encrypt) *erpc.Status {
	return pushCommon("pb", ctx, func() string { return a.Ciphertext })
}

type routes struct{ call, push map[string]string }

func registerC01(p erpc.Peer) routes {
	r := routes{call: map[string]string{}, push: map[string]string{}}
	r.call["json"] = p.RouteCallFunc(C01Json)
	r.call["xml"] = p.RouteCallFunc(C01Xml)
	r.call["form"] = p.RouteCallFunc(C01Form)
	r.call["pstr"] = p.RouteCallFunc(C01Pstr)
	r.call["pbytes"] = p.RouteCallFunc(C01Pbytes)
	r.call["pnstr"] = p.RouteCallFunc(C01Pnstr)
	r.call["pnbytes"] = p.RouteCallFunc(C01Pnbytes)
	r.call["pb"] = p.RouteCallFunc(C01Pb)
	r.push["json"] = p.RoutePushFunc(C01PushJson)
	r.push["xml"] = p.RoutePushFunc(C01PushXml)
	r.push["form"] = p.RoutePushFunc(C01PushForm)
	r.push["pstr"] = p.RoutePushFunc(C01PushPstr)
	r.push["pbytes"] = p.RoutePushFunc(C01PushPbytes)
	r.push["pnstr"] = p.RoutePushFunc(C01PushPnstr)
	r.push["pnbytes"] = p.RoutePushFunc(C01PushPnbytes)
	r.push["pb"] = p.RoutePushFunc(C01PushPb)
	return r
}

// ---- the generated case ---------------------------------------------------------

type c01Op struct {
	Kind    string // call | async | push
	Carrier string
	Len     int
	Fill    byte
	Pipe    []byte
	Extra   int   // number of extra metadata pairs
	XLens   []int // value length of each extra pair (0 = empty value)
	CtxMs   int   // > 0: the call carries a context with this deadline and its handler takes longer than that
	Reuse   bool  // a synchronous call receives its result in the object this worker used for its previous call of that carrier
}

type c01Case struct {
	Proto     string
	Sessions  int
	Workers   [][]c01Op // one op list per worker goroutine
	WorkerDir []int     // 0: A->B, 1: B->A
	WorkerSes []int
	Chunks    []int
	Cycle     bool
}

func genC01(t *rapid.T, protos []vt.NamedProto, carrierSet []string) c01Case {
	c := c01Case{Proto: rapid.SampledFrom(protos).Draw(t, "proto").Name}
	c.Sessions = rapid.IntRange(1, 3).Draw(t, "sessions")
	nw := rapid.IntRange(1, 8).Draw(t, "workers")
	lenClass := []int{0, 1, 7, 40, 300, 1023, 1024, 1025, 5000}
	for w := 0; w < nw; w++ {
		nops := rapid.IntRange(1, 12).Draw(t, "nops")
		ops := make([]c01Op, nops)
		for i := range ops {
			ops[i] = c01Op{
				Kind:    rapid.SampledFrom([]string{"call", "call", "async", "push"}).Draw(t, "kind"),
				Carrier: rapid.SampledFrom(carrierSet).Draw(t, "carrier"),
				Len:     rapid.SampledFrom(lenClass).Draw(t, "len"),
				Fill:    rapid.SampledFrom([]byte("abcxyz019")).Draw(t, "fill"),
				Extra:   rapid.IntRange(0, 3).Draw(t, "extra"),
				Reuse:   rapid.Bool().Draw(t, "reuse"),
			}
			// (not over the websocket mixer: there a write that hits its deadline leaves the
			// connection's buffered writer in its error state, so every later write of the session
			// fails with the same error - unfortunate, but no statement of C01 is broken by it)
			if rapid.IntRange(0, 7).Draw(t, "ctx") == 0 && !strings.HasPrefix(c.Proto, "ws-") {
				ops[i].CtxMs = 1
			}
			for e := 0; e < ops[i].Extra; e++ {
				ops[i].XLens = append(ops[i].XLens, rapid.SampledFrom([]int{0, 0, 1, 7, 40}).Draw(t, "xlen"))
			}
			if rapid.IntRange(0, 3).Draw(t, "haspipe") == 0 {
				ops[i].Pipe = rapid.SliceOfN(rapid.SampledFrom(vt.RegisteredXfer), 1, 2).Draw(t, "pipe")
			}
		}
		c.Workers = append(c.Workers, ops)
		c.WorkerDir = append(c.WorkerDir, rapid.IntRange(0, 1).Draw(t, "dir"))
		c.WorkerSes = append(c.WorkerSes, rapid.IntRange(0, c.Sessions-1).Draw(t, "ses"))
	}
	c.Chunks, c.Cycle = vt.Chunks(t, "chunks")
	return c
}

func protoByName(ps []vt.NamedProto, name string) vt.NamedProto {
	for _, p := range ps {
		if p.Name == name {
			return p
		}
	}
	panic("no proto " + name)
}

func runC01(c c01Case, protos []vt.NamedProto) (errs []string, maxInfl int32, nmsgs int) {
	return runC01With(c, protos, nil)
}

// c01Around is what a variant of the check adds around the generated program: it is called once
// the sessions are up (whatever it does synchronously happens before the first op), the function
// `during` it returns runs next to the workers and `after` right before the peers are closed.
type c01Around func(a, b erpc.Peer, links []*vt.Link, state *c01State) (during, after func())

func runC01With(c c01Case, protos []vt.NamedProto, around c01Around) (errs []string, maxInfl int32, nmsgs int) {
	vt.Init()
	state := &c01State{pushes: map[string]int{}}
	c01.Store(state)
	w := vt.NewWorld()
	a := w.Peer(erpc.PeerConfig{})
	b := w.Peer(erpc.PeerConfig{})
	ra := registerC01(a)
	rb := registerC01(b)
	state.callRoute, state.pushRoute = ra.call, ra.push // the same names on both peers
	proto := protoByName(protos, c.Proto)
	links := make([]*vt.Link, c.Sessions)
	for i := range links {
		prep := func(p *vt.Pair) {
			p.SetChunks(vt.AtoB, c.Chunks, c.Cycle)
			p.SetChunks(vt.BtoA, c.Chunks, c.Cycle)
		}
		if strings.HasPrefix(c.Proto, "ws-") {
			// websocket sessions: real HTTP upgrade + hybi framing over the in-memory transport
			l, err := w.ConnectWS(a, b, proto, nil)
			if err != nil {
				return []string{"ws connect: " + err.Error()}, 0, 0
			}
			prep(l.Pair)
			links[i] = l
		} else {
			links[i] = w.Connect(a, b, proto, prep)
		}
		if links[i].A == nil || links[i].B == nil {
			return []string{fmt.Sprintf("connect failed: %v %v", links[i].AStat, links[i].BStat)}, 0, 0
		}
	}
	var wg sync.WaitGroup
	var sentPush sync.Map
	var after func()
	if around != nil {
		var during func()
		during, after = around(a, b, links, state)
		if during != nil {
			wg.Add(1)
			go func() { defer wg.Done(); during() }()
		}
	}
	for wi, ops := range c.Workers {
		wg.Add(1)
		go func(wi int, ops []c01Op) {
			defer wg.Done()
			l := links[c.WorkerSes[wi]]
			sess, rt := l.A, rb
			if c.WorkerDir[wi] == 1 {
				sess, rt = l.B, ra
			}
			done := make(chan erpc.CallCmd, len(ops)+1)
			type pending struct {
				cmd   erpc.CallCmd
				body  string
				tok   string
				car   *carrier
				res     interface{}
				extra   int
				ctxCall bool
			}
			var pend []pending
			lastRes := map[string]interface{}{} // per carrier: the result object of this worker's previous synchronous call
			// what every result object held when its (last) call completed: the framework does not
			// write to it afterwards
			type held struct {
				car  *carrier
				val  string
				what string
			}
			final := map[interface{}]held{}
			defer func() {
				time.Sleep(8 * time.Millisecond)
				for res, h := range final {
					if now := h.car.get(res); now != h.val {
						state.fail("the result object of %s was written after that call had completed:\n then %s\n now  %s", h.what, vt.Trunc(h.val), vt.Trunc(now))
					}
				}
			}()
			verify := func(p pending) {
				cmd := p.cmd
				<-cmd.Done()
				defer func() { final[p.res] = held{p.car, p.car.get(p.res), "call " + p.tok + " (" + p.car.name + ", status " + cmd.Status().String() + ")"} }()
				if !cmd.StatusOK() && p.ctxCall {
					return // its context ended first: any error status is fine, the result object is watched
				}
				if !cmd.StatusOK() {
					state.fail("call %s (%s) failed although nothing is wrong: %s", p.tok, p.car.name, cmd.Status().String())
					return
				}
				got := p.car.get(p.res)
				if want := replyFor(p.body, p.tok); got != want {
					state.fail("call %s (%s): result is not the reply to this call:\n got  %s\n want %s", p.tok, p.car.name, vt.Trunc(got), vt.Trunc(want))
				}
				if mt := string(cmd.InputMeta().Peek("tok")); mt != p.tok {
					state.fail("call %s (%s): reply metadata token %q", p.tok, p.car.name, mt)
				}
				var rm []string
				cmd.InputMeta().VisitAll(func(k, v []byte) { rm = append(rm, string(k)+"="+string(v)) })
				if want := "tok=" + p.tok + "&e="; strings.Join(rm, "&") != want {
					state.fail("call %s (%s): reply metadata %q, the handler set %q", p.tok, p.car.name, rm, want)
				}
			}
			for oi, op := range ops {
				tok := fmt.Sprintf("s%dw%do%d", c.WorkerSes[wi], wi, oi)
				body := mkBody(tok, strings.Repeat(string(op.Fill), op.Len))
				car := carriers[op.Carrier]
				settings := []erpc.MessageSetting{erpc.WithBodyCodec(car.codec), erpc.WithAddMeta("tok", tok)}
				// extra pairs, some with an empty value; "xl" tells the receiver what to expect
				xl := make([]string, len(op.XLens))
				for e, n := range op.XLens {
					xl[e] = strconv.Itoa(n)
					settings = append(settings, erpc.WithAddMeta(fmt.Sprintf("x%d", e), strings.Repeat(string(op.Fill), n)))
				}
				settings = append(settings, erpc.WithAddMeta("xl", "n"+strings.Join(xl, ",")), erpc.WithAddMeta("fill", string(op.Fill)))
				if len(op.Pipe) > 0 {
					settings = append(settings, erpc.WithXferPipe(op.Pipe...))
				}
				if op.CtxMs > 0 && op.Kind != "push" {
					cctx, cancel := context.WithTimeout(context.Background(), time.Duration(op.CtxMs)*time.Millisecond)
					defer cancel()
					settings = append(settings, erpc.WithContext(cctx), erpc.WithAddMeta("slow", "1"))
				}
				isCtx := op.CtxMs > 0
				switch op.Kind {
				case "call":
					res := car.newR()
					if prev, ok := lastRes[op.Carrier]; ok && op.Reuse {
						res = prev // a caller may keep one result object (or buffer) across calls
					}
					lastRes[op.Carrier] = res
					cmd := sess.Call(rt.call[op.Carrier], car.mk(body), res, settings...)
					verify(pending{cmd, body, tok, car, res, op.Extra, isCtx})
				case "async":
					res := car.newR()
					cmd := sess.AsyncCall(rt.call[op.Carrier], car.mk(body), res, done, settings...)
					pend = append(pend, pending{cmd, body, tok, car, res, op.Extra, isCtx})
				case "push":
					sentPush.Store(tok, true)
					if stat := sess.Push(rt.push[op.Carrier], car.mk(body), settings...); !stat.OK() {
						state.fail("push %s failed: %s", tok, stat.String())
					}
				}
			}
			for _, p := range pend {
				verify(p)
			}
		}(wi, ops)
		nmsgs += len(ops)
	}
	fin := make(chan struct{})
	go func() { wg.Wait(); close(fin) }()
	if !vt.WaitClosed(fin) {
		state.fail("%s", vt.Hang("completion of all calls"))
	}
	// pushes are asynchronous: wait until every sent push was received (bounded), then check at-most-once
	nsent := 0
	sentPush.Range(func(k, v interface{}) bool { nsent++; return true })
	vt.WaitUntil(func() bool {
		state.mu.Lock()
		defer state.mu.Unlock()
		return len(state.pushes) >= nsent
	})
	if after != nil {
		after()
	}
	if msg := w.Close(); msg != "" {
		state.fail("%s", msg)
	}
	state.mu.Lock()
	for tok, n := range state.pushes {
		if _, ok := sentPush.Load(tok); !ok {
			state.errs = append(state.errs, fmt.Sprintf("push receiver saw token %q that was never sent", tok))
		}
		if n > 1 {
			state.errs = append(state.errs, fmt.Sprintf("push %q was received %d times", tok, n))
		}
	}
	if len(state.pushes) != nsent {
		state.errs = append(state.errs, fmt.Sprintf("%d pushes sent on healthy sessions but %d received", nsent, len(state.pushes)))
	}
	errs = append(errs, state.errs...)
	state.mu.Unlock()
	return errs, atomic.LoadInt32(&state.maxInfl), nmsgs
}

const ruleC01 = "generated concurrent program over raw/json/pb stream sessions and websocket sessions (json and protobuf sub-protocols, real upgrade): 1-3 sessions between two peers, 1-8 worker goroutines each issuing 1-12 Call/AsyncCall/Push ops in either direction, argument carrier type per codec (json/xml/form structs, plain *string/*[]byte/named string/named bytes, protobuf), payload length classes 0..5000, result objects fresh or reused from the worker's previous call, one call in eight with a 1 ms context deadline and a handler that takes 3 ms, every result object re-read 8 ms after the worker's last call (the framework does not write to a result after its call completed), optional filter pipe, generated read-chunk schedule; every message is self-authenticating (token in body+metadata, payload checksum), handlers are a pure function and check that ctx.ServiceMethod() is theirs and stays so while they run; non-trivial = >=2 handler executions overlapped (measured) or >=2 sessions active; distinct by the generated program"

func TestC01CrossTalk(t *testing.T) {
	rec := vt.NewRec(t, "C01", "crosstalk", ruleC01)
	protos := append(vt.StreamProtos(), vt.WsSubProtos()...)
	rapid.Check(t, func(t *rapid.T) {
		c := genC01(t, protos, carrierNames)
		errs, maxInfl, n := runC01(c, protos)
		nt := maxInfl >= 2 || c.Sessions >= 2 && len(c.Workers) >= 2
		rec.Case(fmt.Sprintf("%+v", c), nt, "proto="+c.Proto, fmt.Sprintf("maxinflight>=2:%v", maxInfl >= 2), fmt.Sprintf("sessions=%d", c.Sessions))
		rec.Class("messages", n)
		if rec.WantSample() && nt {
			rec.Sample(map[string]interface{}{"proto": c.Proto, "sessions": c.Sessions, "workers": len(c.Workers), "first_worker_ops": c.Workers[0], "chunks": c.Chunks, "max_overlapping_handlers": maxInfl})
		}
		if len(errs) > 0 {
			t.Fatalf("C01 violated (%d findings), first: %s\ncase: %+v", len(errs), errs[0], c)
		}
	})
}

// TestC01SequenceNumbers: a reply is matched to its call by sequence number, so calls that are
// outstanding at the same time on one session carry different numbers - however many
// goroutines launch them at once.
func TestC01SequenceNumbers(t *testing.T) {
	rec := vt.NewRec(t, "C01", "sequence-numbers", "2-16 goroutines launch 200-2000 AsyncCalls (and, interleaved, pushes) each on ONE session at the same time against a remote that only drains the connection, so every call stays outstanding; oracle: the sequence numbers of the outstanding calls are pairwise distinct (a shared number hands one call the other's reply); every case non-trivial; distinct by case")
	protos := vt.StreamProtos()
	rapid.Check(t, func(t *rapid.T) {
		vt.Init()
		proto := rapid.SampledFrom(protos).Draw(t, "proto")
		g := rapid.IntRange(2, 16).Draw(t, "goroutines")
		n := rapid.SampledFrom([]int{200, 800, 2000}).Draw(t, "calls")
		pushEvery := rapid.SampledFrom([]int{0, 3, 7}).Draw(t, "pushevery")
		rec.Case(fmt.Sprintf("%s|%d|%d|%d", proto.Name, g, n, pushEvery), true, "proto="+proto.Name)
		if rec.WantSample() {
			rec.Sample(map[string]interface{}{"proto": proto.Name, "goroutines": g, "calls_each": n, "push_every": pushEvery})
		}
		w := vt.NewWorld()
		defer w.Close()
		cli := w.Peer(erpc.PeerConfig{})
		pair := vt.NewPair()
		sess, stat := cli.ServeConn(pair.A, proto.Fn)
		if !stat.OK() {
			t.Fatalf("ServeConn: %v", stat)
		}
		go func() { // the remote only drains
			buf := make([]byte, 64<<10)
			for {
				if _, err := pair.B.Read(buf); err != nil {
					return
				}
			}
		}()
		seqs := make([][]int32, g)
		start := make(chan struct{})
		var wg sync.WaitGroup
		for gi := 0; gi < g; gi++ {
			wg.Add(1)
			go func(gi int) {
				defer wg.Done()
				ch := make(chan erpc.CallCmd, n+1)
				out := make([]int32, 0, n)
				<-start
				for i := 0; i < n; i++ {
					if pushEvery > 0 && i%pushEvery == 0 {
						sess.Push("/sink/note", nil)
					}
					cmd := sess.AsyncCall("/sink/do", nil, nil, ch)
					out = append(out, cmd.Output().Seq())
				}
				seqs[gi] = out
			}(gi)
		}
		close(start)
		wg.Wait()
		pair.Cut()
		seen := make(map[int32][2]int, g*n)
		for gi, out := range seqs {
			for i, s := range out {
				if prev, dup := seen[s]; dup {
					t.Fatalf("C01 violated: two calls outstanding at the same time on one session carry sequence number %d (goroutine %d call %d and goroutine %d call %d): the reply to one is handed to the other", s, prev[0], prev[1], gi, i)
				}
				seen[s] = [2]int{gi, i}
			}
		}
	})
}
