package core

import (
	"bytes"
	"errors"
	"fmt"
	"sort"
	"strings"
	"sync"
	"testing"
	"time"

	erpc "github.com/henrylee2cn/erpc/v6"
	"github.com/henrylee2cn/erpc/v6/plugin/proxy"
	"pgregory.net/rapid"

	"verifharness/vt"
)

type c19Case struct {
	Proto     string
	Kind      string // call | push
	Method    string
	Body      []byte
	Codec     byte
	ReqMeta   []vt.KV
	RealIP    string // "" = absent
	Accept    byte   // X-Accept-Body-Codec (0 = absent)
	RepBody   []byte
	RepCodec  byte // 0 = leave to the framework
	RepMeta   []vt.KV
	Code      int32 // backend status (0 = OK)
	Msg       string
	Cause     string
	Failure   string // "" | down-before | dies-during
	ProxyCode string // default body codec of the proxy peer
	Pipe      []byte // transfer-filter pipe of the caller's message (hop by hop: it ends at the proxy)
	RepPipe   []byte // filters the backend adds to its reply
	Renamed   string // the caller's session on the proxy was given this id (as an auth hook does); "" = default id
}

type c19Seen struct {
	Method string
	Body   []byte
	Codec  byte
	Meta   []vt.KV
}

type c19Backend struct {
	mu      sync.Mutex
	calls   []c19Seen
	pushes  []c19Seen
	plan    c19Case
	entered chan struct{}
	gate    chan struct{}
}

func (b *c19Backend) see(ctx interface {
	ServiceMethod() string
	InputBodyBytes() []byte
	GetBodyCodec() byte
	VisitMeta(func(k, v []byte))
}) c19Seen {
	s := c19Seen{Method: ctx.ServiceMethod(), Body: append([]byte(nil), ctx.InputBodyBytes()...), Codec: ctx.GetBodyCodec()}
	ctx.VisitMeta(func(k, v []byte) { s.Meta = append(s.Meta, vt.KV{K: string(k), V: string(v)}) })
	return s
}

func (b *c19Backend) call(ctx erpc.UnknownCallCtx) (interface{}, *erpc.Status) {
	b.mu.Lock()
	b.calls = append(b.calls, b.see(ctx))
	p := b.plan
	entered, gate := b.entered, b.gate
	b.entered, b.gate = nil, nil
	b.mu.Unlock()
	if entered != nil {
		close(entered)
		<-gate
	}
	for _, kv := range p.RepMeta {
		ctx.SetMeta(kv.K, kv.V)
	}
	if p.RepCodec != 0 {
		ctx.SetBodyCodec(p.RepCodec)
	}
	if len(p.RepPipe) > 0 {
		ctx.AddXferPipe(p.RepPipe...)
	}
	if p.Code != 0 {
		return nil, erpc.NewStatus(p.Code, p.Msg, p.Cause)
	}
	return append([]byte(nil), p.RepBody...), nil
}

func (b *c19Backend) push(ctx erpc.UnknownPushCtx) *erpc.Status {
	b.mu.Lock()
	b.pushes = append(b.pushes, b.see(ctx))
	b.mu.Unlock()
	return nil
}

func genC19(t *rapid.T, protos []vt.NamedProto) c19Case {
	c := c19Case{Proto: rapid.SampledFrom(protos).Draw(t, "proto").Name}
	c.Kind = rapid.SampledFrom([]string{"call", "call", "call", "push"}).Draw(t, "kind")
	c.Method = rapid.StringMatching(`/[a-z]{1,8}(/[a-z0-9_]{1,8}){0,2}`).Draw(t, "method")
	c.Codec = rapid.SampledFrom([]byte{'j', 's', 'p', 'f', 'x'}).Draw(t, "codec")
	c.Body = vt.Bytes(t, "body", 300)
	if rapid.IntRange(0, 2).Draw(t, "haspipe") == 0 {
		c.Pipe = rapid.SliceOfN(rapid.SampledFrom(vt.RegisteredXfer), 1, 2).Draw(t, "pipe")
	}
	if rapid.IntRange(0, 3).Draw(t, "hasreppipe") == 0 {
		c.RepPipe = rapid.SliceOfN(rapid.SampledFrom(vt.RegisteredXfer), 1, 2).Draw(t, "reppipe")
	}
	if c.Proto == "json" {
		// keep the JSON wire protocol's text domain out of this check
		c.Body = []byte(strings.ToValidUTF8(string(c.Body), "?"))
	}
	n := rapid.IntRange(0, 3).Draw(t, "nmeta")
	for i := 0; i < n; i++ {
		c.ReqMeta = append(c.ReqMeta, vt.KV{K: rapid.SampledFrom([]string{"Trace", "User", "Trace", "A-B"}).Draw(t, "mk"), V: string(vt.Bytes(t, "mv", 20))})
	}
	if rapid.Bool().Draw(t, "hasrealip") {
		c.RealIP = rapid.SampledFrom([]string{"1.2.3.4:5", "client-7"}).Draw(t, "realip")
	}
	if rapid.IntRange(0, 3).Draw(t, "hasaccept") == 0 {
		c.Accept = rapid.SampledFrom([]byte{'j', 's', 'x'}).Draw(t, "accept")
	}
	c.RepBody = vt.Bytes(t, "repbody", 300)
	if c.Proto == "json" {
		c.RepBody = []byte(strings.ToValidUTF8(string(c.RepBody), "?"))
	}
	if rapid.IntRange(0, 2).Draw(t, "hasrepcodec") == 0 {
		c.RepCodec = rapid.SampledFrom([]byte{'j', 's', 'x', 'f'}).Draw(t, "repcodec")
	}
	n = rapid.IntRange(0, 3).Draw(t, "nrepmeta")
	for i := 0; i < n; i++ {
		c.RepMeta = append(c.RepMeta, vt.KV{K: rapid.SampledFrom([]string{"Server", "Cost", "Node"}).Draw(t, "rk"), V: string(vt.Bytes(t, "rv", 20))})
	}
	if rapid.IntRange(0, 2).Draw(t, "nonok") == 0 {
		// handler statuses: the range [100,199] is reserved by the framework for the sending peer's own errors
		for {
			c.Code = vt.StatusCode(t, "code")
			if c.Code != 0 && !(c.Code >= 100 && c.Code <= 199) {
				break
			}
		}
		c.Msg = string(vt.Bytes(t, "msg", 40))
		c.Cause = string(vt.Bytes(t, "cause", 40))
	}
	c.Failure = rapid.SampledFrom([]string{"", "", "", "", "down-before", "dies-during", "write-fails"}).Draw(t, "failure")
	c.ProxyCode = rapid.SampledFrom([]string{"json", "plain", "xml"}).Draw(t, "proxycodec")
	c.Renamed = rapid.SampledFrom([]string{"", "", "user-42", "10.9.8.7:65"}).Draw(t, "renamed")
	return c
}

type c19Result struct {
	Status  vt.StatusTriple
	Body    []byte
	Codec   byte
	RepMeta map[string]string
}

func (c c19Case) settings(withRealIP bool) []erpc.MessageSetting {
	s := []erpc.MessageSetting{erpc.WithBodyCodec(c.Codec)}
	for _, kv := range c.ReqMeta {
		s = append(s, erpc.WithAddMeta(kv.K, kv.V))
	}
	if c.RealIP != "" {
		s = append(s, erpc.WithRealIP(c.RealIP))
	}
	if c.Accept != 0 {
		s = append(s, erpc.WithAcceptBodyCodec(c.Accept))
	}
	if len(c.Pipe) > 0 {
		s = append(s, erpc.WithXferPipe(c.Pipe...))
	}
	return s
}

func doCall(sess erpc.Session, c c19Case) (c19Result, string) {
	var out []byte
	cmd := sess.AsyncCall(c.Method, append([]byte(nil), c.Body...), &out, make(chan erpc.CallCmd, 1), c.settings(true)...)
	if !vt.WaitClosed(cmd.Done()) {
		return c19Result{}, vt.Hang("completion of the call")
	}
	r := c19Result{Status: vt.TripleOf(cmd.Status()), Body: out, Codec: cmd.InputBodyCodec(), RepMeta: map[string]string{}}
	if m := cmd.InputMeta(); m != nil {
		m.VisitAll(func(k, v []byte) { r.RepMeta[string(k)] = string(v) })
	}
	return r, ""
}

func metaWithout(kvs []vt.KV, drop string) []string {
	var out []string
	for _, kv := range kvs {
		if kv.K != drop {
			out = append(out, kv.K+"="+kv.V)
		}
	}
	return out
}

func runC19(c c19Case, protos []vt.NamedProto) []string {
	vt.Init()
	proto := protoByName(protos, c.Proto)
	w := vt.NewWorld()
	defer w.Close()
	be := &c19Backend{plan: c}
	backend := w.Peer(erpc.PeerConfig{})
	backend.SetUnknownCall(be.call)
	backend.SetUnknownPush(be.push)
	var cur struct {
		sync.Mutex
		sess erpc.Session
	}
	var labels []proxy.Label
	prox := w.Peer(erpc.PeerConfig{DefaultBodyCodec: c.ProxyCode}, proxy.NewPlugin(func(l *proxy.Label) proxy.Forwarder {
		cur.Lock()
		defer cur.Unlock()
		labels = append(labels, *l)
		return cur.sess
	}))
	caller := w.Peer(erpc.PeerConfig{})
	var fails []string
	failf := func(format string, a ...interface{}) { fails = append(fails, fmt.Sprintf(format, a...)) }

	direct := w.Connect(caller, backend, proto, nil)
	p2b := w.Connect(prox, backend, proto, nil)
	c2p := w.Connect(caller, prox, proto, nil)
	other := w.Connect(caller, prox, proto, nil) // another session of the proxy
	for _, l := range []*vt.Link{direct, p2b, c2p, other} {
		if l.A == nil || l.B == nil {
			return []string{"connect failed"}
		}
	}
	cur.sess = p2b.A
	if c.Renamed != "" {
		c2p.B.SetID(c.Renamed)
	}
	// what the forwarder function is told about the request: who asks (session id), from
	// where (the same real IP the backend is told) and for what
	checkLabel := func() string {
		cur.Lock()
		defer cur.Unlock()
		wantIP := c.RealIP
		if wantIP == "" {
			wantIP = c2p.B.RemoteAddr().String()
		}
		for _, l := range labels {
			if l.SessionID != c2p.B.ID() || l.RealIP != wantIP || l.ServiceMethod != c.Method {
				return fmt.Sprintf("the forwarder function was given label %+v, want {SessionID:%s RealIP:%s ServiceMethod:%s}", l, c2p.B.ID(), wantIP, c.Method)
			}
		}
		return ""
	}

	if c.Kind == "push" {
		if st := direct.A.Push(c.Method, append([]byte(nil), c.Body...), c.settings(true)...); !st.OK() {
			return []string{"direct push failed: " + st.String()}
		}
		// the direct push has arrived before the proxied one is sent: pushes[0] is the direct one
		if !vt.WaitUntilFor(5*time.Second, func() bool { be.mu.Lock(); defer be.mu.Unlock(); return len(be.pushes) >= 1 }) {
			return []string{"the direct push did not reach the backend"}
		}
		if st := c2p.A.Push(c.Method, append([]byte(nil), c.Body...), c.settings(true)...); !st.OK() {
			return []string{"proxied push failed to send: " + st.String()}
		}
		if !vt.WaitUntilFor(5*time.Second, func() bool { be.mu.Lock(); defer be.mu.Unlock(); return len(be.pushes) >= 2 }) {
			be.mu.Lock()
			n := len(be.pushes)
			be.mu.Unlock()
			return []string{fmt.Sprintf("the backend received %d of 2 pushes (direct + proxied)", n)}
		}
		time.Sleep(200 * time.Microsecond)
		be.mu.Lock()
		ps := append([]c19Seen(nil), be.pushes...)
		be.mu.Unlock()
		if len(ps) != 2 {
			return []string{fmt.Sprintf("the backend received %d pushes for one direct and one proxied push", len(ps))}
		}
		d, p := ps[0], ps[1]
		if !bytes.Equal(d.Body, p.Body) || d.Method != p.Method || d.Codec != p.Codec {
			failf("proxied push differs from the direct push at the backend: direct {%s %x codec %d} proxied {%s %x codec %d}", d.Method, d.Body, d.Codec, p.Method, p.Body, p.Codec)
		}
		if a, b := metaWithout(d.Meta, erpc.MetaRealIP), metaWithout(p.Meta, erpc.MetaRealIP); strings.Join(a, "&") != strings.Join(b, "&") {
			failf("proxied push metadata differs: direct %v proxied %v", a, b)
		}
		var pushIPs []string
		for _, kv := range p.Meta {
			if kv.K == erpc.MetaRealIP {
				pushIPs = append(pushIPs, kv.V)
			}
		}
		wantPushIP := c.RealIP
		if wantPushIP == "" {
			wantPushIP = c2p.B.RemoteAddr().String()
		}
		if len(pushIPs) != 1 || pushIPs[0] != wantPushIP {
			failf("backend saw real-IP metadata %v on the proxied push, want exactly [%s]", pushIPs, wantPushIP)
		}
		if m := checkLabel(); m != "" {
			failf("%s", m)
		}
		return fails
	}

	// ---- calls ---------------------------------------------------------------------
	dres, msg := doCall(direct.A, c)
	if msg != "" {
		return []string{msg}
	}
	be.mu.Lock()
	if len(be.calls) != 1 {
		be.mu.Unlock()
		return []string{"direct call did not reach the backend exactly once"}
	}
	dseen := be.calls[0]
	be.calls = nil
	be.mu.Unlock()

	switch c.Failure {
	case "down-before":
		p2b.A.Close()
		vt.WaitClosed(p2b.A.CloseNotify())
	case "write-fails":
		// the proxy's connection to the backend is half-broken: sending fails with an
		// I/O error while the session still looks healthy
		p2b.Pair.FailWrites(vt.AtoB, errors.New("write: broken pipe"))
	case "dies-during":
		be.mu.Lock()
		be.entered, be.gate = make(chan struct{}), make(chan struct{})
		entered, gate := be.entered, be.gate
		be.mu.Unlock()
		go func() {
			if vt.WaitClosed(entered) {
				p2b.Pair.Cut()
				time.Sleep(100 * time.Microsecond)
			}
			close(gate)
		}()
	}
	pres, msg := doCall(c2p.A, c)
	if msg != "" {
		return []string{msg}
	}
	if c.Failure != "" {
		if pres.Status.Code != erpc.CodeBadGateway {
			failf("backend connection failure (%s): the proxied call completed with %+v, want Bad Gateway (502)", c.Failure, pres.Status)
		}
		// that call only: restore the backend session; the next proxied call succeeds, other sessions are unaffected
		be.mu.Lock()
		be.calls = nil
		be.mu.Unlock()
		p2b2 := w.Connect(prox, backend, proto, nil)
		if p2b2.A == nil {
			return append(fails, "reconnect failed")
		}
		cur.Lock()
		cur.sess = p2b2.A
		cur.Unlock()
		for name, s := range map[string]erpc.Session{"same session": c2p.A, "another session": other.A} {
			r, msg := doCall(s, c)
			if msg != "" {
				return append(fails, msg)
			}
			if r.Status != dres.Status || !bytes.Equal(r.Body, dres.Body) {
				failf("after the backend was restored a proxied call on %s gives %+v / %x, the direct call gave %+v / %x", name, r.Status, r.Body, dres.Status, dres.Body)
			}
		}
		return fails
	}
	be.mu.Lock()
	pcalls := append([]c19Seen(nil), be.calls...)
	be.mu.Unlock()
	if len(pcalls) != 1 {
		failf("the proxied call reached the backend %d times, want exactly once", len(pcalls))
		return fails
	}
	pseen := pcalls[0]
	// what the backend saw
	if pseen.Method != dseen.Method || !bytes.Equal(pseen.Body, dseen.Body) {
		failf("backend saw method/body {%s %x} via the proxy, {%s %x} directly", pseen.Method, pseen.Body, dseen.Method, dseen.Body)
	}
	if pseen.Codec != dseen.Codec {
		failf("backend saw body codec %q via the proxy, %q directly (caller used %q, proxy default %s)", pseen.Codec, dseen.Codec, c.Codec, c.ProxyCode)
	}
	if a, b := metaWithout(dseen.Meta, erpc.MetaRealIP), metaWithout(pseen.Meta, erpc.MetaRealIP); strings.Join(a, "&") != strings.Join(b, "&") {
		failf("backend saw request metadata %v via the proxy, %v directly", b, a)
	}
	var realIPs []string
	for _, kv := range pseen.Meta {
		if kv.K == erpc.MetaRealIP {
			realIPs = append(realIPs, kv.V)
		}
	}
	wantIP := c.RealIP
	if wantIP == "" {
		wantIP = c2p.B.RemoteAddr().String()
	}
	if len(realIPs) != 1 || realIPs[0] != wantIP {
		failf("backend saw real-IP metadata %v via the proxy, want exactly [%s]", realIPs, wantIP)
	}
	if m := checkLabel(); m != "" {
		failf("%s", m)
	}
	// what the caller sees
	if pres.Status != dres.Status {
		failf("status via the proxy %+v, directly %+v", pres.Status, dres.Status)
	}
	if !bytes.Equal(pres.Body, dres.Body) {
		failf("result body via the proxy %s, directly %s", vt.Hex(pres.Body), vt.Hex(dres.Body))
	}
	if pres.Status.Code == 0 && pres.Codec != dres.Codec {
		failf("reply body codec via the proxy %q, directly %q", pres.Codec, dres.Codec)
	}
	var dk, pk []string
	for k, v := range dres.RepMeta {
		dk = append(dk, k+"="+v)
	}
	for k, v := range pres.RepMeta {
		pk = append(pk, k+"="+v)
	}
	sort.Strings(dk)
	sort.Strings(pk)
	if strings.Join(dk, "&") != strings.Join(pk, "&") {
		failf("reply metadata via the proxy %v, directly %v", pk, dk)
	}
	return fails
}

const ruleC19 = "the same generated request (method, body bytes, body codec incl. ones different from the proxy peer's default, request metadata with repeated keys, real-IP metadata present/absent, accept-body-codec hint, optional transfer-filter pipe on the request and filters added by the backend to its reply) is sent to a backend directly and through a peer running the proxy plugin (on which the caller's session keeps its default id or was renamed with SetID, as an auth hook does); the backend's unknown-handler returns generated body bytes / reply codec / reply metadata / status (any code outside the framework-reserved 100-199); pushes likewise; backend failures: session closed before the call, connection cut while the backend handler is gated, sending to the backend fails with an I/O error while its session still looks healthy; oracle (differential): caller-visible status triple, body bytes, reply codec and reply metadata (key -> one value) equal for both paths; backend saw the same method, body, codec and metadata exactly once plus real-IP = the original caller's address iff absent, and the forwarder function's label names the caller's session id, that real IP and the method; a backend connection failure gives 502 on that call only (next proxied call on the same and on another session equals the direct result); non-trivial = non-default codec, repeated/special metadata, non-OK status or a failure; distinct by case"

func TestC19Proxy(t *testing.T) {
	rec := vt.NewRec(t, "C19", "proxy", ruleC19)
	protos := vt.StreamProtos()
	rapid.Check(t, func(t *rapid.T) {
		c := genC19(t, protos)
		nt := c.Code != 0 || c.Failure != "" || len(c.ReqMeta) > 1 || c.Codec != 'j' || c.RepCodec != 0
		rec.Case(fmt.Sprintf("%+v", c), nt, "kind="+c.Kind, "failure="+c.Failure, fmt.Sprintf("nonok=%v", c.Code != 0))
		if rec.WantSample() && nt {
			rec.Sample(map[string]interface{}{"proto": c.Proto, "kind": c.Kind, "method": c.Method, "codec": string(c.Codec), "proxy_default_codec": c.ProxyCode, "req_meta": c.ReqMeta, "real_ip": c.RealIP, "status_code": c.Code, "failure": c.Failure, "body": vt.Hex(c.Body)})
		}
		if fails := runC19(c, protos); len(fails) > 0 {
			t.Fatalf("C19 violated (%d findings), first: %s\ncase: %+v", len(fails), fails[0], c)
		}
	})
}
