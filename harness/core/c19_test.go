package core

import (
	"bytes"
	"errors"
	"fmt"
	"sort"
	"strings"
	"sync"
	"testing"
	"time"

	erpc "github.com/henrylee2cn/erpc/v6"
	"github.com/henrylee2cn/erpc/v6/plugin/proxy"
	"pgregory.net/rapid"

	"verifharness/vt"
)

type c19Case struct {
	Proto     string
	Kind      string // call | push
	Method    string
	Body      []byte
	Codec     byte
	ReqMeta   []vt.KV
	RealIP    string // "" = absent
	Accept    byte   // X-Accept-Body-Codec (0 = absent)
	RepBody   []byte
	RepCodec  byte // 0 = leave to the framework
	RepMeta   []vt.KV
	Code      int32 // backend status (0 = OK)
	Msg       string
	Cause     string
	Failure   string // "" | down-before | dies-during
	ProxyCode string // default body codec of the proxy peer
	Pipe      []byte // transfer-filter pipe of the caller's message (hop by hop: it ends at the proxy)
	RepPipe   []byte // filters the backend adds to its reply
	Renamed   string // the caller's session on the proxy was given this id (as an auth hook does); "" = default id
}

type c19Seen struct {
	Method string
	Body   []byte
	Codec  byte
	Meta   []vt.KV
}

type c19Gate struct{ entered, gate chan struct{} }

// c19Backend: every request of a case has its own service method, so plans and observations are
// kept per method (requests of one case run one after the other or concurrently).
type c19Backend struct {
	mu     sync.Mutex
	calls  map[string][]c19Seen
	pushes map[string][]c19Seen
	plans  map[string]c19Case
	gates  map[string]*c19Gate
}

func newC19Backend() *c19Backend {
	return &c19Backend{calls: map[string][]c19Seen{}, pushes: map[string][]c19Seen{}, plans: map[string]c19Case{}, gates: map[string]*c19Gate{}}
}

func (b *c19Backend) see(ctx interface {
	ServiceMethod() string
	InputBodyBytes() []byte
	GetBodyCodec() byte
	VisitMeta(func(k, v []byte))
}) c19Seen {
	s := c19Seen{Method: ctx.ServiceMethod(), Body: append([]byte(nil), ctx.InputBodyBytes()...), Codec: ctx.GetBodyCodec()}
	ctx.VisitMeta(func(k, v []byte) { s.Meta = append(s.Meta, vt.KV{K: string(k), V: string(v)}) })
	return s
}

func (b *c19Backend) seenCalls(method string) []c19Seen {
	b.mu.Lock()
	defer b.mu.Unlock()
	return append([]c19Seen(nil), b.calls[method]...)
}

func (b *c19Backend) seenPushes(method string) []c19Seen {
	b.mu.Lock()
	defer b.mu.Unlock()
	return append([]c19Seen(nil), b.pushes[method]...)
}

func (b *c19Backend) call(ctx erpc.UnknownCallCtx) (interface{}, *erpc.Status) {
	seen := b.see(ctx)
	b.mu.Lock()
	b.calls[seen.Method] = append(b.calls[seen.Method], seen)
	p := b.plans[seen.Method]
	g := b.gates[seen.Method]
	delete(b.gates, seen.Method)
	b.mu.Unlock()
	if g != nil {
		close(g.entered)
		<-g.gate
	}
	for _, kv := range p.RepMeta {
		ctx.SetMeta(kv.K, kv.V)
	}
	if p.RepCodec != 0 {
		ctx.SetBodyCodec(p.RepCodec)
	}
	if len(p.RepPipe) > 0 {
		ctx.AddXferPipe(p.RepPipe...)
	}
	if p.Code != 0 {
		return nil, erpc.NewStatus(p.Code, p.Msg, p.Cause)
	}
	return append([]byte(nil), p.RepBody...), nil
}

func (b *c19Backend) push(ctx erpc.UnknownPushCtx) *erpc.Status {
	seen := b.see(ctx)
	b.mu.Lock()
	b.pushes[seen.Method] = append(b.pushes[seen.Method], seen)
	b.mu.Unlock()
	return nil
}

// c19Seq is one case: a history of 1-8 steps over the same backend / proxy / caller peers (one
// process: the framework's pools are shared by all of them). A step is one request pair (call or
// push, possibly with a backend failure) or 2-4 call pairs issued by concurrent callers.
type c19Seq struct {
	Steps [][]c19Case
}

func genC19MetaValue(t *rapid.T, label string) string {
	switch rapid.IntRange(0, 9).Draw(t, label+".class") {
	case 0, 1, 2, 3:
		return "" // an empty value is a value
	case 4:
		return string(rapid.SliceOfN(rapid.ByteRange('a', 'z'), 1, 3).Draw(t, label+".short"))
	case 5, 6:
		n := rapid.IntRange(8, 40).Draw(t, label+".longlen")
		return string(rapid.SliceOfN(rapid.ByteRange('0', '9'), n, n).Draw(t, label+".long"))
	default:
		return string(vt.Bytes(t, label, 20))
	}
}

func genC19Seq(t *rapid.T, protos []vt.NamedProto) c19Seq {
	shared := c19Case{Proto: rapid.SampledFrom(protos).Draw(t, "proto").Name}
	shared.ProxyCode = rapid.SampledFrom([]string{"json", "plain", "xml"}).Draw(t, "proxycodec")
	shared.Renamed = rapid.SampledFrom([]string{"", "", "user-42", "10.9.8.7:65"}).Draw(t, "renamed")
	var q c19Seq
	nsteps := rapid.SampledFrom([]int{1, 1, 2, 3, 4, 5, 6, 8}).Draw(t, "steps")
	concurrent := rapid.Bool().Draw(t, "concurrentcase")
	for i := 0; i < nsteps; i++ {
		callers := 1
		if concurrent && rapid.IntRange(0, 2).Draw(t, "burst") != 0 {
			callers = rapid.IntRange(2, 4).Draw(t, "callers")
		}
		var step []c19Case
		for j := 0; j < callers; j++ {
			c := genC19(t, shared)
			c.Method += fmt.Sprintf("/q%d_%d", i, j)
			if callers > 1 {
				c.Kind, c.Failure = "call", ""
			}
			step = append(step, c)
		}
		q.Steps = append(q.Steps, step)
	}
	return q
}

func genC19(t *rapid.T, shared c19Case) c19Case {
	c := c19Case{Proto: shared.Proto, ProxyCode: shared.ProxyCode, Renamed: shared.Renamed}
	c.Kind = rapid.SampledFrom([]string{"call", "call", "call", "push"}).Draw(t, "kind")
	c.Method = rapid.StringMatching(`/[a-z]{1,8}(/[a-z0-9_]{1,8}){0,2}`).Draw(t, "method")
	c.Codec = rapid.SampledFrom([]byte{'j', 's', 'p', 'f', 'x'}).Draw(t, "codec")
	c.Body = vt.Bytes(t, "body", 300)
	if rapid.IntRange(0, 2).Draw(t, "haspipe") == 0 {
		c.Pipe = rapid.SliceOfN(rapid.SampledFrom(vt.RegisteredXfer), 1, 2).Draw(t, "pipe")
	}
	if rapid.IntRange(0, 3).Draw(t, "hasreppipe") == 0 {
		c.RepPipe = rapid.SliceOfN(rapid.SampledFrom(vt.RegisteredXfer), 1, 2).Draw(t, "reppipe")
	}
	if c.Proto == "json" {
		// keep the JSON wire protocol's text domain out of this check
		c.Body = []byte(strings.ToValidUTF8(string(c.Body), "?"))
	}
	n := rapid.IntRange(0, 3).Draw(t, "nmeta")
	for i := 0; i < n; i++ {
		c.ReqMeta = append(c.ReqMeta, vt.KV{K: rapid.SampledFrom([]string{"Trace", "User", "Trace", "A-B"}).Draw(t, "mk"), V: genC19MetaValue(t, "mv")})
	}
	if rapid.Bool().Draw(t, "hasrealip") {
		c.RealIP = rapid.SampledFrom([]string{"1.2.3.4:5", "client-7"}).Draw(t, "realip")
	}
	if rapid.IntRange(0, 3).Draw(t, "hasaccept") == 0 {
		c.Accept = rapid.SampledFrom([]byte{'j', 's', 'x'}).Draw(t, "accept")
	}
	c.RepBody = vt.Bytes(t, "repbody", 300)
	if c.Proto == "json" {
		c.RepBody = []byte(strings.ToValidUTF8(string(c.RepBody), "?"))
	}
	if rapid.IntRange(0, 2).Draw(t, "hasrepcodec") == 0 {
		c.RepCodec = rapid.SampledFrom([]byte{'j', 's', 'x', 'f'}).Draw(t, "repcodec")
	}
	// reply metadata: few keys, so that consecutive replies carry the same keys at the same
	// positions with values of other lengths (empty ones included); the handler sets them with
	// SetMeta, i.e. a repeated key keeps its last value (one value per key)
	n = rapid.SampledFrom([]int{0, 1, 2, 2, 3, 3, 4}).Draw(t, "nrepmeta")
	for i := 0; i < n; i++ {
		c.RepMeta = append(c.RepMeta, vt.KV{K: rapid.SampledFrom([]string{"Server", "Cost", "Node", "Server"}).Draw(t, "rk"), V: genC19MetaValue(t, "rv")})
	}
	if rapid.IntRange(0, 2).Draw(t, "nonok") == 0 {
		// handler statuses: the range [100,199] is reserved by the framework for the sending peer's own errors
		for {
			c.Code = vt.StatusCode(t, "code")
			if c.Code != 0 && !(c.Code >= 100 && c.Code <= 199) {
				break
			}
		}
		c.Msg = string(vt.Bytes(t, "msg", 40))
		c.Cause = string(vt.Bytes(t, "cause", 40))
	}
	c.Failure = rapid.SampledFrom([]string{"", "", "", "", "", "", "down-before", "dies-during", "write-fails"}).Draw(t, "failure")
	return c
}

type c19Result struct {
	Status  vt.StatusTriple
	Body    []byte
	Codec   byte
	RepMeta map[string]string
}

func (c c19Case) settings(withRealIP bool) []erpc.MessageSetting {
	s := []erpc.MessageSetting{erpc.WithBodyCodec(c.Codec)}
	for _, kv := range c.ReqMeta {
		s = append(s, erpc.WithAddMeta(kv.K, kv.V))
	}
	if c.RealIP != "" {
		s = append(s, erpc.WithRealIP(c.RealIP))
	}
	if c.Accept != 0 {
		s = append(s, erpc.WithAcceptBodyCodec(c.Accept))
	}
	if len(c.Pipe) > 0 {
		s = append(s, erpc.WithXferPipe(c.Pipe...))
	}
	return s
}

func doCall(sess erpc.Session, c c19Case) (c19Result, string) {
	var out []byte
	cmd := sess.AsyncCall(c.Method, append([]byte(nil), c.Body...), &out, make(chan erpc.CallCmd, 1), c.settings(true)...)
	if !vt.WaitClosed(cmd.Done()) {
		return c19Result{}, vt.Hang("completion of the call")
	}
	r := c19Result{Status: vt.TripleOf(cmd.Status()), Body: out, Codec: cmd.InputBodyCodec(), RepMeta: map[string]string{}}
	if m := cmd.InputMeta(); m != nil {
		m.VisitAll(func(k, v []byte) { r.RepMeta[string(k)] = string(v) })
	}
	return r, ""
}

func metaWithout(kvs []vt.KV, drop string) []string {
	var out []string
	for _, kv := range kvs {
		if kv.K != drop {
			out = append(out, kv.K+"="+kv.V)
		}
	}
	return out
}

// c19World: the peers and sessions one history runs over.
type c19World struct {
	w                       *vt.World
	proto                   vt.NamedProto
	be                      *c19Backend
	backend, prox, caller   erpc.Peer
	direct, p2b, c2p, other *vt.Link
	cur                     struct {
		sync.Mutex
		sess   erpc.Session
		labels []proxy.Label
	}
}

func newC19World(shared c19Case, protos []vt.NamedProto) (*c19World, string) {
	x := &c19World{w: vt.NewWorld(), proto: protoByName(protos, shared.Proto), be: newC19Backend()}
	x.backend = x.w.Peer(erpc.PeerConfig{})
	x.backend.SetUnknownCall(x.be.call)
	x.backend.SetUnknownPush(x.be.push)
	x.prox = x.w.Peer(erpc.PeerConfig{DefaultBodyCodec: shared.ProxyCode}, proxy.NewPlugin(func(l *proxy.Label) proxy.Forwarder {
		x.cur.Lock()
		defer x.cur.Unlock()
		// the label is read while the forwarder function runs (its strings are copied: what a label
		// kept beyond the request reads later is not part of the property)
		x.cur.labels = append(x.cur.labels, proxy.Label{SessionID: strings.Clone(l.SessionID), RealIP: strings.Clone(l.RealIP), ServiceMethod: strings.Clone(l.ServiceMethod)})
		return x.cur.sess
	}))
	x.caller = x.w.Peer(erpc.PeerConfig{})
	x.direct = x.w.Connect(x.caller, x.backend, x.proto, nil)
	x.p2b = x.w.Connect(x.prox, x.backend, x.proto, nil)
	x.c2p = x.w.Connect(x.caller, x.prox, x.proto, nil)
	x.other = x.w.Connect(x.caller, x.prox, x.proto, nil) // another session of the proxy
	for _, l := range []*vt.Link{x.direct, x.p2b, x.c2p, x.other} {
		if l.A == nil || l.B == nil {
			x.w.Close()
			return nil, "connect failed"
		}
	}
	x.cur.sess = x.p2b.A
	if shared.Renamed != "" {
		x.c2p.B.SetID(shared.Renamed)
	}
	return x, ""
}

func (x *c19World) wantIP(c c19Case, via *vt.Link) string {
	if c.RealIP != "" {
		return c.RealIP
	}
	return via.B.RemoteAddr().String()
}

// checkLabel: what the forwarder function is told about the request: who asks (session id),
// from where (the same real IP the backend is told) and for what.
func (x *c19World) checkLabel(c c19Case, via *vt.Link) string {
	x.cur.Lock()
	defer x.cur.Unlock()
	wantIP := x.wantIP(c, via)
	for _, l := range x.cur.labels {
		if l.ServiceMethod != c.Method {
			continue
		}
		if l.SessionID != via.B.ID() || l.RealIP != wantIP {
			return fmt.Sprintf("the forwarder function was given label %+v, want {SessionID:%s RealIP:%s ServiceMethod:%s}", l, via.B.ID(), wantIP, c.Method)
		}
	}
	return ""
}

// compareCall is the differential oracle for one call pair: what the backend saw and what the caller got.
func (x *c19World) compareCall(c c19Case, via *vt.Link, dres, pres c19Result, dseen, pseen c19Seen, failf func(format string, a ...interface{})) {
	// what the backend saw
	if pseen.Method != dseen.Method || !bytes.Equal(pseen.Body, dseen.Body) {
		failf("backend saw method/body {%s %x} via the proxy, {%s %x} directly", pseen.Method, pseen.Body, dseen.Method, dseen.Body)
	}
	if pseen.Codec != dseen.Codec {
		failf("backend saw body codec %q via the proxy, %q directly (caller used %q, proxy default %s)", pseen.Codec, dseen.Codec, c.Codec, c.ProxyCode)
	}
	if a, b := metaWithout(dseen.Meta, erpc.MetaRealIP), metaWithout(pseen.Meta, erpc.MetaRealIP); strings.Join(a, "&") != strings.Join(b, "&") {
		failf("backend saw request metadata %q via the proxy, %q directly", b, a)
	}
	var realIPs []string
	for _, kv := range pseen.Meta {
		if kv.K == erpc.MetaRealIP {
			realIPs = append(realIPs, kv.V)
		}
	}
	if wantIP := x.wantIP(c, via); len(realIPs) != 1 || realIPs[0] != wantIP {
		failf("backend saw real-IP metadata %v via the proxy, want exactly [%s]", realIPs, wantIP)
	}
	if m := x.checkLabel(c, via); m != "" {
		failf("%s", m)
	}
	// what the caller sees
	if pres.Status != dres.Status {
		failf("status via the proxy %+v, directly %+v", pres.Status, dres.Status)
	}
	if !bytes.Equal(pres.Body, dres.Body) {
		failf("result body via the proxy %s, directly %s", vt.Hex(pres.Body), vt.Hex(dres.Body))
	}
	if pres.Status.Code == 0 && pres.Codec != dres.Codec {
		failf("reply body codec via the proxy %q, directly %q", pres.Codec, dres.Codec)
	}
	// reply metadata as key -> one value (an empty value is a value): both paths equal (what the
	// backend handler set is only printed)
	want := map[string]string{}
	for _, kv := range c.RepMeta {
		want[kv.K] = kv.V
	}
	render := func(m map[string]string) string {
		var ks []string
		for k, v := range m {
			ks = append(ks, fmt.Sprintf("%q=%q", k, v))
		}
		sort.Strings(ks)
		return strings.Join(ks, " & ")
	}
	if d, p := render(dres.RepMeta), render(pres.RepMeta); d != p {
		failf("reply metadata via the proxy {%s}, directly {%s} (the backend's handler set {%s})", p, d, render(want))
	}
}

// step runs one request pair (direct, then through the proxy) with the full oracle, including backend failures.
func (x *c19World) step(c c19Case) []string {
	var fails []string
	failf := func(format string, a ...interface{}) { fails = append(fails, fmt.Sprintf(format, a...)) }
	be, direct, c2p, other := x.be, x.direct, x.c2p, x.other
	be.mu.Lock()
	be.plans[c.Method] = c
	be.mu.Unlock()

	if c.Kind == "push" {
		if st := direct.A.Push(c.Method, append([]byte(nil), c.Body...), c.settings(true)...); !st.OK() {
			return []string{"direct push failed: " + st.String()}
		}
		// the direct push has arrived before the proxied one is sent: pushes[0] is the direct one
		if !vt.WaitUntilFor(5*time.Second, func() bool { return len(be.seenPushes(c.Method)) >= 1 }) {
			return []string{"the direct push did not reach the backend"}
		}
		if st := c2p.A.Push(c.Method, append([]byte(nil), c.Body...), c.settings(true)...); !st.OK() {
			return []string{"proxied push failed to send: " + st.String()}
		}
		if !vt.WaitUntilFor(5*time.Second, func() bool { return len(be.seenPushes(c.Method)) >= 2 }) {
			return []string{fmt.Sprintf("the backend received %d of 2 pushes (direct + proxied)", len(be.seenPushes(c.Method)))}
		}
		time.Sleep(200 * time.Microsecond)
		ps := be.seenPushes(c.Method)
		if len(ps) != 2 {
			return []string{fmt.Sprintf("the backend received %d pushes for one direct and one proxied push", len(ps))}
		}
		d, p := ps[0], ps[1]
		if !bytes.Equal(d.Body, p.Body) || d.Method != p.Method || d.Codec != p.Codec {
			failf("proxied push differs from the direct push at the backend: direct {%s %x codec %d} proxied {%s %x codec %d}", d.Method, d.Body, d.Codec, p.Method, p.Body, p.Codec)
		}
		if a, b := metaWithout(d.Meta, erpc.MetaRealIP), metaWithout(p.Meta, erpc.MetaRealIP); strings.Join(a, "&") != strings.Join(b, "&") {
			failf("proxied push metadata differs: direct %q proxied %q", a, b)
		}
		var pushIPs []string
		for _, kv := range p.Meta {
			if kv.K == erpc.MetaRealIP {
				pushIPs = append(pushIPs, kv.V)
			}
		}
		if wantPushIP := x.wantIP(c, c2p); len(pushIPs) != 1 || pushIPs[0] != wantPushIP {
			failf("backend saw real-IP metadata %v on the proxied push, want exactly [%s]", pushIPs, wantPushIP)
		}
		if m := x.checkLabel(c, c2p); m != "" {
			failf("%s", m)
		}
		return fails
	}

	// ---- calls ---------------------------------------------------------------------
	dres, msg := doCall(direct.A, c)
	if msg != "" {
		return []string{msg}
	}
	dcalls := be.seenCalls(c.Method)
	if len(dcalls) != 1 {
		return []string{"direct call did not reach the backend exactly once"}
	}
	dseen := dcalls[0]

	p2b := x.p2b
	switch c.Failure {
	case "down-before":
		p2b.A.Close()
		vt.WaitClosed(p2b.A.CloseNotify())
	case "write-fails":
		// the proxy's connection to the backend is half-broken: sending fails with an
		// I/O error while the session still looks healthy
		p2b.Pair.FailWrites(vt.AtoB, errors.New("write: broken pipe"))
	case "dies-during":
		g := &c19Gate{entered: make(chan struct{}), gate: make(chan struct{})}
		be.mu.Lock()
		be.gates[c.Method] = g
		be.mu.Unlock()
		go func() {
			if vt.WaitClosed(g.entered) {
				p2b.Pair.Cut()
				time.Sleep(100 * time.Microsecond)
			}
			close(g.gate)
		}()
	}
	pres, msg := doCall(c2p.A, c)
	if msg != "" {
		return []string{msg}
	}
	if c.Failure != "" {
		if pres.Status.Code != erpc.CodeBadGateway {
			failf("backend connection failure (%s): the proxied call completed with %+v, want Bad Gateway (502)", c.Failure, pres.Status)
		}
		// that call only: restore the backend session; the next proxied call succeeds, other sessions are unaffected
		be.mu.Lock()
		delete(be.gates, c.Method)
		be.mu.Unlock()
		p2b2 := x.w.Connect(x.prox, x.backend, x.proto, nil)
		if p2b2.A == nil {
			return append(fails, "reconnect failed")
		}
		x.cur.Lock()
		x.cur.sess = p2b2.A
		x.cur.Unlock()
		x.p2b = p2b2
		for _, s := range []struct {
			name string
			sess erpc.Session
		}{{"same session", c2p.A}, {"another session", other.A}} {
			r, msg := doCall(s.sess, c)
			if msg != "" {
				return append(fails, msg)
			}
			if r.Status != dres.Status || !bytes.Equal(r.Body, dres.Body) {
				failf("after the backend was restored a proxied call on %s gives %+v / %x, the direct call gave %+v / %x", s.name, r.Status, r.Body, dres.Status, dres.Body)
			}
		}
		return fails
	}
	pcalls := be.seenCalls(c.Method)
	if len(pcalls) != 2 {
		failf("the proxied call reached the backend %d times, want exactly once", len(pcalls)-1)
		return fails
	}
	x.compareCall(c, c2p, dres, pres, dseen, pcalls[1], failf)
	return fails
}

// burst runs the call pairs of several callers concurrently (each caller: direct, then through
// the proxy; callers alternate between the two sessions on the proxy peer).
func (x *c19World) burst(cs []c19Case) []string {
	type outcome struct {
		dres, pres c19Result
		msg        string
	}
	outs := make([]outcome, len(cs))
	x.be.mu.Lock()
	for _, c := range cs {
		x.be.plans[c.Method] = c
	}
	x.be.mu.Unlock()
	via := func(j int) *vt.Link {
		if j%2 == 1 {
			return x.other
		}
		return x.c2p
	}
	var wg sync.WaitGroup
	for j := range cs {
		wg.Add(1)
		go func(j int) {
			defer wg.Done()
			o := &outs[j]
			if o.dres, o.msg = doCall(x.direct.A, cs[j]); o.msg != "" {
				return
			}
			o.pres, o.msg = doCall(via(j).A, cs[j])
		}(j)
	}
	wg.Wait()
	var fails []string
	for j, c := range cs {
		failf := func(format string, a ...interface{}) {
			fails = append(fails, fmt.Sprintf("caller %d of %d concurrent ones (%s): ", j, len(cs), c.Method)+fmt.Sprintf(format, a...))
		}
		if outs[j].msg != "" {
			return append(fails, outs[j].msg)
		}
		seen := x.be.seenCalls(c.Method)
		if len(seen) != 2 {
			failf("a direct and a proxied call reached the backend %d times, want exactly twice", len(seen))
			continue
		}
		x.compareCall(c, via(j), outs[j].dres, outs[j].pres, seen[0], seen[1], failf)
	}
	return fails
}

func runC19(q c19Seq, protos []vt.NamedProto) []string {
	vt.Init()
	x, msg := newC19World(q.Steps[0][0], protos)
	if msg != "" {
		return []string{msg}
	}
	defer x.w.Close()
	for i, st := range q.Steps {
		var fails []string
		if len(st) == 1 {
			fails = x.step(st[0])
		} else {
			fails = x.burst(st)
		}
		if len(fails) > 0 {
			for k := range fails {
				fails[k] = fmt.Sprintf("step %d of %d: %s", i, len(q.Steps), fails[k])
			}
			return fails
		}
	}
	return nil
}

const ruleC19 = "a HISTORY of 1-8 steps over the same backend / proxy / caller peers and sessions (one process, shared pools); a step is one request pair or, in half of the cases, 2-4 call pairs issued by concurrent callers over the two sessions of the proxy peer; a request pair = the same generated request (own service method, body bytes, body codec incl. ones different from the proxy peer's default, request metadata with repeated keys and empty values, real-IP metadata present/absent, accept-body-codec hint, optional transfer-filter pipe on the request and filters added by the backend to its reply) sent to a backend directly and through a peer running the proxy plugin (on which the caller's session keeps its default id or was renamed with SetID, as an auth hook does); the backend's unknown-handler returns generated body bytes / reply codec / reply metadata (0-4 entries over three keys set with SetMeta - a repeated key keeps one value -, values empty, short, long or arbitrary bytes, so consecutive replies carry other lengths at the same position) / status (any code outside the framework-reserved 100-199); pushes likewise; backend failures inside a history: session closed before the call, connection cut while the backend handler is gated, sending to the backend fails with an I/O error while its session still looks healthy (the backend session is then replaced and the history goes on); oracle (differential, per pair): caller-visible status triple, body bytes, reply codec and reply metadata (key -> one value, an empty value is a value) equal for both paths; backend saw the same method, body, codec and metadata exactly once plus real-IP = the original caller's address iff absent, and the forwarder function's label names the caller's session id, that real IP and the method; a backend connection failure gives 502 on that call only (next proxied call on the same and on another session equals the direct result); non-trivial = >=2 steps, or non-default codec, repeated/special metadata, non-OK status or a failure; distinct by case"

func TestC19Proxy(t *testing.T) {
	rec := vt.NewRec(t, "C19", "proxy", ruleC19)
	protos := vt.StreamProtos()
	rapid.Check(t, func(t *rapid.T) {
		q := genC19Seq(t, protos)
		nt := len(q.Steps) > 1
		classes := []string{fmt.Sprintf("steps=%d", len(q.Steps))}
		burst, emptyRep, emptyReq := false, false, false
		var kinds []string
		for _, st := range q.Steps {
			burst = burst || len(st) > 1
			for _, c := range st {
				nt = nt || c.Code != 0 || c.Failure != "" || len(c.ReqMeta) > 1 || c.Codec != 'j' || c.RepCodec != 0
				classes = append(classes, "kind="+c.Kind, "failure="+c.Failure, fmt.Sprintf("nonok=%v", c.Code != 0))
				kinds = append(kinds, c.Kind+":"+c.Failure)
				for _, kv := range c.RepMeta {
					emptyRep = emptyRep || kv.V == ""
				}
				for _, kv := range c.ReqMeta {
					emptyReq = emptyReq || kv.V == ""
				}
			}
		}
		classes = append(classes, fmt.Sprintf("concurrent-callers=%v", burst), fmt.Sprintf("empty-reply-meta-value=%v", emptyRep), fmt.Sprintf("empty-request-meta-value=%v", emptyReq))
		rec.Case(fmt.Sprintf("%+v", q), nt, classes...)
		if rec.WantSample() && nt {
			c := q.Steps[0][0]
			rec.Sample(map[string]interface{}{"proto": c.Proto, "steps": kinds, "concurrent_callers": burst, "first_step": map[string]interface{}{"kind": c.Kind, "method": c.Method, "codec": string(c.Codec), "proxy_default_codec": c.ProxyCode, "req_meta": c.ReqMeta, "rep_meta": c.RepMeta, "real_ip": c.RealIP, "status_code": c.Code, "failure": c.Failure, "body": vt.Hex(c.Body)}})
		}
		if fails := runC19(q, protos); len(fails) > 0 {
			t.Fatalf("C19 violated (%d findings), first: %s\ncase: %+v", len(fails), fails[0], q)
		}
	})
}
