package core

import (
	"fmt"
	"strings"
	"testing"

	erpc "github.com/henrylee2cn/erpc/v6"
	"github.com/henrylee2cn/erpc/v6/socket"
	"pgregory.net/rapid"

	"verifharness/vt"
)

// TestC02Oversize: calls whose request frame exceeds a configured message size limit. Such a
// call cannot be sent; it still is a call: it completes exactly once, with an error status,
// and leaves nothing behind that keeps the session from closing.
func TestC02Oversize(t *testing.T) {
	rec := vt.NewRec(t, "C02", "oversize", "a calling session (raw / json / protobuf protocol) under a process-wide message size limit of 2 / 8 / 64 KiB (socket.SetMessageSizeLimit); 1-6 AsyncCalls and pushes whose arguments are small or larger than the limit, in a generated order; a scripted remote end answers every request frame it receives; oracle: AsyncCall always returns a command; every command completes exactly once within the liveness bound - a call whose frame fits with its own reply, a call whose argument exceeds the limit with a non-OK status and without having been written; a push that exceeds the limit returns a non-OK status; afterwards a graceful Close of the session returns; non-trivial = at least one oversized call; distinct by case")
	protos := vt.StreamProtos()
	rapid.Check(t, func(t *rapid.T) {
		vt.Init()
		limit := rapid.SampledFrom([]int{2 << 10, 8 << 10, 64 << 10}).Draw(t, "limit")
		proto := rapid.SampledFrom(protos).Draw(t, "proto")
		n := rapid.IntRange(1, 6).Draw(t, "nops")
		type op struct {
			Push bool
			Big  bool
		}
		ops := make([]op, n)
		nbig := 0
		for i := range ops {
			ops[i] = op{Push: rapid.IntRange(0, 3).Draw(t, "push") == 0, Big: rapid.Bool().Draw(t, "big")}
			if ops[i].Big && !ops[i].Push {
				nbig++
			}
		}
		vt.Journal("C02", map[string]interface{}{"sub": "oversize", "limit": limit, "proto": proto.Name, "ops": ops})
		socket.SetMessageSizeLimit(uint32(limit))
		defer socket.SetMessageSizeLimit(0)

		w := vt.NewWorld()
		defer w.Close()
		cli := w.Peer(erpc.PeerConfig{})
		pair := vt.NewPair()
		sess, stat := cli.ServeConn(pair.A, proto.Fn)
		if !stat.OK() {
			t.Fatalf("harness: ServeConn: %v", stat)
		}
		raw := vt.NewRawPeer(pair, pair.B, proto.Fn)
		defer raw.Close()
		// the scripted end answers every CALL frame it gets
		stop := make(chan struct{})
		defer close(stop)
		go func() {
			answered := 0
			for {
				select {
				case <-stop:
					return
				default:
				}
				if !raw.WaitFor(func(fr []vt.RawFrame) bool { return len(fr) > answered }) || raw.EOF() {
					return
				}
				frames := raw.Frames()
				for ; answered < len(frames); answered++ {
					f := frames[answered]
					if f.Mtype == erpc.TypeCall {
						rid := ""
						for _, kv := range f.Meta {
							if kv.K == "Rid" {
								rid = kv.V
							}
						}
						raw.Send(vt.Msg{Seq: f.Seq, Mtype: erpc.TypeReply, Method: f.Method, Codec: 'j', Body: []byte(fmt.Sprintf(`{"Rid":%q,"Val":"reply-%s"}`, rid, rid))})
					}
				}
			}
		}()
		big := strings.Repeat("B", limit+100)
		cmds := make([]erpc.CallCmd, n)
		results := make([]*LibRes, n)
		for i, o := range ops {
			rid := fmt.Sprintf("o%d", i)
			arg := &LibArg{Rid: rid, Val: "small"}
			if o.Big {
				arg.Val = big
			}
			if o.Push {
				var st *erpc.Status
				if !vt.Returns(func() { st = sess.Push("/remote/note", arg, erpc.WithAddMeta("Rid", rid)) }) {
					t.Fatalf("C02 violated: %s", vt.Hang("return of a push"))
				}
				if o.Big && st.OK() {
					t.Fatalf("C02 violated: a push larger than the message size limit (%d) returned OK", limit)
				}
				if !o.Big && !st.OK() {
					t.Fatalf("C02 violated: a small push failed: %v (after an oversized message?)", st)
				}
				continue
			}
			results[i] = new(LibRes)
			i := i
			if !vt.Returns(func() {
				cmds[i] = sess.AsyncCall("/remote/do", arg, results[i], make(chan erpc.CallCmd, 1), erpc.WithAddMeta("Rid", rid))
			}) {
				t.Fatalf("C02 violated: %s", vt.Hang("return of AsyncCall"))
			}
			if cmds[i] == nil {
				t.Fatalf("C02 violated: AsyncCall returned no command for a call whose argument (%d bytes) exceeds the message size limit %d over the %s protocol: the call can never complete", len(arg.Val), limit, proto.Name)
			}
		}
		for i, c := range cmds {
			if c == nil {
				continue
			}
			if !vt.WaitClosed(c.Done()) {
				t.Fatalf("C02 violated: call %d (oversized=%v) never completed; %s", i, ops[i].Big, vt.Hang("its done signal"))
			}
			if ops[i].Big {
				if c.StatusOK() {
					t.Fatalf("C02 violated: call %d, larger than the message size limit, completed OK", i)
				}
				continue
			}
			if !c.StatusOK() || results[i].Val != fmt.Sprintf("reply-o%d", i) {
				t.Fatalf("C02 violated: call %d (fits the limit) completed with %v %+v, want its own reply", i, c.Status(), *results[i])
			}
		}
		for _, f := range raw.Frames() {
			if len(f.Body) > limit {
				t.Fatalf("C02 violated: a frame larger than the limit was written")
			}
		}
		if !vt.Returns(func() { sess.Close() }) {
			t.Fatalf("C02 violated: %s", vt.Hang("return of Close after every call completed (oversized calls: "+fmt.Sprint(nbig)+")"))
		}
		rec.Case(fmt.Sprintf("%d|%s|%+v", limit, proto.Name, ops), nbig > 0, "proto="+proto.Name, fmt.Sprintf("limit=%d", limit))
		if rec.WantSample() && nbig > 0 {
			rec.Sample(map[string]interface{}{"limit": limit, "proto": proto.Name, "ops": fmt.Sprintf("%+v", ops)})
		}
	})
}
