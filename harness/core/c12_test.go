package core

import (
	"fmt"
	"strings"
	"sync"
	"testing"

	erpc "github.com/henrylee2cn/erpc/v6"
	"pgregory.net/rapid"

	"verifharness/vt"
)

// C12 end to end: "a reply to a call is sent through the caller's pipe" - whatever kind of
// reply it is: the handler's result, the handler's status, or a reply the framework writes
// itself (unknown route, undecodable body, plugin veto).

type c12PipeSeen struct {
	mu    sync.Mutex
	pipes map[int32]string // seq -> pipe ids announced by the reply frame
}

func (p *c12PipeSeen) Name() string { return "c12pipeseen" }
func (p *c12PipeSeen) PostReadReplyHeader(ctx erpc.ReadCtx) *erpc.Status {
	p.mu.Lock()
	p.pipes[ctx.Seq()] = string(ctx.Input().XferPipe().IDs())
	p.mu.Unlock()
	return nil
}

func C12Do(ctx erpc.CallCtx, a *LibArg) (*LibRes, *erpc.Status) {
	switch a.Act {
	case "err":
		return nil, erpc.NewStatus(4242, "no", "because")
	case "addpipe":
		ctx.AddXferPipe(vt.XMd5)
	}
	return &LibRes{Rid: a.Rid, Val: a.Val}, nil
}

func TestC12ReplyPipe(t *testing.T) {
	rec := vt.NewRec(t, "C12", "reply-pipe", "one session (raw / json / protobuf protocol, and the websocket sub-protocols, which filter the body only); 1-5 sequential calls, each with a generated pipe over the registered filters (length 0-3, repeats) and a cause in {handler result, handler status, handler adding a filter to the reply, unknown route, undecodable body, pre-handler plugin veto}; a calling-side hook records the pipe every reply frame announces; oracle: it equals the caller's pipe (followed by what the handler added), the call outcome is the one of its cause, and the result is intact; non-trivial = a non-empty pipe and a reply that is not the handler's plain result; distinct by case")
	protos := append(vt.StreamProtos(), vt.WsSubProtos()...)
	rapid.Check(t, func(t *rapid.T) {
		vt.Init()
		newLib()
		proto := rapid.SampledFrom(protos).Draw(t, "proto")
		n := rapid.IntRange(1, 5).Draw(t, "calls")
		type op struct {
			Pipe  []byte
			Cause string
		}
		ops := make([]op, n)
		nt := false
		for i := range ops {
			ops[i] = op{Pipe: rapid.SliceOfN(rapid.SampledFrom(vt.RegisteredXfer), 0, 3).Draw(t, "pipe"),
				Cause: rapid.SampledFrom([]string{"ok", "ok", "err", "addpipe", "unknown", "badbody", "veto"}).Draw(t, "cause")}
			if len(ops[i].Pipe) > 0 && ops[i].Cause != "ok" {
				nt = true
			}
		}
		rec.Case(fmt.Sprintf("%s|%v", proto.Name, ops), nt, "proto="+proto.Name)
		if rec.WantSample() && nt {
			rec.Sample(map[string]interface{}{"proto": proto.Name, "ops": ops})
		}
		w := vt.NewWorld()
		defer w.Close()
		seen := &c12PipeSeen{pipes: map[int32]string{}}
		srv := w.Peer(erpc.PeerConfig{}, &vetoPlugin{name: "veto"})
		cli := w.Peer(erpc.PeerConfig{}, seen)
		route := srv.RouteCallFunc(C12Do)
		var l *vt.Link
		if strings.HasPrefix(proto.Name, "ws-") {
			var err error
			if l, err = w.ConnectWS(cli, srv, proto, nil); err != nil {
				t.Fatalf("ws connect: %v", err)
			}
		} else {
			l = w.Connect(cli, srv, proto, nil)
		}
		if l.A == nil || l.B == nil {
			t.Fatalf("connect failed")
		}
		for i, o := range ops {
			settings := []erpc.MessageSetting{erpc.WithBodyCodec('j')}
			if len(o.Pipe) > 0 {
				settings = append(settings, erpc.WithXferPipe(o.Pipe...))
			}
			r := route
			var arg interface{} = &LibArg{Rid: fmt.Sprintf("c%d", i), Act: o.Cause, Val: "v"}
			wantCode := int32(0)
			switch o.Cause {
			case "err":
				wantCode = 4242
			case "unknown":
				r, wantCode = route+"/nope", 404
			case "badbody":
				arg, wantCode = []byte(`{"Rid": [`), 400
			case "veto":
				settings = append(settings, erpc.WithAddMeta("Veto", "PreReadCallBody"), erpc.WithAddMeta("Vcode", "777"))
				wantCode = 777
			}
			res := new(LibRes)
			cmd := l.A.AsyncCall(r, arg, res, make(chan erpc.CallCmd, 1), settings...)
			if !vt.WaitClosed(cmd.Done()) {
				t.Fatalf("%s", vt.Hang("completion of the call"))
			}
			tag := fmt.Sprintf("call %d (%s, pipe %q, cause %s)", i, proto.Name, o.Pipe, o.Cause)
			// (the websocket protobuf sub-protocol has no status field - a listed finding of C04/C05 -
			// so the status is not compared there; the pipe is)
			if got := cmd.Status().Code(); got != wantCode && proto.Name != "ws-pb" {
				t.Fatalf("C12 violated: %s completed with %v, want code %d", tag, cmd.Status(), wantCode)
			}
			if wantCode == 0 && cmd.StatusOK() && (res.Rid != fmt.Sprintf("c%d", i) || res.Val != "v") {
				t.Fatalf("C12 violated: %s: result %+v is not what the handler returned", tag, *res)
			}
			seen.mu.Lock()
			got, ok := seen.pipes[cmd.Output().Seq()]
			seen.mu.Unlock()
			want := string(o.Pipe)
			if o.Cause == "addpipe" {
				want += string([]byte{vt.XMd5})
			}
			if !ok {
				t.Fatalf("C12 violated: %s: no reply frame was seen by the calling side's hook", tag)
			}
			if got != want {
				t.Fatalf("C12 violated: %s: the reply came through pipe %q, the caller's pipe is %q", tag, got, want)
			}
		}
	})
}
