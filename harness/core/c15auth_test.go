package core

import (
	"fmt"
	"net"
	"strings"
	"sync"
	"time"

	erpc "github.com/henrylee2cn/erpc/v6"
	"github.com/henrylee2cn/erpc/v6/plugin/auth"
	"github.com/henrylee2cn/erpc/v6/socket"
	"pgregory.net/rapid"

	"verifharness/vt"
)

// Steps of the C15 histories in which the other side of an authentication exchange hangs up:
// a peer guarded by the auth checker plugin whose client goes away before / inside / right after
// its AUTH_CALL, and a peer dialling with the bearer plugin whose server goes away at the same
// points. The step name drawn from c15Steps is "auth-hangup"; refineC15Steps attaches the
// generated parameters to it ("auth-hangup|side|when|how|transport|pct|variant").

const c15AuthHangup = "auth-hangup"

type c15AuthStep struct {
	Side      string // checker: the serving peer runs auth.NewCheckerPlugin, the client misbehaves | bearer: the dialling peer runs auth.NewBearerPlugin, the server misbehaves
	When      string // before-anything | partial-frame | full-frame (the whole AUTH_CALL is on the wire, the hang-up comes before the reply is read / written)
	How       string // close (orderly shutdown: the reader sees a clean EOF) | reset (TCP RST: the reader sees a connection error)
	Transport string // mem | tcp
	Pct       int    // where a partial frame ends (percent of the frame)
	Variant   string // what the checker / bearer function does
}

var c15CheckerVariants = []string{"recv-accept", "recv-accept", "recv-reject", "recv-twice", "recv-twice-own-status", "no-recv-accept", "no-recv-reject", "recv-late"}
var c15BearerVariants = []string{"send-once", "send-once", "send-twice", "send-twice-own-status", "no-send"}

func genC15AuthStep(t *rapid.T) c15AuthStep {
	s := c15AuthStep{
		Side: rapid.SampledFrom([]string{"checker", "checker", "bearer"}).Draw(t, "auth.side"),
		When: rapid.SampledFrom([]string{"before-anything", "partial-frame", "full-frame"}).Draw(t, "auth.when"),
		How:  rapid.SampledFrom([]string{"close", "close", "reset"}).Draw(t, "auth.how"),
		Pct:  rapid.IntRange(0, 100).Draw(t, "auth.pct"),
	}
	if s.Side == "checker" {
		s.Variant = rapid.SampledFrom(c15CheckerVariants).Draw(t, "auth.checker")
		s.Transport = rapid.SampledFrom([]string{"mem", "tcp"}).Draw(t, "auth.transport")
		if s.How == "reset" {
			s.Transport = "tcp" // (the in-memory transport has no reset)
		}
	} else {
		s.Variant = rapid.SampledFrom(c15BearerVariants).Draw(t, "auth.bearer")
		s.Transport = "tcp" // Dial needs a real listener
	}
	return s
}

func (s c15AuthStep) name() string {
	return fmt.Sprintf("%s|%s|%s|%s|%s|%d|%s", c15AuthHangup, s.Side, s.When, s.How, s.Transport, s.Pct, s.Variant)
}

func parseC15AuthStep(name string) (c15AuthStep, bool) {
	f := strings.Split(name, "|")
	if len(f) != 7 || f[0] != c15AuthHangup {
		return c15AuthStep{}, false
	}
	s := c15AuthStep{Side: f[1], When: f[2], How: f[3], Transport: f[4], Variant: f[6]}
	fmt.Sscanf(f[5], "%d", &s.Pct)
	return s, true
}

// refineC15Steps draws the parameters of the parameterised steps of a history.
func refineC15Steps(t *rapid.T, steps []string) []string {
	out := make([]string, len(steps))
	for i, s := range steps {
		if s == c15AuthHangup {
			s = genC15AuthStep(t).name()
		}
		out[i] = s
	}
	return out
}

// c15StepClass is the step's name without its numeric parameter (evidence classes).
func c15StepClass(name string) string {
	if s, ok := parseC15AuthStep(name); ok {
		return fmt.Sprintf("%s|%s|%s|%s|%s", c15AuthHangup, s.Side, s.When, s.How, s.Variant)
	}
	return name
}

func c15PartialLen(frameLen, pct int) int {
	if frameLen < 2 {
		return frameLen
	}
	n := 1 + pct*(frameLen-2)/100
	if n >= frameLen {
		n = frameLen - 1
	}
	return n
}

func c15HangUp(c net.Conn, how string) {
	if tc, ok := c.(*net.TCPConn); ok && how == "reset" {
		tc.SetLinger(0)
	}
	c.Close()
}

func (x *c15World) packFrame(m vt.Msg) []byte {
	wrw := &vt.RW{}
	x.proto.Fn(wrw).Pack(m.Build())
	return wrw.Written()
}

func (x *c15World) authHangupStep(s c15AuthStep) {
	if s.Side == "bearer" {
		x.bearerHangup(s)
		return
	}
	x.checkerHangup(s)
}

// checkerHangup: a peer with the auth checker plugin serves a connection whose client hangs up.
func (x *c15World) checkerHangup(s c15AuthStep) {
	var late struct {
		sync.Mutex
		recv auth.RecvOnce
	}
	checker := func(sess auth.Session, recv auth.RecvOnce) (interface{}, *erpc.Status) {
		var cred string
		switch s.Variant {
		case "recv-accept":
			if st := recv(&cred); !st.OK() {
				return nil, st
			}
			return "welcome", nil
		case "recv-reject":
			if st := recv(&cred); !st.OK() {
				return nil, st
			}
			return nil, erpc.NewStatus(erpc.CodeUnauthorized, erpc.CodeText(erpc.CodeUnauthorized), "no")
		case "recv-twice":
			// a checker that asks twice and reports whatever the second attempt said
			recv(&cred)
			return nil, recv(&cred)
		case "recv-twice-own-status":
			// ... or finishes the status of the second attempt in its own words
			recv(&cred)
			if st := recv(&cred); !st.OK() {
				return nil, erpc.NewStatus(st.Code(), st.Msg(), "the checker asked twice")
			}
			return "welcome", nil
		case "no-recv-reject":
			return nil, erpc.NewStatus(erpc.CodeUnauthorized, erpc.CodeText(erpc.CodeUnauthorized), "nobody gets in")
		case "recv-late":
			// keeps the receive function and uses it when the accept phase is over
			late.Lock()
			late.recv = recv
			late.Unlock()
			return "welcome", nil
		default: // no-recv-accept
			return "welcome", nil
		}
	}
	p := x.w.Peer(erpc.PeerConfig{}, auth.NewCheckerPlugin(checker, erpc.WithBodyCodec('s')))
	registerLib(p)
	frame := x.packFrame(vt.Msg{Seq: 1, Mtype: erpc.TypeAuthCall, Codec: 's', Body: []byte("credentials")})
	var payload []byte
	switch s.When {
	case "partial-frame":
		payload = frame[:c15PartialLen(len(frame), s.Pct)]
	case "full-frame":
		payload = frame
	}
	served := make(chan struct{})
	var sess erpc.Session
	if s.Transport == "mem" {
		pair := vt.NewPair()
		go func() {
			defer close(served)
			sess, _ = p.ServeConn(pair.B, x.proto.Fn)
		}()
		if len(payload) > 0 {
			pair.A.Write(payload)
		}
		pair.A.Close()
		defer pair.Cut()
	} else {
		ln, err := net.Listen("tcp", "127.0.0.1:0")
		if err != nil {
			return
		}
		defer ln.Close()
		go func() {
			defer close(served)
			c, err := ln.Accept()
			if err != nil {
				return
			}
			sess, _ = p.ServeConn(c, x.proto.Fn)
		}()
		c, err := net.DialTimeout("tcp", ln.Addr().String(), 2*time.Second)
		if err != nil {
			ln.Close()
			vt.WaitClosed(served)
			return
		}
		if len(payload) > 0 {
			c.Write(payload)
		}
		c15HangUp(c, s.How)
	}
	if !vt.WaitClosed(served) {
		return
	}
	if sess != nil {
		vt.WaitClosed(sess.CloseNotify())
	}
	late.Lock()
	recv := late.recv
	late.Unlock()
	if recv != nil {
		var cred string
		vt.Returns(func() { recv(&cred) })
	}
}

// bearerHangup: a peer with the bearer plugin dials a scripted server that hangs up.
func (x *c15World) bearerHangup(s c15AuthStep) {
	ln, err := net.Listen("tcp", "127.0.0.1:0")
	if err != nil {
		return
	}
	defer ln.Close()
	scripted := make(chan struct{})
	go func() {
		defer close(scripted)
		c, err := ln.Accept()
		if err != nil {
			return
		}
		if s.When != "before-anything" && s.Variant != "no-send" { // (a bearer that never sends gives the server nothing to read)
			// read the AUTH_CALL through the protocol
			c.SetReadDeadline(time.Now().Add(vt.LivenessBound))
			sock := socket.NewSocket(c, x.proto.Fn)
			m := vt.NewReceiver()
			if err := sock.ReadMessage(m); err == nil && s.When == "partial-frame" {
				reply := x.packFrame(vt.Msg{Seq: m.Seq(), Mtype: erpc.TypeAuthReply, Codec: 's', Body: []byte("welcome, but the line is about to drop")})
				c.Write(reply[:c15PartialLen(len(reply), s.Pct)])
			}
		}
		c15HangUp(c, s.How)
	}()
	bearer := func(sess auth.Session, send auth.SendOnce) *erpc.Status {
		var ret string
		switch s.Variant {
		case "send-twice":
			send("credentials", &ret)
			return send("credentials", &ret)
		case "send-twice-own-status":
			send("credentials", &ret)
			if st := send("credentials", &ret); !st.OK() {
				return erpc.NewStatus(st.Code(), st.Msg(), "the bearer asked twice")
			}
			return nil
		case "no-send":
			return nil
		default:
			return send("credentials", &ret)
		}
	}
	p := x.w.Peer(erpc.PeerConfig{DialTimeout: 2 * time.Second}, auth.NewBearerPlugin(bearer, erpc.WithBodyCodec('s')))
	var sess erpc.Session
	vt.Returns(func() { sess, _ = p.Dial(ln.Addr().String(), x.proto.Fn) })
	vt.WaitClosed(scripted)
	if sess != nil {
		// (the bearer that never sent: the session exists until it reads the hang-up)
		vt.WaitClosed(sess.CloseNotify())
		vt.Returns(func() { sess.Call(x.route, &LibArg{Rid: "after-hangup", Act: "ret"}, new(LibRes)) })
	}
}
