package core

import (
	"encoding/json"
	"fmt"
	"sync/atomic"
	"testing"
	"time"

	erpc "github.com/henrylee2cn/erpc/v6"
	"pgregory.net/rapid"

	"verifharness/vt"
)

// The checks of this file run on a process whose goroutine pool was configured small with the
// documented knob erpc.SetGopool: the reader of every session occupies one pooled goroutine and
// every handler that has not returned another, so messages arrive while no goroutine is free.
// Each test function is registered as its own run (its own process).

func libBody(rid, act string) []byte {
	b, _ := json.Marshal(LibArg{Rid: rid, Act: act, Val: "v" + rid})
	return b
}

type poolSess struct {
	pair   *vt.Pair
	sess   erpc.Session
	raw    *vt.RawPeer
	ncalls int
	rels   []func()
}

// runPoolServer: a serving peer on a small pool receives bursts of well-formed frames whose
// handlers are gated; then each session ends in a generated way. It returns the findings.
func runPoolServer(t *rapid.T, prop string, ends []string) (fails []string, canon string, busy bool) {
	vt.Init()
	pool := rapid.SampledFrom([]int{2, 3, 3, 4, 6}).Draw(t, "pool")
	erpc.SetGopool(pool, time.Minute)
	defer erpc.SetGopool(0, 0)
	s := newLib()
	w := vt.NewWorld()
	defer w.Close()
	disc := &discRecorder{count: map[interface{}]int{}}
	srv := w.Peer(erpc.PeerConfig{}, disc)
	callRoute, pushRoute := registerLib(srv)
	proto := rapid.SampledFrom(vt.StreamProtos()).Draw(t, "proto")
	failf := func(format string, a ...interface{}) { fails = append(fails, fmt.Sprintf(format, a...)) }

	nsess := rapid.IntRange(1, min(3, pool-1)).Draw(t, "nsess")
	var ss []*poolSess
	for i := 0; i < nsess; i++ {
		pair := vt.NewPair()
		var sess erpc.Session
		var stat *erpc.Status
		if !vt.Returns(func() { sess, stat = srv.ServeConn(pair.B, proto.Fn) }) {
			failf("%s", vt.Hang("ServeConn with a free pooled goroutine"))
			return fails, "", false
		}
		if !stat.OK() {
			failf("harness: ServeConn: %v", stat)
			return fails, "", false
		}
		ss = append(ss, &poolSess{pair: pair, sess: sess, raw: vt.NewRawPeer(pair, pair.A, proto.Fn)})
	}
	defer func() {
		for _, x := range ss {
			for _, r := range x.rels {
				r()
			}
			x.raw.Close()
		}
	}()
	call := func(x *poolSess, seq int32, rid, act string) {
		x.raw.Send(vt.Msg{Seq: seq, Mtype: erpc.TypeCall, Method: callRoute, Codec: 'j', Body: libBody(rid, act), Meta: []vt.KV{{K: "Rid", V: rid}}})
	}
	answered := func(x *poolSess, seq int32) bool {
		return x.raw.WaitFor(func(fr []vt.RawFrame) bool {
			for _, f := range fr {
				if f.Seq == seq && f.Mtype == erpc.TypeReply {
					return true
				}
			}
			return false
		}) && !x.raw.EOF()
	}
	// control call before
	call(ss[0], 1, "ctl-before", "ret")
	if !answered(ss[0], 1) {
		failf("control call before the burst was not answered")
		return fails, "", false
	}
	// the bursts
	gated := 0
	for i, x := range ss {
		k := rapid.IntRange(1, 12).Draw(t, "nframes")
		wrw := &vt.RW{}
		p := proto.Fn(wrw)
		for j := 0; j < k; j++ {
			rid := fmt.Sprintf("s%d-f%d", i, j)
			kind := rapid.SampledFrom([]string{"call-slow", "call-slow", "call-ret", "push"}).Draw(t, "kind")
			m := vt.Msg{Seq: int32(100 + j), Mtype: erpc.TypeCall, Method: callRoute, Codec: 'j', Meta: []vt.KV{{K: "Rid", V: rid}}}
			switch kind {
			case "call-slow":
				m.Body = libBody(rid, "slow")
				_, rel := s.Gate(rid)
				x.rels = append(x.rels, rel)
				x.ncalls++
				gated++
			case "call-ret":
				m.Body = libBody(rid, "ret")
				x.ncalls++
			case "push":
				m.Mtype, m.Method, m.Body = erpc.TypePush, pushRoute, libBody(rid, "ret")
			}
			if err := p.Pack(m.Build()); err != nil {
				failf("harness: pack: %v", err)
				return fails, "", false
			}
		}
		x.raw.SendBytes(wrw.Written())
	}
	busy = gated > pool-nsess
	relFirst := rapid.Bool().Draw(t, "release_before_end")
	release := func() {
		for _, x := range ss {
			for _, r := range x.rels {
				r()
			}
		}
	}
	if pause := rapid.SampledFrom([]int{0, 0, 100, 1000}).Draw(t, "pause_us"); pause > 0 {
		time.Sleep(time.Duration(pause) * time.Microsecond)
	}
	if relFirst {
		release()
	}
	// the end of every session but (possibly) the first
	keepFirst := nsess > 1 && rapid.Bool().Draw(t, "keep_first")
	how := make([]string, nsess)
	closers := make([]chan struct{}, nsess)
	for i, x := range ss {
		if i == 0 && keepFirst {
			how[i] = "kept"
			continue
		}
		how[i] = rapid.SampledFrom(ends).Draw(t, "end")
		switch how[i] {
		case "eof":
			x.raw.Close()
		case "cut":
			x.pair.Cut()
		case "garbage":
			x.raw.SendBytes([]byte{0xff, 0xff, 0xff, 0xf0, 0, 1, 2, 3})
			x.raw.Close()
		case "local-close":
			closers[i] = make(chan struct{})
			go func(x *poolSess, done chan struct{}) { x.sess.Close(); close(done) }(x, closers[i])
		}
	}
	if !relFirst {
		time.Sleep(200 * time.Microsecond)
		release()
	}
	// oracle
	for i, x := range ss {
		if how[i] == "kept" {
			continue
		}
		if how[i] == "local-close" {
			if !vt.WaitClosed(closers[i]) {
				failf("session %d: %s", i, vt.Hang("return of Close (all handlers released) on a peer with a pool of "+fmt.Sprint(pool)))
				continue
			}
		}
		if !vt.WaitClosed(x.sess.CloseNotify()) {
			failf("session %d (%s): %s", i, how[i], vt.Hang("close notification after the input was exhausted / the session was closed (pool of "+fmt.Sprint(pool)+")"))
			continue
		}
		if x.sess.Health() {
			failf("session %d (%s): healthy after its close notification", i, how[i])
		}
		if !vt.WaitUntil(func() bool { return disc.get(x.sess) >= 1 }) {
			failf("session %d (%s): the disconnect hook never ran", i, how[i])
		}
		if n := disc.get(x.sess); n > 1 {
			failf("session %d (%s): the disconnect hook ran %d times", i, how[i], n)
		}
		if _, ok := srv.GetSession(x.sess.ID()); ok {
			failf("session %d (%s): still listed after its end", i, how[i])
		}
		var st *erpc.Status
		if !vt.Returns(func() { st = x.sess.Push("/nowhere", "x") }) {
			failf("session %d (%s): %s", i, how[i], vt.Hang("return of a push on the ended session"))
		} else if st.Code() != erpc.CodeConnClosed {
			failf("session %d (%s): push on the ended session returned %v, want 102", i, how[i], st)
		}
	}
	if how[0] == "kept" {
		// every CALL of the kept session is answered exactly once, and it still works
		x := ss[0]
		ok := x.raw.WaitFor(func(fr []vt.RawFrame) bool { return countReplies(fr) >= x.ncalls+1 })
		if !ok || x.raw.EOF() {
			failf("kept session: %d of %d CALL frames answered (eof=%v) while other sessions of the peer ended", countReplies(x.raw.Frames())-1, x.ncalls, x.raw.EOF())
		}
		call(x, 9000, "ctl-after", "ret")
		if !answered(x, 9000) {
			failf("kept session: control call after the other sessions ended was not answered")
		}
		seen := map[int32]int{}
		for _, f := range x.raw.Frames() {
			if f.Mtype == erpc.TypeReply {
				seen[f.Seq]++
				if seen[f.Seq] > 1 {
					failf("kept session: seq %d answered %d times", f.Seq, seen[f.Seq])
				}
			}
		}
		if n := srv.CountSession(); n != 1 {
			failf("CountSession = %d, want 1 (the kept session)", n)
		}
	} else if n := srv.CountSession(); n != 0 {
		failf("CountSession = %d after every session ended", n)
	}
	// a new connection is served afterwards
	pair := vt.NewPair()
	var sess erpc.Session
	var stat *erpc.Status
	if !vt.Returns(func() { sess, stat = srv.ServeConn(pair.B, proto.Fn) }) {
		failf("%s", vt.Hang("ServeConn after the sessions ended (the pool must have free goroutines again)"))
		return fails, "", busy
	}
	if stat.OK() {
		x := &poolSess{pair: pair, sess: sess, raw: vt.NewRawPeer(pair, pair.A, proto.Fn)}
		ss = append(ss, x)
		call(x, 7, "ctl-new", "ret")
		if !answered(x, 7) {
			failf("a connection served after the bursts does not answer a call")
		}
	} else {
		failf("ServeConn after the bursts: %v", stat)
	}
	for _, rid := range []string{"ctl-before", "ctl-new"} {
		if n := s.Calls(rid); n != 1 {
			failf("control call %s handled %d times", rid, n)
		}
	}
	return fails, fmt.Sprintf("%d|%s|%d|%v|%v|%d", pool, proto.Name, nsess, how, relFirst, gated), busy
}

func TestC06SmallPool(t *testing.T) {
	rec := vt.NewRec(t, "C06", "small-pool", "a serving peer whose process-wide goroutine pool holds 2 / 3 / 4 / 6 goroutines (erpc.SetGopool) serves 1-3 raw connections (raw / json / protobuf protocol); each receives, in one write, 1-12 well-formed CALL / PUSH frames whose handlers are gated by the harness, so frames arrive while no goroutine is free; then the input of each connection ends (EOF, cut, or an over-limit garbage frame followed by EOF), before or after the handlers are released; oracle: the close notification of every such session fires within the liveness bound (reader not left blocked), the session is unhealthy, unlisted and its disconnect hook ran once; a session that was kept answers every CALL exactly once and a control call afterwards; a new connection is served and answers; non-trivial = more gated handlers than free goroutines; distinct by case")
	defer erpc.SetGopool(0, 0)
	rapid.Check(t, func(t *rapid.T) {
		fails, canon, busy := runPoolServer(t, "C06", []string{"eof", "eof", "cut", "garbage"})
		rec.Case(canon, busy, fmt.Sprintf("busy=%v", busy))
		if rec.WantSample() && busy {
			rec.Sample(canon)
		}
		if len(fails) > 0 {
			t.Fatalf("C06 violated (%d findings), first: %s\ncase: %s", len(fails), fails[0], canon)
		}
	})
}

func TestC07SmallPool(t *testing.T) {
	rec := vt.NewRec(t, "C07", "small-pool", "the lifecycle half of the small-pool scenario: serving peer on a goroutine pool of 2 / 3 / 4 / 6 (erpc.SetGopool), 1-3 sessions, bursts of 1-12 frames with gated handlers, then each session is closed locally (Close issued before or after the handlers are released), or loses its connection (EOF / cut); oracle: Close returns once the handlers are released, the close notification fires, the session is unhealthy, a push on it returns 102 at once, the disconnect hook ran exactly once, the index lists exactly the kept session; non-trivial = more gated handlers than free goroutines; distinct by case")
	defer erpc.SetGopool(0, 0)
	rapid.Check(t, func(t *rapid.T) {
		fails, canon, busy := runPoolServer(t, "C07", []string{"local-close", "local-close", "eof", "cut"})
		rec.Case(canon, busy, fmt.Sprintf("busy=%v", busy))
		if rec.WantSample() && busy {
			rec.Sample(canon)
		}
		if len(fails) > 0 {
			t.Fatalf("C07 violated (%d findings), first: %s\ncase: %s", len(fails), fails[0], canon)
		}
	})
}

// TestC02SmallPool: the calling side on a small pool. Its own handlers (serving calls of the
// remote end) hold the goroutines while the replies to its pending calls arrive.
func TestC02SmallPool(t *testing.T) {
	rec := vt.NewRec(t, "C02", "small-pool", "a calling session on a process whose goroutine pool holds 2 / 3 / 4 goroutines (erpc.SetGopool): 1-8 AsyncCalls are pending at a scripted remote end, which first sends 0-6 CALL frames to gated handlers of the calling peer (they hold the pooled goroutines) and then the replies, all in one write; afterwards the handlers are released and the connection is either kept or lost; oracle: every call completes exactly once within the liveness bound - with its own reply, or with a connection error if the connection ended first - and a graceful Close of the session returns; non-trivial = more gated handlers than free goroutines when the replies arrive; distinct by case")
	defer erpc.SetGopool(0, 0)
	protos := vt.StreamProtos()
	rapid.Check(t, func(t *rapid.T) {
		vt.Init()
		pool := rapid.SampledFrom([]int{2, 2, 3, 4}).Draw(t, "pool")
		erpc.SetGopool(pool, time.Minute)
		defer erpc.SetGopool(0, 0)
		s := newLib()
		w := vt.NewWorld()
		defer w.Close()
		cli := w.Peer(erpc.PeerConfig{})
		callRoute, _ := registerLib(cli)
		proto := rapid.SampledFrom(protos).Draw(t, "proto")
		pair := vt.NewPair()
		sess, stat := cli.ServeConn(pair.A, proto.Fn)
		if !stat.OK() {
			t.Fatalf("harness: ServeConn: %v", stat)
		}
		raw := vt.NewRawPeer(pair, pair.B, proto.Fn)
		defer raw.Close()
		n := rapid.IntRange(1, 8).Draw(t, "ncalls")
		nh := rapid.IntRange(0, 6).Draw(t, "nhandlers")
		end := rapid.SampledFrom([]string{"keep", "keep", "eof", "cut"}).Draw(t, "end")
		cmds := make([]erpc.CallCmd, n)
		results := make([]*LibRes, n)
		for i := range cmds {
			results[i] = new(LibRes)
			cmds[i] = sess.AsyncCall("/remote/do", &LibArg{Rid: fmt.Sprintf("c%d", i)}, results[i], make(chan erpc.CallCmd, 1))
		}
		if !raw.WaitFrames(n) {
			t.Fatalf("harness: the scripted end received %d of %d calls", len(raw.Frames()), n)
		}
		frames := raw.Frames()
		wrw := &vt.RW{}
		p := proto.Fn(wrw)
		var rels []func()
		for j := 0; j < nh; j++ {
			rid := fmt.Sprintf("h%d", j)
			_, rel := s.Gate(rid)
			rels = append(rels, rel)
			p.Pack(vt.Msg{Seq: int32(500 + j), Mtype: erpc.TypeCall, Method: callRoute, Codec: 'j', Body: libBody(rid, "slow"), Meta: []vt.KV{{K: "Rid", V: rid}}}.Build())
		}
		for i := 0; i < n; i++ {
			p.Pack(vt.Msg{Seq: frames[i].Seq, Mtype: erpc.TypeReply, Method: frames[i].Method, Codec: 'j', Body: []byte(fmt.Sprintf(`{"Rid":"c%d","Val":"reply-%d"}`, i, i))}.Build())
		}
		raw.SendBytes(wrw.Written())
		if pause := rapid.SampledFrom([]int{0, 100, 1000}).Draw(t, "pause_us"); pause > 0 {
			time.Sleep(time.Duration(pause) * time.Microsecond)
		}
		for _, r := range rels {
			r()
		}
		// all bytes delivered and every handler released: the replies have arrived
		if !raw.WaitFor(func(fr []vt.RawFrame) bool { return countReplies(fr) >= nh }) {
			t.Fatalf("C02 (C03) violated: %s", vt.Hang(fmt.Sprintf("replies of the calling peer's own handlers (%d of %d so far)", countReplies(raw.Frames()), nh)))
		}
		switch end {
		case "eof":
			raw.Close()
		case "cut":
			pair.Cut()
		}
		for i, c := range cmds {
			if !vt.WaitClosed(c.Done()) {
				t.Fatalf("C02 violated: call %d of %d never completed although its reply arrived (pool of %d, %d handlers of the calling peer were running); %s", i, n, pool, nh, vt.Hang("its done signal"))
			}
			if !c.StatusOK() {
				// the connection may end before the reader got to the reply
				if end == "keep" || !isConnErr(c.Status()) {
					t.Fatalf("C02 violated: call %d completed with %v (end of the connection: %s), want its reply%s", i, c.Status(), end, map[bool]string{true: "", false: " or a connection error"}[end == "keep"])
				}
				continue
			}
			if results[i].Val != fmt.Sprintf("reply-%d", i) {
				t.Fatalf("C02 violated: call %d completed OK with %+v, not its own reply", i, *results[i])
			}
		}
		if !vt.Returns(func() { sess.Close() }) {
			t.Fatalf("C02 violated: %s", vt.Hang("return of Close after every call completed"))
		}
		busy := nh > pool-1
		rec.Case(fmt.Sprintf("%d|%d|%d|%s|%s", pool, n, nh, end, proto.Name), busy, "end="+end, fmt.Sprintf("pool=%d", pool))
		if rec.WantSample() && busy {
			rec.Sample(map[string]interface{}{"pool": pool, "calls": n, "own_handlers": nh, "end": end, "proto": proto.Name})
		}
	})
}

// TestC13SmallPool: a redial that succeeds while every pooled goroutine is taken.
func TestC13SmallPool(t *testing.T) {
	rec := vt.NewRec(t, "C13", "small-pool", "a redial-enabled client session (loopback TCP, harness-owned listener) on a process whose goroutine pool holds 4-8 goroutines (erpc.SetGopool); application tasks started with erpc.Go take every goroutine that is or becomes free, then the connection is killed 1-3 times; the redial (hooks observed with isRedial=true) happens while the pool is exhausted; after a generated pause the tasks end; oracle: from then on calls on the same Session value succeed, its id is the user-assigned one, the index maps the id to it, the close notification has not fired; non-trivial = the pool was exhausted when the redial hook ran (measured); distinct by case")
	defer erpc.SetGopool(0, 0)
	rapid.Check(t, func(t *rapid.T) {
		vt.Init()
		pool := rapid.IntRange(4, 8).Draw(t, "pool")
		losses := rapid.IntRange(1, 3).Draw(t, "losses")
		hold := time.Duration(rapid.SampledFrom([]int{0, 1, 5, 20}).Draw(t, "hold_ms")) * time.Millisecond
		budget := rapid.SampledFrom([]int{3, 10, -1}).Draw(t, "budget")
		erpc.SetGopool(pool, time.Minute)
		defer erpc.SetGopool(0, 0)
		newLib()
		w := vt.NewWorld()
		defer w.Close()
		srv := w.Peer(erpc.PeerConfig{})
		callRoute, _ := registerLib(srv)
		ts := &tcpServer{peer: srv}
		if err := ts.listen(); err != nil {
			t.Skip("harness: no listener")
		}
		defer ts.down()
		dr := &dialRecorder{}
		cli := w.Peer(erpc.PeerConfig{RedialTimes: int32(budget), RedialInterval: 3 * time.Millisecond}, dr)
		sess, stat := cli.Dial(ts.addr)
		if !stat.OK() {
			t.Skip("harness: the first dial failed (no local port?): " + stat.String())
		}
		sess.SetID("user-id")
		okCall := func(tag string) {
			var res LibRes
			var st *erpc.Status
			if !vt.Returns(func() { st = sess.Call(callRoute, &LibArg{Rid: tag, Act: "ret", Val: "v"}, &res).Status() }) {
				t.Fatalf("C13 violated: %s", vt.Hang("completion of call "+tag+" (pool of "+fmt.Sprint(pool)+")"))
			}
			if !st.OK() || res.Val != "v" {
				t.Fatalf("C13 violated: call %s on the re-established session: %v %+v", tag, st, res)
			}
		}
		okCall("first")
		exhaustedAtRedial := 0
		for l := 0; l < losses; l++ {
			// application tasks take every goroutine that is free or becomes free
			stop := make(chan struct{})
			var held int32
			feederDone := make(chan struct{})
			go func() {
				defer close(feederDone)
				for {
					select {
					case <-stop:
						return
					default:
					}
					if erpc.Go(func() { atomic.AddInt32(&held, 1); <-stop }) {
						continue
					}
					time.Sleep(50 * time.Microsecond)
				}
			}()
			vt.WaitUntilFor(2*time.Second, func() bool { return !erpc.Go(func() {}) })
			before := atomic.LoadInt32(&dr.redials)
			ts.kill()
			if !vt.WaitUntil(func() bool { return atomic.LoadInt32(&dr.redials) > before }) {
				close(stop)
				t.Fatalf("C13 violated: %s", vt.Hang("redial hook after loss "+fmt.Sprint(l)))
			}
			if !erpc.Go(func() {}) {
				exhaustedAtRedial++
			}
			time.Sleep(hold)
			close(stop)
			<-feederDone
			// stabilised: the session works again
			if !vt.WaitUntil(sess.Health) {
				t.Fatalf("C13 violated: session not healthy after a successful redial")
			}
			okCall(fmt.Sprintf("after-%d-a", l))
			okCall(fmt.Sprintf("after-%d-b", l))
			if sess.ID() != "user-id" {
				t.Fatalf("C13 violated: id after redial = %q", sess.ID())
			}
			// (the redial publishes the session in the index as its last step: wait for that)
			if !vt.WaitUntil(func() bool { got, ok := cli.GetSession("user-id"); return ok && got == sess }) {
				t.Fatalf("C13 violated: the index does not map the user id to the session after the redial")
			}
			select {
			case <-sess.CloseNotify():
				t.Fatalf("C13 violated: close notification fired although the redial succeeded")
			default:
			}
		}
		// the client goes first: a redial-enabled session whose server is taken away under it
		// would go on redialing (and dial whoever gets the port next) after the case
		if !vt.Returns(func() { sess.Close() }) {
			t.Fatalf("C13 violated: %s", vt.Hang("return of Close on the re-established session"))
		}
		rec.Case(fmt.Sprintf("%d|%d|%v|%d", pool, losses, hold, budget), exhaustedAtRedial > 0, fmt.Sprintf("exhausted_at_redial=%d", exhaustedAtRedial))
		if rec.WantSample() && exhaustedAtRedial > 0 {
			rec.Sample(map[string]interface{}{"pool": pool, "losses": losses, "hold": hold.String(), "budget": budget, "redials_with_exhausted_pool": exhaustedAtRedial})
		}
	})
}
