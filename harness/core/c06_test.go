package core

import (
	"bytes"
	"encoding/binary"
	"fmt"
	"testing"
	"time"

	erpc "github.com/henrylee2cn/erpc/v6"
	"github.com/henrylee2cn/erpc/v6/socket"
	"pgregory.net/rapid"

	"verifharness/vt"
)

type c06Case struct {
	Proto    string
	Mode     string // server | client
	Limit    uint32
	PauseEOF bool     // the remote end closes only after the session had time to react to the input
	Chunks   [][]byte // hostile byte strings, written one after the other
	Pending  int      // client mode: number of calls pending while the bytes arrive
	ReadSch  []int
	Cycle    bool
}

func hostileBytes(t *rapid.T, proto vt.NamedProto, limit uint32) ([]byte, string) {
	cls := rapid.SampledFrom([]string{"random", "mutated", "truncated", "lenfield", "splice", "dup", "announce", "reply-seqs", "valid"}).Draw(t, "hclass")
	mk := func(m vt.Msg) []byte {
		wrw := &vt.RW{}
		if err := proto.Fn(wrw).Pack(m.Build()); err != nil {
			return nil
		}
		return wrw.Written()
	}
	valid := func() []byte {
		m := vt.Msg{Seq: int32(rapid.IntRange(-3, 12).Draw(t, "vseq")), Mtype: rapid.SampledFrom([]byte{1, 2, 3, 1, 2, 3, 4, 0, 9}).Draw(t, "vtype"),
			Method: rapid.SampledFrom([]string{"/lib_do", "/lib_note", "/nope", ""}).Draw(t, "vmethod"),
			Codec:  rapid.SampledFrom([]byte{'j', 'j', 0, 'q', 's'}).Draw(t, "vcodec"), Body: vt.Bytes(t, "vbody", 80)}
		if rapid.Bool().Draw(t, "vjson") {
			m.Body = []byte(`{"Rid":"h","Act":"ret","Val":"v"}`)
		}
		if rapid.IntRange(0, 3).Draw(t, "vstat") == 0 {
			m.HasStatus, m.Code, m.StatMsg = true, 4242, "x"
		}
		return mk(m)
	}
	switch cls {
	case "random":
		return vt.Bytes(t, "rnd", 300), cls
	case "valid":
		return valid(), cls
	case "mutated":
		f := valid()
		for i, n := 0, rapid.IntRange(1, 3).Draw(t, "nmut"); i < n && len(f) > 0; i++ {
			f[rapid.IntRange(0, len(f)-1).Draw(t, "mpos")] = rapid.Byte().Draw(t, "mbyte")
		}
		return f, cls
	case "truncated":
		f := valid()
		return f[:rapid.IntRange(0, len(f)).Draw(t, "cut")], cls
	case "lenfield":
		f := valid()
		if len(f) >= 4 {
			binary.BigEndian.PutUint32(f, rapid.SampledFrom([]uint32{0, 1, 4, 5, limit - 1, limit, limit + 1, 1 << 24, 1<<28 - 1, uint32(len(f)) - 1, uint32(len(f)) + 1, uint32(len(f)) - 4}).Draw(t, "lenval"))
		}
		return f, cls
	case "splice":
		a, b := valid(), valid()
		return append(append([]byte(nil), a[:rapid.IntRange(0, len(a)).Draw(t, "sa")]...), b[rapid.IntRange(0, len(b)).Draw(t, "sb"):]...), cls
	case "dup":
		f := valid()
		return append(append([]byte(nil), f...), f...), cls
	case "announce":
		f := make([]byte, 4)
		binary.BigEndian.PutUint32(f, rapid.SampledFrom([]uint32{limit + 1, 1 << 26, 1 << 28, 0xffffffff}).Draw(t, "announce"))
		return append(f, vt.Bytes(t, "tail", 40)...), cls
	default: // reply-seqs: replies with seqs inside and outside the pending range, duplicated
		var out []byte
		for i, n := 0, rapid.IntRange(1, 5).Draw(t, "nrep"); i < n; i++ {
			m := vt.Msg{Seq: int32(rapid.IntRange(-1, 8).Draw(t, "rseq")), Mtype: erpc.TypeReply, Codec: rapid.SampledFrom([]byte{'j', 0, 'q'}).Draw(t, "rcodec"),
				Body: []byte(rapid.SampledFrom([]string{`{"Rid":"x","Val":"y"}`, `{"Rid":[`, ``, `zzz`}).Draw(t, "rbody"))}
			out = append(out, mk(m)...)
		}
		return out, cls
	}
}

func genC06(t *rapid.T, protos []vt.NamedProto) (c06Case, []string) {
	c := c06Case{Proto: rapid.SampledFrom(protos).Draw(t, "proto").Name}
	c.Mode = rapid.SampledFrom([]string{"server", "server", "client"}).Draw(t, "mode")
	c.Limit = rapid.SampledFrom([]uint32{512, 4096, 65536, 1 << 20}).Draw(t, "limit")
	lim := c.Limit
	if lim == 0 {
		lim = 1 << 30
	}
	proto := protoByName(protos, c.Proto)
	var classes []string
	for i, n := 0, rapid.IntRange(1, 4).Draw(t, "nchunks"); i < n; i++ {
		b, cls := hostileBytes(t, proto, lim)
		c.Chunks = append(c.Chunks, b)
		classes = append(classes, cls)
	}
	c.Pending = rapid.IntRange(0, 4).Draw(t, "pending")
	c.PauseEOF = rapid.Bool().Draw(t, "pauseeof")
	c.ReadSch, c.Cycle = vt.Chunks(t, "chunks")
	return c, classes
}

func runC06(c c06Case, protos []vt.NamedProto) []string {
	vt.Init()
	socket.SetMessageSizeLimit(c.Limit)
	defer socket.SetMessageSizeLimit(0)
	newLib()
	proto := protoByName(protos, c.Proto)
	w := vt.NewWorld()
	defer w.Close()
	victim := w.Peer(erpc.PeerConfig{})
	other := w.Peer(erpc.PeerConfig{})
	callRoute, _ := registerLib(victim)
	registerLib(other)
	var fails []string
	failf := func(format string, a ...interface{}) { fails = append(fails, fmt.Sprintf(format, a...)) }

	// a control session on the same victim peer must keep working before, during and after
	ctl := w.Connect(other, victim, proto, nil)
	if ctl.A == nil || ctl.B == nil {
		return []string{"control connect failed"}
	}
	control := func(when string) {
		res := new(LibRes)
		cmd := ctl.A.AsyncCall(callRoute, &LibArg{Rid: "ctl-" + when, Act: "ret", Val: "ok"}, res, make(chan erpc.CallCmd, 1))
		if !vt.WaitClosed(cmd.Done()) {
			failf("control session: %s", vt.Hang("call "+when+" the hostile input"))
			return
		}
		if !cmd.StatusOK() || res.Val != "ok" {
			failf("control session call %s the hostile input failed: %v %+v", when, cmd.Status(), res)
		}
	}
	control("before")

	pair := vt.NewPair()
	pair.SetChunks(vt.AtoB, c.ReadSch, c.Cycle)
	sess, stat := victim.ServeConn(pair.B, proto.Fn)
	if !stat.OK() {
		return []string{"ServeConn: " + stat.String()}
	}
	// client mode: the victim has calls pending towards the hostile remote
	var cmds []erpc.CallCmd
	shared := make(chan erpc.CallCmd, c.Pending+1)
	if c.Mode == "client" {
		for i := 0; i < c.Pending; i++ {
			cmds = append(cmds, sess.AsyncCall("/remote", &LibArg{Rid: fmt.Sprintf("p%d", i)}, new(LibRes), shared))
		}
	}
	for i, b := range c.Chunks {
		if _, err := pair.A.Write(b); err != nil {
			break
		}
		if i == 0 {
			control("during")
		}
	}
	// input exhausted: EOF, at once or after the session had time to react to what it read
	if c.PauseEOF {
		vt.WaitUntilFor(2*time.Millisecond, func() bool { return !sess.Health() })
		time.Sleep(200 * time.Microsecond)
	}
	pair.A.Close()
	if !vt.WaitClosed(sess.CloseNotify()) {
		failf("%s", vt.Hang("close notification of the session after the input was exhausted and the remote closed"))
	}
	for i, cmd := range cmds {
		if !vt.WaitClosed(cmd.Done()) {
			failf("pending call %d: %s", i, vt.Hang("completion after the hostile input and EOF"))
			break
		}
	}
	if len(fails) == 0 {
		cnt := map[erpc.CallCmd]int{}
		for {
			select {
			case x := <-shared:
				cnt[x]++
				continue
			default:
			}
			break
		}
		for i, cmd := range cmds {
			if cnt[cmd] != 1 {
				failf("pending call %d delivered %d times to its completion channel", i, cnt[cmd])
			}
		}
	}
	closed := make(chan struct{})
	go func() { sess.Close(); close(closed) }()
	if !vt.WaitClosed(closed) {
		failf("%s", vt.Hang("Close of the session that received the hostile input"))
	}
	control("after")
	if _, ok := victim.GetSession(sess.ID()); ok {
		failf("the disconnected session is still listed by its peer")
	}
	return fails
}

const ruleC06s = "live session level: a real peer's session (serving side, or calling side with 0-4 pending calls) receives 1-4 generated hostile byte strings (random, valid frames of any type/route/codec, mutated, truncated, length-prefix boundaries, spliced, duplicated, bare over-limit announcements, reply storms with seqs inside/outside the pending range) under read limit {512,4096,65536,default} and a generated read chunking, then EOF; oracle: the process survives (a crash is reported from the journalled case), the session's close notification fires, every pending call completes exactly once, Close returns, the session leaves the index, and a control session on the same peer completes a call before, during and after; non-trivial = at least one chunk derived from a valid frame; distinct by case"

func TestC06Session(t *testing.T) {
	rec := vt.NewRec(t, "C06", "session", ruleC06s)
	protos := append(vt.StreamProtos(), vt.HTTPProto())
	rapid.Check(t, func(t *rapid.T) {
		c, classes := genC06(t, protos)
		nt := false
		for _, cl := range classes {
			rec.Class("chunk="+cl, 1)
			nt = nt || cl != "random"
		}
		rec.Case(fmt.Sprintf("%+v", c), nt, "proto="+c.Proto, "mode="+c.Mode, fmt.Sprintf("limit=%d", c.Limit))
		if rec.WantSample() && nt {
			var hx []string
			for _, b := range c.Chunks {
				hx = append(hx, vt.Hex(b))
			}
			rec.Sample(map[string]interface{}{"proto": c.Proto, "mode": c.Mode, "limit": c.Limit, "chunks": hx, "classes": classes, "pending": c.Pending})
		}
		vt.Journal("C06", c)
		if fails := runC06(c, protos); len(fails) > 0 {
			t.Fatalf("C06 violated (%d findings), first: %s\ncase: %+v", len(fails), fails[0], c)
		}
	})
}

// TestC06WebsocketControl: hostile websocket frames below the message layer. A control frame
// (ping / pong / close) announcing more than the 125 bytes the protocol allows is not buffered:
// whatever the peer does with it (ignore the excess, drop the connection), it neither echoes nor
// keeps the excess, and it stays usable or is cleanly disconnected.
func TestC06WebsocketControl(t *testing.T) {
	rec := vt.NewRec(t, "C06", "ws-control", "a raw websocket client (real handshake, frames written by the harness) sends a serving peer one control frame (ping / pong) or an unknown-opcode frame whose payload is 0 B .. 1 MiB (announced length = sent length, or announced 64 MiB with 1 KiB sent and then EOF), under a 4 KiB .. 64 KiB message size limit, optionally after a valid CALL; oracle: the server writes at most 125 payload bytes plus framing in response to the frame (it cannot echo what it did not buffer), the session is still functional (a CALL is answered) or cleanly disconnected (close notification, unlisted), a control session keeps working; non-trivial = payload > 125 bytes; distinct by case")
	subs := vt.WsSubProtos()
	rapid.Check(t, func(t *rapid.T) {
		vt.Init()
		newLib()
		sub := subs[0] // json sub-protocol: the harness packs its own CALL frames with it
		opcode := rapid.SampledFrom([]byte{0x9, 0x9, 0xA, 0xB, 0x3}).Draw(t, "opcode")
		size := rapid.SampledFrom([]int{0, 1, 125, 126, 4096, 70000, 1 << 20}).Draw(t, "size")
		short := rapid.IntRange(0, 4).Draw(t, "short") == 0 // announce 64 MiB, send 1 KiB, then EOF
		limit := rapid.SampledFrom([]uint32{4096, 65536}).Draw(t, "limit")
		callFirst := rapid.Bool().Draw(t, "callfirst")
		rec.Case(fmt.Sprintf("%x|%d|%v|%d|%v", opcode, size, short, limit, callFirst), size > 125 || short, fmt.Sprintf("opcode=%x", opcode), fmt.Sprintf("short=%v", short))
		if rec.WantSample() && (size > 125 || short) {
			rec.Sample(map[string]interface{}{"opcode": opcode, "payload_bytes": size, "announce_64MiB_send_1KiB": short, "limit": limit, "call_first": callFirst})
		}
		socket.SetMessageSizeLimit(limit)
		defer socket.SetMessageSizeLimit(0)
		w := vt.NewWorld()
		defer w.Close()
		srv, other := w.Peer(erpc.PeerConfig{}), w.Peer(erpc.PeerConfig{})
		callRoute, _ := registerLib(srv)
		ctl := w.Connect(other, srv, vt.StreamProtos()[0], nil)
		if ctl.A == nil {
			t.Fatalf("control connect failed")
		}
		raw, err := w.ConnectRawWS(srv, sub)
		if err != nil {
			t.Fatalf("websocket handshake: %v", err)
		}
		call := func(seq int32) bool {
			wrw := &vt.RW{}
			m := vt.Msg{Seq: seq, Mtype: erpc.TypeCall, Method: callRoute, Codec: 'j', Body: []byte(fmt.Sprintf(`{"Rid":"ws%d","Act":"ret","Val":"v"}`, seq))}
			if err := sub.Fn(wrw).Pack(m.Build()); err != nil {
				t.Fatalf("harness pack: %v", err)
			}
			before := raw.Pair.Written(vt.BtoA)
			if err := raw.WriteFrame(0x1, len(wrw.Written()), wrw.Written()); err != nil {
				return false
			}
			return vt.WaitUntilFor(2*time.Second, func() bool { return raw.Pair.Written(vt.BtoA) > before })
		}
		go func() { // drain what the server writes
			buf := make([]byte, 4096)
			for {
				if _, err := raw.Pair.A.Read(buf); err != nil {
					return
				}
			}
		}()
		if callFirst && !call(1) {
			t.Fatalf("C06 harness: a valid CALL over the raw websocket connection was not answered")
		}
		payload := bytes.Repeat([]byte{'P'}, size)
		announce := size
		if short {
			announce, payload = 64<<20, payload[:min(len(payload), 1024)]
		}
		before := raw.Pair.Written(vt.BtoA)
		raw.WriteFrame(opcode, announce, payload)
		if short {
			raw.Pair.A.Close()
		}
		time.Sleep(2 * time.Millisecond)
		vt.WaitUntilFor(500*time.Millisecond, func() bool { return raw.Pair.Delivered(vt.AtoB) == raw.Pair.Written(vt.AtoB) })
		time.Sleep(time.Millisecond)
		if echoed := raw.Pair.Written(vt.BtoA) - before; echoed > 125+16 {
			t.Fatalf("C06 violated: in response to a websocket control frame (opcode %#x) with %d payload bytes the server wrote %d bytes: it buffered and echoed more than the 125 bytes a control frame may carry (message size limit %d)", opcode, len(payload), echoed, limit)
		}
		// still functional, or cleanly gone
		alive := !short && raw.B.Health() && call(2)
		if !alive {
			if !vt.WaitClosed(raw.B.CloseNotify()) {
				t.Fatalf("C06 violated: after the frame the websocket session neither answers a CALL nor is it disconnected; %s", vt.Hang("its close notification"))
			}
			if _, ok := srv.GetSession(raw.B.ID()); ok {
				t.Fatalf("C06 violated: the disconnected websocket session is still listed")
			}
		}
		res := new(LibRes)
		if cmd := ctl.A.Call(callRoute, &LibArg{Rid: "ctl", Act: "ret", Val: "ok"}, res); !cmd.StatusOK() || res.Val != "ok" {
			t.Fatalf("C06 violated: the control session stopped working: %v", cmd.Status())
		}
	})
}
