package core

import (
	"bytes"
	"encoding/json"
	"fmt"
	"runtime"
	"strings"
	"sync"
	"sync/atomic"
	"testing"

	erpc "github.com/henrylee2cn/erpc/v6"
	"pgregory.net/rapid"

	"verifharness/vt"
)

// C12 end to end with a history: intact calls through generated pipes on a long-lived
// session, interleaved with OTHER connections on which a genuinely packed frame arrives
// damaged (see the refused-frame classes in c01hostile_test.go). The receiver learns the
// pipe of a frame from that frame alone - not from what an earlier frame, on whichever
// connection of the process, carried.

type C12Blob struct {
	Rid  string
	Data []byte
}

type c12hSeen struct {
	n    int
	data []byte
	pipe string
}

type c12hState struct {
	mu   sync.Mutex
	seen map[string]*c12hSeen
}

var c12h atomic.Value // *c12hState

func C12Echo(ctx erpc.CallCtx, a *C12Blob) (*C12Blob, *erpc.Status) {
	s := c12h.Load().(*c12hState)
	s.mu.Lock()
	e := s.seen[a.Rid]
	if e == nil {
		e = &c12hSeen{}
		s.seen[a.Rid] = e
	}
	e.n++
	e.data = append([]byte(nil), a.Data...)
	e.pipe = string(ctx.Input().XferPipe().IDs())
	s.mu.Unlock()
	return &C12Blob{Rid: a.Rid, Data: append([]byte(nil), a.Data...)}, nil
}

// c12hPipeSeen records, per (session, sequence number), the pipe a reply frame announces
// (sequence numbers are per session, and the calling peer also has foreign connections).
type c12hPipeSeen struct {
	mu    sync.Mutex
	pipes map[string]string
}

func c12hKey(sessID string, seq int32) string { return fmt.Sprintf("%s#%d", sessID, seq) }

func (p *c12hPipeSeen) Name() string { return "c12hpipeseen" }
func (p *c12hPipeSeen) PostReadReplyHeader(ctx erpc.ReadCtx) *erpc.Status {
	p.mu.Lock()
	p.pipes[c12hKey(ctx.Session().ID(), ctx.Seq())] = string(ctx.Input().XferPipe().IDs())
	p.mu.Unlock()
	return nil
}

type c12hCall struct {
	Pipe    []byte
	Payload []byte
}

type c12hStep struct {
	Calls      []c12hCall // an intact batch (launched together), or
	Refused    *refusedSpec
	Peer       string // refused: "srv" | "cli" - the peer the foreign connection goes to
	Proto      string // refused: protocol of the foreign connection
	Concurrent bool   // refused: delivered while the next batch runs instead of before it
}

func (s c12hStep) String() string {
	if s.Refused != nil {
		return fmt.Sprintf("refused(%s %s concurrent=%v %s)", s.Peer, s.Proto, s.Concurrent, *s.Refused)
	}
	var cs []string
	for _, c := range s.Calls {
		cs = append(cs, fmt.Sprintf("%q/%s", c.Pipe, vt.Hex(c.Payload)))
	}
	return "calls(" + strings.Join(cs, " ") + ")"
}

func genC12Pipe(t *rapid.T) []byte {
	switch rapid.IntRange(0, 5).Draw(t, "pipeclass") {
	case 0:
		return nil
	case 1:
		return []byte{vt.XMd5}
	case 2:
		return []byte{rapid.SampledFrom(vt.GzipIDs).Draw(t, "gz")}
	case 3: // repeats of one filter
		return bytes.Repeat([]byte{rapid.SampledFrom(vt.RegisteredXfer).Draw(t, "rep")}, rapid.IntRange(2, 3).Draw(t, "nrep"))
	default:
		return rapid.SliceOfN(rapid.SampledFrom(vt.RegisteredXfer), 1, 4).Draw(t, "mix")
	}
}

func genC12Payload(t *rapid.T) []byte {
	switch rapid.IntRange(0, 5).Draw(t, "payclass") {
	case 0:
		return []byte{}
	case 1:
		return []byte{rapid.Byte().Draw(t, "one")}
	case 2: // highly compressible
		return bytes.Repeat([]byte{rapid.Byte().Draw(t, "runbyte")}, rapid.SampledFrom([]int{16, 17, 1000, 5000}).Draw(t, "runlen"))
	case 3: // incompressible
		n := rapid.SampledFrom([]int{15, 16, 17, 64, 300}).Draw(t, "noiselen")
		return rapid.SliceOfN(rapid.Byte(), n, n).Draw(t, "noise")
	case 4: // large
		unit := rapid.SliceOfN(rapid.Byte(), 1, 40).Draw(t, "unit")
		return bytes.Repeat(unit, 6000/len(unit))
	default:
		return vt.Bytes(t, "payload", 600)
	}
}

const ruleC12h = "one long-lived session (raw / json / protobuf stream protocol, generated read chunking) between a calling peer (whose hook records the pipe every reply frame announces) and a serving peer with an echo handler (which records the bytes and the pipe it saw per request); a generated history of 2-10 steps: a batch of 1-4 intact echo calls launched together, each through its own pipe {none, md5, gzip level 1/5/9, repeats of one filter, mixes of 1-4 filters} with a payload {empty, 1 byte, highly compressible, incompressible, 6 KB, mixed bytes}, or a FOREIGN connection (scripted remote, own in-memory connection, protocol drawn independently) to the serving or the calling peer that delivers one genuinely packed frame damaged in transit - {one byte altered behind an outermost md5 filter, outermost gzip stream truncated, unregistered filter id inserted into the frame's filter list after 0-3 registered ones, frame cut at a generated offset, intact frame with body codec id 0} x {CALL, PUSH, REPLY (optionally to a call that peer has pending towards the remote)} - before or while the next batch runs, then hangs up; half of the cases run on a single P (pooled objects are per-P); oracle: every intact call completes within the bound with OK, its result and what the handler saw equal the payload exactly, the handler saw exactly the caller's pipe (the receiver learns the pipe from the frame itself), the reply came through the caller's pipe, the handler ran once per call, no frame that was altered behind md5 / truncated / names an unregistered filter reaches the handler, and the long-lived session is still up at the end; non-trivial = a damaged frame followed by at least two intact calls; distinct by case"

func TestC12AfterRefusedFrames(t *testing.T) {
	rec := vt.NewRec(t, "C12", "after-refused-frames", ruleC12h)
	streams := vt.StreamProtos()
	classes := []string{"md5-altered", "md5-altered", "gzip-damaged", "unregistered", "cut", "codec0"}
	vt.Init()
	route := func() string {
		p := erpc.NewPeer(erpc.PeerConfig{})
		defer p.Close()
		return p.RouteCallFunc(C12Echo)
	}()
	targets := []refusedTarget{{Name: "call:echo", Mtype: erpc.TypeCall, Route: route, Codec: 'j', Body: func(tag string) []byte {
		b, _ := json.Marshal(&C12Blob{Rid: tag, Data: []byte("foreign payload")})
		return b
	}}}
	rapid.Check(t, func(t *rapid.T) {
		vt.Init()
		proto := rapid.SampledFrom(streams).Draw(t, "proto")
		nsteps := rapid.IntRange(2, 10).Draw(t, "steps")
		steps := make([]c12hStep, nsteps)
		nref, callsAfter := 0, 0
		for i := range steps {
			if rapid.IntRange(0, 2).Draw(t, "isrefused") == 0 {
				f := genRefused(t, fmt.Sprintf("FOREIGN%d", i), targets, classes)
				steps[i] = c12hStep{Refused: &f, Peer: rapid.SampledFrom([]string{"srv", "srv", "cli"}).Draw(t, "fpeer"),
					Proto: rapid.SampledFrom(streams).Draw(t, "fproto").Name, Concurrent: rapid.IntRange(0, 3).Draw(t, "fconc") == 0}
				nref++
				rec.Class("refused="+f.Class, 1)
				rec.Class("refused-to="+steps[i].Peer, 1)
				continue
			}
			n := rapid.IntRange(1, 4).Draw(t, "batch")
			for k := 0; k < n; k++ {
				steps[i].Calls = append(steps[i].Calls, c12hCall{Pipe: genC12Pipe(t), Payload: genC12Payload(t)})
			}
			if nref > 0 {
				callsAfter += n
			}
		}
		chunks, cycle := vt.Chunks(t, "chunks")
		singleP := rapid.Bool().Draw(t, "singleP")
		nt := nref >= 1 && callsAfter >= 2
		rec.Case(fmt.Sprintf("%s|%v|%v|%v|%v", proto.Name, steps, chunks, cycle, singleP), nt, "proto="+proto.Name, fmt.Sprintf("singleP=%v", singleP))
		if rec.WantSample() && nt {
			var ss []string
			for _, s := range steps {
				ss = append(ss, s.String())
			}
			rec.Sample(map[string]interface{}{"proto": proto.Name, "steps": ss, "single_P": singleP})
		}
		if singleP {
			defer runtime.GOMAXPROCS(runtime.GOMAXPROCS(1))
		}
		state := &c12hState{seen: map[string]*c12hSeen{}}
		c12h.Store(state)
		w := vt.NewWorld()
		defer w.Close()
		seen := &c12hPipeSeen{pipes: map[string]string{}}
		srv := w.Peer(erpc.PeerConfig{})
		cli := w.Peer(erpc.PeerConfig{}, seen)
		if got := srv.RouteCallFunc(C12Echo); got != route {
			t.Fatalf("harness: echo route is %q, expected %q", got, route)
		}
		l := w.Connect(cli, srv, proto, func(p *vt.Pair) {
			p.SetChunks(vt.AtoB, chunks, cycle)
			p.SetChunks(vt.BtoA, chunks, cycle)
		})
		if l.A == nil || l.B == nil {
			t.Fatalf("harness: connect failed: %v %v", l.AStat, l.BStat)
		}
		var fwg sync.WaitGroup
		var fmu sync.Mutex
		var problems []string
		deliver := func(i int, s c12hStep) {
			peer := srv
			if s.Peer == "cli" {
				peer = cli
			}
			if _, problem := deliverRefused(peer, protoByName(streams, s.Proto), *s.Refused, fmt.Sprintf("f%d", i)); problem != "" {
				fmu.Lock()
				problems = append(problems, fmt.Sprintf("%s (step %d: %s)", problem, i, s))
				fmu.Unlock()
			}
		}
		history := func(upto int) string {
			var ss []string
			for _, s := range steps[:upto+1] {
				ss = append(ss, s.String())
			}
			return fmt.Sprintf("proto %s, singleP=%v, history: %s", proto.Name, singleP, strings.Join(ss, " ; "))
		}
		for i, s := range steps {
			if s.Refused != nil {
				if s.Concurrent {
					fwg.Add(1)
					go func(i int, s c12hStep) { defer fwg.Done(); deliver(i, s) }(i, s)
				} else {
					deliver(i, s)
				}
				continue
			}
			type launched struct {
				cmd erpc.CallCmd
				res *C12Blob
				rid string
				c   c12hCall
			}
			var ls []launched
			for k, c := range s.Calls {
				rid := fmt.Sprintf("s%dc%d", i, k)
				settings := []erpc.MessageSetting{erpc.WithBodyCodec('j')}
				if len(c.Pipe) > 0 {
					settings = append(settings, erpc.WithXferPipe(c.Pipe...))
				}
				res := new(C12Blob)
				cmd := l.A.AsyncCall(route, &C12Blob{Rid: rid, Data: c.Payload}, res, make(chan erpc.CallCmd, 1), settings...)
				ls = append(ls, launched{cmd, res, rid, c})
			}
			for _, x := range ls {
				tag := fmt.Sprintf("intact call %s through pipe %q with a %d-byte payload", x.rid, x.c.Pipe, len(x.c.Payload))
				if !vt.WaitClosed(x.cmd.Done()) {
					t.Fatalf("C12 violated: %s: %s\n%s", tag, vt.Hang("its completion"), history(i))
				}
				if !x.cmd.StatusOK() {
					t.Fatalf("C12 violated: %s was not restored: it completed with %s although the frame was intact\n%s", tag, x.cmd.Status().String(), history(i))
				}
				if x.res.Rid != x.rid || !bytes.Equal(x.res.Data, x.c.Payload) {
					t.Fatalf("C12 violated: %s: the result is not the payload: rid %q data %s, want %s\n%s", tag, x.res.Rid, vt.Hex(x.res.Data), vt.Hex(x.c.Payload), history(i))
				}
				state.mu.Lock()
				e := state.seen[x.rid]
				var hs c12hSeen
				if e != nil {
					hs = *e
				}
				state.mu.Unlock()
				if hs.n != 1 {
					t.Fatalf("C12 violated: %s: its handler ran %d times\n%s", tag, hs.n, history(i))
				}
				if !bytes.Equal(hs.data, x.c.Payload) {
					t.Fatalf("C12 violated: %s: the handler saw %s, the caller sent %s\n%s", tag, vt.Hex(hs.data), vt.Hex(x.c.Payload), history(i))
				}
				if hs.pipe != string(x.c.Pipe) {
					t.Fatalf("C12 violated: %s: the receiver took the frame's pipe to be %q (the receiver learns the pipe from the frame itself)\n%s", tag, hs.pipe, history(i))
				}
				seen.mu.Lock()
				got, ok := seen.pipes[c12hKey(l.A.ID(), x.cmd.Output().Seq())]
				seen.mu.Unlock()
				if !ok {
					t.Fatalf("C12 violated: %s: no reply frame was seen by the calling side's hook\n%s", tag, history(i))
				}
				if got != string(x.c.Pipe) {
					t.Fatalf("C12 violated: %s: the reply came through pipe %q\n%s", tag, got, history(i))
				}
			}
		}
		done := make(chan struct{})
		go func() { fwg.Wait(); close(done) }()
		if !vt.WaitClosed(done) {
			t.Fatalf("harness: %s", vt.Hang("the end of the foreign connections"))
		}
		if len(problems) > 0 {
			t.Fatalf("%s", problems[0])
		}
		if !l.A.Health() || !l.B.Health() {
			t.Fatalf("C12 violated: the long-lived session was dropped (health %v/%v) although every frame on it was intact\n%s", l.A.Health(), l.B.Health(), history(len(steps)-1))
		}
		state.mu.Lock()
		defer state.mu.Unlock()
		for i, s := range steps {
			if s.Refused == nil {
				continue
			}
			if cl := s.Refused.Class; cl == "md5-altered" || cl == "gzip-damaged" || cl == "unregistered" {
				if e := state.seen[fmt.Sprintf("FOREIGN%d", i)]; e != nil {
					t.Fatalf("C12 violated: the frame of step %d (%s) reached the handler although it was damaged in transit (handler saw pipe %q, data %s)", i, s, e.pipe, vt.Hex(e.data))
				}
			}
		}
	})
}
