package core

import (
	"encoding/hex"
	"encoding/json"
	"fmt"
	"strings"
	"testing"

	erpc "github.com/henrylee2cn/erpc/v6"
	"github.com/henrylee2cn/erpc/v6/plugin/secure"
	"pgregory.net/rapid"

	"verifharness/vt"
)

// TestC04UndecipherableReplies: the caller runs the shipped secure plugin and the reply to a
// secure call carries an envelope that cannot be deciphered (a remote end with a bug, another
// cipher, or ill will). The reply body is then not decoded into the caller's result, so the
// status the caller observes is not OK; and the same envelopes sent as CALL / PUSH never reach
// a handler.
func TestC04UndecipherableReplies(t *testing.T) {
	rec := vt.NewRec(t, "C04", "undecipherable", "a peer with the secure plugin (key of 16 / 24 / 32 bytes) issues secure calls to a scripted remote end that answers with the request's own envelope (valid) or with an envelope whose ciphertext was replaced: hex of 1-80 bytes that is not a whole number of cipher blocks, a whole number of garbage blocks, an odd number of hex digits, non-hex text, empty text, another cipher version; the same envelopes are also sent to the peer as CALL and PUSH to a registered handler; oracle: a reply with the untouched envelope of the request decodes (OK, result equals the request argument), every altered envelope makes the call complete non-OK with the result object untouched, an altered CALL is answered non-OK and neither it nor an altered PUSH invokes the handler; every call completes within the liveness bound; non-trivial = altered envelope; distinct by case")
	protos := vt.StreamProtos()
	rapid.Check(t, func(t *rapid.T) {
		vt.Init()
		s := newLib()
		keylen := rapid.SampledFrom([]int{16, 24, 32}).Draw(t, "keylen")
		proto := rapid.SampledFrom(protos).Draw(t, "proto")
		kind := rapid.SampledFrom([]string{"valid", "partial-block", "partial-block", "garbage-blocks", "odd-hex", "non-hex", "empty", "version"}).Draw(t, "kind")
		dir := rapid.SampledFrom([]string{"reply", "reply", "call", "push"}).Draw(t, "dir")
		w := vt.NewWorld()
		defer w.Close()
		p := w.Peer(erpc.PeerConfig{}, secure.NewPlugin(9100, strings.Repeat("k", keylen)))
		callRoute, pushRoute := registerLib(p)
		pair := vt.NewPair()
		sess, stat := p.ServeConn(pair.A, proto.Fn)
		if !stat.OK() {
			t.Fatalf("harness: ServeConn: %v", stat)
		}
		raw := vt.NewRawPeer(pair, pair.B, proto.Fn)
		defer raw.Close()
		// a secure request of the peer gives the harness a genuine envelope (and the cipher version)
		res := &LibRes{Rid: "untouched", Val: "untouched"}
		cmd := sess.AsyncCall("/remote/do", &LibRes{Rid: "req", Val: "marker-value"}, res, make(chan erpc.CallCmd, 1), secure.WithSecureMeta())
		if !raw.WaitFrames(1) {
			t.Fatalf("harness: no request frame")
		}
		f := raw.Frames()[0]
		var env map[string]string
		if err := json.Unmarshal(f.Body, &env); err != nil || env["ciphertext"] == "" {
			t.Fatalf("harness: the secure request does not carry a json envelope: %q", vt.Trunc(string(f.Body)))
		}
		switch kind {
		case "partial-block":
			n := rapid.IntRange(1, 80).Draw(t, "nbytes")
			if n%16 == 0 {
				n++
			}
			env["ciphertext"] = hex.EncodeToString(rapid.SliceOfN(rapid.Byte(), n, n).Draw(t, "ct"))
		case "garbage-blocks":
			n := 16 * rapid.IntRange(1, 4).Draw(t, "nblocks")
			env["ciphertext"] = hex.EncodeToString(rapid.SliceOfN(rapid.Byte(), n, n).Draw(t, "ct"))
		case "odd-hex":
			env["ciphertext"] = env["ciphertext"][:len(env["ciphertext"])-1]
		case "non-hex":
			env["ciphertext"] = "zz" + env["ciphertext"][2:]
		case "empty":
			env["ciphertext"] = ""
		case "version":
			env["cipherversion"] = "0" + env["cipherversion"][1:]
		}
		body, _ := json.Marshal(env)
		altered := kind != "valid"
		if kind == "version" && env["cipherversion"] == jsonField(f.Body, "cipherversion") {
			altered = false
		}
		switch dir {
		case "reply":
			raw.Send(vt.Msg{Seq: f.Seq, Mtype: erpc.TypeReply, Method: f.Method, Codec: 'j', Body: body, Meta: f.Meta})
			if !vt.WaitClosed(cmd.Done()) {
				t.Fatalf("C04 violated: %s", vt.Hang("completion of a secure call answered with an envelope of kind "+kind))
			}
			if !altered {
				if !cmd.StatusOK() || res.Val != "marker-value" {
					t.Fatalf("C04 violated: reply with the genuine envelope: status %v, result %+v", cmd.Status(), *res)
				}
			} else {
				if cmd.StatusOK() {
					t.Fatalf("C04 violated: a reply whose envelope cannot be deciphered (%s: %q) completed the call with status OK (result %+v): the reply body was not decoded into the result", kind, vt.Trunc(env["ciphertext"]), *res)
				}
				if res.Val != "untouched" || res.Rid != "untouched" {
					t.Fatalf("C04 violated: non-OK call (%v) but the result object was changed: %+v", cmd.Status(), *res)
				}
			}
		case "call", "push":
			// complete the peer's own call first
			raw.Send(vt.Msg{Seq: f.Seq, Mtype: erpc.TypeReply, Method: f.Method, Codec: 'j', Body: f.Body, Meta: f.Meta})
			if !vt.WaitClosed(cmd.Done()) {
				t.Fatalf("C04 violated: %s", vt.Hang("completion of a secure call answered with its own envelope"))
			}
			m := vt.Msg{Seq: 77, Mtype: erpc.TypeCall, Method: callRoute, Codec: 'j', Body: body, Meta: f.Meta}
			if dir == "push" {
				m.Mtype, m.Method = erpc.TypePush, pushRoute
			}
			raw.Send(m)
			// fence
			raw.Send(vt.Msg{Seq: 78, Mtype: erpc.TypeCall, Method: callRoute, Codec: 'j', Body: libBody("fence", "ret")})
			if !raw.WaitFor(func(fr []vt.RawFrame) bool {
				for _, x := range fr {
					if x.Seq == 78 && x.Mtype == erpc.TypeReply {
						return true
					}
				}
				return false
			}) || raw.EOF() {
				t.Fatalf("C04 violated: after a %s with an envelope of kind %s the session no longer answers (eof=%v)", dir, kind, raw.EOF())
			}
			if altered {
				if n := s.TotalCalls() - s.Calls("fence"); n != 0 {
					t.Fatalf("C04 violated: a CALL whose envelope cannot be deciphered (%s) invoked the handler", kind)
				}
				s.mu.Lock()
				np := len(s.pushes)
				s.mu.Unlock()
				if np != 0 {
					t.Fatalf("C04 violated: a PUSH whose envelope cannot be deciphered (%s) invoked the handler", kind)
				}
				if dir == "call" {
					for _, x := range raw.Frames() {
						if x.Seq == 77 && x.Mtype == erpc.TypeReply && x.Status.Code == 0 {
							t.Fatalf("C04 violated: a CALL whose envelope cannot be deciphered (%s) was answered with status OK", kind)
						}
					}
				}
			}
		}
		rec.Case(fmt.Sprintf("%d|%s|%s|%s|%s", keylen, proto.Name, kind, dir, vt.Trunc(env["ciphertext"])), altered, "kind="+kind, "dir="+dir)
		if rec.WantSample() && altered {
			rec.Sample(map[string]interface{}{"keylen": keylen, "proto": proto.Name, "kind": kind, "dir": dir, "ciphertext": vt.Trunc(env["ciphertext"])})
		}
	})
}

func jsonField(b []byte, k string) string {
	var m map[string]string
	json.Unmarshal(b, &m)
	return m[k]
}
