package core

import (
	"bytes"
	"fmt"
	"testing"

	erpc "github.com/henrylee2cn/erpc/v6"
	"pgregory.net/rapid"

	"verifharness/vt"
)

// C06LargeEcho returns the length and a checksum of a raw body.
func C06LargeEcho(ctx erpc.CallCtx, arg *[]byte) (string, *erpc.Status) {
	return fmt.Sprintf("%d:%d", len(*arg), sumBytes(*arg)), nil
}

func sumBytes(b []byte) uint32 {
	var s uint32
	for i := 0; i < len(b); i += 4099 {
		s = s*31 + uint32(b[i])
	}
	return s
}

// TestC06LargeFrames: well-formed frames whose size sits on the boundaries of the framework's
// internal size classes (powers of two up to 64 MiB, far below the default 1 GiB read limit).
// A legitimate large frame is a byte sequence like any other: it is handled, and afterwards the
// session is functional or cleanly disconnected.
func TestC06LargeFrames(t *testing.T) {
	rec := vt.NewRec(t, "C06", "large-frames", "a well-formed REPLY (to a pending call of a calling session) or CALL (to a serving session) of the raw / json / protobuf protocol whose body length is 2^k-1, 2^k, 2^k+1 or 2^k+4096 for k in 10..26 (up to 64 MiB + 4 KiB, default read limit), sent by a scripted remote end that then sends a small frame and hangs up; oracle: the pending call completes OK with a body of exactly that length (resp. the handler sees exactly those bytes and the CALL is answered), the small frame behind it is handled too, after the hang-up the close notification fires within the liveness bound and Close returns; non-trivial = body of at least 1 MiB; distinct by case")
	protos := vt.StreamProtos()
	rapid.Check(t, func(t *rapid.T) {
		vt.Init()
		k := rapid.IntRange(10, 19).Draw(t, "k")
		if rapid.Bool().Draw(t, "big") {
			k = rapid.IntRange(20, 26).Draw(t, "kbig")
		}
		delta := rapid.SampledFrom([]int{-1, 0, 1, 4096}).Draw(t, "delta")
		size := (1 << uint(k)) + delta
		proto := rapid.SampledFrom(protos).Draw(t, "proto")
		dir := rapid.SampledFrom([]string{"reply", "reply", "call"}).Draw(t, "dir")
		body := bytes.Repeat([]byte{byte('a' + k%20)}, size)
		for i := 0; i < len(body); i += 4099 {
			body[i] = byte(i)
		}
		w := vt.NewWorld()
		defer w.Close()
		p := w.Peer(erpc.PeerConfig{})
		route := p.RouteCallFunc(C06LargeEcho)
		pair := vt.NewPair()
		sess, stat := p.ServeConn(pair.A, proto.Fn)
		if !stat.OK() {
			t.Fatalf("harness: ServeConn: %v", stat)
		}
		raw := vt.NewRawPeer(pair, pair.B, proto.Fn)
		defer raw.Close()
		switch dir {
		case "reply":
			var big, small []byte
			c1 := sess.AsyncCall("/remote/big", "x", &big, make(chan erpc.CallCmd, 1))
			c2 := sess.AsyncCall("/remote/small", "y", &small, make(chan erpc.CallCmd, 1))
			if !raw.WaitFrames(2) {
				t.Fatalf("harness: the scripted end received %d of 2 calls", len(raw.Frames()))
			}
			fr := raw.Frames()
			raw.Send(vt.Msg{Seq: fr[0].Seq, Mtype: erpc.TypeReply, Method: fr[0].Method, Codec: 's', Body: body})
			raw.Send(vt.Msg{Seq: fr[1].Seq, Mtype: erpc.TypeReply, Method: fr[1].Method, Codec: 's', Body: []byte("small")})
			if !vt.WaitClosed(c1.Done()) {
				t.Fatalf("C06 violated: the call answered with a well-formed reply of %d bytes (%s protocol) never completed; %s", size, proto.Name, vt.Hang("its done signal"))
			}
			if !c1.StatusOK() || len(big) != size || sumBytes(big) != sumBytes(body) {
				t.Fatalf("C06 violated: the call answered with a well-formed reply of %d bytes completed with %v and a body of %d bytes", size, c1.Status(), len(big))
			}
			if !vt.WaitClosed(c2.Done()) || !c2.StatusOK() || string(small) != "small" {
				t.Fatalf("C06 violated: the small reply behind a reply of %d bytes was not delivered (status %v, body %q)", size, c2.Status(), small)
			}
		case "call":
			raw.Send(vt.Msg{Seq: 7, Mtype: erpc.TypeCall, Method: route, Codec: 's', Body: body})
			raw.Send(vt.Msg{Seq: 8, Mtype: erpc.TypeCall, Method: route, Codec: 's', Body: []byte("small")})
			if !raw.WaitFor(func(fr []vt.RawFrame) bool { return countReplies(fr) >= 2 }) || raw.EOF() {
				t.Fatalf("C06 violated: a well-formed CALL of %d bytes (%s protocol) and the small CALL behind it got %d replies (eof=%v)", size, proto.Name, countReplies(raw.Frames()), raw.EOF())
			}
			for _, f := range raw.Frames() {
				if f.Seq == 7 && !bytes.Contains(f.Body, []byte(fmt.Sprintf("%d:%d", size, sumBytes(body)))) {
					t.Fatalf("C06 violated: the handler of a CALL of %d bytes saw something else: reply %q (status %+v)", size, vt.Trunc(string(f.Body)), f.Status)
				}
			}
		}
		raw.Close()
		if !vt.WaitClosed(sess.CloseNotify()) {
			t.Fatalf("C06 violated: %s", vt.Hang(fmt.Sprintf("close notification after a frame of %d bytes and the hang-up of the remote end", size)))
		}
		if !vt.Returns(func() { sess.Close() }) {
			t.Fatalf("C06 violated: %s", vt.Hang("return of Close"))
		}
		rec.Case(fmt.Sprintf("%d|%s|%s", size, proto.Name, dir), size >= 1<<20, "dir="+dir, fmt.Sprintf("k=%d", k))
		if rec.WantSample() && size >= 1<<20 {
			rec.Sample(map[string]interface{}{"bytes": size, "proto": proto.Name, "direction": dir})
		}
	})
}
