package core

import (
	"fmt"
	"testing"
	"time"

	erpc "github.com/henrylee2cn/erpc/v6"
	"pgregory.net/rapid"

	"verifharness/vt"
)

// TestC02SharedChannel: many AsyncCalls share one completion channel that a consumer keeps
// receiving from. The channel is smaller than the number of calls in flight, so the framework
// finds it full now and then - the consumer is slow, not gone. Every call is still delivered
// to the channel exactly once, whatever completes it: a reply, the loss of the connection, a
// local close.
func TestC02SharedChannel(t *testing.T) {
	rec := vt.NewRec(t, "C02", "shared-channel", "2-30 AsyncCalls on one session share a completion channel of capacity 1 / 2 / 8 that one consumer goroutine keeps receiving from (with a generated pause of 0-300 us per item); a scripted remote end answers a generated subset, then the connection is cut / closed by the remote end / hit by a garbage frame / closed locally; oracle: the consumer receives every issued command exactly once within the liveness bound, each with its done signal fired and either its own reply or a connection-class status; non-trivial = more calls than channel capacity and at least one completed by the loss; distinct by case")
	protos := vt.StreamProtos()
	rapid.Check(t, func(t *rapid.T) {
		vt.Init()
		n := rapid.IntRange(2, 30).Draw(t, "ncalls")
		answered := rapid.IntRange(0, n/2).Draw(t, "answered")
		how := rapid.SampledFrom([]string{"cut", "remote-close", "garbage", "local-close"}).Draw(t, "loss")
		capacity := rapid.SampledFrom([]int{1, 1, 2, 8}).Draw(t, "chancap")
		pause := time.Duration(rapid.SampledFrom([]int{0, 0, 50, 300}).Draw(t, "pause_us")) * time.Microsecond
		proto := rapid.SampledFrom(protos).Draw(t, "proto")

		w := vt.NewWorld()
		defer w.Close()
		cli := w.Peer(erpc.PeerConfig{})
		pair := vt.NewPair()
		sess, stat := cli.ServeConn(pair.A, proto.Fn)
		if !stat.OK() {
			t.Fatalf("harness: ServeConn: %v", stat)
		}
		raw := vt.NewRawPeer(pair, pair.B, proto.Fn)
		defer raw.Close()

		ch := make(chan erpc.CallCmd, capacity)
		got := make(chan erpc.CallCmd, 4*n+8)
		stop := make(chan struct{})
		defer close(stop)
		go func() {
			for {
				select {
				case c := <-ch:
					got <- c
					if pause > 0 {
						time.Sleep(pause)
					}
				case <-stop:
					return
				}
			}
		}()
		cmds := map[erpc.CallCmd]int{}
		results := make([]*LibRes, n)
		for i := 0; i < n; i++ {
			results[i] = new(LibRes)
			i := i
			if !vt.Returns(func() {
				cmds[sess.AsyncCall("/lib_do", &LibArg{Rid: fmt.Sprintf("s%d", i), Act: "ret", Val: "v"}, results[i], ch)] = i
			}) {
				t.Fatalf("C02 violated: %s", vt.Hang("return of AsyncCall"))
			}
		}
		if !raw.WaitFrames(n) {
			t.Fatalf("harness: the scripted end received %d of %d calls", len(raw.Frames()), n)
		}
		frames := raw.Frames()
		for i := 0; i < answered; i++ {
			f := frames[i]
			raw.Send(vt.Msg{Seq: f.Seq, Mtype: erpc.TypeReply, Method: f.Method, Codec: 'j', Body: []byte(fmt.Sprintf(`{"Rid":"s%d","Val":"reply-%d"}`, i, i))})
		}
		switch how {
		case "cut":
			pair.Cut()
		case "remote-close":
			raw.Close()
		case "garbage":
			raw.SendBytes([]byte{0xff, 0xff, 0xff, 0xf0, 0, 1, 2, 3})
			raw.Close()
		case "local-close":
			go sess.Close()
			time.Sleep(200 * time.Microsecond)
			raw.Close()
		}
		seen := map[erpc.CallCmd]int{}
		deadline := time.After(vt.LivenessBound)
		byLoss := 0
	collect:
		for len(seen) < n {
			select {
			case c := <-got:
				seen[c]++
				if _, mine := cmds[c]; !mine {
					t.Fatalf("C02 violated: the completion channel delivered a command that was not issued on it")
				}
				if seen[c] > 1 {
					t.Fatalf("C02 violated: call %d was delivered %d times to its completion channel", cmds[c], seen[c])
				}
				select {
				case <-c.Done():
				case <-time.After(vt.LivenessBound):
					t.Fatalf("C02 violated: call %d was delivered to the completion channel but its done signal does not fire", cmds[c])
				}
				if c.StatusOK() {
					i := cmds[c]
					if results[i].Val != fmt.Sprintf("reply-%d", i) {
						t.Fatalf("C02 violated: call %d completed OK with result %+v, not its own reply", i, *results[i])
					}
				} else {
					byLoss++
					if !isConnErr(c.Status()) {
						t.Fatalf("C02 violated: call %d pending at the loss (%s) completed with %v, want a connection-class status", cmds[c], how, c.Status())
					}
				}
			case <-deadline:
				break collect
			}
		}
		if len(seen) < n {
			t.Fatalf("C02 violated: only %d of %d calls sharing a completion channel of capacity %d (consumer receiving all along) were delivered after the loss (%s); %s", len(seen), n, capacity, how, vt.Hang("delivery of the rest"))
		}
		// nothing is delivered twice later on
		time.Sleep(2 * time.Millisecond)
		select {
		case c := <-got:
			t.Fatalf("C02 violated: call %d was delivered a second time", cmds[c])
		default:
		}
		rec.Case(fmt.Sprintf("%d|%d|%s|%d|%v|%s", n, answered, how, capacity, pause, proto.Name), n > capacity && byLoss > 0, "loss="+how, fmt.Sprintf("cap=%d", capacity))
		if rec.WantSample() && n > capacity && byLoss > 0 {
			rec.Sample(map[string]interface{}{"calls": n, "answered": answered, "loss": how, "capacity": capacity, "pause": pause.String(), "proto": proto.Name, "completed_by_loss": byLoss})
		}
	})
}
