package core

import (
	"net"
	"fmt"
	"runtime"
	"sort"
	"strings"
	"sync"
	"sync/atomic"
	"testing"
	"time"

	erpc "github.com/henrylee2cn/erpc/v6"
	"pgregory.net/rapid"

	"verifharness/vt"
)

// acceptHook is the generated accept verdict of the next connection.
type acceptHook struct {
	mu      sync.Mutex
	reject  bool
	panics  bool   // the hook rejects by panicking instead of returning a status
	setID   string // "" = leave the default id
	wrap    string // "" | before | after: the hook also wraps the connection (ModifySocket), before or after its SetID
	entered int
}

func (h *acceptHook) Name() string { return "c07accept" }
func (h *acceptHook) PostAccept(s erpc.PreSession) *erpc.Status {
	h.mu.Lock()
	defer h.mu.Unlock()
	h.entered++
	wrap := func() {
		s.ModifySocket(func(conn net.Conn) (net.Conn, erpc.ProtoFunc) {
			return &meteredConn{Conn: conn, n: &meteredBytes}, nil
		})
	}
	if h.wrap == "before" {
		wrap()
	}
	if h.setID != "" {
		s.SetID(h.setID)
	}
	if h.wrap == "after" {
		wrap()
	}
	if h.reject {
		if h.panics {
			panic("accept hook failed: nil map write in an admission plugin")
		}
		return erpc.NewStatus(403, "rejected by accept hook", "c07")
	}
	return nil
}

// discRecorder counts PostDisconnect per session and keeps a global event log.
type discRecorder struct {
	mu    sync.Mutex
	count map[interface{}]int
}

func (d *discRecorder) Name() string { return "c07disc" }
func (d *discRecorder) PostDisconnect(s erpc.BaseSession) *erpc.Status {
	d.mu.Lock()
	d.count[interface{}(s)]++
	d.mu.Unlock()
	return nil
}
func (d *discRecorder) get(s interface{}) int {
	d.mu.Lock()
	defer d.mu.Unlock()
	return d.count[s]
}

type c07Link struct {
	n     int
	link  *vt.Link
	srv   erpc.Session
	cli   erpc.Session
	live  bool
	id    string
	calls int
}

type c07World struct {
	t       *rapid.T
	w       *vt.World
	srv     erpc.Peer
	cli     erpc.Peer
	hook    *acceptHook
	disc    *discRecorder
	cdisc   *discRecorder
	links   []*c07Link
	route   string
	proto   vt.NamedProto
	history []string
	nextID  int
	lib     *libState
}

func (x *c07World) logf(format string, a ...interface{}) {
	x.history = append(x.history, fmt.Sprintf(format, a...))
}

func (x *c07World) fail(format string, a ...interface{}) {
	x.t.Fatalf("C07 violated: %s\nhistory:\n  %s", fmt.Sprintf(format, a...), strings.Join(x.history, "\n  "))
}

func (x *c07World) liveLinks() []*c07Link {
	var out []*c07Link
	for _, l := range x.links {
		if l.live {
			out = append(out, l)
		}
	}
	return out
}

func (x *c07World) deadLinks() []*c07Link {
	var out []*c07Link
	for _, l := range x.links {
		if !l.live && l.srv != nil {
			out = append(out, l)
		}
	}
	return out
}

func (x *c07World) byID(id string) *c07Link {
	for _, l := range x.links {
		if l.live && l.id == id {
			return l
		}
	}
	return nil
}

// markClosed waits for the close notification of both ends of a link the model says must die.
func (x *c07World) markClosed(l *c07Link, why string) {
	l.live = false
	if l.srv != nil && !vt.WaitClosed(l.srv.CloseNotify()) {
		x.fail("%s", vt.Hang(fmt.Sprintf("close notification of server session #%d (%s)", l.n, why)))
	}
	if l.cli != nil && !vt.WaitClosed(l.cli.CloseNotify()) {
		x.fail("%s", vt.Hang(fmt.Sprintf("close notification of client session #%d (%s)", l.n, why)))
	}
	// the disconnect hook runs after the notification: wait for it (bounded), then it must be exactly 1
	if l.srv != nil {
		vt.WaitUntilFor(3*time.Second, func() bool { return x.disc.get(interface{}(l.srv)) >= 1 })
	}
}

func (x *c07World) invariant() {
	// index == model
	want := map[string]*c07Link{}
	for _, l := range x.liveLinks() {
		if o, dup := want[l.id]; dup {
			x.fail("harness model has two live links #%d #%d under id %q", o.n, l.n, l.id)
		}
		want[l.id] = l
	}
	// quiescence: the index may trail the notifications by an instant
	vt.WaitUntilFor(3*time.Second, func() bool { return x.srv.CountSession() == len(want) })
	if n := x.srv.CountSession(); n != len(want) {
		x.fail("CountSession() = %d, model has %d live sessions %v", n, len(want), keysOf(want))
	}
	for id, l := range want {
		s, ok := x.srv.GetSession(id)
		if !ok {
			x.fail("GetSession(%q) finds nothing, but session #%d is live under that id", id, l.n)
		}
		if interface{}(s) != interface{}(l.srv) {
			x.fail("GetSession(%q) returns another session than live session #%d", id, l.n)
		}
		if got := l.srv.ID(); got != id {
			x.fail("session #%d reports id %q, model %q", l.n, got, id)
		}
	}
	seen := map[string]bool{}
	x.srv.RangeSession(func(s erpc.Session) bool {
		l, ok := want[s.ID()]
		if !ok || interface{}(l.srv) != interface{}(s) {
			x.fail("RangeSession enumerates a session with id %q that is not a live session of the model", s.ID())
		}
		if seen[s.ID()] {
			x.fail("RangeSession enumerates id %q twice", s.ID())
		}
		seen[s.ID()] = true
		return true
	})
	if len(seen) != len(want) {
		x.fail("RangeSession enumerates %d sessions, model has %d", len(seen), len(want))
	}
	for _, l := range x.links {
		if l.srv == nil {
			continue
		}
		if l.live {
			if !l.srv.Health() {
				x.fail("live session #%d is reported unhealthy", l.n)
			}
			select {
			case <-l.srv.CloseNotify():
				x.fail("close notification of live session #%d has fired", l.n)
			default:
			}
			if n := x.disc.get(interface{}(l.srv)); n != 0 {
				x.fail("disconnect hook ran %d times for live session #%d", n, l.n)
			}
		} else {
			if l.srv.Health() {
				x.fail("closed session #%d is reported healthy (closed state left)", l.n)
			}
			if n := x.disc.get(interface{}(l.srv)); n != 1 {
				x.fail("disconnect hook ran %d times for closed established session #%d, want exactly 1", n, l.n)
			}
			if l.cli != nil && l.cli.Health() {
				x.fail("client session #%d of a closed link is reported healthy", l.n)
			}
		}
	}
}

func keysOf(m map[string]*c07Link) []string {
	var k []string
	for id := range m {
		k = append(k, id)
	}
	sort.Strings(k)
	return k
}

func (x *c07World) freshID() string {
	x.nextID++
	return fmt.Sprintf("id-%d", x.nextID)
}

const ruleC07 = "rapid state machine over one serving peer and one dialling peer: actions {connect with accept-hook verdict accept / reject by status / reject by panicking, hook optionally SetID (fresh or colliding with a live session) and optionally wrapping the connection with ModifySocket before or after that, SetID on a live session (fresh / same / colliding), call, push, close by the serving side / by the remote side / by cutting the connection, Close again on a closed session, call and push on a closed session}; after EVERY action, at a quiescent point (all modelled close notifications awaited), the invariant compares GetSession/CountSession/RangeSession with the model, Health with liveness, close notifications, and the per-session disconnect-hook count (exactly 1 for closed established sessions, 0 for live ones); at the end the peer is closed and everything is re-checked; non-trivial = history has a SetID collision, a close of an indexed session or a rejected accept; distinct by action history"

func TestC07Lifecycle(t *testing.T) {
	rec := vt.NewRec(t, "C07", "lifecycle", ruleC07)
	protos := vt.StreamProtos()
	rapid.Check(t, func(t *rapid.T) {
		vt.Init()
		x := &c07World{t: t, w: vt.NewWorld(), hook: &acceptHook{}, disc: &discRecorder{count: map[interface{}]int{}}, cdisc: &discRecorder{count: map[interface{}]int{}}}
		x.lib = newLib()
		defer x.w.Close()
		x.proto = rapid.SampledFrom(protos).Draw(t, "proto")
		x.srv = x.w.Peer(erpc.PeerConfig{}, x.hook, x.disc)
		x.cli = x.w.Peer(erpc.PeerConfig{}, x.cdisc)
		x.route, _ = registerLib(x.srv)
		_, pushRoute := registerLib(x.cli)
		_ = pushRoute
		nt := false
		t.Repeat(map[string]func(*rapid.T){
			"connect": func(t *rapid.T) {
				if len(x.links) >= 8 {
					t.Skip("enough links")
				}
				reject := rapid.IntRange(0, 3).Draw(t, "reject") == 0
				panics := reject && rapid.IntRange(0, 2).Draw(t, "panics") == 0
				idMode := rapid.SampledFrom([]string{"default", "default", "fresh", "collide"}).Draw(t, "idmode")
				setID := ""
				var victim *c07Link
				switch idMode {
				case "fresh":
					setID = x.freshID()
				case "collide":
					if live := x.liveLinks(); len(live) > 0 {
						victim = live[rapid.IntRange(0, len(live)-1).Draw(t, "victim")]
						setID = victim.id
					}
				}
				wrap := rapid.SampledFrom([]string{"", "", "before", "after"}).Draw(t, "wrap")
				x.hook.mu.Lock()
				x.hook.reject, x.hook.setID, x.hook.panics, x.hook.wrap = reject, setID, panics, wrap
				x.hook.mu.Unlock()
				x.logf("connect reject=%v (by panic=%v) hookSetID=%q wrapsConn=%q", reject, panics, setID, wrap)
				l := x.w.Connect(x.cli, x.srv, x.proto, nil)
				x.hook.mu.Lock()
				x.hook.reject, x.hook.setID, x.hook.panics, x.hook.wrap = false, "", false, ""
				x.hook.mu.Unlock()
				cl := &c07Link{n: len(x.links), link: l, srv: l.B, cli: l.A}
				x.links = append(x.links, cl)
				if reject {
					nt = true
					if l.B != nil || l.BStat.OK() {
						x.fail("accept hook rejected but ServeConn returned a session / OK status")
					}
					if l.BStat.Code() != 403 && !panics {
						x.fail("rejected accept returned status %v, want the hook's 403", l.BStat)
					}
					// the remote end observes the close
					if l.A != nil && !vt.WaitClosed(l.A.CloseNotify()) {
						x.fail("%s", vt.Hang("close notification at the remote end of a rejected connection"))
					}
					// SetID inside the hook takes the id over at once (closing the older
					// session) even though the hook rejects afterwards
					if victim != nil && victim.live {
						x.logf("  id %q taken over from #%d by a connection that was then rejected", setID, victim.n)
						x.markClosed(victim, "its id was taken over inside an accept hook that then rejected")
					}
					return
				}
				if l.B == nil {
					x.fail("accept hook accepted but ServeConn failed: %v", l.BStat)
				}
				cl.live = true
				cl.id = l.B.ID()
				want := setID
				if want == "" {
					want = l.Pair.B.RemoteAddr().String()
				}
				if cl.id != want {
					x.fail("new session has id %q, want %q", cl.id, want)
				}
				if victim != nil && victim.live {
					nt = true
					x.logf("  id %q taken over from #%d by #%d", setID, victim.n, cl.n)
					x.markClosed(victim, "its id was taken over by a newer session")
				}
			},
			"setid": func(t *rapid.T) {
				live := x.liveLinks()
				if len(live) == 0 {
					t.Skip("no live link")
				}
				l := live[rapid.IntRange(0, len(live)-1).Draw(t, "link")]
				mode := rapid.SampledFrom([]string{"fresh", "same", "collide"}).Draw(t, "mode")
				id := l.id
				var victim *c07Link
				switch mode {
				case "fresh":
					id = x.freshID()
				case "collide":
					for _, o := range live {
						if o != l {
							victim = o
							id = o.id
							break
						}
					}
				}
				x.logf("setid #%d %q -> %q (%s)", l.n, l.id, id, mode)
				l.srv.SetID(id)
				l.id = id
				if victim != nil {
					nt = true
					x.markClosed(victim, "its id was taken over via SetID")
				}
			},
			"call": func(t *rapid.T) {
				live := x.liveLinks()
				if len(live) == 0 {
					t.Skip("no live link")
				}
				l := live[rapid.IntRange(0, len(live)-1).Draw(t, "link")]
				rid := fmt.Sprintf("l%dc%d", l.n, l.calls)
				l.calls++
				x.logf("call on #%d", l.n)
				res := new(LibRes)
				cmd := l.cli.AsyncCall(x.route, &LibArg{Rid: rid, Act: "ret", Val: rid}, res, make(chan erpc.CallCmd, 1))
				if !vt.WaitClosed(cmd.Done()) {
					x.fail("%s", vt.Hang("completion of a call on a live session"))
				}
				if !cmd.StatusOK() || res.Val != rid {
					x.fail("call on live session #%d failed: %v", l.n, cmd.Status())
				}
				if n := x.lib.Calls(rid); n != 1 {
					x.fail("handler ran %d times for one call", n)
				}
			},
			"close": func(t *rapid.T) {
				live := x.liveLinks()
				if len(live) == 0 {
					t.Skip("no live link")
				}
				l := live[rapid.IntRange(0, len(live)-1).Draw(t, "link")]
				how := rapid.SampledFrom([]string{"local", "remote", "cut"}).Draw(t, "how")
				x.logf("close #%d (%s)", l.n, how)
				nt = true
				switch how {
				case "local":
					l.srv.Close()
				case "remote":
					l.cli.Close()
				default:
					l.link.Pair.Cut()
				}
				x.markClosed(l, how+" close")
			},
			"takeoverbusy": func(t *rapid.T) {
				// a newer session takes over the id of an older one that still has a
				// handler running (its graceful close is in progress), then the older
				// session's connection is lost: the index must keep the newer session
				live := x.liveLinks()
				if len(live) < 2 {
					t.Skip("needs two live links")
				}
				vi := rapid.IntRange(0, len(live)-1).Draw(t, "victim")
				ni := rapid.IntRange(0, len(live)-2).Draw(t, "newer")
				if ni >= vi {
					ni++
				}
				victim, newer := live[vi], live[ni]
				how := rapid.SampledFrom([]string{"cut", "remote", "none"}).Draw(t, "lose")
				x.logf("takeover-busy: #%d takes id %q of #%d while its handler runs; then %s", newer.n, victim.id, victim.n, how)
				nt = true
				rid := fmt.Sprintf("busy%d-%d", victim.n, victim.calls)
				victim.calls++
				entered, release := x.lib.Gate(rid)
				cmd := victim.cli.AsyncCall(x.route, &LibArg{Rid: rid, Act: "slow", Val: rid}, new(LibRes), make(chan erpc.CallCmd, 1))
				if !vt.WaitClosed(entered) {
					release()
					x.fail("%s", vt.Hang("entry of the gated handler"))
				}
				setDone := make(chan struct{})
				go func() { newer.srv.SetID(victim.id); close(setDone) }() // blocks until the older session's graceful close ends
				newer.id = victim.id
				victim.live = false
				// the older session's graceful close has begun (it is waiting for its handler; the
				// close notification comes when the connection is gone, i.e. after the handler)
				if !vt.WaitUntilFor(vt.LivenessBound, func() bool { return !victim.srv.Health() }) {
					release()
					x.fail("%s", vt.Hang("start of the graceful close of the session whose id was taken over"))
				}
				switch how {
				case "cut":
					victim.link.Pair.Cut()
				case "remote":
					go victim.cli.Close()
				}
				// while the older session is still winding down, the id belongs to the newer one
				vt.WaitUntilFor(3*time.Millisecond, func() bool { _, ok := x.srv.GetSession(newer.id); return !ok })
				if s, ok := x.srv.GetSession(newer.id); !ok || interface{}(s) != interface{}(newer.srv) {
					release()
					x.fail("after session #%d took over id %q and the older session #%d lost its connection, GetSession(%q) no longer returns the live newer session", newer.n, newer.id, victim.n, newer.id)
				}
				release()
				if !vt.WaitClosed(setDone) {
					x.fail("%s", vt.Hang("return of SetID after the older session finished closing"))
				}
				vt.WaitClosed(cmd.Done())
				x.markClosed(victim, "id taken over while busy")
			},
			"raceclose": func(t *rapid.T) {
				// a local Close concurrently with a disconnect (remote close or cut)
				live := x.liveLinks()
				if len(live) == 0 {
					t.Skip("no live link")
				}
				l := live[rapid.IntRange(0, len(live)-1).Draw(t, "link")]
				how := rapid.SampledFrom([]string{"remote", "cut"}).Draw(t, "how")
				spin := rapid.IntRange(0, 200).Draw(t, "spin")
				first := rapid.SampledFrom([]string{"close", "disconnect"}).Draw(t, "first")
				x.logf("race: local Close || %s on #%d (first=%s, spin=%d)", how, l.n, first, spin)
				nt = true
				disconnect := func() {
					if how == "remote" {
						l.cli.Close()
					} else {
						l.link.Pair.Cut()
					}
				}
				var wg sync.WaitGroup
				wg.Add(2)
				start := make(chan struct{})
				delay := func(me string) {
					<-start
					if me != first {
						for i := 0; i < spin; i++ {
							runtime.Gosched()
						}
					}
				}
				go func() { defer wg.Done(); delay("close"); l.srv.Close() }()
				go func() { defer wg.Done(); delay("disconnect"); disconnect() }()
				close(start)
				done := make(chan struct{})
				go func() { wg.Wait(); close(done) }()
				if !vt.WaitClosed(done) {
					x.fail("%s", vt.Hang("local Close racing a disconnect"))
				}
				x.markClosed(l, "race close")
				// give a second, wrongly issued disconnect hook the chance to show up before the invariant counts
				vt.WaitUntilFor(2*time.Millisecond, func() bool { return x.disc.get(interface{}(l.srv)) > 1 })
			},
			"closeagain": func(t *rapid.T) {
				dead := x.deadLinks()
				if len(dead) == 0 {
					t.Skip("no closed link")
				}
				l := dead[rapid.IntRange(0, len(dead)-1).Draw(t, "link")]
				x.logf("close again #%d", l.n)
				done := make(chan struct{})
				go func() { l.srv.Close(); l.cli.Close(); close(done) }()
				if !vt.WaitClosed(done) {
					x.fail("%s", vt.Hang("a repeated Close on a closed session"))
				}
			},
			"useclosed": func(t *rapid.T) {
				dead := x.deadLinks()
				if len(dead) == 0 {
					t.Skip("no closed link")
				}
				l := dead[rapid.IntRange(0, len(dead)-1).Draw(t, "link")]
				side := rapid.SampledFrom([]string{"srv", "cli"}).Draw(t, "side")
				x.logf("call+push on closed #%d (%s side)", l.n, side)
				s := l.srv
				if side == "cli" {
					s = l.cli
				}
				before := x.lib.TotalCalls()
				cmd := s.AsyncCall(x.route, &LibArg{Rid: "dead", Act: "ret"}, new(LibRes), make(chan erpc.CallCmd, 1))
				if !vt.WaitClosed(cmd.Done()) {
					x.fail("%s", vt.Hang("a call on a closed session (must fail fast)"))
				}
				if cmd.Status().Code() != erpc.CodeConnClosed {
					x.fail("call on closed session #%d returned %v, want connection closed (102)", l.n, cmd.Status())
				}
				if st := s.Push(x.route, &LibArg{Rid: "dead"}); st.Code() != erpc.CodeConnClosed {
					x.fail("push on closed session #%d returned %v, want connection closed (102)", l.n, st)
				}
				if x.lib.TotalCalls() != before {
					x.fail("a handler started for a call issued on a closed session")
				}
			},
			"": func(t *rapid.T) { x.invariant() },
		})
		// terminal: peer close ends everything
		x.logf("peer close")
		if msg := x.w.Close(); msg != "" {
			x.fail("%s", msg)
		}
		for _, l := range x.links {
			if l.live {
				x.markClosed(l, "peer close")
			}
		}
		for _, l := range x.links {
			if l.srv != nil {
				if n := x.disc.get(interface{}(l.srv)); n != 1 {
					x.fail("after peer close: disconnect hook ran %d times for established session #%d", n, l.n)
				}
				if l.srv.Health() {
					x.fail("after peer close: session #%d healthy", l.n)
				}
			}
		}
		if n := x.srv.CountSession(); n != 0 {
			x.fail("after peer close the index still lists %d sessions", n)
		}
		rec.Case(strings.Join(x.history, ";"), nt, "proto="+x.proto.Name, fmt.Sprintf("links=%d", len(x.links)))
		if rec.WantSample() && nt {
			rec.Sample(map[string]interface{}{"proto": x.proto.Name, "history": x.history})
		}
	})
}

// gatedAccept blocks the accept hook until released, then returns the verdict.
type gatedAccept struct {
	entered chan struct{}
	release chan struct{}
	reject  bool
}

func (g *gatedAccept) Name() string { return "c07gated" }
func (g *gatedAccept) PostAccept(s erpc.PreSession) *erpc.Status {
	close(g.entered)
	<-g.release
	if g.reject {
		return erpc.NewStatus(403, "rejected", "gated accept hook")
	}
	return nil
}

// TestC07HookGate: traffic that arrives while the accept hook is still
// running is not handled before the hook returned OK, and never if it rejects.
func TestC07HookGate(t *testing.T) {
	rec := vt.NewRec(t, "C07", "hook-gate", "a raw remote pipelines 1-4 CALL/PUSH frames while the serving peer's accept hook is held; the hook then accepts or rejects; oracle: no handler runs and the session is neither healthy nor indexed while the hook is held; after accept every CALL is answered exactly once; after reject no handler ever runs, the remote sees EOF and the session is not listed; every case non-trivial; distinct by case")
	protos := vt.StreamProtos()
	rapid.Check(t, func(t *rapid.T) {
		vt.Init()
		lib := newLib()
		proto := rapid.SampledFrom(protos).Draw(t, "proto")
		reject := rapid.Bool().Draw(t, "reject")
		kinds := rapid.SliceOfN(rapid.SampledFrom([]string{"call", "call", "push"}), 1, 4).Draw(t, "frames")
		rec.Case(fmt.Sprintf("%s|%v|%v", proto.Name, reject, kinds), true, fmt.Sprintf("reject=%v", reject))
		if rec.WantSample() {
			rec.Sample(map[string]interface{}{"proto": proto.Name, "reject": reject, "frames": kinds})
		}
		g := &gatedAccept{entered: make(chan struct{}), release: make(chan struct{}), reject: reject}
		w := vt.NewWorld()
		defer w.Close()
		srv := w.Peer(erpc.PeerConfig{}, g)
		callRoute, pushRoute := registerLib(srv)
		pair := vt.NewPair()
		raw := vt.NewRawPeer(pair, pair.A, proto.Fn)
		defer raw.Close()
		type res struct {
			s  erpc.Session
			st *erpc.Status
		}
		served := make(chan res, 1)
		go func() { s, st := srv.ServeConn(pair.B, proto.Fn); served <- res{s, st} }()
		if !vt.WaitClosed(g.entered) {
			t.Fatalf("%s", vt.Hang("entry of the accept hook"))
		}
		ncalls := 0
		for i, k := range kinds {
			m := vt.Msg{Seq: int32(i + 1), Codec: 'j', Body: []byte(fmt.Sprintf(`{"Rid":"g%d","Act":"ret","Val":"v"}`, i))}
			if k == "call" {
				m.Mtype, m.Method = erpc.TypeCall, callRoute
				ncalls++
			} else {
				m.Mtype, m.Method = erpc.TypePush, pushRoute
			}
			raw.Send(m)
		}
		// the hook is still held: nothing may have been handled
		vt.WaitUntilFor(2*time.Millisecond, func() bool { return lib.TotalCalls() > 0 })
		if n := lib.TotalCalls(); n != 0 {
			t.Fatalf("C07 violated: %d handler(s) ran while the accept hook had not returned", n)
		}
		if srv.CountSession() != 0 {
			t.Fatalf("C07 violated: the session is listed by the peer while its accept hook is still running")
		}
		close(g.release)
		r := <-served
		if reject {
			if r.s != nil || r.st.OK() {
				t.Fatalf("C07 violated: rejected accept returned a session")
			}
			if !raw.WaitEOF() {
				t.Fatalf("%s", vt.Hang("EOF at the remote end of a rejected connection"))
			}
			if n := lib.TotalCalls() + len(raw.Frames()); n != 0 {
				t.Fatalf("C07 violated: a rejected connection had %d handler runs / reply frames", n)
			}
			if srv.CountSession() != 0 {
				t.Fatalf("C07 violated: a rejected connection is listed as a session")
			}
			return
		}
		if r.s == nil {
			t.Fatalf("accept failed: %v", r.st)
		}
		if !raw.WaitFor(func(fr []vt.RawFrame) bool { return len(fr) >= ncalls }) {
			t.Fatalf("%s", vt.Hang("replies to the CALLs pipelined behind the accept hook"))
		}
		// pushes are handled asynchronously: give them time before the barrier
		vt.WaitUntilFor(3*time.Second, func() bool {
			for i := range kinds {
				if lib.Calls(fmt.Sprintf("g%d", i))+lib.Pushes(fmt.Sprintf("g%d", i)) == 0 {
					return false
				}
			}
			return true
		})
		r.s.Close()
		raw.WaitEOF()
		if got := len(raw.Frames()); got != ncalls {
			t.Fatalf("C07 violated: %d CALLs pipelined behind the accept hook, %d reply frames", ncalls, got)
		}
		for i, k := range kinds {
			n := lib.Calls(fmt.Sprintf("g%d", i)) + lib.Pushes(fmt.Sprintf("g%d", i))
			if n > 1 || k == "call" && n != 1 {
				t.Fatalf("C07 violated: frame %d (%s) pipelined behind the accept hook was handled %d times", i, k, n)
			}
		}
	})
}

// dialHook is the dialling-side counterpart of the accept hook.
type dialHook struct {
	reject bool
	panics bool
	setID  string
}

func (h *dialHook) Name() string { return "c07dial" }
func (h *dialHook) PostDial(s erpc.PreSession, isRedial bool) *erpc.Status {
	if h.setID != "" {
		s.SetID(h.setID)
	}
	if h.reject {
		if h.panics {
			panic("dial hook failed")
		}
		return erpc.NewStatus(403, "rejected by dial hook", "c07")
	}
	return nil
}

// TestC07DialHook: the dialling side of "a session is listed and healthy only after its
// hooks succeed": Dial over loopback TCP with a dial hook that optionally assigns an id
// and accepts or rejects.
func TestC07DialHook(t *testing.T) {
	rec := vt.NewRec(t, "C07", "dial-hook", "Dial over loopback TCP with a dial hook that optionally calls SetID (fresh id or the id of a live session of the dialling peer) and accepts or rejects; oracle: after a rejected dial no session is returned, the dialling peer's index lists exactly the sessions that were established before (minus one whose id was taken over), none of them unhealthy; after an accepted dial the session is listed under the assigned id and serves a call; non-trivial = reject or SetID; distinct by case")
	rapid.Check(t, func(t *rapid.T) {
		vt.Init()
		newLib()
		reject := rapid.Bool().Draw(t, "reject")
		idMode := rapid.SampledFrom([]string{"none", "fresh", "collide"}).Draw(t, "idmode")
		rec.Case(fmt.Sprintf("%v|%s", reject, idMode), reject || idMode != "none", fmt.Sprintf("reject=%v", reject), "id="+idMode)
		if rec.WantSample() {
			rec.Sample(map[string]interface{}{"reject": reject, "hook_setid": idMode})
		}
		w := vt.NewWorld()
		defer w.Close()
		srv := w.Peer(erpc.PeerConfig{})
		route, _ := registerLib(srv)
		ts := &tcpServer{peer: srv}
		if err := ts.listen(); err != nil {
			t.Skip("no loopback listener")
		}
		defer ts.down()
		hook := &dialHook{}
		cli := w.Peer(erpc.PeerConfig{DialTimeout: 2 * time.Second}, hook)
		// an established session first
		first, st := cli.Dial(ts.addr)
		if !st.OK() {
			t.Fatalf("first dial failed: %v", st)
		}
		first.SetID("existing")
		hook.reject = reject
		hook.panics = reject && rapid.IntRange(0, 2).Draw(t, "panics") == 0
		switch idMode {
		case "fresh":
			hook.setID = "fresh-id"
		case "collide":
			hook.setID = "existing"
		}
		sess, st := cli.Dial(ts.addr)
		hook.reject, hook.setID, hook.panics = false, "", false
		wantLive := map[string]bool{"existing": true}
		if idMode == "collide" {
			// the id was taken over inside the hook: the older session is closed either way
			if !vt.WaitClosed(first.CloseNotify()) {
				t.Fatalf("%s", vt.Hang("close of the session whose id was taken over by a dial hook"))
			}
			delete(wantLive, "existing")
		}
		if reject {
			if sess != nil || st.OK() {
				t.Fatalf("C07 violated: a dial rejected by its hook returned a session")
			}
		} else {
			if sess == nil {
				t.Fatalf("accepted dial failed: %v", st)
			}
			wantLive[sess.ID()] = true
			if idMode != "none" && sess.ID() != map[string]string{"fresh": "fresh-id", "collide": "existing"}[idMode] {
				t.Fatalf("C07 violated: session id %q after the hook assigned one", sess.ID())
			}
			res := new(LibRes)
			if cmd := sess.Call(route, &LibArg{Rid: "d", Act: "ret", Val: "v"}, res); !cmd.StatusOK() || res.Val != "v" {
				t.Fatalf("C07 violated: a call on the dialled session failed: %v", cmd.Status())
			}
		}
		vt.WaitUntilFor(2*time.Second, func() bool { return cli.CountSession() == len(wantLive) })
		got := map[string]bool{}
		cli.RangeSession(func(s erpc.Session) bool {
			got[s.ID()] = true
			if !s.Health() {
				t.Fatalf("C07 violated: the dialling peer lists session %q which is not healthy (dial hook reject=%v, hook SetID=%s)", s.ID(), reject, idMode)
			}
			return true
		})
		if fmt.Sprint(got) != fmt.Sprint(wantLive) {
			t.Fatalf("C07 violated: after a dial (hook reject=%v, hook SetID=%s) the dialling peer lists %v, live sessions are %v", reject, idMode, got, wantLive)
		}
	})
}

// retryHook refuses the first `refuse` dial attempts and names the session anew on every attempt.
type retryHook struct {
	refuse, attempts int32
	setIDs           bool
}

func (h *retryHook) Name() string { return "c07retry" }
func (h *retryHook) PostDial(s erpc.PreSession, isRedial bool) *erpc.Status {
	n := atomic.AddInt32(&h.attempts, 1)
	if h.setIDs {
		s.SetID(fmt.Sprintf("try-%d", n))
	}
	if n <= atomic.LoadInt32(&h.refuse) {
		return erpc.NewStatus(403, "refused for now", "c07")
	}
	return nil
}

// TestC07DialRetries: Dial with a retry budget runs its hooks once per attempt; ids assigned by
// the hooks of refused attempts leave nothing behind in the index.
func TestC07DialRetries(t *testing.T) {
	rec := vt.NewRec(t, "C07", "dial-retries", "Dial over loopback TCP by a peer with a retry budget of 1-3; the dial hook names the session anew on every attempt (or not at all) and refuses the first K attempts (K from 0 to budget+2); oracle: Dial succeeds iff an attempt was accepted within the budget; afterwards the dialling peer lists exactly the established session (under the id of the accepted attempt) or nothing, every listed session is healthy, and after closing it nothing is listed; non-trivial = K >= 1 with ids assigned; distinct by case")
	rapid.Check(t, func(t *rapid.T) {
		vt.Init()
		newLib()
		budget := int32(rapid.IntRange(1, 3).Draw(t, "budget"))
		k := int32(rapid.IntRange(0, int(budget)+2).Draw(t, "refuse"))
		setIDs := rapid.IntRange(0, 3).Draw(t, "setids") != 0
		rec.Case(fmt.Sprintf("%d|%d|%v", budget, k, setIDs), k >= 1 && setIDs, fmt.Sprintf("budget=%d", budget), fmt.Sprintf("refused=%d", k))
		if rec.WantSample() && k >= 1 && setIDs {
			rec.Sample(map[string]interface{}{"budget": budget, "refused_attempts": k, "hook_sets_ids": setIDs})
		}
		w := vt.NewWorld()
		defer w.Close()
		srv := w.Peer(erpc.PeerConfig{})
		route, _ := registerLib(srv)
		ts := &tcpServer{peer: srv}
		if err := ts.listen(); err != nil {
			t.Skip("no loopback listener")
		}
		defer ts.down()
		hook := &retryHook{refuse: k, setIDs: setIDs}
		cli := w.Peer(erpc.PeerConfig{DialTimeout: 2 * time.Second, RedialTimes: budget, RedialInterval: time.Millisecond}, hook)
		var sess erpc.Session
		var st *erpc.Status
		if !vt.Returns(func() { sess, st = cli.Dial(ts.addr) }) {
			t.Fatalf("%s", vt.Hang("return of Dial"))
		}
		attempts := atomic.LoadInt32(&hook.attempts)
		want := map[string]bool{}
		if sess != nil {
			if !st.OK() {
				t.Fatalf("C07 violated: Dial returned a session and status %v", st)
			}
			if attempts <= k {
				t.Fatalf("C07 violated: Dial returned a session although every one of its %d attempts was refused by the hook", attempts)
			}
			if setIDs && sess.ID() != fmt.Sprintf("try-%d", attempts) {
				t.Fatalf("C07 violated: the session has id %q, the accepted attempt named it %q", sess.ID(), fmt.Sprintf("try-%d", attempts))
			}
			want[sess.ID()] = true
			res := new(LibRes)
			if cmd := sess.Call(route, &LibArg{Rid: "d", Act: "ret", Val: "v"}, res); !cmd.StatusOK() || res.Val != "v" {
				t.Fatalf("C07 violated: a call on the dialled session failed: %v", cmd.Status())
			}
		} else {
			if st.OK() {
				t.Fatalf("C07 violated: Dial returned neither a session nor an error")
			}
			if k == 0 {
				t.Fatalf("C07 violated: Dial failed (%v) although the hook refused nothing", st)
			}
		}
		listed := func() map[string]bool {
			got := map[string]bool{}
			cli.RangeSession(func(s erpc.Session) bool {
				got[s.ID()] = true
				if !s.Health() {
					t.Fatalf("C07 violated: the dialling peer lists session %q which is not healthy (budget %d, %d attempts refused)", s.ID(), budget, k)
				}
				return true
			})
			return got
		}
		vt.WaitUntilFor(time.Second, func() bool { return cli.CountSession() == len(want) })
		if got := listed(); fmt.Sprint(got) != fmt.Sprint(want) || cli.CountSession() != len(want) {
			t.Fatalf("C07 violated: after Dial (budget %d, first %d attempts refused, hook assigns ids: %v, %d attempts made) the dialling peer lists %v (count %d), established: %v", budget, k, setIDs, attempts, got, cli.CountSession(), want)
		}
		if sess != nil {
			sess.Close()
			vt.WaitUntilFor(time.Second, func() bool { return cli.CountSession() == 0 })
			if got := listed(); len(got) != 0 || cli.CountSession() != 0 {
				t.Fatalf("C07 violated: after closing the only session the dialling peer still lists %v (count %d)", got, cli.CountSession())
			}
		}
	})
}
