package core

import (
	"fmt"
	"sort"
	"strings"
	"sync"
	"testing"

	erpc "github.com/henrylee2cn/erpc/v6"
	"github.com/henrylee2cn/erpc/v6/plugin/ignorecase"
	"pgregory.net/rapid"

	"verifharness/vt"
)

// ---- handler library ----------------------------------------------------------------
// Go cannot create methods at run time, so the programs are drawn from this
// library of controllers and functions whose names cover the identifier shapes
// of the documented mapping table.

type RArg struct{ X string }

var c10Log struct {
	sync.Mutex
	hits map[string]int
	seen map[string]string // handler identity -> service method its context showed at its latest run
}

// hitAs records a run of handler id together with the service method that its context reports.
func hitAs(ctx interface{ ServiceMethod() string }, id string) {
	sm := ctx.ServiceMethod()
	c10Log.Lock()
	c10Log.hits[id]++
	c10Log.seen[id] = sm
	c10Log.Unlock()
}

func seenBy(id string) string {
	c10Log.Lock()
	defer c10Log.Unlock()
	return c10Log.seen[id]
}

func hits() map[string]int {
	c10Log.Lock()
	defer c10Log.Unlock()
	out := map[string]int{}
	for k, v := range c10Log.hits {
		out[k] = v
	}
	return out
}

type AaBb struct{ erpc.CallCtx }

func (c *AaBb) Get(a *RArg) (string, *erpc.Status) { hitAs(c, "AaBb.Get"); return "AaBb.Get", nil }
func (c *AaBb) GetAll(a *RArg) (string, *erpc.Status) {
	hitAs(c, "AaBb.GetAll")
	return "AaBb.GetAll", nil
}
func (c *AaBb) Get_All(a *RArg) (string, *erpc.Status) {
	hitAs(c, "AaBb.Get_All")
	return "AaBb.Get_All", nil
}

type Aa__Bb struct{ erpc.CallCtx }

func (c *Aa__Bb) Get(a *RArg) (string, *erpc.Status) {
	hitAs(c, "Aa__Bb.Get")
	return "Aa__Bb.Get", nil
}

type Aa_Bb struct{ erpc.CallCtx }

func (c *Aa_Bb) Get(a *RArg) (string, *erpc.Status) { hitAs(c, "Aa_Bb.Get"); return "Aa_Bb.Get", nil }
func (c *Aa_Bb) X__Y(a *RArg) (string, *erpc.Status) {
	hitAs(c, "Aa_Bb.X__Y")
	return "Aa_Bb.X__Y", nil
}

type ABcXYz struct{ erpc.CallCtx }

func (c *ABcXYz) A(a *RArg) (string, *erpc.Status) { hitAs(c, "ABcXYz.A"); return "ABcXYz.A", nil }
func (c *ABcXYz) URL(a *RArg) (string, *erpc.Status) {
	hitAs(c, "ABcXYz.URL")
	return "ABcXYz.URL", nil
}

type ABC__XYZ struct{ erpc.CallCtx }

func (c *ABC__XYZ) Do(a *RArg) (string, *erpc.Status) {
	hitAs(c, "ABC__XYZ.Do")
	return "ABC__XYZ.Do", nil
}

type ABC_XYZ struct{ erpc.CallCtx }

func (c *ABC_XYZ) Do(a *RArg) (string, *erpc.Status) {
	hitAs(c, "ABC_XYZ.Do")
	return "ABC_XYZ.Do", nil
}
func (c *ABC_XYZ) Do2(a *RArg) (string, *erpc.Status) {
	hitAs(c, "ABC_XYZ.Do2")
	return "ABC_XYZ.Do2", nil
}

type Home struct{ erpc.CallCtx }

func (c *Home) Index(a *RArg) (string, *erpc.Status) {
	hitAs(c, "Home.Index")
	return "Home.Index", nil
}
func (c *Home) Index_(a *RArg) (string, *erpc.Status) {
	hitAs(c, "Home.Index_")
	return "Home.Index_", nil
}
func (c *Home) V1_Get(a *RArg) (string, *erpc.Status) {
	hitAs(c, "Home.V1_Get")
	return "Home.V1_Get", nil
}

// Dup has two methods that map to the same service method under both mappers
// (the documented rows AaBb and Aa__Bb): registering it must report a conflict.
type Dup struct{ erpc.CallCtx }

func (c *Dup) GetItem(a *RArg) (string, *erpc.Status) {
	hitAs(c, "Dup.GetItem")
	return "Dup.GetItem", nil
}
func (c *Dup) Get__Item(a *RArg) (string, *erpc.Status) {
	hitAs(c, "Dup.Get__Item")
	return "Dup.Get__Item", nil
}
func (c *Dup) Other(a *RArg) (string, *erpc.Status) { hitAs(c, "Dup.Other"); return "Dup.Other", nil }

// PDup: the same for push controllers.
type PDup struct{ erpc.PushCtx }

func (p *PDup) NoteAll(a *RArg) *erpc.Status   { hitAs(p, "PDup.NoteAll"); return nil }
func (p *PDup) Note__All(a *RArg) *erpc.Status { hitAs(p, "PDup.Note__All"); return nil }

type P1 struct{ erpc.PushCtx }

func (p *P1) Note(a *RArg) *erpc.Status    { hitAs(p, "P1.Note"); return nil }
func (p *P1) NoteAll(a *RArg) *erpc.Status { hitAs(p, "P1.NoteAll"); return nil }

// PAaBb shares method names with the call controller AaBb on purpose.
type PAaBb struct{ erpc.PushCtx }

func (p *PAaBb) Get(a *RArg) *erpc.Status { hitAs(p, "PAaBb.Get"); return nil }

func FnPlain(ctx erpc.CallCtx, a *RArg) (string, *erpc.Status) {
	hitAs(ctx, "FnPlain")
	return "FnPlain", nil
}
func FnAaBb(ctx erpc.CallCtx, a *RArg) (string, *erpc.Status) {
	hitAs(ctx, "FnAaBb")
	return "FnAaBb", nil
}
func Fn_AaBb(ctx erpc.CallCtx, a *RArg) (string, *erpc.Status) {
	hitAs(ctx, "Fn_AaBb")
	return "Fn_AaBb", nil
}
func Fn__AaBb(ctx erpc.CallCtx, a *RArg) (string, *erpc.Status) {
	hitAs(ctx, "Fn__AaBb")
	return "Fn__AaBb", nil
}
func Fn_Aa_Bb(ctx erpc.CallCtx, a *RArg) (string, *erpc.Status) {
	hitAs(ctx, "Fn_Aa_Bb")
	return "Fn_Aa_Bb", nil
}
func Get(ctx erpc.CallCtx, a *RArg) (string, *erpc.Status) { hitAs(ctx, "Get"); return "Get", nil }
func GetAll(ctx erpc.CallCtx, a *RArg) (string, *erpc.Status) {
	hitAs(ctx, "GetAll")
	return "GetAll", nil
}
func Get__All(ctx erpc.CallCtx, a *RArg) (string, *erpc.Status) {
	hitAs(ctx, "Get__All")
	return "Get__All", nil
}
func PushNote(ctx erpc.PushCtx, a *RArg) *erpc.Status { hitAs(ctx, "PushNote"); return nil }
func FnPlainPush(ctx erpc.PushCtx, a *RArg) *erpc.Status {
	hitAs(ctx, "FnPlainPush")
	return nil
}
func GetPush(ctx erpc.PushCtx, a *RArg) *erpc.Status { hitAs(ctx, "GetPush"); return nil }

// Acct and PSeq: handler methods that are valid handlers and merely share their identifier with
// a method of the embedded context (which they shadow): they are handlers like any other.
type Acct struct{ erpc.CallCtx }

func (c *Acct) Login(a *RArg) (string, *erpc.Status) {
	hitAs(c, "Acct.Login")
	return "Acct.Login", nil
}
func (c *Acct) Session(a *RArg) (string, *erpc.Status) {
	hitAs(c, "Acct.Session")
	return "Acct.Session", nil
}
func (c *Acct) Swap(a *RArg) (string, *erpc.Status) { hitAs(c, "Acct.Swap"); return "Acct.Swap", nil }
func (c *Acct) IP(a *RArg) (string, *erpc.Status)   { hitAs(c, "Acct.IP"); return "Acct.IP", nil }

type PSeq struct{ erpc.PushCtx }

func (p *PSeq) Other(a *RArg) *erpc.Status { hitAs(p, "PSeq.Other"); return nil }
func (p *PSeq) Seq(a *RArg) *erpc.Status   { hitAs(p, "PSeq.Seq"); return nil }
func (p *PSeq) Peer(a *RArg) *erpc.Status  { hitAs(p, "PSeq.Peer"); return nil }

type libItem struct {
	id      string
	kind    string // callstruct | callfunc | pushstruct | pushfunc
	obj     func() interface{}
	name    string   // struct or func identifier
	methods []string // for structs
}

var c10Lib = []libItem{
	{"AaBb", "callstruct", func() interface{} { return new(AaBb) }, "AaBb", []string{"Get", "GetAll", "Get_All"}},
	{"Aa__Bb", "callstruct", func() interface{} { return new(Aa__Bb) }, "Aa__Bb", []string{"Get"}},
	{"Aa_Bb", "callstruct", func() interface{} { return new(Aa_Bb) }, "Aa_Bb", []string{"Get", "X__Y"}},
	{"ABcXYz", "callstruct", func() interface{} { return new(ABcXYz) }, "ABcXYz", []string{"A", "URL"}},
	{"ABC__XYZ", "callstruct", func() interface{} { return new(ABC__XYZ) }, "ABC__XYZ", []string{"Do"}},
	{"ABC_XYZ", "callstruct", func() interface{} { return new(ABC_XYZ) }, "ABC_XYZ", []string{"Do", "Do2"}},
	{"Home", "callstruct", func() interface{} { return new(Home) }, "Home", []string{"Index", "Index_", "V1_Get"}},
	{"Dup", "callstruct", func() interface{} { return new(Dup) }, "Dup", []string{"GetItem", "Get__Item", "Other"}},
	{"Acct", "callstruct", func() interface{} { return new(Acct) }, "Acct", []string{"IP", "Login", "Session", "Swap"}},
	{"PSeq", "pushstruct", func() interface{} { return new(PSeq) }, "PSeq", []string{"Other", "Peer", "Seq"}},
	{"PDup", "pushstruct", func() interface{} { return new(PDup) }, "PDup", []string{"NoteAll", "Note__All"}},
	{"P1", "pushstruct", func() interface{} { return new(P1) }, "P1", []string{"Note", "NoteAll"}},
	{"PAaBb", "pushstruct", func() interface{} { return new(PAaBb) }, "PAaBb", []string{"Get"}},
	{"FnPlain", "callfunc", func() interface{} { return FnPlain }, "FnPlain", nil},
	{"FnAaBb", "callfunc", func() interface{} { return FnAaBb }, "FnAaBb", nil},
	{"Fn_AaBb", "callfunc", func() interface{} { return Fn_AaBb }, "Fn_AaBb", nil},
	{"Fn__AaBb", "callfunc", func() interface{} { return Fn__AaBb }, "Fn__AaBb", nil},
	{"Fn_Aa_Bb", "callfunc", func() interface{} { return Fn_Aa_Bb }, "Fn_Aa_Bb", nil},
	{"Get", "callfunc", func() interface{} { return Get }, "Get", nil},
	{"GetAll", "callfunc", func() interface{} { return GetAll }, "GetAll", nil},
	{"Get__All", "callfunc", func() interface{} { return Get__All }, "Get__All", nil},
	{"PushNote", "pushfunc", func() interface{} { return PushNote }, "PushNote", nil},
	{"FnPlainPush", "pushfunc", func() interface{} { return FnPlainPush }, "FnPlainPush", nil},
	{"GetPush", "pushfunc", func() interface{} { return GetPush }, "GetPush", nil},
}

// ---- generated router program ----------------------------------------------------------

type c10Reg struct {
	Item  int
	Group int // index into Groups (0 = root)
}

type c10Group struct {
	Parent int
	Prefix string
}

type c10Case struct {
	Mapper      string // http | rpc
	Groups      []c10Group
	Regs        []c10Reg
	UnknownCall bool
	UnknownPush bool
	Requests    []string // extra requested names (random strings)
	Early       bool     // the session is established before the unknown-handlers are set and the routes registered
	// name-rewriting plugins on the serving peer, in registration order: "ignorecase" (the shipped
	// plugin/ignorecase) and/or "rewrite" (a plugin applying the table Rewrites through ctx.ResetServiceMethod)
	Rewriters []string
	RewriteOn string // both | call | push: for which message types the table plugin's header hooks rewrite
	Rewrites  []c10Rewrite
	CaseMask  uint64 // which letters of a registered name are flipped to the other case for the "other letter case" requests
}

// c10Rewrite is one row of the rewrite table, abstract in the names (they exist only after registration).
type c10Rewrite struct {
	Alias     string // requested name that is rewritten; "@call"/"@push": the AliasIdx-th registered CALL/PUSH name itself
	AliasIdx  int
	Target    string // call | push: the TargetIdx-th registered name of that namespace; unreg: a name nobody registered; empty: ""
	TargetIdx int
}

var c10Aliases = []string{"/alias/one", "/Alias/One", "alias.two", "Alias.Two", "ALIAS_3", "/a", "X", "", "@call", "@push"}

func genC10Rewriters(t *rapid.T, c *c10Case) {
	switch rapid.IntRange(0, 5).Draw(t, "rewriters") {
	case 0, 1:
		return // the default: no name-rewriting plugin
	case 2:
		c.Rewriters = []string{"ignorecase"}
	case 3:
		c.Rewriters = []string{"rewrite"}
	case 4:
		c.Rewriters = []string{"ignorecase", "rewrite"}
	default:
		c.Rewriters = []string{"rewrite", "ignorecase"}
	}
	c.CaseMask = rapid.Uint64().Draw(t, "casemask")
	if len(c.Rewriters) == 1 && c.Rewriters[0] == "ignorecase" {
		return
	}
	c.RewriteOn = rapid.SampledFrom([]string{"both", "both", "call", "push"}).Draw(t, "rewriteOn")
	n := rapid.IntRange(1, 4).Draw(t, "nrewrites")
	for i := 0; i < n; i++ {
		c.Rewrites = append(c.Rewrites, c10Rewrite{
			Alias:     rapid.SampledFrom(c10Aliases).Draw(t, "alias"),
			AliasIdx:  rapid.IntRange(0, 7).Draw(t, "aliasIdx"),
			Target:    rapid.SampledFrom([]string{"call", "call", "push", "push", "unreg", "empty"}).Draw(t, "target"),
			TargetIdx: rapid.IntRange(0, 7).Draw(t, "targetIdx"),
		})
	}
}

// c10RewritePlugin rewrites the requested service method in the header hooks, as plugin/ignorecase does.
type c10RewritePlugin struct {
	on    string
	mu    sync.Mutex
	table map[string]string
}

func (p *c10RewritePlugin) Name() string { return "c10-rewrite" }

func (p *c10RewritePlugin) setTable(t map[string]string) {
	p.mu.Lock()
	p.table = t
	p.mu.Unlock()
}

func (p *c10RewritePlugin) rewrite(ctx erpc.ReadCtx) {
	p.mu.Lock()
	to, ok := p.table[ctx.ServiceMethod()]
	p.mu.Unlock()
	if ok {
		ctx.ResetServiceMethod(to)
	}
}

func (p *c10RewritePlugin) PostReadCallHeader(ctx erpc.ReadCtx) *erpc.Status {
	if p.on != "push" {
		p.rewrite(ctx)
	}
	return nil
}

func (p *c10RewritePlugin) PostReadPushHeader(ctx erpc.ReadCtx) *erpc.Status {
	if p.on != "call" {
		p.rewrite(ctx)
	}
	return nil
}

var (
	_ erpc.PostReadCallHeaderPlugin = (*c10RewritePlugin)(nil)
	_ erpc.PostReadPushHeaderPlugin = (*c10RewritePlugin)(nil)
)

// flipCase toggles the case of the letters of s selected by mask (bit i for the i-th letter).
func flipCase(s string, mask uint64) string {
	b := []byte(s)
	k := uint(0)
	for i, ch := range b {
		lower, upper := ch >= 'a' && ch <= 'z', ch >= 'A' && ch <= 'Z'
		if !lower && !upper {
			continue
		}
		if mask>>(k%64)&1 == 1 {
			b[i] = ch ^ 0x20
		}
		k++
	}
	return string(b)
}

func genC10(t *rapid.T) c10Case {
	c := c10Case{Mapper: rapid.SampledFrom([]string{"http", "rpc"}).Draw(t, "mapper")}
	c.Groups = []c10Group{{Parent: -1}}
	ng := rapid.IntRange(0, 4).Draw(t, "ngroups")
	for i := 0; i < ng; i++ {
		c.Groups = append(c.Groups, c10Group{
			Parent: rapid.IntRange(0, len(c.Groups)-1).Draw(t, "parent"),
			Prefix: rapid.SampledFrom([]string{"", "v1", "V1", "api", "Api__V2", "a_b", "A_B", "/x/", "x.y", "__", "_", "UserCenter", "a/b/c"}).Draw(t, "prefix"),
		})
	}
	nr := rapid.IntRange(1, 8).Draw(t, "nregs")
	for i := 0; i < nr; i++ {
		c.Regs = append(c.Regs, c10Reg{Item: rapid.IntRange(0, len(c10Lib)-1).Draw(t, "item"), Group: rapid.IntRange(0, len(c.Groups)-1).Draw(t, "group")})
	}
	c.UnknownCall = rapid.Bool().Draw(t, "unknownCall")
	c.UnknownPush = rapid.Bool().Draw(t, "unknownPush")
	c.Requests = rapid.SliceOfN(rapid.StringMatching(`[/.]?[A-Za-z_]{0,6}([/._][a-z_]{1,5}){0,2}`), 0, 4).Draw(t, "requests")
	c.Early = rapid.Bool().Draw(t, "early")
	genC10Rewriters(t, &c)
	return c
}

func mapperFn(name string) erpc.ServiceMethodMapper {
	if name == "rpc" {
		return erpc.RPCServiceMethodMapper
	}
	return erpc.HTTPServiceMethodMapper
}

// predictedNames computes the names of a library item in a group using the
// public mapper functions (the mapper itself is checked against the documented
// table separately).
func predictedNames(m erpc.ServiceMethodMapper, groupPrefix string, it libItem) map[string]string {
	out := map[string]string{}
	if it.methods == nil {
		out[m(groupPrefix, it.name)] = it.id
		return out
	}
	for _, meth := range it.methods {
		out[m(m(groupPrefix, it.name), meth)] = it.id + "." + meth
	}
	return out
}

func nearMisses(name string) []string {
	out := []string{name + "/", name + "_", "/" + name, strings.ToUpper(name), name + "x"}
	if len(name) > 1 {
		out = append(out, name[:len(name)-1], name[1:])
	}
	if i := strings.LastIndexAny(name, "/._"); i > 0 {
		out = append(out, name[:i])
	}
	return out
}

func runC10(c c10Case) []string {
	vt.Init()
	erpc.SetServiceMethodMapper(mapperFn(c.Mapper))
	defer erpc.SetServiceMethodMapper(erpc.HTTPServiceMethodMapper)
	c10Log.Lock()
	c10Log.hits = map[string]int{}
	c10Log.seen = map[string]string{}
	c10Log.Unlock()
	m := mapperFn(c.Mapper)
	w := vt.NewWorld()
	defer w.Close()
	rewriter := &c10RewritePlugin{on: c.RewriteOn}
	var srvPlugins []erpc.Plugin
	for _, r := range c.Rewriters {
		if r == "ignorecase" {
			srvPlugins = append(srvPlugins, ignorecase.NewIgnoreCase())
		} else {
			srvPlugins = append(srvPlugins, rewriter)
		}
	}
	srv := w.Peer(erpc.PeerConfig{}, srvPlugins...)
	cli := w.Peer(erpc.PeerConfig{})
	var fails []string
	failf := func(format string, a ...interface{}) { fails = append(fails, fmt.Sprintf(format, a...)) }

	routers := make([]*erpc.SubRouter, len(c.Groups))
	prefixes := make([]string, len(c.Groups))
	prefixes[0] = m("", "")
	for i, g := range c.Groups {
		if i == 0 {
			continue
		}
		if g.Parent == 0 {
			routers[i] = srv.SubRoute(g.Prefix)
		} else {
			routers[i] = routers[g.Parent].SubRoute(g.Prefix)
		}
		prefixes[i] = m(prefixes[g.Parent], g.Prefix)
	}
	callNS, pushNS := map[string]string{}, map[string]string{} // name -> handler identity
	var l *vt.Link
	if c.Early {
		// routes and unknown-handlers configured after a session exists apply to that session too
		l = w.Connect(cli, srv, vt.StreamProtos()[0], nil)
		if l.A == nil || l.B == nil {
			return []string{"connect failed"}
		}
	}
	if c.UnknownCall {
		srv.SetUnknownCall(func(ctx erpc.UnknownCallCtx) (interface{}, *erpc.Status) {
			hitAs(ctx, "<unknown-call>")
			return "<unknown-call>", nil
		})
	}
	if c.UnknownPush {
		srv.SetUnknownPush(func(ctx erpc.UnknownPushCtx) *erpc.Status { hitAs(ctx, "<unknown-push>"); return nil })
	}
	for _, r := range c.Regs {
		it := c10Lib[r.Item]
		isCall := strings.HasPrefix(it.kind, "call")
		ns := pushNS
		if isCall {
			ns = callNS
		}
		pred := predictedNames(m, prefixes[r.Group], it)
		collide := false
		for n := range pred {
			if _, ok := ns[n]; ok {
				collide = true
			}
		}
		// two methods of one struct may also map to the same name
		if it.methods != nil && len(pred) != len(it.methods) {
			collide = true
		}
		var got []string
		msg, fatal := vt.CatchFatal(func() {
			switch {
			case it.kind == "callstruct" && r.Group == 0:
				got = srv.RouteCall(it.obj())
			case it.kind == "callstruct":
				got = routers[r.Group].RouteCall(it.obj())
			case it.kind == "callfunc" && r.Group == 0:
				got = []string{srv.RouteCallFunc(it.obj())}
			case it.kind == "callfunc":
				got = []string{routers[r.Group].RouteCallFunc(it.obj())}
			case it.kind == "pushstruct" && r.Group == 0:
				got = srv.RoutePush(it.obj())
			case it.kind == "pushstruct":
				got = routers[r.Group].RoutePush(it.obj())
			case it.kind == "pushfunc" && r.Group == 0:
				got = []string{srv.RoutePushFunc(it.obj())}
			default:
				got = []string{routers[r.Group].RoutePushFunc(it.obj())}
			}
		})
		if collide {
			if !fatal {
				failf("registering %s in group %d (%q) maps to a name already taken (%v) but no conflict was reported; returned %v", it.id, r.Group, prefixes[r.Group], pred, got)
			}
			break // after a reported conflict the process would have exited
		}
		if fatal {
			failf("registering %s in group %d (%q) was refused (%s) although its names %v are free", it.id, r.Group, prefixes[r.Group], msg, pred)
			break
		}
		// returned names are exactly the predicted ones, pairwise distinct
		sort.Strings(got)
		var want []string
		for n := range pred {
			want = append(want, n)
		}
		sort.Strings(want)
		if strings.Join(got, "|") != strings.Join(want, "|") {
			failf("registering %s in group %d: returned names %v, mapper predicts %v", it.id, r.Group, got, want)
		}
		for n, id := range pred {
			ns[n] = id
		}
	}
	if len(fails) > 0 {
		return fails
	}
	// the rewrite table in concrete names; a later row for the same alias replaces an earlier one
	sortedNames := func(ns map[string]string) []string {
		var out []string
		for n := range ns {
			out = append(out, n)
		}
		sort.Strings(out)
		return out
	}
	callNames, pushNames := sortedNames(callNS), sortedNames(pushNS)
	pick := func(kind string, idx int) (string, bool) {
		names := callNames
		if kind == "push" {
			names = pushNames
		}
		if len(names) == 0 {
			return "", false
		}
		return names[idx%len(names)], true
	}
	table := map[string]string{}
	var aliases []string
	for i, rw := range c.Rewrites {
		alias, ok := rw.Alias, true
		if strings.HasPrefix(alias, "@") {
			alias, ok = pick(alias[1:], rw.AliasIdx)
		}
		if !ok {
			continue
		}
		target := fmt.Sprintf("/c10/nobody/registered_%d", i)
		switch rw.Target {
		case "call", "push":
			if n, ok := pick(rw.Target, rw.TargetIdx); ok {
				target = n
			}
		case "empty":
			target = ""
		}
		if _, dup := table[alias]; !dup {
			aliases = append(aliases, alias)
		}
		table[alias] = target
	}
	rewriter.setTable(table)
	// rewritten is the reference model of the name the router sees: the plugins' header hooks applied in registration order
	rewritten := func(kind, name string) string {
		for _, r := range c.Rewriters {
			switch {
			case r == "ignorecase":
				name = strings.ToLower(name)
			case c.RewriteOn == "both" || c.RewriteOn == kind:
				if to, ok := table[name]; ok {
					name = to
				}
			}
		}
		return name
	}
	if l == nil {
		l = w.Connect(cli, srv, vt.StreamProtos()[0], nil)
		if l.A == nil || l.B == nil {
			return []string{"connect failed"}
		}
	}
	expected := map[string]int{} // cumulative expected handler runs
	sameHits := func() string {
		got := hits()
		for id, n := range got {
			if expected[id] != n {
				return fmt.Sprintf("handler %s ran %d times in total, model says %d", id, n, expected[id])
			}
		}
		for id, n := range expected {
			if got[id] != n {
				return fmt.Sprintf("handler %s ran %d times in total, model says %d", id, got[id], n)
			}
		}
		return ""
	}
	request := func(kind, name string) {
		if len(fails) > 0 {
			return
		}
		var wantID string
		var known bool
		// routing uses the name as the header hooks of the peer's plugins left it
		routed := rewritten(kind, name)
		if kind == "call" {
			wantID, known = callNS[routed]
		} else {
			wantID, known = pushNS[routed]
		}
		expectHit := ""
		switch {
		case routed == "":
			// an empty service method is rejected as a bad message before any lookup
		case known:
			expectHit = wantID
		case kind == "call" && c.UnknownCall:
			expectHit = "<unknown-call>"
		case kind == "push" && c.UnknownPush:
			expectHit = "<unknown-push>"
		}
		if expectHit != "" {
			expected[expectHit]++
		}
		if routed != name {
			what := "unregistered"
			if known {
				what = "registered"
			}
			c10Rewritten.Class("rewritten-"+kind+"->"+what, 1)
		}
		if kind == "call" {
			var result string
			cmd := l.A.AsyncCall(name, &RArg{X: "x"}, &result, make(chan erpc.CallCmd, 1))
			if !vt.WaitClosed(cmd.Done()) {
				failf("%s", vt.Hang("call to "+name))
				return
			}
			code := cmd.Status().Code()
			switch {
			case routed == "":
				if code != 400 {
					failf("call %q (service method after the header hooks: empty): status %d, want 400", name, code)
				}
			case known:
				if code != 0 || result != wantID {
					failf("call %q (service method after the header hooks: %q): status %d result %q, want OK and %q", name, routed, code, result, wantID)
				}
			case c.UnknownCall:
				if code != 0 {
					failf("call %q (after the header hooks: %q, unregistered, unknown handler set): status %d", name, routed, code)
				}
			default:
				if code != 404 {
					failf("call %q (after the header hooks: %q, unregistered): status %d, want 404", name, routed, code)
				}
			}
		} else if st := l.A.Push(name, &RArg{X: "x"}); !st.OK() {
			failf("push %q failed to send: %v", name, st)
			return
		}
		if expectHit != "" {
			vt.WaitUntil(func() bool { return hits()[expectHit] >= expected[expectHit] })
		}
		if d := sameHits(); d != "" {
			failf("after %s %q (service method after the header hooks %q, owned by %q): %s", kind, name, routed, expectHit, d)
		} else if expectHit != "" && seenBy(expectHit) != routed {
			failf("after %s %q: handler %s saw ctx.ServiceMethod() = %q, the header hooks had set %q", kind, name, expectHit, seenBy(expectHit), routed)
		}
	}
	var names []string
	for n := range callNS {
		names = append(names, "call\x00"+n)
	}
	for n := range pushNS {
		names = append(names, "push\x00"+n)
	}
	sort.Strings(names)
	for _, kn := range names {
		parts := strings.SplitN(kn, "\x00", 2)
		kind, n := parts[0], parts[1]
		request(kind, n)
		// the same name in the OTHER namespace
		other := "push"
		if kind == "push" {
			other = "call"
		}
		request(other, n)
		for _, nm := range nearMisses(n) {
			request(kind, nm)
		}
		if len(c.Rewriters) > 0 {
			// the registered name in other letter cases, in both namespaces
			for j, nm := range []string{flipCase(n, c.CaseMask), flipCase(n, ^c.CaseMask), strings.ToLower(n)} {
				request(kind, nm)
				if j == 0 {
					request(other, nm)
				}
			}
		}
		if len(fails) > 0 {
			return fails
		}
	}
	// every alias of the rewrite table as CALL and as PUSH, also in other letter cases
	for _, a := range aliases {
		for _, nm := range []string{a, flipCase(a, c.CaseMask), strings.ToLower(a), strings.ToUpper(a)} {
			request("call", nm)
			request("push", nm)
		}
		if len(fails) > 0 {
			return fails
		}
	}
	for _, rq := range c.Requests {
		request("call", rq)
		request("push", rq)
	}
	// barrier: a graceful close waits for every handler still running
	l.B.Close()
	if d := sameHits(); d != "" {
		failf("at quiescence: %s", d)
	}
	return fails
}

func (c c10Case) nontrivial() bool { return len(c.Groups) > 1 || len(c.Regs) > 1 }

const ruleC10 = "router program = mapper (HTTP/RPC) x a tree of 0-4 SubRoute prefixes (incl. empty, separators, double underscores) x 1-8 registrations drawn from a library of 9 controller structs and 11 handler functions whose identifiers cover the documented shapes (AaBb, ABcXYz, Aa__Bb, Aa_Bb, ABC__XYZ, ABC_XYZ, leading/trailing underscores, deliberately colliding pairs) x unknown-call/unknown-push handlers set or not x the requesting session established before or after all of that x name-rewriting plugins on the serving peer (none, the shipped plugin/ignorecase, a plugin whose PostReadCallHeader/PostReadPushHeader hooks apply a generated rewrite table of 1-4 rows through ctx.ResetServiceMethod - alias or a registered name -> a registered CALL name, a registered PUSH name, an unregistered name or the empty name; acting on both message types or only on CALLs / only on PUSHes - or both plugins in either order); then every returned name, the same name in the other namespace, 8 near-misses per name and random strings are requested, with a rewriting plugin also every registered name in generated other letter cases and every alias (as is and in other letter cases) as CALL and as PUSH; oracle: names = mapper prediction and pairwise distinct, predicted collisions must be reported, each request runs exactly the handler that owns - in the namespace of the message type - the name as the plugins' header hooks left it (or the unknown handler / 404 / 400 for an empty name) and no other, and that handler's ctx.ServiceMethod() is that name; non-trivial = >=2 registrations or nested groups; distinct by program"

// c10Rewritten counts the requests whose name a plugin rewrote, by message type and outcome.
var c10Rewritten *vt.Rec

func TestC10Routes(t *testing.T) {
	rec := vt.NewRec(t, "C10", "routes", ruleC10)
	c10Rewritten = rec
	rapid.Check(t, func(t *rapid.T) {
		c := genC10(t)
		rec.Case(fmt.Sprintf("%+v", c), c.nontrivial(), "mapper="+c.Mapper, fmt.Sprintf("groups=%d", len(c.Groups)-1), "rewriters="+strings.Join(c.Rewriters, "+"), "rewriteOn="+c.RewriteOn)
		if rec.WantSample() && c.nontrivial() {
			rec.Sample(c)
		}
		if fails := runC10(c); len(fails) > 0 {
			t.Fatalf("C10 violated (%d findings), first: %s\ncase: %+v", len(fails), fails[0], c)
		}
	})
}

// ---- the mapper as a function ----------------------------------------------------------

var docTable = []struct{ in, http, rpc string }{
	{"AaBb", "/aa_bb", "AaBb"},
	{"ABcXYz", "/abc_xyz", "ABcXYz"},
	{"Aa__Bb", "/aa_bb", "Aa_Bb"},
	{"aa__bb", "/aa_bb", "aa_bb"},
	{"ABC__XYZ", "/abc_xyz", "ABC_XYZ"},
	{"Aa_Bb", "/aa/bb", "Aa.Bb"},
	{"aa_bb", "/aa/bb", "aa.bb"},
	{"ABC_XYZ", "/abc/xyz", "ABC.XYZ"},
}

func TestC10MapperTable(t *testing.T) {
	rec := vt.NewRec(t, "C10", "mapper-table", "the 8 rows of the documented mapping table, literally, for both mappers")
	for _, r := range docTable {
		rec.Case(r.in, true)
		rec.Sample(r)
		if g := erpc.HTTPServiceMethodMapper("", r.in); g != r.http {
			t.Errorf("HTTP mapper(%q) = %q, documented %q", r.in, g, r.http)
		}
		if g := erpc.RPCServiceMethodMapper("", r.in); g != r.rpc {
			t.Errorf("RPC mapper(%q) = %q, documented %q", r.in, g, r.rpc)
		}
	}
}

func TestC10MapperFunction(t *testing.T) {
	rec := vt.NewRec(t, "C10", "mapper-function", "mapper(prefix, identifier) over word templates W1W2 / W1__W2 / W1_W2 with words from the table's three families (Capitalised, lower, ALLCAPS; same family on both sides) and over arbitrary strings of the identifier alphabet: documented image for template instances (alone, below a prefix, below an unnamed group), determinism, totality (no panic) and canonical form (no leading/trailing separator; rooted clean path) for everything; non-trivial = template instance; distinct by input")
	rapid.Check(t, func(t *rapid.T) {
		fam := rapid.SampledFrom([]string{"cap", "lower", "caps", "any"}).Draw(t, "family")
		if fam == "any" {
			prefix := rapid.StringMatching(`[A-Za-z0-9_/.]{0,12}`).Draw(t, "prefix")
			name := rapid.StringMatching(`[A-Za-z0-9_]{0,16}`).Draw(t, "name")
			rec.Case("any|"+prefix+"|"+name, false, "family=any")
			for _, m := range []erpc.ServiceMethodMapper{erpc.HTTPServiceMethodMapper, erpc.RPCServiceMethodMapper} {
				var a, b string
				func() {
					defer func() {
						if p := recover(); p != nil {
							t.Fatalf("mapper(%q,%q) panicked: %v", prefix, name, p)
						}
					}()
					a, b = m(prefix, name), m(prefix, name)
				}()
				if a != b {
					t.Fatalf("mapper(%q,%q) is not deterministic: %q then %q", prefix, name, a, b)
				}
			}
			// canonical form: names are joined by the separator, never begin (RPC) or end with
			// it, and the HTTP form is a rooted clean path - this is what makes a group prefix
			// (the mapper applied to a prefix alone) composable with the names below it
			if g := erpc.RPCServiceMethodMapper(prefix, name); strings.HasPrefix(g, ".") || strings.HasSuffix(g, ".") {
				t.Fatalf("RPC mapper(%q,%q) = %q begins or ends with the separator", prefix, name, g)
			}
			if g := erpc.HTTPServiceMethodMapper(prefix, name); !strings.HasPrefix(g, "/") || (g != "/" && strings.HasSuffix(g, "/")) || strings.Contains(g, "//") {
				t.Fatalf("HTTP mapper(%q,%q) = %q is not a rooted clean path", prefix, name, g)
			}
			return
		}
		var re string
		switch fam {
		case "cap":
			re = `[A-Z][a-z]{1,6}`
		case "lower":
			re = `[a-z]{2,7}`
		default:
			re = `[A-Z]{2,6}`
		}
		w1 := rapid.StringMatching(re).Draw(t, "w1")
		w2 := rapid.StringMatching(re).Draw(t, "w2")
		l1, l2 := strings.ToLower(w1), strings.ToLower(w2)
		shape := rapid.SampledFrom([]string{"W1W2", "W1__W2", "W1_W2"}).Draw(t, "shape")
		if shape == "W1W2" && fam != "cap" {
			shape = "W1__W2"
		}
		var in, http, rpc string
		switch shape {
		case "W1W2":
			in, http, rpc = w1+w2, "/"+l1+"_"+l2, w1+w2
		case "W1__W2":
			in, http, rpc = w1+"__"+w2, "/"+l1+"_"+l2, w1+"_"+w2
		default:
			in, http, rpc = w1+"_"+w2, "/"+l1+"/"+l2, w1+"."+w2
		}
		rec.Case(in, true, "family="+fam, "shape="+shape)
		if rec.WantSample() {
			rec.Sample(map[string]string{"in": in, "http": http, "rpc": rpc})
		}
		if g := erpc.HTTPServiceMethodMapper("", in); g != http {
			t.Fatalf("HTTP mapper(%q) = %q, the documented rule for %s gives %q", in, g, shape, http)
		}
		if g := erpc.RPCServiceMethodMapper("", in); g != rpc {
			t.Fatalf("RPC mapper(%q) = %q, the documented rule for %s gives %q", in, g, shape, rpc)
		}
		// with a prefix ("such as user/get", "User.Get"), also when the prefix is itself the
		// mapper's image of a group name, and below an unnamed group
		pw := rapid.SampledFrom([]string{"api", "v1", "User", "a_b"}).Draw(t, "pw")
		if g := erpc.HTTPServiceMethodMapper(pw, in); g != "/"+pw+http {
			t.Fatalf("HTTP mapper(%q,%q) = %q, want %q", pw, in, g, "/"+pw+http)
		}
		if g := erpc.RPCServiceMethodMapper(pw, in); g != pw+"."+rpc {
			t.Fatalf("RPC mapper(%q,%q) = %q, want %q", pw, in, g, pw+"."+rpc)
		}
		if g := erpc.HTTPServiceMethodMapper(erpc.HTTPServiceMethodMapper(erpc.HTTPServiceMethodMapper("", pw), ""), in); g != erpc.HTTPServiceMethodMapper(erpc.HTTPServiceMethodMapper("", pw), in) {
			t.Fatalf("HTTP mapper: an unnamed group below %q changes the name of %q to %q", pw, in, g)
		}
		if g := erpc.RPCServiceMethodMapper(erpc.RPCServiceMethodMapper(erpc.RPCServiceMethodMapper("", pw), ""), in); g != erpc.RPCServiceMethodMapper(erpc.RPCServiceMethodMapper("", pw), in) {
			t.Fatalf("RPC mapper: an unnamed group below %q changes the name of %q to %q", pw, in, g)
		}
	})
}
