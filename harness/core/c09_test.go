package core

import (
	"errors"
	"fmt"
	"strings"
	"sync"
	"testing"
	"time"

	erpc "github.com/henrylee2cn/erpc/v6"
	"github.com/henrylee2cn/erpc/v6/socket"
	"github.com/henrylee2cn/erpc/v6/xfer"
	"pgregory.net/rapid"

	"verifharness/vt"
)

// ---- recording plugin ----------------------------------------------------------------

var allStages = []string{
	"PreWriteCall", "PostWriteCall", "PreWritePush", "PostWritePush", "PreWriteReply", "PostWriteReply",
	"PostReadCallHeader", "PreReadCallBody", "PostReadCallBody",
	"PostReadPushHeader", "PreReadPushBody", "PostReadPushBody",
	"PostReadReplyHeader", "PreReadReplyBody", "PostReadReplyBody",
}

type hookLog struct {
	mu   sync.Mutex
	recs []string // "plugin:stage"
}

func (l *hookLog) add(s string) {
	l.mu.Lock()
	l.recs = append(l.recs, s)
	l.mu.Unlock()
}
func (l *hookLog) snapshot() []string {
	l.mu.Lock()
	defer l.mu.Unlock()
	return append([]string(nil), l.recs...)
}
func (l *hookLog) len() int { l.mu.Lock(); defer l.mu.Unlock(); return len(l.recs) }

type recPlugin struct {
	name    string
	log     *hookLog
	enabled map[string]bool
	veto    string // stage at which this plugin vetoes ("" = never)
	vetoPad int    // > 0: the veto status carries a cause of that many bytes
	linger  string
}

func (p *recPlugin) Name() string { return p.name }

func (p *recPlugin) at(stage string) *erpc.Status {
	if !p.enabled[stage] {
		return nil
	}
	p.log.add(p.name + ":" + stage)
	if p.linger == stage {
		time.Sleep(300 * time.Microsecond)
	}
	if p.veto == stage {
		if p.vetoPad > 0 {
			return erpc.NewStatus(880, "veto by "+p.name, strings.Repeat("V", p.vetoPad))
		}
		return erpc.NewStatus(880, "veto by "+p.name, stage)
	}
	return nil
}

func (p *recPlugin) PreWriteCall(erpc.WriteCtx) *erpc.Status      { return p.at("PreWriteCall") }
func (p *recPlugin) PostWriteCall(erpc.WriteCtx) *erpc.Status     { return p.at("PostWriteCall") }
func (p *recPlugin) PreWritePush(erpc.WriteCtx) *erpc.Status      { return p.at("PreWritePush") }
func (p *recPlugin) PostWritePush(erpc.WriteCtx) *erpc.Status     { return p.at("PostWritePush") }
func (p *recPlugin) PreWriteReply(erpc.WriteCtx) *erpc.Status     { return p.at("PreWriteReply") }
func (p *recPlugin) PostWriteReply(erpc.WriteCtx) *erpc.Status    { return p.at("PostWriteReply") }
func (p *recPlugin) PostReadCallHeader(erpc.ReadCtx) *erpc.Status { return p.at("PostReadCallHeader") }
func (p *recPlugin) PreReadCallBody(erpc.ReadCtx) *erpc.Status    { return p.at("PreReadCallBody") }
func (p *recPlugin) PostReadCallBody(erpc.ReadCtx) *erpc.Status   { return p.at("PostReadCallBody") }
func (p *recPlugin) PostReadPushHeader(erpc.ReadCtx) *erpc.Status { return p.at("PostReadPushHeader") }
func (p *recPlugin) PreReadPushBody(erpc.ReadCtx) *erpc.Status    { return p.at("PreReadPushBody") }
func (p *recPlugin) PostReadPushBody(erpc.ReadCtx) *erpc.Status   { return p.at("PostReadPushBody") }
func (p *recPlugin) PostReadReplyHeader(erpc.ReadCtx) *erpc.Status {
	return p.at("PostReadReplyHeader")
}
func (p *recPlugin) PreReadReplyBody(erpc.ReadCtx) *erpc.Status  { return p.at("PreReadReplyBody") }
func (p *recPlugin) PostReadReplyBody(erpc.ReadCtx) *erpc.Status { return p.at("PostReadReplyBody") }

// ---- generated arrangement --------------------------------------------------------------

type plugSpec struct {
	Name    string
	Stages  []string
	Veto    string
	Where   string // gl | gr | group<k> | handler<k>
	Late    bool   // attached after routes were registered (global only)
	LateHow string // left | right
	VetoPad int    // > 0: the veto status is that many bytes larger than the configured message size limit allows
	Linger  string // a stage at which this plugin's hook takes a while (300 us) after it was entered: what happens meanwhile elsewhere must not overtake the stages behind it
}

type c09Case struct {
	Proto     string
	Depth     int // number of nested groups (0..3); handlers are registered at every level 0..Depth
	SrvPlugs  []plugSpec
	CliPlugs  []plugSpec // caller side: global only
	Msgs      []c09Msg
	HandlerAt []int    // levels at which messages are sent (derived)
	Unknown   bool     // unknown-call / unknown-push handlers are set (with their own plugins, "handler-1"); messages of level -1 go to unregistered routes (Not Found on the global container when no unknown handler is set)
	Removed   []string // global plugins taken out again with PluginContainer().Remove before the traffic starts
	SizeLimit int      // > 0: socket.SetMessageSizeLimit for the case (raw protocol only: the only shipped stream protocol that refuses to pack beyond it)
}

type c09Msg struct {
	Kind  string // call | push
	Level int
	Act   string // ret | err, and the acts whose first REPLY write fails on a live connection (c09FailActs)
}

// c09FailActs are handler behaviours that make the first write of the REPLY fail for a
// reason other than a closed connection; the framework then answers with a fallback 500.
//
//	badreply  the result is a value no body codec can marshal (a channel)
//	badjson   the result's MarshalJSON returns an error
//	badcodec  the handler asks for a reply body codec id that is not registered
//	xferfail  the handler adds a transfer filter whose OnPack refuses this reply
//	bigreply  the result is larger than the configured message size limit
//	bigerr    the handler fails with a status larger than the configured message size limit
var c09FailActs = []string{"badreply", "badjson", "badcodec", "xferfail"}
var c09FailActsLimit = []string{"bigreply", "bigerr"}

func c09ActFailsFirstWrite(act string) bool {
	for _, a := range append(append([]string{}, c09FailActs...), c09FailActsLimit...) {
		if a == act {
			return true
		}
	}
	return false
}

// c09BadJSON cannot be marshalled by the JSON body codec.
type c09BadJSON struct{ Rid string }

func (c09BadJSON) MarshalJSON() ([]byte, error) {
	return nil, errors.New("c09: refuses to be marshalled")
}

// c09XferFail is a transfer filter that passes everything through except a payload
// that carries its marker, which it refuses to pack.
const (
	c09XferID     = byte(0xC9)
	c09XferMarker = "c09-UNPACKABLE-PAYLOAD"
	c09NoCodecID  = byte(0xEC) // not a registered body codec
)

type c09XferFail struct{}

func (c09XferFail) ID() byte     { return c09XferID }
func (c09XferFail) Name() string { return "c09-failpack" }
func (c09XferFail) OnPack(b []byte) ([]byte, error) {
	if strings.Contains(string(b), c09XferMarker) {
		return nil, errors.New("c09 filter: refuses to pack this payload")
	}
	return b, nil
}
func (c09XferFail) OnUnpack(b []byte) ([]byte, error) { return b, nil }

func init() { xfer.Reg(c09XferFail{}) }

func genPlug(t *rapid.T, name string, where string, canVeto bool) plugSpec {
	p := plugSpec{Name: name, Where: where}
	n := rapid.IntRange(1, len(allStages)).Draw(t, "nstages")
	p.Stages = rapid.SliceOfNDistinct(rapid.SampledFrom(allStages), n, n, rapid.ID[string]).Draw(t, "stages")
	if canVeto && rapid.IntRange(0, 3).Draw(t, "doesveto") == 0 {
		p.Veto = rapid.SampledFrom(p.Stages).Draw(t, "veto")
	}
	if rapid.IntRange(0, 3).Draw(t, "lingers") == 0 {
		p.Linger = rapid.SampledFrom(p.Stages).Draw(t, "linger")
	}
	return p
}

func genC09(t *rapid.T, protos []vt.NamedProto) c09Case {
	c := c09Case{Proto: rapid.SampledFrom(protos).Draw(t, "proto").Name}
	c.Depth = rapid.IntRange(0, 3).Draw(t, "depth")
	if c.Proto == "raw" && rapid.IntRange(0, 2).Draw(t, "limited") == 0 {
		c.SizeLimit = rapid.SampledFrom([]int{4 << 10, 16 << 10}).Draw(t, "sizelimit")
	}
	id := 0
	name := func() string { id++; return fmt.Sprintf("p%d", id) }
	vetoBudget := 1
	mk := func(where string) plugSpec {
		p := genPlug(t, name(), where, vetoBudget > 0)
		if p.Veto != "" {
			vetoBudget--
			if c.SizeLimit > 0 && rapid.Bool().Draw(t, "bigveto") {
				p.VetoPad = c.SizeLimit
			}
		}
		return p
	}
	for i, n := 0, rapid.IntRange(0, 4).Draw(t, "ngl"); i < n; i++ {
		c.SrvPlugs = append(c.SrvPlugs, mk("gl"))
	}
	for i, n := 0, rapid.IntRange(0, 4).Draw(t, "ngr"); i < n; i++ {
		c.SrvPlugs = append(c.SrvPlugs, mk("gr"))
	}
	for lvl := 1; lvl <= c.Depth; lvl++ {
		for i, n := 0, rapid.IntRange(0, 2).Draw(t, "ngroup"); i < n; i++ {
			c.SrvPlugs = append(c.SrvPlugs, mk(fmt.Sprintf("group%d", lvl)))
		}
	}
	for lvl := 0; lvl <= c.Depth; lvl++ {
		// the CALL route and the PUSH route of a level are registered with plugins of their own
		for i, n := 0, rapid.IntRange(0, 2).Draw(t, "nhandler"); i < n; i++ {
			c.SrvPlugs = append(c.SrvPlugs, mk(fmt.Sprintf("handler%d", lvl)))
		}
		for i, n := 0, rapid.IntRange(0, 2).Draw(t, "npushhandler"); i < n; i++ {
			c.SrvPlugs = append(c.SrvPlugs, mk(fmt.Sprintf("phandler%d", lvl)))
		}
	}
	c.Unknown = rapid.IntRange(0, 2).Draw(t, "unknown") == 0
	if c.Unknown {
		for i, n := 0, rapid.IntRange(0, 2).Draw(t, "nunknown"); i < n; i++ {
			c.SrvPlugs = append(c.SrvPlugs, mk("handler-1"))
		}
	}
	// late global attachments
	for i, n := 0, rapid.IntRange(0, 2).Draw(t, "nlate"); i < n; i++ {
		p := mk("gl")
		p.Late = true
		p.LateHow = rapid.SampledFrom([]string{"left", "right"}).Draw(t, "latehow")
		if p.LateHow == "right" {
			p.Where = "gr"
		}
		c.SrvPlugs = append(c.SrvPlugs, p)
	}
	// some global plugins are removed again before the traffic starts
	if rapid.IntRange(0, 2).Draw(t, "removes") == 0 {
		for _, p := range c.SrvPlugs {
			if (p.Where == "gl" || p.Where == "gr") && rapid.IntRange(0, 2).Draw(t, "remove-"+p.Name) == 0 {
				c.Removed = append(c.Removed, p.Name)
			}
		}
	}
	for i, n := 0, rapid.IntRange(0, 2).Draw(t, "ncli"); i < n; i++ {
		c.CliPlugs = append(c.CliPlugs, mk("gl"))
	}
	nm := rapid.IntRange(1, 6).Draw(t, "nmsgs")
	acts := []string{"ret", "ret", "ret", "ret", "ret", "ret", "err", "err", "err"}
	acts = append(acts, c09FailActs...)
	if c.SizeLimit > 0 {
		acts = append(acts, c09FailActsLimit...)
	}
	for i := 0; i < nm; i++ {
		m := c09Msg{
			Kind: rapid.SampledFrom([]string{"call", "call", "push"}).Draw(t, "mkind"),
			Level: func() int {
				// level -1: a route that is not registered (served by the unknown handlers if they are set)
				if rapid.IntRange(0, 2).Draw(t, "tounknown") == 0 {
					return -1
				}
				return rapid.IntRange(0, c.Depth).Draw(t, "mlevel")
			}(),
		}
		if m.Kind == "call" {
			m.Act = rapid.SampledFrom(acts).Draw(t, "mact")
		} else {
			m.Act = rapid.SampledFrom([]string{"ret", "ret", "err"}).Draw(t, "mact")
		}
		c.Msgs = append(c.Msgs, m)
	}
	return c
}

func (p plugSpec) has(stage string) bool {
	for _, s := range p.Stages {
		if s == stage {
			return true
		}
	}
	return false
}

// chain returns the documented plugin order for a handler registered at level:
// global-left, groups outer->inner, handler-level, global-right. Late "left"
// attachments go in front of the existing left plugins (AppendLeft prepends),
// late "right" ones at the very end.
func (c c09Case) chain(level int, global bool, kind ...string) []plugSpec {
	hprefix := "handler"
	if len(kind) > 0 && kind[0] == "push" && level >= 0 {
		hprefix = "phandler"
	}
	var lateLeft, left, middle, right, lateRight []plugSpec
	for _, p := range c.SrvPlugs {
		switch {
		case p.Late && p.LateHow == "left":
			lateLeft = append([]plugSpec{p}, lateLeft...)
		case p.Late && p.LateHow == "right":
			lateRight = append(lateRight, p)
		case p.Where == "gl":
			left = append(left, p)
		case p.Where == "gr":
			right = append(right, p)
		}
	}
	if !global {
		for lvl := 1; lvl <= level; lvl++ {
			for _, p := range c.SrvPlugs {
				if p.Where == fmt.Sprintf("group%d", lvl) {
					middle = append(middle, p)
				}
			}
		}
		for _, p := range c.SrvPlugs {
			if p.Where == fmt.Sprintf("%s%d", hprefix, level) {
				middle = append(middle, p)
			}
		}
	}
	all := append([]plugSpec{}, lateLeft...)
	all = append(all, left...)
	all = append(all, middle...)
	all = append(all, right...)
	all = append(all, lateRight...)
	out := all[:0]
	for _, p := range all {
		gone := false
		for _, r := range c.Removed {
			gone = gone || r == p.Name
		}
		if !gone {
			out = append(out, p)
		}
	}
	return out
}

// runStage appends the records of one stage and reports the vetoing plugin (if any).
func runStage(trace *[]string, chain []plugSpec, stage string) (vetoed bool) {
	for _, p := range chain {
		if !p.has(stage) {
			continue
		}
		*trace = append(*trace, p.Name+":"+stage)
		if p.Veto == stage {
			return true
		}
	}
	return false
}

type c09Expect struct {
	srv, cli   []string
	callerCode int32 // expected status code at the caller (call) / Push return
	written    bool  // whether the message is written to the wire
	handlerRun bool
	replyFails bool // the first write of the REPLY fails on the live connection; a fallback 500 is written
}

// vetoer returns the plugin of chain that vetoes at stage (the one runStage stopped at).
func vetoer(chain []plugSpec, stage string) plugSpec {
	for _, p := range chain {
		if p.has(stage) && p.Veto == stage {
			return p
		}
	}
	return plugSpec{}
}

func (c c09Case) expect(m c09Msg) c09Expect {
	e := c09Expect{written: true}
	srvGlobal := c.chain(0, true)
	srvHandler := c.chain(m.Level, false, m.Kind)
	cliChain := c.CliPlugs
	if m.Kind == "push" {
		if runStage(&e.cli, cliChain, "PreWritePush") {
			e.callerCode, e.written = 880, false
			return e
		}
		runStage(&e.cli, cliChain, "PostWritePush") // its verdict only stops the stage
		if runStage(&e.srv, srvGlobal, "PostReadPushHeader") {
			return e
		}
		if m.Level < 0 && !c.Unknown {
			return e // no such PUSH route and no unknown-push handler: dropped after the header stage
		}
		if runStage(&e.srv, srvHandler, "PreReadPushBody") {
			return e
		}
		if runStage(&e.srv, srvHandler, "PostReadPushBody") {
			return e
		}
		e.srv = append(e.srv, "<handler>:push")
		e.handlerRun = true
		return e
	}
	// call
	if runStage(&e.cli, cliChain, "PreWriteCall") {
		e.callerCode, e.written = 880, false
		return e
	}
	runStage(&e.cli, cliChain, "PostWriteCall")
	replyChain := srvGlobal
	code := int32(0)
	// a veto whose status does not fit into the configured message size limit cannot be written either
	bigVeto := func(chain []plugSpec, stage string) bool {
		return c.SizeLimit > 0 && vetoer(chain, stage).VetoPad > 0
	}
	switch {
	case runStage(&e.srv, srvGlobal, "PostReadCallHeader"):
		code = 880
		e.replyFails = bigVeto(srvGlobal, "PostReadCallHeader")
	case m.Level < 0 && !c.Unknown:
		// no such CALL route and no unknown-call handler: Not Found, still on the global container
		code = erpc.CodeNotFound
	default:
		replyChain = srvHandler
		if runStage(&e.srv, srvHandler, "PreReadCallBody") {
			code = 880
			e.replyFails = bigVeto(srvHandler, "PreReadCallBody")
		} else if runStage(&e.srv, srvHandler, "PostReadCallBody") {
			code = 880
			e.replyFails = bigVeto(srvHandler, "PostReadCallBody")
		} else {
			e.srv = append(e.srv, "<handler>:call")
			e.handlerRun = true
			switch {
			case m.Act == "err":
				code = 4242
			case m.Act == "bigerr":
				code = 4243
				e.replyFails = c.SizeLimit > 0
			case c09ActFailsFirstWrite(m.Act):
				e.replyFails = m.Act != "bigreply" || c.SizeLimit > 0
			}
		}
	}
	// The pre-write stage belongs to the message, not to the write attempt: it runs once,
	// before the first attempt. If that attempt fails although the connection is alive, the
	// call is answered with a fallback Internal Server Error instead; nothing was written
	// successfully by the first attempt, so the post-write stage does not run.
	runStage(&e.srv, replyChain, "PreWriteReply")
	if e.replyFails {
		code = erpc.CodeInternalServerError
	} else {
		runStage(&e.srv, replyChain, "PostWriteReply")
	}
	// caller side, reading the reply
	switch {
	case runStage(&e.cli, cliChain, "PostReadReplyHeader"):
		code = 880
	case runStage(&e.cli, cliChain, "PreReadReplyBody"):
		code = 880
	case code == 0:
		if runStage(&e.cli, cliChain, "PostReadReplyBody") {
			code = 880
		}
	}
	e.callerCode = code
	return e
}

func mkRec(spec plugSpec, log *hookLog) *recPlugin {
	p := &recPlugin{name: spec.Name, log: log, enabled: map[string]bool{}, veto: spec.Veto, vetoPad: spec.VetoPad, linger: spec.Linger}
	for _, s := range spec.Stages {
		p.enabled[s] = true
	}
	return p
}

// C09Call / C09Push are the handlers of this check; they log their run.
var c09SrvLog struct {
	sync.Mutex
	l *hookLog
}

func C09Call(ctx erpc.CallCtx, a *LibArg) (interface{}, *erpc.Status) {
	c09SrvLog.Lock()
	l := c09SrvLog.l
	c09SrvLog.Unlock()
	l.add("<handler>:call")
	return c09Result(ctx, a)
}

// c09ReplyCtx is what the registered and the unknown CALL handler contexts share.
type c09ReplyCtx interface {
	SetBodyCodec(byte)
	AddXferPipe(filterID ...byte)
}

// c09Result produces the handler's outcome for the requested act; a.Code is the number of
// bytes that exceeds the case's message size limit (acts bigreply / bigerr).
func c09Result(ctx c09ReplyCtx, a *LibArg) (interface{}, *erpc.Status) {
	switch a.Act {
	case "err":
		return nil, erpc.NewStatus(4242, "no", "because")
	case "badreply":
		return make(chan int), nil
	case "badjson":
		return c09BadJSON{Rid: a.Rid}, nil
	case "badcodec":
		ctx.SetBodyCodec(c09NoCodecID)
	case "xferfail":
		ctx.AddXferPipe(c09XferID)
		return &LibRes{Rid: a.Rid, Val: c09XferMarker}, nil
	case "bigreply":
		return &LibRes{Rid: a.Rid, Val: strings.Repeat("B", int(a.Code))}, nil
	case "bigerr":
		return nil, erpc.NewStatus(4243, "no", strings.Repeat("E", int(a.Code)))
	}
	return &LibRes{Rid: a.Rid, Val: a.Val}, nil
}

func C09Push(ctx erpc.PushCtx, a *LibArg) *erpc.Status {
	c09SrvLog.Lock()
	l := c09SrvLog.l
	c09SrvLog.Unlock()
	l.add("<handler>:push")
	return nil
}

func runC09(c c09Case, protos []vt.NamedProto) []string {
	vt.Init()
	if c.SizeLimit > 0 {
		socket.SetMessageSizeLimit(uint32(c.SizeLimit)) // process-global; vt.Init resets it as well
		defer socket.SetMessageSizeLimit(0)
	}
	srvLog, cliLog := &hookLog{}, &hookLog{}
	c09SrvLog.Lock()
	c09SrvLog.l = srvLog
	c09SrvLog.Unlock()
	w := vt.NewWorld()
	defer w.Close()
	var fails []string
	failf := func(format string, a ...interface{}) { fails = append(fails, fmt.Sprintf(format, a...)) }

	var gl []erpc.Plugin
	for _, p := range c.SrvPlugs {
		if p.Where == "gl" && !p.Late {
			gl = append(gl, mkRec(p, srvLog))
		}
	}
	srv := w.Peer(erpc.PeerConfig{}, gl...)
	for _, p := range c.SrvPlugs {
		if p.Where == "gr" && !p.Late {
			srv.PluginContainer().AppendRight(mkRec(p, srvLog))
		}
	}
	// groups and handlers
	callRoutes := make([]string, c.Depth+1)
	pushRoutes := make([]string, c.Depth+1)
	var group *erpc.SubRouter
	for lvl := 0; lvl <= c.Depth; lvl++ {
		var hp, php []erpc.Plugin
		for _, p := range c.SrvPlugs {
			if p.Where == fmt.Sprintf("handler%d", lvl) {
				hp = append(hp, mkRec(p, srvLog))
			}
			if p.Where == fmt.Sprintf("phandler%d", lvl) {
				php = append(php, mkRec(p, srvLog))
			}
		}
		if lvl == 0 {
			callRoutes[0] = srv.RouteCallFunc(C09Call, hp...)
			pushRoutes[0] = srv.RoutePushFunc(C09Push, php...)
			continue
		}
		var gp []erpc.Plugin
		for _, p := range c.SrvPlugs {
			if p.Where == fmt.Sprintf("group%d", lvl) {
				gp = append(gp, mkRec(p, srvLog))
			}
		}
		if group == nil {
			group = srv.SubRoute(fmt.Sprintf("g%d", lvl), gp...)
		} else {
			group = group.SubRoute(fmt.Sprintf("g%d", lvl), gp...)
		}
		callRoutes[lvl] = group.RouteCallFunc(C09Call, hp...)
		pushRoutes[lvl] = group.RoutePushFunc(C09Push, php...)
	}
	if c.Unknown {
		var up []erpc.Plugin
		for _, p := range c.SrvPlugs {
			if p.Where == "handler-1" {
				up = append(up, mkRec(p, srvLog))
			}
		}
		srv.SetUnknownCall(func(ctx erpc.UnknownCallCtx) (interface{}, *erpc.Status) {
			srvLog.add("<handler>:call")
			a := new(LibArg)
			if _, err := ctx.Bind(a); err != nil {
				return nil, erpc.NewStatus(4400, "cannot bind", err.Error())
			}
			return c09Result(ctx, a)
		}, up...)
		srv.SetUnknownPush(func(ctx erpc.UnknownPushCtx) *erpc.Status {
			srvLog.add("<handler>:push")
			return nil
		}, up...)
	}
	routeOf := func(kind string, level int) string {
		switch {
		case level < 0 && kind == "call":
			return "/c09/not_registered/call"
		case level < 0:
			return "/c09/not_registered/push"
		case kind == "call":
			return callRoutes[level]
		}
		return pushRoutes[level]
	}
	// late global attachments, after every route and group exists
	for _, p := range c.SrvPlugs {
		if !p.Late {
			continue
		}
		if p.LateHow == "left" {
			srv.PluginContainer().AppendLeft(mkRec(p, srvLog))
		} else {
			srv.PluginContainer().AppendRight(mkRec(p, srvLog))
		}
	}
	for _, name := range c.Removed {
		if err := srv.PluginContainer().Remove(name); err != nil {
			return []string{fmt.Sprintf("Remove(%s) of a registered global plugin failed: %v", name, err)}
		}
	}
	var cgl []erpc.Plugin
	for _, p := range c.CliPlugs {
		cgl = append(cgl, mkRec(p, cliLog))
	}
	cli := w.Peer(erpc.PeerConfig{}, cgl...)
	l := w.Connect(cli, srv, protoByName(protos, c.Proto), nil)
	if l.A == nil || l.B == nil {
		return []string{fmt.Sprintf("connect: %v %v", l.AStat, l.BStat)}
	}
	for i, m := range c.Msgs {
		e := c.expect(m)
		s0, c0 := srvLog.len(), cliLog.len()
		w0 := l.Pair.Written(vt.AtoB)
		arg := &LibArg{Rid: fmt.Sprintf("m%d", i), Act: m.Act, Val: "v", Code: int32(c.SizeLimit)}
		var code int32
		if m.Kind == "call" {
			cmd := l.A.AsyncCall(routeOf("call", m.Level), arg, new(LibRes), make(chan erpc.CallCmd, 1))
			if !vt.WaitClosed(cmd.Done()) {
				return append(fails, vt.Hang(fmt.Sprintf("completion of message %d", i)))
			}
			code = cmd.Status().Code()
		} else {
			code = l.A.Push(routeOf("push", m.Level), arg).Code()
		}
		if code != e.callerCode {
			failf("message %d (%+v): caller observes status code %d, want %d", i, m, code, e.callerCode)
		}
		if !e.written && l.Pair.Written(vt.AtoB) != w0 {
			failf("message %d (%+v): a pre-write hook vetoed but %d bytes were written", i, m, l.Pair.Written(vt.AtoB)-w0)
		}
		if len(fails) > 0 {
			return fails
		}
		// wait for the asynchronous tail (push handling, post-write hooks), then compare the segment
		vt.WaitUntil(func() bool { return srvLog.len()-s0 >= len(e.srv) && cliLog.len()-c0 >= len(e.cli) })
		gs, gc := srvLog.snapshot()[s0:], cliLog.snapshot()[c0:]
		if strings.Join(gs, " ") != strings.Join(e.srv, " ") {
			failf("message %d (%+v, route %s): receiving side hook trace\n got  %v\n want %v", i, m, routeOf(m.Kind, m.Level), gs, e.srv)
		}
		if strings.Join(gc, " ") != strings.Join(e.cli, " ") {
			failf("message %d (%+v): calling side hook trace\n got  %v\n want %v", i, m, gc, e.cli)
		}
		if len(fails) > 0 {
			return fails
		}
	}
	// barrier: nothing may be recorded after the last message's expected trace
	s1, c1 := srvLog.len(), cliLog.len()
	l.A.Close()
	l.B.Close()
	if srvLog.len() != s1 || cliLog.len() != c1 {
		failf("hooks fired after the expected traces were complete: %v / %v", srvLog.snapshot()[s1:], cliLog.snapshot()[c1:])
	}
	return fails
}

func (c c09Case) nontrivial() bool {
	late, veto := false, false
	perStage := map[string]int{}
	for _, p := range append(append([]plugSpec{}, c.SrvPlugs...), c.CliPlugs...) {
		late = late || p.Late
		veto = veto || p.Veto != ""
		for _, s := range p.Stages {
			perStage[s]++
		}
	}
	for _, n := range perStage {
		if n >= 2 {
			return true
		}
	}
	return veto || late && c.Depth >= 1 || c.replyFailures() > 0
}

// replyFailures counts the messages of the case whose first REPLY write fails.
func (c c09Case) replyFailures() int {
	n := 0
	for _, m := range c.Msgs {
		if m.Kind == "call" && c.expect(m).replyFails {
			n++
		}
	}
	return n
}

const ruleC09 = "generated plugin arrangement on the receiving peer (0-4 global-left, 0-4 global-right, a chain of 0-3 nested router groups with 0-2 plugins each, 0-2 handler-level plugins per CALL route and 0-2 of their own per PUSH route at every level, optionally unknown-call / unknown-push handlers with 0-2 plugins of their own, 0-2 global plugins attached AFTER all routes exist via AppendLeft/AppendRight, and in a third of the cases some global plugins removed again with PluginContainer().Remove before the traffic) and 0-2 global plugins on the calling peer; each plugin records a generated subset of 15 stages and at most one plugin vetoes at one stage; 1-6 calls/pushes to handlers at generated nesting levels or to unregistered routes (with or without unknown handlers: Not Found on the global container), handler returns or fails, or the first write of the REPLY fails on the live connection (result no codec can marshal, MarshalJSON error, unregistered reply codec id, a transfer filter refusing the reply on pack, and - raw protocol under a generated 4/16 KiB message size limit - a result, a handler error status or a plugin's veto status beyond the limit); reference model computes the exact per-message hook trace on both peers (a failed first reply write: PreWriteReply once over the reply chain, no PostWriteReply, one fallback reply with code 500 at the caller), the caller-visible status code, whether bytes may be written and whether the handler runs; non-trivial = >=2 plugins on one stage, a veto, a late attachment with a nested group, or a failing first reply write; distinct by arrangement"

func TestC09PluginOrder(t *testing.T) {
	rec := vt.NewRec(t, "C09", "order", ruleC09)
	protos := vt.StreamProtos()
	rapid.Check(t, func(t *rapid.T) {
		c := genC09(t, protos)
		late := false
		for _, p := range c.SrvPlugs {
			late = late || p.Late
		}
		classes := []string{fmt.Sprintf("depth=%d", c.Depth), fmt.Sprintf("late=%v", late), fmt.Sprintf("removed=%d", len(c.Removed)), fmt.Sprintf("replyfail=%v", c.replyFailures() > 0), fmt.Sprintf("limit=%v", c.SizeLimit > 0)}
		for _, m := range c.Msgs {
			if e := c.expect(m); m.Kind == "call" && e.replyFails {
				if e.handlerRun {
					classes = append(classes, "replyfail:"+m.Act)
				} else {
					classes = append(classes, "replyfail:bigveto")
				}
			}
		}
		rec.Case(fmt.Sprintf("%+v", c), c.nontrivial(), classes...)
		if rec.WantSample() && c.nontrivial() {
			rec.Sample(c)
		}
		if fails := runC09(c, protos); len(fails) > 0 {
			t.Fatalf("C09 violated (%d findings), first: %s\ncase: %+v", len(fails), fails[0], c)
		}
	})
}
