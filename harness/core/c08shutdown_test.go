package core

import (
	"fmt"
	"io"
	"net"
	"testing"
	"time"

	erpc "github.com/henrylee2cn/erpc/v6"
	"pgregory.net/rapid"

	"verifharness/vt"
)

// TestC08ProcessShutdown: the process-level graceful shutdown (erpc.Shutdown / Reboot / the
// grace signal run erpc.BeforeExiting before the process exits) closes every peer of the
// process. It is a local close like Peer.Close: it returns only after the handlers that were
// entered have finished and their genuine replies have been written - whichever way the peer
// got its sessions (ServeConn of connections handed to it, Dial, ListenAndServe).
func TestC08ProcessShutdown(t *testing.T) {
	rec := vt.NewRec(t, "C08", "process-shutdown", "1-2 peers of the process serve sessions obtained through ServeConn (connections handed to them: the way the websocket mixer and custom transports use a peer), through Dial or through ListenAndServe over loopback TCP; scripted remote ends have 1-4 calls in flight whose handlers are entered and gated; the registered shutdown hook erpc.BeforeExiting is invoked and the handlers are released in a generated order; oracle: the hook does not return while an entered handler is still running, every in-flight call receives its genuine reply (never a connection error, never nothing), and all replies are on the wire when the hook returns; non-trivial = always (a handler is in flight); distinct by case")
	protos := vt.StreamProtos()
	rapid.Check(t, func(t *rapid.T) {
		vt.Init()
		lib := newLib()
		proto := rapid.SampledFrom(protos).Draw(t, "proto")
		npeers := rapid.IntRange(1, 2).Draw(t, "peers")
		type plan struct {
			How   string // serveconn | dial | listen
			Calls int
		}
		var plans []plan
		total := 0
		for i := 0; i < npeers; i++ {
			p := plan{How: rapid.SampledFrom([]string{"serveconn", "serveconn", "dial", "listen"}).Draw(t, "how"), Calls: rapid.IntRange(1, 4).Draw(t, "calls")}
			total += p.Calls
			plans = append(plans, p)
		}
		order := rapid.Permutation(seq(total)).Draw(t, "release")
		rec.Case(fmt.Sprintf("%s|%+v|%v", proto.Name, plans, order), true, "proto="+proto.Name, fmt.Sprintf("peers=%d", npeers))
		if rec.WantSample() {
			rec.Sample(map[string]interface{}{"proto": proto.Name, "peers": plans, "release_order": order})
		}
		w := vt.NewWorld()
		defer w.Close()
		type flight struct {
			rid      string
			raw      *vt.RawPeer
			seq      int32
			entered  <-chan struct{}
			release  func()
			released bool
		}
		var flights []*flight
		var cleanup []func()
		defer func() {
			for _, f := range flights {
				f.release()
			}
			for _, c := range cleanup {
				c()
			}
		}()
		for pi, pl := range plans {
			var raw *vt.RawPeer
			var route string
			switch pl.How {
			case "serveconn":
				p := w.Peer(erpc.PeerConfig{})
				route, _ = registerLib(p)
				pair := vt.NewPair()
				if _, st := p.ServeConn(pair.B, proto.Fn); !st.OK() {
					t.Fatalf("harness: ServeConn: %v", st)
				}
				raw = vt.NewRawPeer(pair, pair.A, proto.Fn)
			case "dial":
				// the peer dials a harness listener; the accepted connection is the scripted end
				lis, err := newRawListener()
				if err != nil {
					t.Fatalf("harness: listen: %v", err)
				}
				cleanup = append(cleanup, func() { lis.Close() })
				p := w.Peer(erpc.PeerConfig{DialTimeout: 5 * time.Second})
				route, _ = registerLib(p)
				if _, st := p.Dial(lis.Addr().String(), proto.Fn); !st.OK() {
					t.Fatalf("harness: dial: %v", st)
				}
				raw = lis.rawPeer(proto.Fn)
			case "listen":
				hook := &listenAddrHook{ch: make(chan struct{})}
				p := w.Peer(erpc.PeerConfig{LocalIP: "127.0.0.1", ListenPort: freePort()}, hook)
				route, _ = registerLib(p)
				addr := listenOn(p, hook, proto.Fn)
				if addr == "" {
					t.Skip("the loopback port picked for the listener could not be bound")
				}
				raw = dialRawPeer(addr, proto.Fn)
			}
			if raw == nil {
				t.Fatalf("harness: no scripted end for peer %d (%s)", pi, pl.How)
			}
			r := raw
			cleanup = append(cleanup, func() { r.Close() })
			for k := 0; k < pl.Calls; k++ {
				rid := fmt.Sprintf("p%dc%d", pi, k)
				e, rel := lib.Gate(rid)
				f := &flight{rid: rid, raw: raw, seq: int32(100 + k), entered: e, release: rel}
				flights = append(flights, f)
				raw.Send(vt.Msg{Seq: f.seq, Mtype: erpc.TypeCall, Method: route, Codec: 'j', Body: []byte(fmt.Sprintf(`{"Rid":"%s","Act":"slow","Val":"genuine-%s"}`, rid, rid))})
			}
		}
		for _, f := range flights {
			if !vt.WaitClosed(f.entered) {
				t.Fatalf("harness: %s", vt.Hang("entry of handler "+f.rid))
			}
		}
		returned := make(chan error, 1)
		go func() { returned <- erpc.BeforeExiting() }()
		replyIn := func(f *flight, frames []vt.RawFrame) *vt.RawFrame {
			for _, fr := range frames {
				if fr.Mtype == erpc.TypeReply && fr.Seq == f.seq {
					fr := fr
					return &fr
				}
			}
			return nil
		}
		replyOf := func(f *flight) *vt.RawFrame {
			for _, fr := range f.raw.Frames() {
				if fr.Mtype == erpc.TypeReply && fr.Seq == f.seq {
					fr := fr
					return &fr
				}
			}
			return nil
		}
		for step, idx := range order {
			// with a handler still running the shutdown must still be waiting
			select {
			case <-returned:
				t.Fatalf("C08 violated: the process shutdown hook returned while %d entered handler(s) were still running (peers %+v)", len(order)-step, plans)
			case <-time.After(300 * time.Microsecond):
			}
			f := flights[idx]
			f.release()
			f.released = true
			if !f.raw.WaitFor(func(frames []vt.RawFrame) bool { return replyIn(f, frames) != nil }) {
				t.Fatalf("C08 violated: call %s, whose handler was entered before the process shutdown began, received no reply; %s", f.rid, vt.Hang("its reply"))
			}
			fr := replyOf(f)
			if fr.Status.Code != 0 || !containsStr(string(fr.Body), "genuine-"+f.rid) {
				t.Fatalf("C08 violated: call %s, whose handler was entered before the process shutdown began, received status %+v body %q instead of its genuine reply", f.rid, fr.Status, fr.Body)
			}
		}
		select {
		case <-returned:
		case <-time.After(vt.LivenessBound):
			t.Fatalf("C08 violated: %s", vt.Hang("return of the process shutdown hook after every handler finished"))
		}
		for _, f := range flights {
			if replyOf(f) == nil {
				t.Fatalf("C08 violated: the process shutdown hook returned before the reply of %s was written", f.rid)
			}
		}
	})
}

func containsStr(s, sub string) bool {
	return len(sub) == 0 || (len(s) >= len(sub) && (func() bool {
		for i := 0; i+len(sub) <= len(s); i++ {
			if s[i:i+len(sub)] == sub {
				return true
			}
		}
		return false
	})())
}

// ---- scripted remote ends over loopback TCP: the TCP connection is bridged onto a memconn
// pair whose other end is the RawPeer ----

type rawListener struct{ net.Listener }

func newRawListener() (*rawListener, error) {
	l, err := net.Listen("tcp", "127.0.0.1:0")
	if err != nil {
		return nil, err
	}
	return &rawListener{l}, nil
}

func (l *rawListener) rawPeer(proto erpc.ProtoFunc) *vt.RawPeer {
	type res struct {
		c   net.Conn
		err error
	}
	ch := make(chan res, 1)
	go func() { c, err := l.Accept(); ch <- res{c, err} }()
	select {
	case r := <-ch:
		if r.err != nil {
			return nil
		}
		return bridgeRawPeer(r.c, proto)
	case <-time.After(5 * time.Second):
		return nil
	}
}

func dialRawPeer(addr string, proto erpc.ProtoFunc) *vt.RawPeer {
	c, err := net.DialTimeout("tcp", addr, 5*time.Second)
	if err != nil {
		return nil
	}
	return bridgeRawPeer(c, proto)
}

func bridgeRawPeer(c net.Conn, proto erpc.ProtoFunc) *vt.RawPeer {
	pair := vt.NewPair()
	go func() { io.Copy(pair.B, c); pair.B.Close() }()
	go func() { io.Copy(c, pair.B); c.Close() }()
	return vt.NewRawPeer(pair, pair.A, proto)
}
