package core

import (
	"os"
	"fmt"
	"sort"
	"strings"
	"sync"
	"testing"
	"time"

	erpc "github.com/henrylee2cn/erpc/v6"
	"github.com/henrylee2cn/erpc/v6/plugin/auth"
	"github.com/henrylee2cn/erpc/v6/plugin/overloader"
	"github.com/henrylee2cn/erpc/v6/plugin/proxy"
	"github.com/henrylee2cn/erpc/v6/plugin/secure"
	"pgregory.net/rapid"

	"verifharness/vt"
)

func sentinelSnapshot() map[string]vt.StatusTriple {
	out := map[string]vt.StatusTriple{}
	for name, s := range erpc.VerifSentinels() {
		out[name] = vt.TripleOf(s)
	}
	// the exported shared statuses of the shipped auth plugin
	out["auth.MultiRecvErr"] = vt.TripleOf(auth.MultiRecvErr)
	out["auth.MultiSendErr"] = vt.TripleOf(auth.MultiSendErr)
	return out
}

func diffSnapshots(a, b map[string]vt.StatusTriple) string {
	var names []string
	for n := range a {
		names = append(names, n)
	}
	sort.Strings(names)
	for _, n := range names {
		if a[n] != b[n] {
			return fmt.Sprintf("predefined status %s changed from %+v to %+v", n, a[n], b[n])
		}
	}
	return ""
}

// preKeeper remembers the PreSession of accepted connections so that PreSend
// can be attempted outside its phase.
type preKeeper struct {
	mu   sync.Mutex
	last erpc.PreSession
}

func (p *preKeeper) Name() string { return "c15prekeeper" }
func (p *preKeeper) PostAccept(s erpc.PreSession) *erpc.Status {
	p.mu.Lock()
	p.last = s
	p.mu.Unlock()
	return nil
}

// refusingDialHook refuses every connection its peer dials, with a timeout-flavoured status.
type refusingDialHook struct{}

func (*refusingDialHook) Name() string { return "c15refuse" }
func (*refusingDialHook) PostDial(erpc.PreSession, bool) *erpc.Status {
	return erpc.NewStatus(6100, "refused by the dial hook", os.ErrDeadlineExceeded)
}

// ageSetter gives accepted sessions a context age so short that replies cannot be written.
type ageSetter struct{ age time.Duration }

func (a *ageSetter) Name() string { return "c15age" }
func (a *ageSetter) PostAccept(s erpc.PreSession) *erpc.Status {
	s.SetContextAge(a.age)
	return nil
}

type c15World struct {
	w        *vt.World
	proto    vt.NamedProto
	srv, cli erpc.Peer
	backend  erpc.Peer
	prox     erpc.Peer
	route    string
	keeper   *preKeeper
	cur      struct {
		sync.Mutex
		sess erpc.Session
	}
}

func newC15World(proto vt.NamedProto) *c15World {
	x := &c15World{w: vt.NewWorld(), proto: proto, keeper: &preKeeper{}}
	x.srv = x.w.Peer(erpc.PeerConfig{}, x.keeper)
	x.cli = x.w.Peer(erpc.PeerConfig{DialTimeout: 300 * time.Millisecond})
	x.route, _ = registerLib(x.srv)
	x.backend = x.w.Peer(erpc.PeerConfig{})
	registerLib(x.backend)
	x.prox = x.w.Peer(erpc.PeerConfig{}, proxy.NewPlugin(func(*proxy.Label) proxy.Forwarder {
		x.cur.Lock()
		defer x.cur.Unlock()
		return x.cur.sess
	}))
	return x
}

func (x *c15World) link(a, b erpc.Peer) *vt.Link {
	l := x.w.Connect(a, b, x.proto, nil)
	if l.A == nil || l.B == nil {
		panic(fmt.Sprintf("connect failed: %v %v", l.AStat, l.BStat))
	}
	return l
}

// battery runs a fixed set of failing operations on fresh sessions and
// returns the triples the caller observes.
func (x *c15World) battery() map[string]vt.StatusTriple {
	out := map[string]vt.StatusTriple{}
	l := x.link(x.cli, x.srv)
	out["unknown-route"] = vt.TripleOf(l.A.Call("/no/such/route", &LibArg{}, new(LibRes)).Status())
	bad := l.A.Call(x.route, []byte(`{"Rid":[`), new(LibRes), erpc.WithBodyCodec('j')).Status()
	out["bad-body(code,msg)"] = vt.StatusTriple{Code: bad.Code(), Msg: bad.Msg()}
	out["handler-panic"] = vt.TripleOf(l.A.Call(x.route, &LibArg{Rid: "b", Act: "panic-s", Val: "x"}, new(LibRes)).Status())
	l.A.Close()
	vt.WaitClosed(l.A.CloseNotify())
	out["closed-call"] = vt.TripleOf(l.A.Call(x.route, &LibArg{}, new(LibRes)).Status())
	out["closed-push"] = vt.TripleOf(l.A.Push(x.route, &LibArg{}))
	vt.WaitClosed(l.B.CloseNotify())
	out["closed-call-server-side"] = vt.TripleOf(l.B.Call(x.route, &LibArg{}, new(LibRes)).Status())
	// a reply that never comes: cut while the handler is gated
	l2 := x.link(x.cli, x.srv)
	entered, release := curLib().Gate("bat-cut")
	cmd := l2.A.AsyncCall(x.route, &LibArg{Rid: "bat-cut", Act: "slow"}, new(LibRes), make(chan erpc.CallCmd, 1))
	if vt.WaitClosed(entered) {
		l2.Pair.Cut()
	}
	release()
	vt.WaitClosed(cmd.Done())
	c := cmd.Status()
	out["cut-while-waiting(code,msg)"] = vt.StatusTriple{Code: c.Code(), Msg: c.Msg()}
	return out
}

var c15Steps = []string{
	"ok-call", "closed-call", "closed-push", "unknown-route", "bad-body", "panic", "badtype", "presend-outside", "user-status-404", "user-status-400", "user-status-102", "user-status-500", "dial-fail", "dial-timeout", "dial-hook-refuses", "cut-mid-call",
	"truncated-reply-mid-call", "garbage-reply-mid-call", "session-age-expires-mid-call",
	"reply-404-write-times-out", "reply-400-write-times-out", "reply-500-write-times-out",
	"redial-fails-then-traffic", "redial-fails-then-traffic",
	"proxy-call-down", "proxy-push-down", "proxy-call-dies", "proxy-call-ok", "auth-reject", "secure-wrong-key", "overload-reject",
	// parameterised (c15auth_test.go): the other side of an authentication exchange hangs up
	c15AuthHangup, c15AuthHangup, c15AuthHangup, c15AuthHangup, c15AuthHangup,
}

func (x *c15World) step(name string) {
	switch name {
	case "ok-call":
		l := x.link(x.cli, x.srv)
		l.A.Call(x.route, &LibArg{Rid: "s", Act: "ret", Val: "v"}, new(LibRes))
	case "closed-call", "closed-push":
		l := x.link(x.cli, x.srv)
		l.A.Close()
		vt.WaitClosed(l.A.CloseNotify())
		if name == "closed-call" {
			l.A.Call(x.route, &LibArg{}, new(LibRes))
		} else {
			l.A.Push(x.route, &LibArg{})
		}
	case "unknown-route":
		x.link(x.cli, x.srv).A.Call("/nope", &LibArg{}, new(LibRes))
	case "bad-body":
		x.link(x.cli, x.srv).A.Call(x.route, []byte("{{{"), new(LibRes), erpc.WithBodyCodec('j'))
	case "panic":
		x.link(x.cli, x.srv).A.Call(x.route, &LibArg{Rid: "p", Act: "panic-e", Val: "x"}, new(LibRes))
	case "badtype":
		pair := vt.NewPair()
		s, _ := x.srv.ServeConn(pair.B, x.proto.Fn)
		raw := vt.NewRawPeer(pair, pair.A, x.proto.Fn)
		raw.Send(vt.Msg{Seq: 1, Mtype: 9, Method: "/x", Codec: 'j'})
		if s != nil {
			vt.WaitClosed(s.CloseNotify())
		}
		raw.Close()
	case "presend-outside":
		x.link(x.cli, x.srv)
		x.keeper.mu.Lock()
		ps := x.keeper.last
		x.keeper.mu.Unlock()
		if ps != nil {
			ps.PreSend(erpc.TypePush, "/late", nil, nil)
			ps.PreCall("/late", nil, nil)
		}
	case "user-status-404", "user-status-400", "user-status-102", "user-status-500":
		// a handler answers with a status it built from a framework code (NewStatusByCodeText)
		// and then completed with its own cause and message
		var code int32
		fmt.Sscanf(strings.TrimPrefix(name, "user-status-"), "%d", &code)
		x.link(x.cli, x.srv).A.Call(x.route, &LibArg{Rid: "u", Act: "err-bycodetext", Code: code, Msg: "custom message", Val: "v"}, new(LibRes))
	case "dial-fail":
		x.cli.Dial("127.0.0.1:1")
	case "dial-timeout":
		// a dial that runs into PeerConfig.DialTimeout (the error is a timeout net.Error)
		p := x.w.Peer(erpc.PeerConfig{DialTimeout: time.Nanosecond})
		vt.Returns(func() { p.Dial("127.0.0.1:1") })
	case "dial-hook-refuses":
		// a connection that is established and then refused by a PostDial hook
		ts := &tcpServer{peer: x.srv}
		if err := ts.listen(); err != nil {
			return
		}
		p := x.w.Peer(erpc.PeerConfig{DialTimeout: time.Second}, &refusingDialHook{})
		vt.Returns(func() { p.Dial(ts.addr) })
		ts.down()
	case "redial-fails-then-traffic":
		// a redial-enabled client whose server goes away for good: calls and pushes issued
		// while it redials and after it gave up
		srv := x.w.Peer(erpc.PeerConfig{})
		r, pr := registerLib(srv)
		ts := &tcpServer{peer: srv}
		if err := ts.listen(); err != nil {
			return
		}
		rp := x.w.Peer(erpc.PeerConfig{RedialTimes: 2, RedialInterval: time.Millisecond, DialTimeout: 200 * time.Millisecond})
		sess, st := rp.Dial(ts.addr)
		if !st.OK() {
			ts.down()
			return
		}
		sess.Call(r, &LibArg{Rid: "rd0", Act: "ret"}, new(LibRes))
		ts.down()
		vt.Returns(func() { sess.Call(r, &LibArg{Rid: "rd1", Act: "ret"}, new(LibRes)) })
		vt.Returns(func() { sess.Push(pr, &LibArg{Rid: "rd2"}) })
		vt.WaitUntilFor(2*time.Second, func() bool {
			select {
			case <-sess.CloseNotify():
				return true
			default:
				return false
			}
		})
		vt.Returns(func() { sess.Call(r, &LibArg{Rid: "rd3", Act: "ret"}, new(LibRes)) })
		vt.Returns(func() { sess.Push(pr, &LibArg{Rid: "rd4"}) })
	case "cut-mid-call":
		l := x.link(x.cli, x.srv)
		entered, release := curLib().Gate("cutmid")
		cmd := l.A.AsyncCall(x.route, &LibArg{Rid: "cutmid", Act: "slow"}, new(LibRes), make(chan erpc.CallCmd, 1))
		if vt.WaitClosed(entered) {
			l.Pair.Cut()
		}
		release()
		vt.WaitClosed(cmd.Done())
	case "truncated-reply-mid-call", "garbage-reply-mid-call":
		// the connection ends with a read error other than a clean EOF while a call is pending
		pair := vt.NewPair()
		sess, st := x.cli.ServeConn(pair.A, x.proto.Fn)
		if !st.OK() {
			return
		}
		raw := vt.NewRawPeer(pair, pair.B, x.proto.Fn)
		cmd := sess.AsyncCall("/remote", &LibArg{Rid: "t"}, new(LibRes), make(chan erpc.CallCmd, 1))
		raw.WaitFrames(1)
		if name == "truncated-reply-mid-call" {
			wrw := &vt.RW{}
			x.proto.Fn(wrw).Pack(vt.Msg{Seq: 1, Mtype: erpc.TypeReply, Codec: 'j', Body: []byte(`{"Rid":"t","Val":"v"}`)}.Build())
			f := wrw.Written()
			raw.SendBytes(f[:len(f)/2])
		} else {
			raw.SendBytes([]byte{0xff, 0xff, 0xff, 0xff, 1, 2, 3})
		}
		raw.Close()
		vt.WaitClosed(cmd.Done())
		vt.WaitClosed(sess.CloseNotify())
	case "reply-404-write-times-out", "reply-400-write-times-out", "reply-500-write-times-out":
		// the error reply itself cannot be written (the reply context has expired), so the
		// framework falls back to a second error reply: none of this may touch shared statuses
		p := x.w.Peer(erpc.PeerConfig{}, &ageSetter{age: time.Nanosecond})
		r, _ := registerLib(p)
		l := x.w.Connect(x.cli, p, x.proto, nil)
		if l.A == nil || l.B == nil {
			return
		}
		var cmd erpc.CallCmd
		switch name {
		case "reply-404-write-times-out":
			cmd = l.A.AsyncCall("/no/such/route", &LibArg{}, new(LibRes), make(chan erpc.CallCmd, 1))
		case "reply-400-write-times-out":
			cmd = l.A.AsyncCall(r, []byte("{{{"), new(LibRes), make(chan erpc.CallCmd, 1), erpc.WithBodyCodec('j'))
		default:
			cmd = l.A.AsyncCall(r, &LibArg{Rid: "w", Act: "panic-s"}, new(LibRes), make(chan erpc.CallCmd, 1))
		}
		// no reply can arrive: give the serving side time to try, then drop the link
		vt.WaitUntilFor(5*time.Millisecond, func() bool {
			select {
			case <-cmd.Done():
				return true
			default:
				return false
			}
		})
		l.Pair.Cut()
		vt.WaitClosed(cmd.Done())
	case "session-age-expires-mid-call":
		// a read deadline (session age) ends the session with a timeout error while a call is pending
		p := x.w.Peer(erpc.PeerConfig{DefaultSessionAge: 3 * time.Millisecond})
		pair := vt.NewPair()
		sess, st := p.ServeConn(pair.A, x.proto.Fn)
		if !st.OK() {
			return
		}
		raw := vt.NewRawPeer(pair, pair.B, x.proto.Fn)
		cmd := sess.AsyncCall("/remote", &LibArg{Rid: "t"}, new(LibRes), make(chan erpc.CallCmd, 1))
		vt.WaitClosed(cmd.Done())
		raw.Close()
	case "proxy-call-down", "proxy-push-down", "proxy-call-dies", "proxy-call-ok":
		p2b := x.link(x.prox, x.backend)
		x.cur.Lock()
		x.cur.sess = p2b.A
		x.cur.Unlock()
		c2p := x.link(x.cli, x.prox)
		switch name {
		case "proxy-call-ok":
			c2p.A.Call(x.route, &LibArg{Rid: "px", Act: "ret", Val: "v"}, new(LibRes))
		case "proxy-call-down":
			p2b.A.Close()
			vt.WaitClosed(p2b.A.CloseNotify())
			c2p.A.Call(x.route, &LibArg{Rid: "px", Act: "ret"}, new(LibRes))
		case "proxy-push-down":
			p2b.A.Close()
			vt.WaitClosed(p2b.A.CloseNotify())
			c2p.A.Push(x.route, &LibArg{Rid: "px"})
			// the push is handled asynchronously by the proxy: a call behind it is read after it
			c2p.A.Call("/fence", nil, nil)
			time.Sleep(300 * time.Microsecond)
		case "proxy-call-dies":
			entered, release := curLib().Gate("pxd")
			cmd := c2p.A.AsyncCall(x.route, &LibArg{Rid: "pxd", Act: "slow"}, new(LibRes), make(chan erpc.CallCmd, 1))
			if vt.WaitClosed(entered) {
				p2b.Pair.Cut()
			}
			release()
			vt.WaitClosed(cmd.Done())
		}
	case "auth-reject":
		p := x.w.Peer(erpc.PeerConfig{}, auth.NewCheckerPlugin(func(sess auth.Session, recv auth.RecvOnce) (interface{}, *erpc.Status) {
			var s string
			if st := recv(&s); !st.OK() {
				return nil, st
			}
			return nil, erpc.NewStatus(erpc.CodeUnauthorized, erpc.CodeText(erpc.CodeUnauthorized), "no")
		}, erpc.WithBodyCodec('s')))
		pair := vt.NewPair()
		raw := vt.NewRawPeer(pair, pair.A, x.proto.Fn)
		go raw.Send(vt.Msg{Seq: 1, Mtype: erpc.TypeAuthCall, Codec: 's', Body: []byte("cred")})
		p.ServeConn(pair.B, x.proto.Fn)
		raw.Close()
	case "secure-wrong-key":
		a := x.w.Peer(erpc.PeerConfig{}, secure.NewPlugin(9100, strings.Repeat("a", 16)))
		b := x.w.Peer(erpc.PeerConfig{}, secure.NewPlugin(9100, strings.Repeat("b", 16)))
		r, _ := registerLib(b)
		l := x.link(a, b)
		l.A.Call(r, &LibArg{Rid: "sec", Act: "ret"}, new(LibRes), secure.WithSecureMeta())
	case "overload-reject":
		p := x.w.Peer(erpc.PeerConfig{}, overloader.New(overloader.LimitConfig{MaxConn: 1}))
		x.w.Connect(x.cli, p, x.proto, nil)
		x.w.Connect(x.cli, p, x.proto, nil)
	default:
		if as, ok := parseC15AuthStep(name); ok {
			x.authHangupStep(as)
			return
		}
		panic("harness: unknown C15 step " + name)
	}
}

const ruleC15 = "history = 1-12 steps drawn from {successful call, call/push on a closed session, unknown route, undecodable body, handler panic, frame of unsupported type, PreSend/PreCall outside the accept phase, a handler answering with a status built by NewStatusByCodeText(404/400/102/500) and completed in place with its own cause and message, refused dial, dial that runs into a 1 ns DialTimeout, established connection refused by a PostDial hook with a timeout-flavoured cause, connection cut while a call waits, connection ending with a non-EOF read error while a call waits (truncated reply, over-limit garbage, session-age read deadline), error replies (404 / 400 / 500) that cannot be written because the reply context expired, calls and pushes on a redial-enabled session whose server is gone for good (during the redial and after it gave up), proxied call and proxied push with the backend session closed, proxied call whose backend connection is cut mid-call, proxied call that succeeds, auth rejection, an authentication exchange whose other side hangs up (generated: a peer with the auth checker plugin whose client - in-memory or loopback TCP - closes cleanly or resets before sending anything / after a generated part of its AUTH_CALL frame / after the whole AUTH_CALL without waiting for the reply, the checker function receiving once and accepting or rejecting, receiving twice and returning the second status or its own, not receiving, or using the receive function after the accept phase; a peer dialling with the bearer plugin whose scripted server closes or resets before reading, after the AUTH_CALL without replying, or after a generated part of the AUTH_REPLY, the bearer function sending once, twice, or not at all), secure plugin with a wrong key, overloader rejection}; oracle (a): code/msg/cause of every predefined status (verif accessor, plus the auth plugin's exported MultiRecvErr / MultiSendErr) is identical before the history and after every step; oracle (b): a fixed battery of failing operations on fresh sessions yields identical triples before and after the history; non-trivial = the history contains a step that hands a predefined status by pointer to plugin or user code (proxy with backend down, closed-session call/push, failed receive / send inside a checker or bearer function); distinct by history"

func TestC15StatusImmutable(t *testing.T) {
	rec := vt.NewRec(t, "C15", "immutable", ruleC15)
	protos := vt.StreamProtos()
	rapid.Check(t, func(t *rapid.T) {
		vt.Init()
		newLib()
		proto := rapid.SampledFrom(protos).Draw(t, "proto")
		steps := rapid.SliceOfN(rapid.SampledFrom(c15Steps), 1, 12).Draw(t, "steps")
		steps = refineC15Steps(t, steps)
		nt := false
		for _, s := range steps {
			if strings.HasPrefix(s, "proxy-") && s != "proxy-call-ok" || strings.HasPrefix(s, "closed-") || strings.HasSuffix(s, "-mid-call") || strings.HasSuffix(s, "-times-out") || strings.HasPrefix(s, c15AuthHangup) {
				nt = true
			}
			rec.Class("step="+c15StepClass(s), 1)
		}
		rec.Case(proto.Name+"|"+strings.Join(steps, ","), nt, "proto="+proto.Name)
		if rec.WantSample() && nt {
			rec.Sample(map[string]interface{}{"proto": proto.Name, "history": steps})
		}
		x := newC15World(proto)
		defer x.w.Close()
		snap0 := sentinelSnapshot()
		bat0 := x.battery()
		if d := diffSnapshots(snap0, sentinelSnapshot()); d != "" {
			t.Fatalf("C15 violated: the battery itself changed a predefined status: %s", d)
		}
		for i, s := range steps {
			x.step(s)
			if d := diffSnapshots(snap0, sentinelSnapshot()); d != "" {
				t.Fatalf("C15 violated: after step %d (%s) of history %v: %s", i, s, steps, d)
			}
		}
		bat1 := x.battery()
		for k, v := range bat0 {
			if bat1[k] != v {
				t.Fatalf("C15 violated: after history %v the failing operation %q yields %+v, before the history it yielded %+v", steps, k, bat1[k], v)
			}
		}
	})
}

// TestC15BatteryValues pins the documented codes of the battery on an empty history.
func TestC15BatteryValues(t *testing.T) {
	rec := vt.NewRec(t, "C15", "battery-values", "the fixed battery on an empty history: documented codes 404 / 400 / 500 / 102")
	vt.Init()
	newLib()
	x := newC15World(vt.StreamProtos()[0])
	defer x.w.Close()
	b := x.battery()
	want := map[string]int32{"unknown-route": 404, "bad-body(code,msg)": 400, "handler-panic": 500, "closed-call": 102, "closed-push": 102, "closed-call-server-side": 102, "cut-while-waiting(code,msg)": 102}
	for k, code := range want {
		rec.Case(k, true)
		if b[k].Code != code {
			t.Errorf("C15: %s yields code %d on an empty history, documented %d (%+v)", k, b[k].Code, code, b[k])
		}
	}
	rec.Sample(b)
}

// TestC15PluginStatuses: the status a plugin reports for a failure is a function of the failure
// and the configuration in force - not of what the plugin instance reported earlier.
func TestC15PluginStatuses(t *testing.T) {
	rec := vt.NewRec(t, "C15", "plugin-statuses", "overload plugin (total QPS limit / per-handler QPS limit / connection limit): instance A is configured with limit L0, driven into rejecting, updated to limit L (new configuration or LimitConfig() edited in place) and driven into rejecting again; instance B is configured with L directly and driven into rejecting; oracle: the (code, message, cause) observed under A after the update equals the one observed under B; non-trivial always; distinct by case")
	protos := vt.StreamProtos()
	rapid.Check(t, func(t *rapid.T) {
		vt.Init()
		newLib()
		kind := rapid.SampledFrom([]string{"total", "handler", "handler", "conn"}).Draw(t, "kind")
		l0 := int32(rapid.IntRange(1, 6).Draw(t, "l0"))
		l1 := int32(rapid.IntRange(1, 6).Draw(t, "l1"))
		inplace := rapid.Bool().Draw(t, "inplace")
		proto := rapid.SampledFrom(protos).Draw(t, "proto")
		rec.Case(fmt.Sprintf("%s|%d|%d|%v|%s", kind, l0, l1, inplace, proto.Name), true, "kind="+kind)
		if rec.WantSample() {
			rec.Sample(map[string]interface{}{"limit_kind": kind, "first_limit": l0, "then_limit": l1, "edited_in_place": inplace})
		}
		cfg := func(l int32) overloader.LimitConfig {
			switch kind {
			case "total":
				return overloader.LimitConfig{MaxTotalQPS: l, QPSInterval: time.Second}
			case "handler":
				return overloader.LimitConfig{QPSInterval: time.Second, MaxHandlerQPS: []overloader.HandlerLimit{{ServiceMethod: "/lib_do", MaxQPS: l}}}
			}
			return overloader.LimitConfig{MaxConn: l}
		}
		w := vt.NewWorld()
		defer w.Close()
		// reject drives the serving peer over its limit and returns the status of the rejection
		reject := func(srv erpc.Peer, max int32) (vt.StatusTriple, bool) {
			cli := w.Peer(erpc.PeerConfig{})
			if kind == "conn" {
				for i := int32(0); i <= max+1; i++ {
					l := w.Connect(cli, srv, proto, nil)
					if l.B == nil {
						return vt.TripleOf(l.BStat), true
					}
				}
				return vt.StatusTriple{}, false
			}
			l := w.Connect(cli, srv, proto, nil)
			if l.A == nil || l.B == nil {
				return vt.StatusTriple{}, false
			}
			defer l.A.Close()
			for i := int32(0); i <= max+6; i++ {
				if cmd := l.A.Call("/lib_do", &LibArg{Rid: fmt.Sprintf("r%d", i), Act: "ret"}, new(LibRes)); !cmd.StatusOK() {
					return vt.TripleOf(cmd.Status()), true
				}
			}
			return vt.StatusTriple{}, false
		}
		ovA := overloader.New(cfg(l0))
		srvA := w.Peer(erpc.PeerConfig{}, ovA)
		registerLib(srvA)
		if _, ok := reject(srvA, l0); !ok {
			t.Skip("instance A was not driven into rejecting under its first limit (a refill tick came in between)")
		}
		if inplace && kind == "handler" {
			c := ovA.LimitConfig()
			c.MaxHandlerQPS[0].MaxQPS = l1
			ovA.Update(c)
		} else if inplace {
			c := ovA.LimitConfig()
			if kind == "total" {
				c.MaxTotalQPS = l1
			} else {
				c.MaxConn = l1
			}
			ovA.Update(c)
		} else {
			ovA.Update(cfg(l1))
		}
		m := l1
		if l0 > m {
			m = l0
		}
		tA, okA := reject(srvA, m)
		ovB := overloader.New(cfg(l1))
		srvB := w.Peer(erpc.PeerConfig{}, ovB)
		registerLib(srvB)
		tB, okB := reject(srvB, l1)
		if !okA || !okB {
			t.Skip("an instance was not driven into rejecting (a refill tick came in between)")
		}
		if kind == "conn" {
			// the message names the number of live connections, which is part of the failure: compare limit part and code
			cut := func(s string) string {
				if i := strings.Index(s, ", now="); i >= 0 {
					return s[:i]
				}
				return s
			}
			tA.Msg, tB.Msg, tA.Cause, tB.Cause = cut(tA.Msg), cut(tB.Msg), cut(tA.Cause), cut(tB.Cause)
		}
		if tA != tB {
			t.Fatalf("C15 violated: %s limit %d: an overload plugin that was first configured with limit %d (and rejected under it) reports %+v, one configured with %d from the start reports %+v", kind, l1, l0, tA, l1, tB)
		}
	})
}
