package core

import (
	"fmt"
	"sync"
	"testing"
	"time"

	erpc "github.com/henrylee2cn/erpc/v6"
	"pgregory.net/rapid"

	"verifharness/vt"
)

// TestC07ShortLived: connections that die while (or right after) the peer is publishing their
// session. Once such a session has ended it is not listed, like any other ended session.
func TestC07ShortLived(t *testing.T) {
	rec := vt.NewRec(t, "C07", "short-lived", "1-8 connections are handed to ServeConn (in-memory transport, raw / json / protobuf) by 1-4 goroutines while their remote end goes away at a generated moment: already closed, closed 0-200 us after ServeConn was called, after one garbage frame, or (control) kept until the end; a recording disconnect plugin; oracle at quiescence (every returned session's close notification awaited): an ended session is unhealthy, its disconnect hook ran exactly once, GetSession does not return it under its id, RangeSession does not enumerate it and CountSession equals the number of sessions kept alive; non-trivial = at least one connection died within 50 us of ServeConn; distinct by case")
	protos := vt.StreamProtos()
	rapid.Check(t, func(t *rapid.T) {
		vt.Init()
		newLib()
		proto := rapid.SampledFrom(protos).Draw(t, "proto")
		n := rapid.IntRange(1, 8).Draw(t, "nconns")
		workers := rapid.IntRange(1, 4).Draw(t, "workers")
		type plan struct {
			How   string
			After int // microseconds
		}
		plans := make([]plan, n)
		early := 0
		for i := range plans {
			plans[i].How = rapid.SampledFrom([]string{"closed-before", "closed-before", "close-after", "close-after", "garbage", "keep"}).Draw(t, "how")
			plans[i].After = rapid.SampledFrom([]int{0, 0, 5, 20, 50, 200}).Draw(t, "after_us")
			if plans[i].How == "closed-before" || (plans[i].How != "keep" && plans[i].After <= 50) {
				early++
			}
		}
		w := vt.NewWorld()
		defer w.Close()
		disc := &discRecorder{count: map[interface{}]int{}}
		srv := w.Peer(erpc.PeerConfig{}, disc)
		registerLib(srv)
		sessions := make([]erpc.Session, n)
		pairs := make([]*vt.Pair, n)
		var wg sync.WaitGroup
		sem := make(chan struct{}, workers)
		for i := 0; i < n; i++ {
			wg.Add(1)
			go func(i int) {
				defer wg.Done()
				sem <- struct{}{}
				defer func() { <-sem }()
				pair := vt.NewPair()
				pairs[i] = pair
				pl := plans[i]
				switch pl.How {
				case "closed-before":
					pair.B.Close()
				case "close-after":
					go func() { time.Sleep(time.Duration(pl.After) * time.Microsecond); pair.B.Close() }()
				case "garbage":
					go func() {
						time.Sleep(time.Duration(pl.After) * time.Microsecond)
						pair.B.Write([]byte{0xff, 0xff, 0xff, 0xf0, 1, 2, 3})
						pair.B.Close()
					}()
				}
				sess, _ := srv.ServeConn(pair.A, proto.Fn)
				sessions[i] = sess
			}(i)
		}
		wg.Wait()
		kept := 0
		for i, sess := range sessions {
			if sess == nil {
				continue
			}
			if plans[i].How == "keep" {
				kept++
				continue
			}
			if !vt.WaitClosed(sess.CloseNotify()) {
				t.Fatalf("C07 violated: %s", vt.Hang(fmt.Sprintf("close notification of a session whose connection died (%+v)", plans[i])))
			}
		}
		// quiescence: the disconnect hooks of the ended sessions have run
		for i, sess := range sessions {
			if sess == nil || plans[i].How == "keep" {
				continue
			}
			if !vt.WaitUntil(func() bool { return disc.get(sess) >= 1 }) {
				t.Fatalf("C07 violated: the disconnect hook of an established session whose connection died (%+v) never ran", plans[i])
			}
		}
		time.Sleep(300 * time.Microsecond)
		for i, sess := range sessions {
			if sess == nil || plans[i].How == "keep" {
				continue
			}
			if sess.Health() {
				t.Fatalf("C07 violated: session %d is healthy after its close notification", i)
			}
			if c := disc.get(sess); c != 1 {
				t.Fatalf("C07 violated: the disconnect hook ran %d times for session %d (%+v)", c, i, plans[i])
			}
			if got, ok := srv.GetSession(sess.ID()); ok && got == sess {
				t.Fatalf("C07 violated: session %d (%+v) has ended (close notification fired, disconnect hook ran) but the peer's index still lists it under %q", i, plans[i], sess.ID())
			}
		}
		listed := 0
		srv.RangeSession(func(s erpc.Session) bool { listed++; return true })
		if listed != kept || srv.CountSession() != kept {
			t.Fatalf("C07 violated: %d session(s) are alive but the index enumerates %d and counts %d", kept, listed, srv.CountSession())
		}
		rec.Case(fmt.Sprintf("%s|%d|%+v", proto.Name, workers, plans), early > 0, fmt.Sprintf("early=%d", early))
		if rec.WantSample() && early > 0 {
			rec.Sample(map[string]interface{}{"proto": proto.Name, "workers": workers, "plans": fmt.Sprintf("%+v", plans)})
		}
	})
}
