package core

import (
	"fmt"
	"testing"

	erpc "github.com/henrylee2cn/erpc/v6"
	"pgregory.net/rapid"

	"verifharness/vt"
)

// C08 over the websocket transport (real HTTP upgrade over the in-memory connection): the
// serving side of a websocket session is closed gracefully while handlers are running.
func TestC08WebsocketClose(t *testing.T) {
	rec := vt.NewRec(t, "C08", "websocket", "one websocket session (json or protobuf sub-protocol, real HTTP upgrade over the in-memory transport); 1-3 calls towards the closing side whose handlers are gated and entered, 0-2 calls issued by it; Close on the serving (or dialling) end; handlers released afterwards; oracle: Close does not return before the releases, every call whose handler was entered completes OK with its genuine result; every case non-trivial; distinct by case")
	subs := vt.WsSubProtos()
	rapid.Check(t, func(t *rapid.T) {
		vt.Init()
		lib := newLib()
		sub := rapid.SampledFrom(subs).Draw(t, "sub")
		closerEnd := rapid.SampledFrom([]string{"server", "server", "client"}).Draw(t, "closer")
		nin := rapid.IntRange(1, 3).Draw(t, "in")
		nout := rapid.IntRange(0, 2).Draw(t, "out")
		rec.Case(fmt.Sprintf("%s|%s|%d|%d", sub.Name, closerEnd, nin, nout), true, "sub="+sub.Name, "closer="+closerEnd)
		if rec.WantSample() {
			rec.Sample(map[string]interface{}{"sub": sub.Name, "closer": closerEnd, "in": nin, "out": nout})
		}
		w := vt.NewWorld()
		defer w.Close()
		cli, srv := w.Peer(erpc.PeerConfig{}), w.Peer(erpc.PeerConfig{})
		route, _ := registerLib(cli)
		registerLib(srv)
		l, err := w.ConnectWS(cli, srv, sub, nil)
		if err != nil || l.A == nil || l.B == nil {
			t.Fatalf("websocket connect failed: %v", err)
		}
		closer, other := l.B, l.A
		if closerEnd == "client" {
			closer, other = l.A, l.B
		}
		type call struct {
			rid     string
			cmd     erpc.CallCmd
			res     *LibRes
			release func()
			entered <-chan struct{}
		}
		var calls []*call
		mk := func(from erpc.Session, rid string) {
			e, rel := lib.Gate(rid)
			c := &call{rid: rid, res: new(LibRes), release: rel, entered: e}
			c.cmd = from.AsyncCall(route, &LibArg{Rid: rid, Act: "slow", Val: "genuine-" + rid}, c.res, make(chan erpc.CallCmd, 1))
			calls = append(calls, c)
		}
		for i := 0; i < nin; i++ {
			mk(other, fmt.Sprintf("in%d", i))
		}
		for i := 0; i < nout; i++ {
			mk(closer, fmt.Sprintf("out%d", i))
		}
		defer func() {
			for _, c := range calls {
				c.release()
			}
		}()
		for _, c := range calls {
			if !vt.WaitClosed(c.entered) {
				t.Fatalf("%s", vt.Hang("entry of handler "+c.rid))
			}
		}
		closed := make(chan struct{})
		go func() { closer.Close(); close(closed) }()
		vt.WaitUntil(func() bool { return !closer.Health() })
		select {
		case <-closed:
			t.Fatalf("C08 violated over websocket (%s): Close returned while %d entered handlers were running and %d own calls were unanswered", sub.Name, nin, nout)
		default:
		}
		for _, c := range calls {
			c.release()
		}
		for _, c := range calls {
			if !vt.WaitClosed(c.cmd.Done()) {
				t.Fatalf("%s", vt.Hang("completion of call "+c.rid))
			}
			if !c.cmd.StatusOK() || c.res.Val != "genuine-"+c.rid {
				t.Fatalf("C08 violated over websocket (%s, %s side closes): call %s, whose handler was entered before Close, completed with %v / %+v instead of its genuine reply", sub.Name, closerEnd, c.rid, c.cmd.Status(), *c.res)
			}
		}
		if !vt.WaitClosed(closed) {
			t.Fatalf("%s", vt.Hang("return of Close"))
		}
	})
}
