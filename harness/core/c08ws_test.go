package core

import (
	"fmt"
	"testing"

	erpc "github.com/henrylee2cn/erpc/v6"
	"pgregory.net/rapid"

	"verifharness/vt"
)

// C08 over the websocket transport (real HTTP upgrade over the in-memory connection): the
// serving side of a websocket session is closed gracefully while handlers are running.
func TestC08WebsocketClose(t *testing.T) {
	rec := vt.NewRec(t, "C08", "websocket", "one websocket session (json or protobuf sub-protocol, real HTTP upgrade over the in-memory transport); 1-3 calls towards the closing side whose handlers are gated and entered, 0-2 calls issued by it; Close on the serving (or dialling) end; handlers released afterwards; oracle: Close does not return before the releases, every call whose handler was entered completes OK with its genuine result; every case non-trivial; distinct by case")
	subs := vt.WsSubProtos()
	rapid.Check(t, func(t *rapid.T) {
		vt.Init()
		lib := newLib()
		sub := rapid.SampledFrom(subs).Draw(t, "sub")
		closerEnd := rapid.SampledFrom([]string{"server", "server", "client"}).Draw(t, "closer")
		nin := rapid.IntRange(1, 3).Draw(t, "in")
		nout := rapid.IntRange(0, 2).Draw(t, "out")
		rec.Case(fmt.Sprintf("%s|%s|%d|%d", sub.Name, closerEnd, nin, nout), true, "sub="+sub.Name, "closer="+closerEnd)
		if rec.WantSample() {
			rec.Sample(map[string]interface{}{"sub": sub.Name, "closer": closerEnd, "in": nin, "out": nout})
		}
		w := vt.NewWorld()
		defer w.Close()
		cli, srv := w.Peer(erpc.PeerConfig{}), w.Peer(erpc.PeerConfig{})
		route, _ := registerLib(cli)
		registerLib(srv)
		l, err := w.ConnectWS(cli, srv, sub, nil)
		if err != nil || l.A == nil || l.B == nil {
			t.Fatalf("websocket connect failed: %v", err)
		}
		closer, other := l.B, l.A
		if closerEnd == "client" {
			closer, other = l.A, l.B
		}
		type call struct {
			rid     string
			cmd     erpc.CallCmd
			res     *LibRes
			release func()
			entered <-chan struct{}
		}
		var calls []*call
		mk := func(from erpc.Session, rid string) {
			e, rel := lib.Gate(rid)
			c := &call{rid: rid, res: new(LibRes), release: rel, entered: e}
			c.cmd = from.AsyncCall(route, &LibArg{Rid: rid, Act: "slow", Val: "genuine-" + rid}, c.res, make(chan erpc.CallCmd, 1))
			calls = append(calls, c)
		}
		for i := 0; i < nin; i++ {
			mk(other, fmt.Sprintf("in%d", i))
		}
		for i := 0; i < nout; i++ {
			mk(closer, fmt.Sprintf("out%d", i))
		}
		defer func() {
			for _, c := range calls {
				c.release()
			}
		}()
		for _, c := range calls {
			if !vt.WaitClosed(c.entered) {
				t.Fatalf("%s", vt.Hang("entry of handler "+c.rid))
			}
		}
		closed := make(chan struct{})
		go func() { closer.Close(); close(closed) }()
		vt.WaitUntil(func() bool { return !closer.Health() })
		select {
		case <-closed:
			t.Fatalf("C08 violated over websocket (%s): Close returned while %d entered handlers were running and %d own calls were unanswered", sub.Name, nin, nout)
		default:
		}
		for _, c := range calls {
			c.release()
		}
		for _, c := range calls {
			if !vt.WaitClosed(c.cmd.Done()) {
				t.Fatalf("%s", vt.Hang("completion of call "+c.rid))
			}
			if !c.cmd.StatusOK() || c.res.Val != "genuine-"+c.rid {
				t.Fatalf("C08 violated over websocket (%s, %s side closes): call %s, whose handler was entered before Close, completed with %v / %+v instead of its genuine reply", sub.Name, closerEnd, c.rid, c.cmd.Status(), *c.res)
			}
		}
		if !vt.WaitClosed(closed) {
			t.Fatalf("%s", vt.Hang("return of Close"))
		}
	})
}

// TestC08PeerCloseManySessions: Peer.Close is the graceful close of every session of the peer:
// it returns only after the entered handlers of all of them have finished and replied.
func TestC08PeerCloseManySessions(t *testing.T) {
	rec := vt.NewRec(t, "C08", "peer-close-many", "a serving peer with 2-5 sessions, each with 0-2 calls whose handlers are gated and entered (at least one in total); Peer.Close; handlers are released one at a time in a generated order; oracle: Close has not returned before the last release, every call completes OK with its genuine result, afterwards every session of the peer is closed (its remote end is notified) and none is listed; non-trivial = handlers running on at least two sessions; distinct by case")
	protos := vt.StreamProtos()
	rapid.Check(t, func(t *rapid.T) {
		vt.Init()
		lib := newLib()
		proto := rapid.SampledFrom(protos).Draw(t, "proto")
		ns := rapid.IntRange(2, 5).Draw(t, "sessions")
		per := make([]int, ns)
		total, busy := 0, 0
		for i := range per {
			per[i] = rapid.IntRange(0, 2).Draw(t, "calls")
			total += per[i]
			if per[i] > 0 {
				busy++
			}
		}
		if total == 0 {
			per[0], total, busy = 1, 1, 1
		}
		order := rapid.Permutation(seq(total)).Draw(t, "release")
		rec.Case(fmt.Sprintf("%s|%v|%v", proto.Name, per, order), busy >= 2, fmt.Sprintf("sessions=%d", ns))
		if rec.WantSample() && busy >= 2 {
			rec.Sample(map[string]interface{}{"proto": proto.Name, "calls_per_session": per, "release_order": order})
		}
		w := vt.NewWorld()
		defer w.Close()
		srv := w.Peer(erpc.PeerConfig{})
		cli := w.Peer(erpc.PeerConfig{})
		route, _ := registerLib(srv)
		type call struct {
			rid     string
			cmd     erpc.CallCmd
			res     *LibRes
			release func()
			entered <-chan struct{}
		}
		var calls []*call
		var links []*vt.Link
		for si := 0; si < ns; si++ {
			l := w.Connect(cli, srv, proto, nil)
			if l.A == nil || l.B == nil {
				t.Fatalf("connect failed")
			}
			links = append(links, l)
			for k := 0; k < per[si]; k++ {
				rid := fmt.Sprintf("s%dk%d", si, k)
				e, rel := lib.Gate(rid)
				c := &call{rid: rid, res: new(LibRes), release: rel, entered: e}
				c.cmd = l.A.AsyncCall(route, &LibArg{Rid: rid, Act: "slow", Val: "genuine-" + rid}, c.res, make(chan erpc.CallCmd, 1))
				calls = append(calls, c)
			}
		}
		defer func() {
			for _, c := range calls {
				c.release()
			}
		}()
		for _, c := range calls {
			if !vt.WaitClosed(c.entered) {
				t.Fatalf("%s", vt.Hang("entry of handler "+c.rid))
			}
		}
		closed := make(chan struct{})
		go func() { srv.Close(); close(closed) }()
		vt.WaitUntil(func() bool {
			for _, l := range links {
				if l.B.Health() {
					return false
				}
			}
			return true
		})
		for n, idx := range order {
			select {
			case <-closed:
				t.Fatalf("C08 violated: Peer.Close returned while %d of %d entered handlers (on %d sessions) were still running", total-n, total, busy)
			default:
			}
			calls[idx].release()
			if !vt.WaitClosed(calls[idx].cmd.Done()) {
				t.Fatalf("%s", vt.Hang("completion of call "+calls[idx].rid+" after its handler was released"))
			}
		}
		for _, c := range calls {
			if !c.cmd.StatusOK() || c.res.Val != "genuine-"+c.rid {
				t.Fatalf("C08 violated: call %s, whose handler was entered before Peer.Close, completed with %v / %+v instead of its genuine reply", c.rid, c.cmd.Status(), *c.res)
			}
		}
		if !vt.WaitClosed(closed) {
			t.Fatalf("%s", vt.Hang("return of Peer.Close after every handler was released"))
		}
		for i, l := range links {
			if !vt.WaitClosed(l.A.CloseNotify()) {
				t.Fatalf("C08 violated: session %d of the closed peer is still connected after Peer.Close returned; %s", i, vt.Hang("the close notification at its remote end"))
			}
		}
		if n := srv.CountSession(); n != 0 {
			t.Fatalf("C08 violated: the closed peer still lists %d sessions", n)
		}
	})
}
