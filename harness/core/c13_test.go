package core

import (
	"fmt"
	"io"
	"net"
	"strings"
	"sync"
	"sync/atomic"
	"testing"
	"time"

	erpc "github.com/henrylee2cn/erpc/v6"
	"github.com/henrylee2cn/erpc/v6/plugin/secure"
	"pgregory.net/rapid"

	"verifharness/vt"
)

// tcpServer is the harness-owned listener in front of a serving peer: it can
// kill every accepted connection and make the address refuse connections.
type tcpServer struct {
	proto []erpc.ProtoFunc // wire protocol of the accepted connections (nil = process default)
	mu    sync.Mutex
	ln    net.Listener
	addr  string
	conns []net.Conn
	peer  erpc.Peer
	wg    sync.WaitGroup
}

func (s *tcpServer) listen() error {
	var ln net.Listener
	var err error
	for i := 0; i < 200; i++ {
		a := s.addr
		if a == "" {
			a = "127.0.0.1:0"
		}
		ln, err = net.Listen("tcp", a)
		if err == nil {
			break
		}
		time.Sleep(2 * time.Millisecond)
	}
	if err != nil {
		return err
	}
	s.mu.Lock()
	s.ln = ln
	s.addr = ln.Addr().String()
	s.mu.Unlock()
	s.wg.Add(1)
	go func() {
		defer s.wg.Done()
		for {
			c, err := ln.Accept()
			if err != nil {
				return
			}
			s.mu.Lock()
			s.conns = append(s.conns, c)
			s.mu.Unlock()
			go s.peer.ServeConn(c, s.proto...)
		}
	}()
	return nil
}

func (s *tcpServer) kill() {
	s.mu.Lock()
	cs := s.conns
	s.conns = nil
	s.mu.Unlock()
	for _, c := range cs {
		c.Close()
	}
}

func (s *tcpServer) down() {
	s.mu.Lock()
	ln := s.ln
	s.ln = nil
	s.mu.Unlock()
	if ln != nil {
		ln.Close()
	}
	s.wg.Wait()
	s.kill()
}

// dialRecorder records the dial hooks of the client peer.
type dialRecorder struct {
	first, redials int32
	rejectRedial   int32 // when set, every redial attempt is refused by the hook (e.g. a refused re-authentication)
	refuseNext     int32 // this many of the next redial attempts are refused, then the hook accepts again
	wrapConn       bool  // the hook wraps the connection of every (re)dialled socket, as a TLS / metering / websocket plugin does
	wrapped        int32
}

// meteredConn is a pass-through net.Conn wrapper installed by the dial hook.
type meteredConn struct {
	net.Conn
	n       *int64
	severed int32 // writes fail as on a connection the other side has closed; reads are not affected
}

func (m *meteredConn) Write(b []byte) (int, error) {
	if atomic.LoadInt32(&m.severed) != 0 {
		return 0, io.EOF
	}
	atomic.AddInt64(m.n, int64(len(b)))
	return m.Conn.Write(b)
}

// lastWrapped is the wrapper installed by the most recent (re)dial of a case.
var lastWrapped atomic.Value // *meteredConn

var meteredBytes int64

func (d *dialRecorder) Name() string { return "c13dial" }
func (d *dialRecorder) PostDial(s erpc.PreSession, isRedial bool) *erpc.Status {
	if d.wrapConn {
		s.ModifySocket(func(conn net.Conn) (net.Conn, erpc.ProtoFunc) {
			mc := &meteredConn{Conn: conn, n: &meteredBytes}
			lastWrapped.Store(mc)
			return mc, nil
		})
		atomic.AddInt32(&d.wrapped, 1)
	}
	if isRedial {
		if atomic.LoadInt32(&d.rejectRedial) != 0 {
			return erpc.NewStatus(erpc.CodeUnauthorized, "re-authentication refused", "c13")
		}
		if atomic.AddInt32(&d.refuseNext, -1) >= 0 {
			return erpc.NewStatus(erpc.CodeUnauthorized, "re-authentication refused for now", "c13")
		}
		atomic.AddInt32(&d.redials, 1)
	} else {
		atomic.AddInt32(&d.first, 1)
	}
	return nil
}

// writeOnce counts the pre-write hooks per message (sequence number): a message that
// is re-sent after a redial is still one message.
type writeOnce struct {
	mu sync.Mutex
	n  map[string]int
}

func (w *writeOnce) Name() string { return "c13writeonce" }
func (w *writeOnce) hit(kind string, ctx erpc.WriteCtx) *erpc.Status {
	w.mu.Lock()
	w.n[fmt.Sprintf("%s seq=%d", kind, ctx.Output().Seq())]++
	w.mu.Unlock()
	return nil
}
func (w *writeOnce) PreWriteCall(ctx erpc.WriteCtx) *erpc.Status { return w.hit("PreWriteCall", ctx) }
func (w *writeOnce) PreWritePush(ctx erpc.WriteCtx) *erpc.Status { return w.hit("PreWritePush", ctx) }
func (w *writeOnce) worst() (string, int) {
	w.mu.Lock()
	defer w.mu.Unlock()
	for k, n := range w.n {
		if n > 1 {
			return k, n
		}
	}
	return "", 0
}

// attemptGate is a dial hook of the client peer that can hold one redial attempt of a
// round inside the hook (after the framework has given the socket the attempt's
// connection, before the recorder's verdict), so that traffic can be issued at a chosen
// point of a redial round. It never refuses anything.
type attemptGate struct {
	mu      sync.Mutex
	holdAt  int // the attempt (1-based, counted from arming) to hold; 0 = not armed
	seen    int
	reached chan struct{}
	release chan struct{}
}

func (g *attemptGate) Name() string { return "c13attemptgate" }

// arm makes the k-th redial attempt from now on wait inside the hook until release is called.
func (g *attemptGate) arm(k int) (reached <-chan struct{}, release func()) {
	g.mu.Lock()
	defer g.mu.Unlock()
	g.holdAt, g.seen = k, 0
	g.reached, g.release = make(chan struct{}), make(chan struct{})
	rel := g.release
	var once sync.Once
	return g.reached, func() { once.Do(func() { close(rel) }) }
}

func (g *attemptGate) PostDial(s erpc.PreSession, isRedial bool) *erpc.Status {
	if !isRedial {
		return nil
	}
	g.mu.Lock()
	if g.holdAt == 0 {
		g.mu.Unlock()
		return nil
	}
	g.seen++
	hit := g.seen == g.holdAt
	reached, release := g.reached, g.release
	if hit {
		g.holdAt = 0
	}
	g.mu.Unlock()
	if hit {
		close(reached)
		t := time.NewTimer(vt.LivenessBound) // safety net only: the case releases the gate itself
		defer t.Stop()
		select {
		case <-release:
		case <-t.C:
		}
	}
	return nil
}

type c13Case struct {
	Proto   string // "" = process default, else the protocol given to Dial: raw | json | pb
	Budget  int32  // redial attempts: 1, 3 or -1 (unlimited)
	Secure  bool   // both peers run the secure plugin and every message is marked secure
	Wrap    bool   // the client's dial hook wraps the connection of every (re)dialled socket (ModifySocket)
	SetID   bool
	Actions []string // kill-idle | kill-during-call | calls | outage-short | outage-exhaust | ...
	Callers int
	// traffic issued DURING a redial round (the traffic-in-... actions): c.Callers goroutines
	// issue a call each and as many issue a push each
	HoldAt int // 0: as soon as the client has noticed the loss; k>=1: while the k-th attempt of the round (modulo the attempts it has) is inside its dial hook
	GapUS  int // pause between launching the traffic and letting the round go on
	Refuse int // selects how many attempts of a refused-then-accepted round are refused (1..budget, 1..3 when unlimited)
	// what happens after the session ended (finite budget exhausted)
	Revive      int // 0: nothing more; 1: the server is reachable / the hook accepts again, a call, then the connection is killed under a pending call; 2: same, the server goes away under the pending call
	ReviveCalls int // further calls on the revived session before the loss
}

func genC13(t *rapid.T) c13Case {
	c := c13Case{Wrap: rapid.IntRange(0, 2).Draw(t, "wrap") == 0, Proto: rapid.SampledFrom([]string{"", "", "raw", "json", "pb"}).Draw(t, "proto"), Budget: rapid.SampledFrom([]int32{1, 3, -1}).Draw(t, "budget"), SetID: rapid.Bool().Draw(t, "setid"), Callers: rapid.IntRange(1, 4).Draw(t, "callers"), Secure: rapid.IntRange(0, 2).Draw(t, "secure") == 0}
	n := rapid.IntRange(1, 5).Draw(t, "nactions")
	for i := 0; i < n; i++ {
		a := rapid.SampledFrom([]string{"kill-idle", "kill-idle", "kill-during-call", "calls", "outage-short", "outage-exhaust", "hook-rejects-redials", "traffic-during-outage", "traffic-during-outage", "reverse-call-in-flight", "reverse-call-in-flight", "refused-then-accepted", "refused-then-accepted", "writer-first-loss", "writer-first-loss", "traffic-in-refused-round", "traffic-in-refused-round", "traffic-in-refused-then-accepted", "traffic-in-refused-then-accepted", "traffic-in-exhaust-round"}).Draw(t, "action")
		c.Actions = append(c.Actions, a)
		if c13Ends(a) && c.Budget > 0 {
			break // the session ends there
		}
	}
	c.HoldAt = rapid.IntRange(0, 4).Draw(t, "holdat")
	c.GapUS = rapid.SampledFrom([]int{0, 100, 500, 4000}).Draw(t, "gap_us")
	c.Refuse = rapid.IntRange(0, 2).Draw(t, "refuse")
	c.Revive = rapid.SampledFrom([]int{0, 1, 1, 2}).Draw(t, "revive")
	c.ReviveCalls = rapid.IntRange(0, 2).Draw(t, "revivecalls")
	return c
}

// c13Ends: the action ends a session with a finite redial budget.
func c13Ends(a string) bool {
	switch a {
	case "outage-exhaust", "hook-rejects-redials", "traffic-in-refused-round", "traffic-in-exhaust-round":
		return true
	}
	return false
}

const c13Interval = 3 * time.Millisecond

// c13WriterFirstRetried counts writer-first-loss actions that were re-tried (see there).
var c13WriterFirstRetried int64

func isConnErr(st *erpc.Status) bool {
	switch st.Code() {
	case erpc.CodeConnClosed, erpc.CodeWriteFailed, erpc.CodeDialFailed:
		return true
	}
	return false
}

func runC13(c c13Case) []string {
	vt.Init()
	lib := newLib()
	w := vt.NewWorld()
	defer w.Close()
	var srvPlugins, cliPlugins []erpc.Plugin
	var secureSetting []erpc.MessageSetting
	if c.Secure {
		key := strings.Repeat("k", 16)
		srvPlugins = append(srvPlugins, secure.NewPlugin(9100, key))
		cliPlugins = append(cliPlugins, secure.NewPlugin(9100, key))
		secureSetting = []erpc.MessageSetting{secure.WithSecureMeta()}
	}
	srv := w.Peer(erpc.PeerConfig{}, srvPlugins...)
	route, pushRoute := registerLib(srv)
	var dialProto []erpc.ProtoFunc
	if c.Proto != "" {
		dialProto = []erpc.ProtoFunc{protoByName(vt.StreamProtos(), c.Proto).Fn}
	}
	ts := &tcpServer{peer: srv, proto: dialProto}
	if err := ts.listen(); err != nil {
		return []string{"SKIP: no loopback listener: " + err.Error()}
	}
	defer ts.down()
	rec := &dialRecorder{wrapConn: c.Wrap}
	once := &writeOnce{n: map[string]int{}}
	gate := &attemptGate{}
	cli := w.Peer(erpc.PeerConfig{RedialTimes: c.Budget, RedialInterval: c13Interval, DialTimeout: 2 * time.Second}, append(cliPlugins, gate, rec, once)...)
	registerLib(cli) // the client serves calls issued by the server over the client's session
	sess, stat := cli.Dial(ts.addr, dialProto...)
	if !stat.OK() {
		return []string{"initial dial failed: " + stat.String()}
	}
	// the serving end of the client's current connection
	srvSession := func(not erpc.Session) erpc.Session {
		var found erpc.Session
		vt.WaitUntilFor(3*time.Second, func() bool {
			found = nil
			// the serving session whose remote address is the local address of the client's
			// current connection (a serving session of an earlier connection may not have
			// noticed its end yet)
			local := sess.LocalAddr().String()
			srv.RangeSession(func(s erpc.Session) bool {
				if s.Health() && interface{}(s) != interface{}(not) && s.RemoteAddr().String() == local {
					found = s
					return false
				}
				return true
			})
			return found != nil
		})
		return found
	}
	var fails []string
	failf := func(format string, a ...interface{}) { fails = append(fails, fmt.Sprintf(format, a...)) }
	// the listener goes away / comes back. While it is away nothing may answer at its address;
	// when a redial is nevertheless accepted then, another process on this machine has been given
	// the port meanwhile (and serves the same routes): the case says nothing and is skipped.
	isDown, foreign := false, false
	var redialsAtDown int32
	srvDown := func() {
		if !isDown {
			redialsAtDown = atomic.LoadInt32(&rec.redials)
		}
		isDown = true
		ts.down()
	}
	checkForeign := func() {
		if isDown && atomic.LoadInt32(&rec.redials) > redialsAtDown {
			foreign = true
		}
	}
	srvUp := func() error {
		checkForeign()
		err := ts.listen()
		if err == nil {
			isDown = false
		}
		return err
	}
	wantID := sess.ID()
	if c.SetID {
		wantID = "user-7"
		sess.SetID(wantID)
	}
	ncall := 0
	okCall := func(when string) {
		ncall++
		rid := fmt.Sprintf("ok%d", ncall)
		res := new(LibRes)
		cmd := sess.AsyncCall(route, &LibArg{Rid: rid, Act: "ret", Val: rid}, res, make(chan erpc.CallCmd, 1), secureSetting...)
		if !vt.WaitClosed(cmd.Done()) {
			failf("%s", vt.Hang("completion of a call "+when))
			return
		}
		if !cmd.StatusOK() || res.Val != rid {
			failf("a call issued %s (server reachable, session re-established) failed: %v", when, cmd.Status())
		}
	}
	stabilised := func(redialsBefore int32, what string) bool {
		ok := vt.WaitUntilFor(10*time.Second, func() bool { return atomic.LoadInt32(&rec.redials) > redialsBefore && sess.Health() })
		if !ok {
			failf("the session did not re-establish within 10s after %s (redial hooks so far %d, health %v); goroutines:\n%s", what, atomic.LoadInt32(&rec.redials), sess.Health(), vt.GoroutineDump())
		}
		return ok
	}
	checkIdentity := func(when string) {
		if got := sess.ID(); got != wantID && c.SetID {
			failf("%s: session id is %q, the user-assigned id was %q", when, got, wantID)
		}
		// the index is updated right after the session turns healthy again
		vt.WaitUntilFor(2*time.Second, func() bool { _, ok := cli.GetSession(sess.ID()); return ok })
		if c.SetID {
			s2, ok := cli.GetSession(wantID)
			if !ok || interface{}(s2) != interface{}(sess) {
				failf("%s: the client's index does not map id %q to the session", when, wantID)
			}
		} else if _, ok := cli.GetSession(sess.ID()); !ok {
			failf("%s: the client's index does not list the re-established session under its id %q", when, sess.ID())
		}
	}
	// launchTraffic starts c.Callers goroutines issuing one call each and as many issuing one
	// push each, and returns once all of them are running; the returned function waits (bounded)
	// for all of them and judges them: every call completes, OK with its own result or with a
	// connection-class status; every push returns (OK or connection-class), handled at most once.
	launchTraffic := func(tag string) (wait func(when string) bool) {
		type pc struct {
			cmd erpc.CallCmd
			res *LibRes
			rid string
		}
		var mu sync.Mutex
		var pcs []pc
		var pushRids []string
		var pushStats []*erpc.Status
		var wg, started sync.WaitGroup
		for g := 0; g < c.Callers; g++ {
			wg.Add(2)
			started.Add(2)
			go func(g int) {
				defer wg.Done()
				rid := fmt.Sprintf("%s-c%d", tag, g)
				res := new(LibRes)
				started.Done()
				cmd := sess.AsyncCall(route, &LibArg{Rid: rid, Act: "ret", Val: rid}, res, make(chan erpc.CallCmd, 1), secureSetting...)
				mu.Lock()
				pcs = append(pcs, pc{cmd, res, rid})
				mu.Unlock()
			}(g)
			go func(g int) {
				defer wg.Done()
				prid := fmt.Sprintf("%s-p%d", tag, g)
				started.Done()
				st := sess.Push(pushRoute, &LibArg{Rid: prid, Act: "ret", Val: prid}, secureSetting...)
				mu.Lock()
				pushRids = append(pushRids, prid)
				pushStats = append(pushStats, st)
				mu.Unlock()
			}(g)
		}
		started.Wait()
		return func(when string) bool {
			done := make(chan struct{})
			go func() { wg.Wait(); close(done) }()
			if !vt.WaitClosed(done) {
				mu.Lock()
				nc, np := len(pcs), len(pushStats)
				mu.Unlock()
				failf("%s", vt.Hang(fmt.Sprintf("return of the %d AsyncCalls and %d Pushes issued %s (returned so far: %d calls, %d pushes; budget %d)", c.Callers, c.Callers, when, nc, np, c.Budget)))
				return false
			}
			for _, p := range pcs {
				if !vt.WaitClosed(p.cmd.Done()) {
					failf("%s", vt.Hang("completion of a call issued "+when))
					return false
				}
				if p.cmd.StatusOK() {
					if p.res.Val != p.rid {
						failf("a call issued %s completed OK with result %+v, the handler must have seen Val=%q", when, *p.res, p.rid)
					}
				} else if !isConnErr(p.cmd.Status()) {
					failf("a call issued %s completed with %v, want OK or a connection error", when, p.cmd.Status())
				}
			}
			for i, st := range pushStats {
				if !st.OK() && !isConnErr(st) {
					failf("push %s issued %s returned %v, want OK or a connection error", pushRids[i], when, st)
				}
			}
			time.Sleep(300 * time.Microsecond)
			for _, prid := range pushRids {
				if n := lib.Pushes(prid); n > 1 {
					failf("push %s issued %s was handled %d times", prid, when, n)
				}
			}
			if n := lib.Pushes(""); n > 0 {
				failf("%d push(es) issued %s reached the handler with an empty argument (secure=%v)", n, when, c.Secure)
			}
			return len(fails) == 0
		}
	}
	// afterEnded: what the property states about a session whose budget is exhausted.
	afterEnded := func(why string) {
		if !vt.WaitClosed(sess.CloseNotify()) {
			failf("%s", vt.Hang(fmt.Sprintf("close notification after %s (budget %d)", why, c.Budget)))
			return
		}
		vt.WaitUntilFor(2*time.Second, func() bool { _, ok := cli.GetSession(wantID); return !ok })
		if _, ok := cli.GetSession(wantID); ok {
			failf("the session that ended after %s is still listed under %q", why, wantID)
		}
		var later erpc.CallCmd
		if !vt.Returns(func() {
			later = sess.AsyncCall(route, &LibArg{Rid: "later-x", Act: "ret"}, new(LibRes), make(chan erpc.CallCmd, 1), secureSetting...)
		}) {
			failf("%s", vt.Hang("return of AsyncCall on a session that ended after "+why))
			return
		}
		if !vt.WaitClosed(later.Done()) {
			failf("%s", vt.Hang("completion of a call issued after the session ended after "+why))
			return
		}
		if later.StatusOK() || !isConnErr(later.Status()) {
			failf("a call issued after the session ended (%s; nothing changed since) completed with %v, want a connection error", why, later.Status())
		}
		var pst *erpc.Status
		if !vt.Returns(func() { pst = sess.Push(pushRoute, &LibArg{Rid: "later-push-x"}, secureSetting...) }) {
			failf("%s", vt.Hang("return of Push on a session that ended after "+why))
			return
		}
		if pst.OK() {
			failf("a push on the session that ended after %s succeeded", why)
		}
	}
	gap := time.Duration(c.GapUS) * time.Microsecond
	okCall("before any loss")
	ended := false
	serverDown := false
	for ai, act := range c.Actions {
		if len(fails) > 0 || ended {
			break
		}
		before := atomic.LoadInt32(&rec.redials)
		switch act {
		case "calls":
			var wg sync.WaitGroup
			for g := 0; g < c.Callers; g++ {
				wg.Add(1)
				go func() { defer wg.Done(); okCallLocked(sess, route, &fails, &ncall) }()
			}
			wg.Wait()
		case "traffic-during-outage":
			// calls and pushes issued while the server is away; it comes back while they are
			// being (re)sent. Whatever completes OK must carry the genuine data.
			if c.Budget > 0 {
				continue // a finite budget may legitimately be exhausted here: covered by outage-exhaust
			}
			srvDown()
			// wait until the client has noticed the loss: from then on every call and push takes
			// the redial path, and since the server comes back for good they must succeed
			noticed := vt.WaitUntilFor(2*time.Second, func() bool { return !sess.Health() })
			type pc struct {
				cmd erpc.CallCmd
				res *LibRes
				rid string
			}
			var pcs []pc
			var pushRids []string
			var mu sync.Mutex
			var wg sync.WaitGroup
			for g := 0; g < c.Callers; g++ {
				wg.Add(1)
				go func(g int) {
					defer wg.Done()
					rid := fmt.Sprintf("out%d-%d", ai, g)
					res := new(LibRes)
					cmd := sess.AsyncCall(route, &LibArg{Rid: rid, Act: "ret", Val: rid}, res, make(chan erpc.CallCmd, 1), secureSetting...)
					mu.Lock()
					pcs = append(pcs, pc{cmd, res, rid})
					mu.Unlock()
				}(g)
				// pushes from their own goroutines, so that they too are issued while the session redials
				wg.Add(1)
				go func(g int) {
					defer wg.Done()
					prid := fmt.Sprintf("pout%d-%d", ai, g)
					sess.Push(pushRoute, &LibArg{Rid: prid, Act: "ret", Val: prid}, secureSetting...)
					mu.Lock()
					pushRids = append(pushRids, prid)
					mu.Unlock()
				}(g)
			}
			time.Sleep(c13Interval)
			if err := srvUp(); err != nil {
				failf("SKIP: cannot re-listen, the address has been taken by another process meanwhile: %v", err)
				break
			}
			wg.Wait()
			for _, p := range pcs {
				if !vt.WaitClosed(p.cmd.Done()) {
					failf("%s", vt.Hang("completion of a call issued while the server was away"))
					break
				}
				if p.cmd.StatusOK() {
					if p.res.Val != p.rid {
						failf("a call issued while the server was away completed OK with result %+v, the handler must have seen Val=%q", *p.res, p.rid)
					}
				} else if noticed && lib.Calls(p.rid) == 1 {
					failf("a call issued while the session was redialing (unlimited budget) was re-sent and handled once the server was back, no further loss happened, yet it completed with %v", p.cmd.Status())
				} else if !isConnErr(p.cmd.Status()) {
					failf("a call issued while the server was away completed with %v, want OK or a connection error", p.cmd.Status())
				}
			}
			if stabilised(before, fmt.Sprintf("action %d: traffic during an outage", ai)) {
				checkIdentity("after traffic during an outage")
				okCall("after traffic during an outage")
			}
			// pushes: delivered intact at most once, or not at all - never as an empty / foreign argument
			time.Sleep(300 * time.Microsecond)
			for _, prid := range pushRids {
				if n := lib.Pushes(prid); n > 1 {
					failf("push %s issued while the server was away was handled %d times", prid, n)
				}
			}
			if n := lib.Pushes(""); n > 0 {
				failf("%d push(es) issued while the server was away reached the handler with an empty argument (secure=%v)", n, c.Secure)
			}
		case "kill-idle":
			ts.kill()
			if stabilised(before, fmt.Sprintf("action %d: connection killed while idle", ai)) {
				checkIdentity("after an idle loss")
				okCall("after an idle loss")
			}
		case "writer-first-loss":
			// the loss shows on the writing side first: a write fails as on a connection closed
			// by the other side while the session's reader is still blocked in its read; the
			// caller's goroutine re-establishes the session, and the reader of the replaced
			// connection ends afterwards
			if !c.Wrap {
				continue
			}
			mc, _ := lastWrapped.Load().(*meteredConn)
			if mc == nil {
				continue
			}
			// While the known finding C14:race-site:redial-resets-socket-in-use is listed (the redial
			// resets a socket whose old reader is still inside its buffered read; rarely - about
			// once in several thousand cases on a loaded machine - that reader's late error poisons
			// the new reader and the re-established connection is lost again), a failure of this
			// action is re-tried with a new writer-first loss, at most twice: a defect of the
			// writer-first path itself fails every time, the rare poisoning does not repeat.
			for attempt := 0; ; attempt++ {
				failsBefore := len(fails)
				if attempt > 0 {
					mc, _ = lastWrapped.Load().(*meteredConn)
					if mc == nil {
						break
					}
					before = atomic.LoadInt32(&rec.redials)
				}
				// another call of the session is awaiting its reply on the connection that is about to
				// be replaced (its handler is held): it is in flight at the moment of the loss
				var pend erpc.CallCmd
				pendRid := fmt.Sprintf("wfpend%d-%d", ai, attempt)
				pendRes := new(LibRes)
				pendRelease := func() {}
				if (ai+attempt)%2 == 0 {
					pendEntered, rel := lib.Gate(pendRid)
					pendRelease = rel
					pend = sess.AsyncCall(route, &LibArg{Rid: pendRid, Act: "slow", Val: pendRid}, pendRes, make(chan erpc.CallCmd, 1), secureSetting...)
					if !vt.WaitClosed(pendEntered) {
						pendRelease()
						failf("%s", vt.Hang("entry of the gated handler before a writer-first loss"))
						break
					}
				}
				atomic.StoreInt32(&mc.severed, 1)
				rid := fmt.Sprintf("wf%d-%d", ai, attempt)
				res := new(LibRes)
				cmd := sess.AsyncCall(route, &LibArg{Rid: rid, Act: "ret", Val: rid}, res, make(chan erpc.CallCmd, 1), secureSetting...)
				if !vt.WaitClosed(cmd.Done()) {
					failf("%s", vt.Hang("completion of a call whose write met the loss first"))
					break
				}
				if pend != nil {
					// the connection it waits on is gone for good once the session was re-established
					if !vt.WaitClosed(pend.Done()) {
						pendRelease()
						failf("%s", vt.Hang("completion of a call that was awaiting its reply on the connection a writer-first redial replaced"))
						break
					}
					pendRelease()
					if pend.StatusOK() && pendRes.Val != pendRid {
						failf("a call in flight at a writer-first loss completed OK with %+v", *pendRes)
					} else if !pend.StatusOK() && !isConnErr(pend.Status()) {
						failf("a call in flight at a writer-first loss completed with %v, want a connection error", pend.Status())
					}
				}
				if cmd.StatusOK() && res.Val != rid {
					failf("a call whose write met the loss first completed OK with %+v", *res)
				} else if !cmd.StatusOK() && !isConnErr(cmd.Status()) {
					failf("a call whose write met the loss first completed with %v, want OK or a connection error", cmd.Status())
				}
				if stabilised(before, fmt.Sprintf("action %d: loss noticed by a writer first", ai)) {
					// the reader of the replaced connection has ended by now or ends soon; it must not
					// take the re-established session with it
					time.Sleep(time.Duration(1+ai%3) * 500 * time.Microsecond)
					if cmd.StatusOK() == false && lib.Calls(rid) == 1 {
						failf("a call re-sent over the re-established connection and handled there, with no further loss, completed with %v", cmd.Status())
					}
					checkIdentity("after a loss noticed by a writer first")
					okCall("after a loss noticed by a writer first")
					okCall("after a loss noticed by a writer first (2)")
				}
				if len(fails) > failsBefore && attempt < 2 && vt.IsKnown("C14:race-site:redial-resets-socket-in-use") {
					atomic.AddInt64(&c13WriterFirstRetried, 1)
					fails = fails[:failsBefore]
					vt.WaitUntilFor(10*time.Second, sess.Health)
					time.Sleep(2 * time.Millisecond)
					continue
				}
				break
			}
		case "kill-during-call":
			rid := fmt.Sprintf("mid%d", ai)
			entered, release := lib.Gate(rid)
			res := new(LibRes)
			cmd := sess.AsyncCall(route, &LibArg{Rid: rid, Act: "slow", Val: rid}, res, make(chan erpc.CallCmd, 1))
			if !vt.WaitClosed(entered) {
				release()
				failf("%s", vt.Hang("entry of the gated handler"))
				break
			}
			ts.kill()
			release()
			if !vt.WaitClosed(cmd.Done()) {
				failf("%s", vt.Hang("completion of a call that was awaiting its reply when the connection was lost"))
				break
			}
			if cmd.StatusOK() {
				if res.Val != rid {
					failf("in-flight call completed OK with a wrong result %+v", *res)
				}
			} else if !isConnErr(cmd.Status()) {
				failf("in-flight call at the moment of loss completed with %v, want a connection error", cmd.Status())
			}
			if stabilised(before, fmt.Sprintf("action %d: connection killed while awaiting a reply", ai)) {
				checkIdentity("after a loss during a call")
				okCall("after a loss during a call")
			}
		case "refused-then-accepted":
			// the dial hook refuses the first attempts of this round and then accepts, staying
			// within the budget: the budget is per loss, so this can be repeated any number of times
			k := int32(2)
			if c.Budget > 0 && c.Budget-1 < k {
				k = c.Budget - 1
			}
			atomic.StoreInt32(&rec.refuseNext, k)
			ts.kill()
			if stabilised(before, fmt.Sprintf("action %d: connection killed, the dial hook refuses %d redial attempt(s) and then accepts (budget %d)", ai, k, c.Budget)) {
				checkIdentity("after a round with refused redial attempts")
				okCall("after a round with refused redial attempts")
			}
			atomic.StoreInt32(&rec.refuseNext, 0)
		case "reverse-call-in-flight":
			// the server has called the client and the client's handler is still running when the
			// connection is lost; whatever that handler returns later belongs to the old
			// connection: a call the server issues over the re-established connection gets its
			// own reply even when it carries the same sequence number
			old := srvSession(nil)
			if old == nil {
				failf("harness: no serving session found")
				break
			}
			rid := fmt.Sprintf("rev%d", ai)
			entered, release := lib.Gate(rid)
			oldRes := new(LibRes)
			oldCmd := old.AsyncCall(route, &LibArg{Rid: rid, Act: "slow", Val: "old-" + rid}, oldRes, make(chan erpc.CallCmd, 1), secureSetting...)
			select {
			case <-entered:
			case <-oldCmd.Done():
				// not the scenario: the call did not reach the client's handler
				select {
				case <-entered:
				default:
					release()
					failf("harness: the call issued by the server over the session serving %s completed with %v before the client-side handler was entered (client session local address %s, health %v)", old.RemoteAddr(), oldCmd.Status(), sess.LocalAddr(), sess.Health())
				}
			case <-time.After(vt.LivenessBound):
				release()
				failf("%s", vt.Hang("entry of the client-side handler of a call issued by the server"))
			}
			if len(fails) > 0 {
				break
			}
			oldSeq := oldCmd.Output().Seq()
			ts.kill()
			// a framework that re-establishes the session while the old handler still runs gets the
			// new call in flight before the old handler returns; one that waits for the handler first
			// (the unchanged code) gets it afterwards
			early := vt.WaitUntilFor(150*time.Millisecond, func() bool { return atomic.LoadInt32(&rec.redials) > before && sess.Health() })
			if !early {
				release()
				if !stabilised(before, fmt.Sprintf("action %d: connection killed while a client-side handler was running", ai)) {
					break
				}
			}
			cur := srvSession(old)
			if cur == nil {
				release()
				failf("the serving peer has no healthy session after the client re-established its connection")
				break
			}
			// bring the new serving session to the sequence number of the old call
			for i := int32(1); i < oldSeq && len(fails) == 0; i++ {
				fr := new(LibRes)
				if fc := cur.Call(route, &LibArg{Rid: fmt.Sprintf("fill%d-%d", ai, i), Act: "ret", Val: "fill"}, fr, secureSetting...); !fc.StatusOK() || fr.Val != "fill" {
					failf("a call issued by the server over the re-established connection failed: %v %+v", fc.Status(), *fr)
				}
			}
			nrid := fmt.Sprintf("revnew%d", ai)
			nentered, nrelease := lib.Gate(nrid)
			newRes := new(LibRes)
			newCmd := cur.AsyncCall(route, &LibArg{Rid: nrid, Act: "slow", Val: "new-" + nrid}, newRes, make(chan erpc.CallCmd, 1), secureSetting...)
			if !vt.WaitClosed(nentered) {
				release()
				nrelease()
				failf("%s", vt.Hang("entry of the client-side handler of the call issued over the re-established connection"))
				break
			}
			release() // the old handler returns now (if it has not already)
			time.Sleep(2 * time.Millisecond)
			nrelease()
			if !vt.WaitClosed(newCmd.Done()) {
				failf("%s", vt.Hang("completion of the call issued by the server over the re-established connection"))
				break
			}
			if !newCmd.StatusOK() || newRes.Val != "new-"+nrid || newRes.Rid != nrid {
				failf("the call issued by the server over the re-established connection (seq %d, same as the call in flight when the old connection was lost: %d) completed with status %v and result %+v, want its own reply Val=%q", newCmd.Output().Seq(), oldSeq, newCmd.Status(), *newRes, "new-"+nrid)
			}
			if !vt.WaitClosed(oldCmd.Done()) {
				failf("%s", vt.Hang("completion of the server's call that was in flight when the connection was lost"))
				break
			}
			if oldCmd.StatusOK() && oldRes.Val != "old-"+rid {
				failf("the server's call in flight at the loss completed OK with a foreign result %+v", *oldRes)
			}
			if !early {
				checkIdentity("after a loss during a client-side handler")
			}
			okCall("after a loss during a client-side handler")
		case "traffic-in-refused-round":
			// the server stays reachable, the dial hook refuses every attempt of the round that
			// follows the loss (each refused attempt has already given the socket its connection);
			// calls and pushes are issued while that round is running. Finite budget: the session
			// ends, every call / push fails within the bound. Unlimited: the hook relents after a
			// while and the session must re-establish.
			{
				finite := c.Budget > 0
				attempts := int(c.Budget) + 1
				if !finite {
					attempts = 4
				}
				k := 0
				if c.HoldAt > 0 {
					k = 1 + (c.HoldAt-1)%attempts
				}
				atomic.StoreInt32(&rec.rejectRedial, 1)
				var reached <-chan struct{}
				release := func() {}
				if k > 0 {
					reached, release = gate.arm(k)
				}
				ts.kill()
				if k > 0 {
					if !vt.WaitClosed(reached) {
						release()
						failf("%s", vt.Hang(fmt.Sprintf("redial attempt %d after a connection loss (budget %d, every attempt refused by the dial hook)", k, c.Budget)))
						break
					}
				} else {
					vt.WaitUntilFor(2*time.Second, func() bool { return !sess.Health() })
				}
				wait := launchTraffic(fmt.Sprintf("rr%d", ai))
				time.Sleep(gap)
				release()
				if !finite {
					time.Sleep(c13Interval)
					atomic.StoreInt32(&rec.rejectRedial, 0)
				}
				when := fmt.Sprintf("during a redial round whose attempts are refused by the dial hook (traffic launched at attempt %d, 0 = when the loss was noticed)", k)
				if !wait(when) {
					break
				}
				if finite {
					ended = true
					afterEnded("every redial attempt was refused by the dial hook")
				} else if stabilised(before, fmt.Sprintf("action %d: the dial hook refused the redial attempts for a while (unlimited budget)", ai)) {
					checkIdentity("after a round of refused attempts with traffic")
					okCall("after a round of refused attempts with traffic")
				}
			}
		case "traffic-in-refused-then-accepted":
			// the dial hook refuses the first r attempts of the round and accepts the next one,
			// within the budget; calls and pushes are issued while the round is running
			{
				maxR := 3
				if c.Budget > 0 {
					maxR = int(c.Budget)
				}
				r := 1 + c.Refuse%maxR
				k := 0
				if c.HoldAt > 0 {
					k = 1 + (c.HoldAt-1)%(r+1)
				}
				atomic.StoreInt32(&rec.refuseNext, int32(r))
				var reached <-chan struct{}
				release := func() {}
				if k > 0 {
					reached, release = gate.arm(k)
				}
				ts.kill()
				if k > 0 {
					if !vt.WaitClosed(reached) {
						release()
						failf("%s", vt.Hang(fmt.Sprintf("redial attempt %d after a connection loss (budget %d, %d attempts refused by the dial hook)", k, c.Budget, r)))
						break
					}
				} else {
					vt.WaitUntilFor(2*time.Second, func() bool { return !sess.Health() })
				}
				wait := launchTraffic(fmt.Sprintf("ra%d", ai))
				time.Sleep(gap)
				release()
				ok := wait(fmt.Sprintf("during a redial round in which the dial hook refuses %d attempt(s) and then accepts (budget %d, traffic launched at attempt %d, 0 = when the loss was noticed)", r, c.Budget, k))
				if ok && stabilised(before, fmt.Sprintf("action %d: connection killed, the dial hook refuses %d redial attempt(s) and then accepts (budget %d), traffic during the round", ai, r, c.Budget)) {
					checkIdentity("after a round with refused redial attempts and traffic")
					okCall("after a round with refused redial attempts and traffic")
				}
				atomic.StoreInt32(&rec.refuseNext, 0)
			}
		case "traffic-in-exhaust-round":
			// the server goes away for good; calls and pushes are issued while the attempts of
			// the round fail (finite budget; the unlimited case is traffic-during-outage)
			if c.Budget < 0 {
				continue
			}
			srvDown()
			serverDown = true
			vt.WaitUntilFor(2*time.Second, func() bool { return !sess.Health() })
			time.Sleep(gap)
			{
				wait := launchTraffic(fmt.Sprintf("rx%d", ai))
				if !wait("during a redial round whose attempts fail because the server is unreachable") {
					break
				}
			}
			ended = true
			afterEnded("the server stayed unreachable for the whole redial round")
			if cli.CountSession() != 0 {
				failf("the client lists %d sessions after its only session ended", cli.CountSession())
			}
		case "outage-short":
			// unreachable for less than the budget allows (or budget unlimited), then back
			srvDown()
			if c.Budget > 0 && c.Budget < 3 {
				// a budget of 1 cannot be guaranteed to bridge any outage: restore at once
			} else {
				time.Sleep(c13Interval)
			}
			if err := srvUp(); err != nil {
				failf("SKIP: cannot re-listen, the address has been taken by another process meanwhile: %v", err)
				break
			}
			if c.Budget > 0 {
				// the outage may or may not have exhausted a small budget: both are legal; find out which
				vt.WaitUntilFor(3*time.Second, func() bool {
					select {
					case <-sess.CloseNotify():
						return true
					default:
					}
					return atomic.LoadInt32(&rec.redials) > before && sess.Health()
				})
				select {
				case <-sess.CloseNotify():
					ended = true
					continue
				default:
				}
			}
			if stabilised(before, fmt.Sprintf("action %d: short outage", ai)) {
				checkIdentity("after a short outage")
				okCall("after a short outage")
			}
		case "hook-rejects-redials":
			// the server stays reachable but the dial hook refuses every redial attempt
			if c.Budget < 0 {
				continue // with an unlimited budget this never ends by itself
			}
			atomic.StoreInt32(&rec.rejectRedial, 1)
			ts.kill()
			if !vt.WaitClosed(sess.CloseNotify()) {
				failf("%s", vt.Hang(fmt.Sprintf("close notification after every redial attempt (budget %d) was refused by the dial hook", c.Budget)))
				break
			}
			ended = true
			vt.WaitUntilFor(2*time.Second, func() bool { _, ok := cli.GetSession(wantID); return !ok })
			if _, ok := cli.GetSession(wantID); ok {
				failf("the session ended by refused redials is still listed under %q", wantID)
			}
			var later erpc.CallCmd
			if !vt.Returns(func() {
				later = sess.AsyncCall(route, &LibArg{Rid: "later-refused", Act: "ret"}, new(LibRes), make(chan erpc.CallCmd, 1), secureSetting...)
			}) {
				failf("%s", vt.Hang("return of AsyncCall on a session that ended because its redials were refused"))
				break
			}
			if !vt.WaitClosed(later.Done()) {
				failf("%s", vt.Hang("completion of a call issued after the session ended because its redials were refused"))
				break
			}
			if later.StatusOK() || !isConnErr(later.Status()) {
				failf("a call issued after the session ended (redials refused by the hook) completed with %v, want a connection error", later.Status())
			}
			var pst *erpc.Status
			if !vt.Returns(func() { pst = sess.Push(route, &LibArg{Rid: "later-push"}) }) {
				failf("%s", vt.Hang("return of Push on a session that ended because its redials were refused"))
				break
			}
			if pst.OK() {
				failf("a push on the ended session succeeded")
			}
		case "outage-exhaust":
			if c.Budget < 0 {
				// unlimited budget: a long outage must NOT end the session
				srvDown()
				time.Sleep(8 * c13Interval)
				select {
				case <-sess.CloseNotify():
					failf("a session with an unlimited redial budget ended during an outage")
				default:
				}
				if err := srvUp(); err != nil {
					failf("SKIP: cannot re-listen, the address has been taken by another process meanwhile: %v", err)
					break
				}
				if stabilised(before, "a long outage with an unlimited budget") {
					checkIdentity("after a long outage")
					okCall("after a long outage")
				}
				break
			}
			// a pending call while the server goes away for good
			rid := fmt.Sprintf("exh%d", ai)
			entered, release := lib.Gate(rid)
			cmd := sess.AsyncCall(route, &LibArg{Rid: rid, Act: "slow", Val: rid}, new(LibRes), make(chan erpc.CallCmd, 1))
			vt.WaitClosed(entered)
			srvDown()
			serverDown = true
			release()
			if !vt.WaitClosed(sess.CloseNotify()) {
				failf("%s", vt.Hang(fmt.Sprintf("close notification after the redial budget (%d) was exhausted", c.Budget)))
				break
			}
			ended = true
			if !vt.WaitClosed(cmd.Done()) {
				failf("%s", vt.Hang("completion of the call pending when the budget was exhausted"))
				break
			}
			if cmd.StatusOK() || !isConnErr(cmd.Status()) {
				failf("the call pending at exhaustion completed with %v, want a connection error", cmd.Status())
			}
			vt.WaitUntilFor(2*time.Second, func() bool { _, ok := cli.GetSession(wantID); return !ok })
			if _, ok := cli.GetSession(wantID); ok {
				failf("the ended session is still listed under %q", wantID)
			}
			if cli.CountSession() != 0 {
				failf("the client lists %d sessions after its only session ended", cli.CountSession())
			}
			// later calls fail with a connection error after at most one further bounded round
			start := time.Now()
			var later erpc.CallCmd
			if !vt.Returns(func() {
				later = sess.AsyncCall(route, &LibArg{Rid: "later", Act: "ret"}, new(LibRes), make(chan erpc.CallCmd, 1))
			}) {
				failf("%s", vt.Hang("return of AsyncCall on a session that ended after exhausting its redial budget"))
				break
			}
			if !vt.WaitClosed(later.Done()) {
				failf("%s", vt.Hang("completion of a call issued after the session ended"))
				break
			}
			if later.StatusOK() || !isConnErr(later.Status()) {
				failf("a call issued after the session ended (server still unreachable) completed with %v, want a connection error", later.Status())
			}
			_ = start
		}
	}
	// a later call on a session that has ended runs one further bounded round of attempts; when
	// the server is reachable (and the hook accepts) again by then, the session works again -
	// and is a redial-enabled session like before: a loss under a pending call completes it
	if ended && c.Revive > 0 && len(fails) == 0 {
		atomic.StoreInt32(&rec.rejectRedial, 0)
		atomic.StoreInt32(&rec.refuseNext, 0)
		if serverDown {
			if err := srvUp(); err != nil {
				failf("SKIP: cannot re-listen, the address has been taken by another process meanwhile: %v", err)
				return fails
			}
			serverDown = false
		}
		before := atomic.LoadInt32(&rec.redials)
		res := new(LibRes)
		var cmd erpc.CallCmd
		if !vt.Returns(func() {
			cmd = sess.AsyncCall(route, &LibArg{Rid: "revive", Act: "ret", Val: "revive"}, res, make(chan erpc.CallCmd, 1), secureSetting...)
		}) {
			failf("%s", vt.Hang("return of AsyncCall on an ended session after the server became reachable again"))
		} else if !vt.WaitClosed(cmd.Done()) {
			failf("%s", vt.Hang("completion of a call issued on an ended session after the server became reachable again"))
		} else if !cmd.StatusOK() {
			if !isConnErr(cmd.Status()) {
				failf("a call issued on an ended session (server reachable again) completed with %v, want OK or a connection error", cmd.Status())
			}
		} else if res.Val != "revive" {
			failf("the call that revived the ended session completed OK with a wrong result %+v", *res)
		} else {
			// the session works again
			for i := 0; i < c.ReviveCalls && len(fails) == 0; i++ {
				okCall("on a session that had ended and was revived by a later call")
			}
			before = atomic.LoadInt32(&rec.redials)
			rid := "revmid"
			entered, release := lib.Gate(rid)
			pres := new(LibRes)
			var pend erpc.CallCmd
			if !vt.Returns(func() {
				pend = sess.AsyncCall(route, &LibArg{Rid: rid, Act: "slow", Val: rid}, pres, make(chan erpc.CallCmd, 1))
			}) {
				release()
				failf("%s", vt.Hang("return of AsyncCall on a revived session"))
			} else {
				select {
				case <-entered:
				case <-pend.Done():
				case <-time.After(vt.LivenessBound):
					failf("%s", vt.Hang("entry of the gated handler (or failure of its call) on a revived session"))
				}
				if c.Revive == 2 {
					srvDown()
					serverDown = true
				} else {
					ts.kill()
				}
				release()
				if len(fails) == 0 {
					if !vt.WaitClosed(pend.Done()) {
						failf("%s", vt.Hang(fmt.Sprintf("completion of a call that was awaiting its reply when the connection of a revived session (ended once: budget %d exhausted; revived by a later call) was lost", c.Budget)))
					} else if pend.StatusOK() {
						if pres.Val != rid {
							failf("the call in flight at the loss of a revived session completed OK with a wrong result %+v", *pres)
						}
					} else if !isConnErr(pend.Status()) {
						failf("the call in flight at the loss of a revived session completed with %v, want a connection error", pend.Status())
					}
				}
				if len(fails) == 0 && c.Revive == 1 {
					// the server is reachable: the revived session re-establishes like any other
					if stabilised(before, "the connection of a revived session was killed (server reachable)") {
						okCall("after the loss on a revived session")
					}
				}
			}
		}
	}
	checkForeign()
	if foreign {
		return []string{"SKIP: a redial was accepted while the harness' listener was closed: its port has been given to another process"}
	}
	if k, n := once.worst(); n > 1 {
		failf("the pre-write hook fired %d times for one message (%s): a message re-sent after a redial is still one message", n, k)
	}
	// a session that is established at the end (whatever it went through) closes like any
	// other: its Close reaches the connection, so the serving end sees the session end
	var serving erpc.Session
	if len(fails) == 0 && sess.Health() {
		probe := sess.AsyncCall(route, &LibArg{Rid: "final", Act: "ret", Val: "final"}, new(LibRes), make(chan erpc.CallCmd, 1))
		if vt.WaitClosed(probe.Done()) && probe.StatusOK() {
			serving = srvSession(nil)
		}
	}
	// cleanup: make sure the client session is closed
	done := make(chan struct{})
	go func() { sess.Close(); close(done) }()
	if !vt.WaitClosed(done) {
		failf("%s", vt.Hang("Close of the redial session at the end"))
	}
	if serving != nil && !vt.WaitUntilFor(vt.LivenessBound, func() bool { return !serving.Health() }) {
		failf("the client closed its session (established, after %d redial rounds) but the serving end still has a healthy session: Close did not reach the connection", len(c.Actions))
	}
	return fails
}

var okCallMu sync.Mutex

func okCallLocked(sess erpc.Session, route string, fails *[]string, n *int) {
	okCallMu.Lock()
	*n++
	rid := fmt.Sprintf("par%d", *n)
	okCallMu.Unlock()
	res := new(LibRes)
	cmd := sess.AsyncCall(route, &LibArg{Rid: rid, Act: "ret", Val: rid}, res, make(chan erpc.CallCmd, 1))
	if !vt.WaitClosed(cmd.Done()) {
		okCallMu.Lock()
		*fails = append(*fails, vt.Hang("completion of a concurrent call on a stable redial session"))
		okCallMu.Unlock()
		return
	}
	if !cmd.StatusOK() || res.Val != rid {
		okCallMu.Lock()
		*fails = append(*fails, fmt.Sprintf("a concurrent call on a stable redial session failed: %v", cmd.Status()))
		okCallMu.Unlock()
	}
}

const ruleC13 = "a client session created by Dial over loopback TCP (process-default protocol, or raw / json / protobuf protocol given to Dial) with redial budget 1 / 3 / unlimited (interval 3 ms), optionally with a user-assigned id, optionally with a dial hook that wraps the connection through ModifySocket on every (re)dial, and optionally with the secure plugin on both peers (every message marked secure), against a harness-owned listener that can kill all connections and refuse new ones; 1-5 generated fault actions: connection killed while idle, killed while a call awaits its (gated) reply, calls and pushes issued while the server is away (unlimited budget), short outage, outage that exhausts the budget (or a long outage with unlimited budget), a dial hook refusing every redial attempt while the server is reachable, a dial hook refusing budget-1 attempts of a round and then accepting (repeatable: the budget is per loss), bursts of concurrent calls, a call issued by the server whose client-side handler is still running at the loss followed by a server call with the same sequence number over the re-established connection; oracle: the pre-write hooks of the dialling peer fire once per message even when it is re-sent after a redial; calls in flight at the loss complete with a connection-class status or their genuine reply (never hang); after the session re-established (redial hook ran again, Health) calls succeed on the same Session value, the user-assigned id is kept and indexed; after exhaustion the close notification fires, the index forgets the session, the pending call and a later call fail with a connection error; unlimited budget survives a long outage; [traffic in a round] calls and pushes from 1-4 goroutines issued DURING a redial round - launched when the client has noticed the loss or while a chosen attempt of the round is held inside its dial hook (its connection already installed in the socket) - in which the hook refuses every attempt (finite budget: the session ends; unlimited: the hook relents), refuses 1..budget attempts and then accepts, or the server is unreachable (finite): every such AsyncCall returns and completes within the liveness bound, OK with its own result or with a connection-class status, every Push returns (OK or connection-class, handled at most once), and a call / push after the session ended fails with a connection error within the bound; [revival] after the session ended (any of the ending actions) optionally the server comes back / the hook accepts and a later call is issued: it completes within the bound (OK or connection error); if OK the session works (0-2 further calls succeed), then the connection is killed (or the server goes away) under a pending gated call: that call completes with a connection error or its genuine reply, and after a kill the session re-establishes and a call succeeds; a session that is established at the end is closed and the serving end must see it end; non-trivial = a loss during a call, traffic in a redial round, >=2 losses or exhaustion; distinct by case"

func TestC13Redial(t *testing.T) {
	rec := vt.NewRec(t, "C13", "redial", ruleC13)
	defer func() {
		if n := atomic.LoadInt64(&c13WriterFirstRetried); n > 0 {
			rec.Class("writer-first-loss re-tried (known finding C14:race-site:redial-resets-socket-in-use listed)", int(n))
			for i := int64(0); i < n; i++ {
				rec.Exclude("C14:race-site:redial-resets-socket-in-use")
			}
		}
	}()
	rapid.Check(t, func(t *rapid.T) {
		c := genC13(t)
		losses, nt := 0, false
		for _, a := range c.Actions {
			if a != "calls" {
				losses++
			}
			if a == "kill-during-call" || a == "outage-exhaust" || strings.HasPrefix(a, "traffic-in-") {
				nt = true
			}
			rec.Class("action="+a, 1)
			if strings.HasPrefix(a, "traffic-in-refused") {
				rec.Class(fmt.Sprintf("traffic-launched-at=%d", c.HoldAt), 1)
			}
		}
		if last := c.Actions[len(c.Actions)-1]; c13Ends(last) && c.Budget > 0 {
			rec.Class(fmt.Sprintf("after-end=%d", c.Revive), 1)
		}
		nt = nt || losses >= 2
		rec.Case(fmt.Sprintf("%+v", c), nt, fmt.Sprintf("budget=%d", c.Budget))
		if rec.WantSample() && nt {
			rec.Sample(c)
		}
		fails := runC13(c)
		if len(fails) > 0 && strings.HasPrefix(fails[0], "SKIP") {
			t.Skip(fails[0])
		}
		if len(fails) > 0 {
			t.Fatalf("C13 violated (%d findings), first: %s\ncase: %+v", len(fails), fails[0], c)
		}
	})
}
