package core

import (
	"fmt"
	"strings"
	"sync"
	"sync/atomic"
	"testing"
	"time"

	erpc "github.com/henrylee2cn/erpc/v6"
	"github.com/henrylee2cn/erpc/v6/plugin/overloader"
	"pgregory.net/rapid"

	"verifharness/vt"
)

// ---- exact part: the limiters against integer models (manual clock, hook H3) -----------

func TestC18ConnLimiterModel(t *testing.T) {
	rec := vt.NewRec(t, "C18", "connlimiter-model", "rapid state machine over the connection limiter (take / release of a held slot / update(limit)) against an integer model, followed by a concurrent phase of n goroutines x m takes; invariant: held slots <= limit at the time of each take, take succeeds iff the model has a free slot, now == model; non-trivial = history contains a rejected take followed by a later take; distinct by history")
	rapid.Check(t, func(t *rapid.T) {
		limit := int32(rapid.IntRange(1, 5).Draw(t, "limit"))
		l := overloader.NewVerifConnLimiter(limit)
		held := int32(0)
		var hist []string
		rejected, nt := false, false
		t.Repeat(map[string]func(*rapid.T){
			"take": func(t *rapid.T) {
				want := held < limit
				got := l.Take()
				hist = append(hist, fmt.Sprintf("take=%v", got))
				if rejected {
					nt = true
				}
				if got != want {
					t.Fatalf("C18 violated: take() = %v with %d slots held and limit %d (history %v)", got, held, limit, hist)
				}
				if got {
					held++
				} else {
					rejected = true
				}
			},
			"release": func(t *rapid.T) {
				if held == 0 {
					t.Skip("nothing held")
				}
				l.Release()
				held--
				hist = append(hist, "release")
			},
			"update": func(t *rapid.T) {
				limit = int32(rapid.IntRange(1, 6).Draw(t, "newlimit"))
				l.Update(limit)
				hist = append(hist, fmt.Sprintf("update(%d)", limit))
			},
			"": func(t *rapid.T) {
				if l.Now() != held {
					t.Fatalf("C18 violated: limiter counts %d connections, %d are held (history %v)", l.Now(), held, hist)
				}
			},
		})
		// concurrent phase: exactly limit-held takes may succeed
		n := rapid.IntRange(2, 8).Draw(t, "goroutines")
		m := rapid.IntRange(1, 5).Draw(t, "takes")
		var ok int32
		var wg sync.WaitGroup
		for g := 0; g < n; g++ {
			wg.Add(1)
			go func() {
				defer wg.Done()
				for i := 0; i < m; i++ {
					if l.Take() {
						atomic.AddInt32(&ok, 1)
					}
				}
			}()
		}
		wg.Wait()
		free := limit - held
		if free < 0 {
			free = 0
		}
		if ok > free {
			t.Fatalf("C18 violated: %d concurrent takes succeeded with only %d free slots (limit %d, held %d)", ok, free, limit, held)
		}
		rec.Case(strings.Join(hist, ",")+fmt.Sprintf("|%d|%d", n, m), nt)
		if rec.WantSample() && nt {
			rec.Sample(map[string]interface{}{"history": hist, "goroutines": n, "takes_each": m})
		}
	})
}

func TestC18QPSLimiterModel(t *testing.T) {
	rec := vt.NewRec(t, "C18", "qpslimiter-model", "rapid state machine over the rate limiter with a manual clock (take / tick / update limit) against an integer token model, with concurrent bursts of n goroutines x m takes between ticks and 'storms' (20/60 rounds of tick + 8-16 goroutines released together taking once or twice: many contended crossings of the empty-bucket boundary); invariant: admissions between two ticks <= tokens at the earlier tick, tokens never exceed the limit after a tick, over the whole run admitted <= capacity + ticks*(refill+1); non-trivial = a burst exceeding the available tokens; distinct by history")
	rapid.Check(t, func(t *rapid.T) {
		limit := int32(rapid.IntRange(1, 40).Draw(t, "limit"))
		interval := rapid.SampledFrom([]time.Duration{time.Second, 100 * time.Millisecond, 10 * time.Millisecond}).Draw(t, "interval")
		l := overloader.NewVerifQPSLimiter(limit, interval)
		capacity := limit
		tokens := limit // model
		var hist []string
		admitted, ticks, nt := int32(0), int32(0), false
		maxOnce := l.Once()
		t.Repeat(map[string]func(*rapid.T){
			"burst": func(t *rapid.T) {
				n := rapid.IntRange(1, 6).Draw(t, "goroutines")
				m := rapid.IntRange(1, 10).Draw(t, "takes")
				var ok int32
				var wg sync.WaitGroup
				for g := 0; g < n; g++ {
					wg.Add(1)
					go func() {
						defer wg.Done()
						for i := 0; i < m; i++ {
							if l.Take() {
								atomic.AddInt32(&ok, 1)
							}
						}
					}()
				}
				wg.Wait()
				avail := tokens
				if avail < 0 {
					avail = 0
				}
				hist = append(hist, fmt.Sprintf("burst(%dx%d)=%d", n, m, ok))
				if int32(n*m) > avail {
					nt = true
				}
				if ok > avail {
					t.Fatalf("C18 violated: %d calls admitted between two ticks with %d tokens available (history %v)", ok, avail, hist)
				}
				want := int32(n * m)
				if want > avail {
					want = avail
				}
				if ok != want {
					t.Fatalf("C18 violated: %d of %d takes admitted with %d tokens available (history %v)", ok, n*m, avail, hist)
				}
				admitted += ok
				tokens = l.Tokens()
			},
			"storm": func(t *rapid.T) {
				// many contended crossings of the empty-bucket boundary: R rounds of {tick, then
				// 8-16 goroutines released together, each taking once or twice}; no tick runs
				// during a burst, so a burst never admits more than the tokens it started with
				nw := rapid.IntRange(8, 16).Draw(t, "workers")
				rounds := rapid.SampledFrom([]int{20, 60}).Draw(t, "rounds")
				per := rapid.IntRange(1, 2).Draw(t, "takes")
				var total int32
				for r := 0; r < rounds; r++ {
					l.Tick()
					ticks++
					avail := l.Tokens()
					if avail < 0 {
						avail = 0
					}
					var ok int32
					start := make(chan struct{})
					var wg sync.WaitGroup
					for g := 0; g < nw; g++ {
						wg.Add(1)
						go func() {
							defer wg.Done()
							<-start
							for i := 0; i < per; i++ {
								if l.Take() {
									atomic.AddInt32(&ok, 1)
								}
							}
						}()
					}
					close(start)
					wg.Wait()
					total += ok
					if ok > avail {
						hist = append(hist, fmt.Sprintf("storm round %d: burst(%dx%d)=%d with %d tokens", r, nw, per, ok, avail))
						t.Fatalf("C18 violated: %d takes admitted by a burst of %d goroutines that started with %d tokens and no tick in between (history %v)", ok, nw, avail, hist)
					}
				}
				nt = true
				hist = append(hist, fmt.Sprintf("storm(%d rounds of tick+burst(%dx%d))=%d", rounds, nw, per, total))
				admitted += total
				tokens = l.Tokens()
			},
			"tick": func(t *rapid.T) {
				l.Tick()
				ticks++
				hist = append(hist, "tick")
				if got := l.Tokens(); got > l.Limit() || got < 1 {
					t.Fatalf("C18 violated: %d tokens after a tick with limit %d (history %v)", got, l.Limit(), hist)
				}
				tokens = l.Tokens()
			},
			"update": func(t *rapid.T) {
				nl := int32(rapid.IntRange(1, 40).Draw(t, "newlimit"))
				l.UpdateLimit(nl)
				if nl > capacity {
					capacity = nl
				}
				if l.Once() > maxOnce {
					maxOnce = l.Once()
				}
				hist = append(hist, fmt.Sprintf("update(%d)", nl))
			},
			"": func(t *rapid.T) {
				if bound := capacity + ticks*(maxOnce+1); admitted > bound {
					t.Fatalf("C18 violated: %d admitted over the run, bound capacity %d + %d ticks x (refill %d + 1) = %d", admitted, capacity, ticks, maxOnce, bound)
				}
			},
		})
		rec.Case(strings.Join(hist, ","), nt)
		if rec.WantSample() && nt {
			rec.Sample(map[string]interface{}{"limit": limit, "interval": interval.String(), "history": hist})
		}
	})
}

// ---- end to end: the plugin on a real peer ---------------------------------------------

// rejectNext is an accept hook registered BEFORE the overloader: it can reject a
// connection before the overloader has seen it.
type rejectNext struct {
	name   string
	mu     sync.Mutex
	reject bool
}

func (r *rejectNext) Name() string { return r.name }
func (r *rejectNext) PostAccept(erpc.PreSession) *erpc.Status {
	r.mu.Lock()
	defer r.mu.Unlock()
	if r.reject {
		return erpc.NewStatus(403, "rejected by another accept hook", "c18")
	}
	return nil
}

func TestC18Connections(t *testing.T) {
	rec := vt.NewRec(t, "C18", "connections", "serving peer with overloader.New{MaxConn:N}; rapid state machine: connect (expected verdict from the model), connect while another accept hook (before or after the overloader) rejects, close / cut an admitted session, Update the limit; invariant at quiescent points: admitted sessions (= CountSession, each able to complete a call) <= N and a connect is admitted iff the model has a free slot (slots of ended sessions come back exactly once; rejected connections are closed - the remote sees EOF - and change nothing); non-trivial = history has a rejection followed by a later connect; distinct by history")
	protos := vt.StreamProtos()
	rapid.Check(t, func(t *rapid.T) {
		vt.Init()
		newLib()
		limit := int32(rapid.IntRange(1, 4).Draw(t, "limit"))
		ov := overloader.New(overloader.LimitConfig{MaxConn: limit})
		before, after := &rejectNext{name: "c18before"}, &rejectNext{name: "c18after"}
		w := vt.NewWorld()
		defer w.Close()
		srv := w.Peer(erpc.PeerConfig{}, before, ov, after)
		cli := w.Peer(erpc.PeerConfig{})
		route, _ := registerLib(srv)
		proto := rapid.SampledFrom(protos).Draw(t, "proto")
		var live []*vt.Link
		var hist []string
		rejected, nt := false, false
		fail := func(format string, a ...interface{}) {
			t.Fatalf("C18 violated: %s\nhistory: %v", fmt.Sprintf(format, a...), hist)
		}
		t.Repeat(map[string]func(*rapid.T){
			"connect": func(t *rapid.T) {
				if len(live) >= 6 {
					t.Skip("enough")
				}
				other := rapid.SampledFrom([]string{"", "", "", "before", "after"}).Draw(t, "otherhook")
				before.mu.Lock()
				before.reject = other == "before"
				before.mu.Unlock()
				after.mu.Lock()
				after.reject = other == "after"
				after.mu.Unlock()
				if rejected {
					nt = true
				}
				wantAdmit := int32(len(live)) < limit && other == ""
				l := w.Connect(cli, srv, proto, nil)
				before.mu.Lock()
				before.reject = false
				before.mu.Unlock()
				after.mu.Lock()
				after.reject = false
				after.mu.Unlock()
				got := l.B != nil
				hist = append(hist, fmt.Sprintf("connect(other=%s)=%v", other, got))
				if got != wantAdmit {
					fail("connect admitted=%v with %d admitted sessions, limit %d, other hook rejecting=%q", got, len(live), limit, other)
				}
				if got {
					live = append(live, l)
				} else {
					rejected = true
					if l.A != nil && !vt.WaitClosed(l.A.CloseNotify()) {
						fail("%s", vt.Hang("EOF at the remote end of a rejected connection"))
					}
				}
			},
			"end": func(t *rapid.T) {
				if len(live) == 0 {
					t.Skip("none")
				}
				i := rapid.IntRange(0, len(live)-1).Draw(t, "which")
				how := rapid.SampledFrom([]string{"close", "remote", "cut"}).Draw(t, "how")
				l := live[i]
				switch how {
				case "close":
					l.B.Close()
				case "remote":
					l.A.Close()
				default:
					l.Pair.Cut()
				}
				if !vt.WaitClosed(l.B.CloseNotify()) {
					fail("%s", vt.Hang("close notification"))
				}
				live = append(live[:i], live[i+1:]...)
				hist = append(hist, "end("+how+")")
				// the slot is given back by the disconnect hook, which runs after the notification
				time.Sleep(200 * time.Microsecond)
			},
			"update": func(t *rapid.T) {
				limit = int32(rapid.IntRange(1, 5).Draw(t, "newlimit"))
				ov.Update(overloader.LimitConfig{MaxConn: limit})
				hist = append(hist, fmt.Sprintf("update(%d)", limit))
			},
			"": func(t *rapid.T) {
				vt.WaitUntilFor(2*time.Second, func() bool { return srv.CountSession() == len(live) })
				if n := srv.CountSession(); n != len(live) {
					fail("peer lists %d sessions, %d were admitted and are alive", n, len(live))
				}
				for _, l := range live {
					res := new(LibRes)
					cmd := l.A.Call(route, &LibArg{Rid: "x", Act: "ret", Val: "ok"}, res)
					if !cmd.StatusOK() {
						fail("an admitted session cannot complete a call: %v", cmd.Status())
					}
				}
			},
		})
		rec.Case(strings.Join(hist, ","), nt, fmt.Sprintf("limit=%d", limit))
		if rec.WantSample() && nt {
			rec.Sample(map[string]interface{}{"history": hist})
		}
	})
}

func TestC18Rate(t *testing.T) {
	rec := vt.NewRec(t, "C18", "rate-end-to-end", "serving peer with overloader.New{MaxTotalQPS:Q, QPSInterval} and the real ticker, in two cases out of five reached through Update from a configuration with another interval and / or a larger limit; bursts of calls and pushes from 1-3 sessions (three waves 120 ms apart after an Update); oracle (sound: wall clock only loosens it): handler runs == OK replies, every rejected call receives an error reply, admitted <= Q + (floor(elapsed/interval)+1) x (refill+1); non-trivial = a burst larger than Q; distinct by case")
	protos := vt.StreamProtos()
	rapid.Check(t, func(t *rapid.T) {
		vt.Init()
		lib := newLib()
		q := int32(rapid.IntRange(1, 20).Draw(t, "qps"))
		interval := rapid.SampledFrom([]time.Duration{time.Second, 100 * time.Millisecond}).Draw(t, "interval")
		nsess := rapid.IntRange(1, 3).Draw(t, "sessions")
		burst := rapid.IntRange(1, 40).Draw(t, "burst")
		pushes := rapid.IntRange(0, 10).Draw(t, "pushes")
		rec.Case(fmt.Sprintf("%d|%v|%d|%d|%d", q, interval, nsess, burst, pushes), int32(burst+pushes) > q, fmt.Sprintf("interval=%v", interval))
		if rec.WantSample() && int32(burst+pushes) > q {
			rec.Sample(map[string]interface{}{"max_total_qps": q, "interval": interval.String(), "sessions": nsess, "calls": burst, "pushes": pushes})
		}
		// the configuration in force may have been reached through Update from another one
		// (other limit and / or other interval); then the load comes in three waves 120 ms apart
		// so that ticks of a stale period would show
		prior := rapid.SampledFrom([]string{"", "", "interval", "limit", "both"}).Draw(t, "prior")
		cfg0 := overloader.LimitConfig{MaxTotalQPS: q, QPSInterval: interval}
		switch prior {
		case "interval", "both":
			if interval == time.Second {
				cfg0.QPSInterval = 100 * time.Millisecond
			} else {
				cfg0.QPSInterval = time.Second
			}
		}
		if prior == "limit" || prior == "both" {
			cfg0.MaxTotalQPS = q + int32(rapid.IntRange(1, 200).Draw(t, "priorq"))
		}
		ov := overloader.New(cfg0)
		w := vt.NewWorld()
		defer w.Close()
		srv := w.Peer(erpc.PeerConfig{}, ov)
		cli := w.Peer(erpc.PeerConfig{})
		route, pushRoute := registerLib(srv)
		proto := rapid.SampledFrom(protos).Draw(t, "proto")
		var links []*vt.Link
		for i := 0; i < nsess; i++ {
			l := w.Connect(cli, srv, proto, nil)
			if l.A == nil || l.B == nil {
				t.Fatalf("connect failed")
			}
			links = append(links, l)
		}
		waves := 1
		if prior != "" {
			ov.Update(overloader.LimitConfig{MaxTotalQPS: q, QPSInterval: interval})
			// the tokens of the earlier configuration may legitimately be spent until the next
			// tick clamps them: let the old and the new period pass once, then drain
			time.Sleep(cfg0.QPSInterval/10 + 5*time.Millisecond)
			if cfg0.QPSInterval == 100*time.Millisecond || interval == 100*time.Millisecond {
				time.Sleep(110 * time.Millisecond)
			}
			waves = 3
		}
		start := time.Now()
		var okReplies, errReplies int32
		var wg sync.WaitGroup
		for wv := 1; wv < waves; wv++ {
			// earlier waves: same burst, their outcome is added to the totals
			var wwg sync.WaitGroup
			for i := 0; i < burst; i++ {
				wwg.Add(1)
				go func(i int) {
					defer wwg.Done()
					cmd := links[i%nsess].A.Call(route, &LibArg{Rid: fmt.Sprintf("w%dc%d", wv, i), Act: "ret", Val: "v"}, new(LibRes))
					if cmd.StatusOK() {
						atomic.AddInt32(&okReplies, 1)
					} else {
						atomic.AddInt32(&errReplies, 1)
					}
				}(i)
			}
			wwg.Wait()
			time.Sleep(120 * time.Millisecond)
		}
		for i := 0; i < burst; i++ {
			wg.Add(1)
			go func(i int) {
				defer wg.Done()
				cmd := links[i%nsess].A.Call(route, &LibArg{Rid: fmt.Sprintf("c%d", i), Act: "ret", Val: "v"}, new(LibRes))
				if cmd.StatusOK() {
					atomic.AddInt32(&okReplies, 1)
				} else {
					if cmd.Status().Code() != erpc.CodeInternalServerError || !strings.Contains(cmd.Status().Msg(), "qps overload") {
						t.Errorf("C18 violated: a rejected call got %v, want the overload error reply", cmd.Status())
					}
					atomic.AddInt32(&errReplies, 1)
				}
			}(i)
		}
		for i := 0; i < pushes; i++ {
			links[i%nsess].A.Push(pushRoute, &LibArg{Rid: fmt.Sprintf("p%d", i)})
		}
		done := make(chan struct{})
		go func() { wg.Wait(); close(done) }()
		if !vt.WaitClosed(done) {
			t.Fatalf("%s", vt.Hang("completion of the burst"))
		}
		// fence per session so that every push has been read, then a graceful close as barrier
		for _, l := range links {
			l.B.Close()
		}
		elapsed := time.Since(start)
		lib.mu.Lock()
		handled := 0
		for _, n := range lib.calls {
			handled += n
		}
		pushed := len(lib.pushes)
		lib.mu.Unlock()
		if int32(handled) != okReplies {
			t.Fatalf("C18 violated: %d call handlers ran but %d calls got an OK reply", handled, okReplies)
		}
		if okReplies+errReplies != int32(burst*waves) {
			t.Fatalf("C18 violated: %d calls, %d OK + %d error replies", burst*waves, okReplies, errReplies)
		}
		once := q / int32(time.Second/interval)
		if once == 0 {
			once = 1
		}
		bound := int64(q) + (int64(elapsed/interval)+1)*int64(once+1)
		if prior == "limit" || prior == "both" {
			// tokens of the larger earlier limit may be spent until a tick of the new
			// configuration clamps them (when that tick runs is up to the scheduler)
			bound += int64(cfg0.MaxTotalQPS - q)
		}
		if admitted := int64(handled + pushed); admitted > bound {
			t.Fatalf("C18 violated: %d calls+pushes admitted in %v, bound %d (capacity %d, refill %d per %v)", admitted, elapsed, bound, q, once, interval)
		}
	})
}

// TestC18HandlerLimits: per-handler rate limits, also when they were reached through Update -
// with a freshly built configuration or by editing the configuration obtained from
// LimitConfig() in place, which is how a running server adjusts one limit.
func TestC18HandlerLimits(t *testing.T) {
	rec := vt.NewRec(t, "C18", "handler-limits", "serving peer with a per-handler QPS limit Q (interval 100 ms) on one route and none on another, configured directly or reached through Update from another limit (new configuration value, or the value returned by LimitConfig() edited in place); after two intervals a burst of calls and pushes hits both routes; oracle: admitted on the limited route <= Q + (floor(elapsed/interval)+1) x (refill+1), nothing on the other route is rejected, handler runs == OK replies, every rejected call gets the overload error reply; non-trivial = burst larger than Q after an Update; distinct by case")
	protos := vt.StreamProtos()
	rapid.Check(t, func(t *rapid.T) {
		vt.Init()
		lib := newLib()
		q := int32(rapid.IntRange(1, 10).Draw(t, "q"))
		how := rapid.SampledFrom([]string{"direct", "fresh", "inplace", "inplace"}).Draw(t, "how")
		q0 := q + int32(rapid.IntRange(5, 60).Draw(t, "q0delta"))
		if rapid.Bool().Draw(t, "raise") && q > 1 {
			q0 = int32(rapid.IntRange(1, int(q)-1).Draw(t, "q0lower"))
		}
		burst := rapid.IntRange(int(q)+1, int(q)+30).Draw(t, "burst")
		interval := 100 * time.Millisecond
		rec.Case(fmt.Sprintf("%d|%s|%d|%d", q, how, q0, burst), how != "direct", "how="+how)
		if rec.WantSample() && how != "direct" {
			rec.Sample(map[string]interface{}{"limit": q, "reached": how, "earlier_limit": q0, "burst": burst})
		}
		w := vt.NewWorld()
		defer w.Close()
		var ov *overloader.Overloader
		srvPeer := func(cfg overloader.LimitConfig) erpc.Peer {
			ov = overloader.New(cfg)
			return w.Peer(erpc.PeerConfig{}, ov)
		}
		var srv erpc.Peer
		route := "/lib_do"
		switch how {
		case "direct":
			srv = srvPeer(overloader.LimitConfig{QPSInterval: interval, MaxHandlerQPS: []overloader.HandlerLimit{{ServiceMethod: route, MaxQPS: q}}})
		default:
			srv = srvPeer(overloader.LimitConfig{QPSInterval: interval, MaxHandlerQPS: []overloader.HandlerLimit{{ServiceMethod: route, MaxQPS: q0}}})
		}
		callRoute, _ := registerLib(srv)
		if callRoute != route {
			t.Fatalf("harness: route is %q", callRoute)
		}
		other := srv.RouteCallFunc(C12Do) // a second, unlimited route
		cli := w.Peer(erpc.PeerConfig{})
		l := w.Connect(cli, srv, rapid.SampledFrom(protos).Draw(t, "proto"), nil)
		if l.A == nil || l.B == nil {
			t.Fatalf("connect failed")
		}
		switch how {
		case "fresh":
			ov.Update(overloader.LimitConfig{QPSInterval: interval, MaxHandlerQPS: []overloader.HandlerLimit{{ServiceMethod: route, MaxQPS: q}}})
		case "inplace":
			cfg := ov.LimitConfig()
			cfg.MaxHandlerQPS[0].MaxQPS = q
			ov.Update(cfg)
		}
		if got := ov.LimitConfig().MaxHandlerQPS[0].MaxQPS; got != q {
			t.Fatalf("harness: LimitConfig reports handler limit %d, want %d", got, q)
		}
		// two intervals: the tokens of an earlier, larger limit are clamped by then
		time.Sleep(2*interval + 20*time.Millisecond)
		start := time.Now()
		var okLimited, rejLimited, badOther int32
		var wg sync.WaitGroup
		for i := 0; i < burst; i++ {
			wg.Add(2)
			go func(i int) {
				defer wg.Done()
				cmd := l.A.Call(route, &LibArg{Rid: fmt.Sprintf("h%d", i), Act: "ret", Val: "v"}, new(LibRes))
				if cmd.StatusOK() {
					atomic.AddInt32(&okLimited, 1)
				} else {
					if cmd.Status().Code() != erpc.CodeInternalServerError || !strings.Contains(cmd.Status().Msg(), "qps overload") {
						t.Errorf("C18 violated: a rejected call got %v, want the overload error reply", cmd.Status())
					}
					atomic.AddInt32(&rejLimited, 1)
				}
			}(i)
			go func(i int) {
				defer wg.Done()
				if cmd := l.A.Call(other, &LibArg{Rid: fmt.Sprintf("o%d", i), Act: "ret", Val: "v"}, new(LibRes)); !cmd.StatusOK() {
					atomic.AddInt32(&badOther, 1)
				}
			}(i)
		}
		done := make(chan struct{})
		go func() { wg.Wait(); close(done) }()
		if !vt.WaitClosed(done) {
			t.Fatalf("%s", vt.Hang("completion of the burst"))
		}
		elapsed := time.Since(start)
		if badOther != 0 {
			t.Fatalf("C18 violated: %d calls to a route without a limit were rejected", badOther)
		}
		handled := 0
		lib.mu.Lock()
		for rid, n := range lib.calls {
			if strings.HasPrefix(rid, "h") {
				handled += n
			}
		}
		lib.mu.Unlock()
		if int32(handled) != okLimited {
			t.Fatalf("C18 violated: %d handler runs on the limited route but %d OK replies", handled, okLimited)
		}
		once := q / int32(time.Second/interval)
		if once == 0 {
			once = 1
		}
		bound := int64(q) + (int64(elapsed/interval)+1)*int64(once+1)
		if int64(okLimited) > bound {
			t.Fatalf("C18 violated: handler limit %d (reached by %q from %d): %d of %d calls admitted in %v, bound %d", q, how, q0, okLimited, burst, elapsed, bound)
		}
	})
}
