package core

import (
	"bytes"
	"encoding/binary"
	"fmt"
	"strconv"
	"testing"

	erpc "github.com/henrylee2cn/erpc/v6"
	"github.com/henrylee2cn/erpc/v6/socket"
	"pgregory.net/rapid"

	"verifharness/vt"
)

// C12 end to end under a configured message size limit (erpc.SetReadLimit /
// socket.SetMessageSizeLimit). The limit bounds the FRAME - the size a frame announces on the
// reading side, the packed size on the writing side; what a transfer pipe restores from a frame
// that passes is not bounded by it. So a call whose request frame and reply frame are both within
// the limit completes with the exact payload, however large the payload is once the pipe is undone.
//
// Frame sizes are never guessed: every case is first run under the default limit with the wire
// captured (the frames are a deterministic function of the call: fresh session, same sequence
// numbers, deterministic filters), and the announced sizes of the captured frames decide which calls
// the limited run must complete. Calls with a frame above the limit are legitimately refused
// (write error / disconnect) and nothing is demanded of them.

// C12LimEcho returns Repeat(arg[:Cut], Rep) as told by the request metadata.
func C12LimEcho(ctx erpc.CallCtx, a *[]byte) ([]byte, *erpc.Status) {
	in := *a
	if c, err := strconv.Atoi(string(ctx.PeekMeta("Cut"))); err == nil && c >= 0 && c < len(in) {
		in = in[:c]
	}
	rep := 1
	if r, err := strconv.Atoi(string(ctx.PeekMeta("Rep"))); err == nil && r >= 1 {
		rep = r
	}
	return bytes.Repeat(in, rep), nil
}

type c12LimOp struct {
	Pipe    []byte
	PipeCls string
	Payload []byte
	PayCls  string
	Rep     int
	Cut     int // -1: whole
}

func (o c12LimOp) want() []byte {
	in := o.Payload
	if o.Cut >= 0 && o.Cut < len(in) {
		in = in[:o.Cut]
	}
	return bytes.Repeat(in, o.Rep)
}

type c12LimLink struct {
	Ops []c12LimOp
}

// c12LimRes is what one call did in one run.
type c12LimRes struct {
	ran      bool
	status   *erpc.Status
	got      []byte
	reqSizes []uint32 // announced sizes of the frames the caller wrote for this call
	repSizes []uint32 // announced sizes of the frames the callee wrote for this call
}

func c12LimNoiseBytes(seed uint32, n int, alphabet []byte) []byte {
	b := make([]byte, n)
	x := seed | 1
	for i := range b {
		x ^= x << 13
		x ^= x >> 17
		x ^= x << 5
		if alphabet != nil {
			b[i] = alphabet[int(x>>8)%len(alphabet)]
		} else {
			b[i] = byte(x >> 8)
		}
	}
	return b
}

func c12LimGenPipe(t *rapid.T) ([]byte, string) {
	switch rapid.IntRange(0, 9).Draw(t, "pipeclass") {
	case 0:
		return nil, "pipe=none"
	case 1, 2, 3, 4:
		return []byte{rapid.SampledFrom(vt.GzipIDs).Draw(t, "g")}, "pipe=gzip"
	case 5:
		return rapid.SliceOfN(rapid.SampledFrom(vt.GzipIDs), 2, 3).Draw(t, "gg"), "pipe=gzip-repeated"
	case 6:
		return []byte{vt.XMd5, rapid.SampledFrom(vt.GzipIDs).Draw(t, "g")}, "pipe=md5,gzip"
	case 7:
		return []byte{rapid.SampledFrom(vt.GzipIDs).Draw(t, "g"), vt.XMd5}, "pipe=gzip,md5"
	case 8:
		return []byte{vt.XMd5}, "pipe=md5"
	default:
		return rapid.SliceOfN(rapid.SampledFrom(vt.RegisteredXfer), 1, 4).Draw(t, "mix"), "pipe=mixed"
	}
}

func c12LimGenPayload(t *rapid.T, limit int) ([]byte, string) {
	rng := func(lo, hi int) int {
		if lo < 0 {
			lo = 0
		}
		if hi < lo {
			hi = lo
		}
		return rapid.IntRange(lo, hi).Draw(t, "n")
	}
	pattern := func(n int) []byte {
		unit := rapid.SliceOfN(rapid.Byte(), 1, 40).Draw(t, "unit")
		return bytes.Repeat(unit, n/len(unit)+1)[:n]
	}
	switch rapid.IntRange(0, 9).Draw(t, "payclass") {
	case 0:
		return vt.Bytes(t, "tiny", 64), "payload=tiny"
	case 1:
		return pattern(rng(1, limit-300)), "payload=repetitive,below-limit"
	case 2, 3:
		return pattern(rng(limit-200, limit+200)), "payload=repetitive,around-limit"
	case 4, 5, 6:
		return pattern(rng(limit+1, 5*limit)), "payload=repetitive,above-limit"
	case 7:
		k := rapid.IntRange(2, 6).Draw(t, "alpha")
		return c12LimNoiseBytes(rapid.Uint32().Draw(t, "seed"), rng(limit+1, 3*limit), []byte("abcdef")[:k]), "payload=low-entropy,above-limit"
	case 8:
		return c12LimNoiseBytes(rapid.Uint32().Draw(t, "seed"), rng(limit-400, limit+64), nil), "payload=incompressible,around-limit"
	default:
		return c12LimNoiseBytes(rapid.Uint32().Draw(t, "seed"), rng(1, limit/2), nil), "payload=incompressible,below-limit"
	}
}

// c12LimSplit walks a captured byte stream of a size-prefixed protocol and returns the sizes
// its frames announce (raw: the prefix counts itself; json / protobuf: it does not).
func c12LimSplit(proto string, stream []byte) ([]uint32, bool) {
	var out []uint32
	for len(stream) > 0 {
		if len(stream) < 4 {
			return out, false
		}
		size := binary.BigEndian.Uint32(stream)
		n := uint64(size)
		if proto != "raw" {
			n += 4
		}
		if n < 4 || n > uint64(len(stream)) {
			return out, false
		}
		out = append(out, size)
		stream = stream[n:]
	}
	return out, true
}

// c12LimRun executes the links of a case under the given limit. demand(li, oi) says whether
// the op is run: a call with a frame above the limit, and what follows it on its session, is left
// out (refusal is legitimate and not this check's subject; the json / protobuf protocols panic in
// Pack on an over-limit frame, which leaves a call that never completes).
func c12LimRun(t *rapid.T, proto vt.NamedProto, limit uint32, links []c12LimLink, demand func(li, oi int) bool) [][]c12LimRes {
	socket.SetMessageSizeLimit(limit)
	w := vt.NewWorld()
	defer func() {
		if h := w.Close(); h != "" {
			t.Fatalf("%s", h)
		}
	}()
	srv := w.Peer(erpc.PeerConfig{})
	cli := w.Peer(erpc.PeerConfig{})
	route := srv.RouteCallFunc(C12LimEcho)
	res := make([][]c12LimRes, len(links))
	for li, lk := range links {
		res[li] = make([]c12LimRes, len(lk.Ops))
		l := w.Connect(cli, srv, proto, func(p *vt.Pair) {
			p.SetCapture(vt.AtoB, true)
			p.SetCapture(vt.BtoA, true)
		})
		if l.A == nil || l.B == nil {
			t.Fatalf("harness: connect failed: %v / %v", l.AStat, l.BStat)
		}
		reqSeen, repSeen := 0, 0
		for oi, o := range lk.Ops {
			if !demand(li, oi) {
				break
			}
			settings := []erpc.MessageSetting{erpc.WithBodyCodec('s'), erpc.WithAddMeta("Rep", strconv.Itoa(o.Rep)), erpc.WithAddMeta("Cut", strconv.Itoa(o.Cut))}
			if len(o.Pipe) > 0 {
				settings = append(settings, erpc.WithXferPipe(o.Pipe...))
			}
			arg := append([]byte(nil), o.Payload...)
			out := new([]byte)
			cmd := l.A.AsyncCall(route, &arg, out, make(chan erpc.CallCmd, 1), settings...)
			if cmd == nil {
				t.Fatalf("C12 violated: %s, message size limit %d: AsyncCall with pipe %q and a payload of %d bytes, whose frames fit the limit, returned no command", proto.Name, limit, o.Pipe, len(o.Payload))
			}
			if !vt.WaitClosed(cmd.Done()) {
				t.Fatalf("%s", vt.Hang(fmt.Sprintf("completion of a call (%s, limit %d, pipe %q, %d payload bytes)", proto.Name, limit, o.Pipe, len(o.Payload))))
			}
			r := c12LimRes{ran: true, status: cmd.Status(), got: *out}
			if req, ok := c12LimSplit(proto.Name, l.Pair.Stream(vt.AtoB)); ok && len(req) >= reqSeen {
				r.reqSizes = req[reqSeen:]
				reqSeen = len(req)
			} else {
				t.Fatalf("harness: the captured request stream does not split into frames")
			}
			if rep, ok := c12LimSplit(proto.Name, l.Pair.Stream(vt.BtoA)); ok && len(rep) >= repSeen {
				r.repSizes = rep[repSeen:]
				repSeen = len(rep)
			} else {
				t.Fatalf("harness: the captured reply stream does not split into frames")
			}
			res[li][oi] = r
		}
		if !vt.Returns(func() { l.A.Close() }) {
			t.Fatalf("%s", vt.Hang("Close of the calling session"))
		}
	}
	return res
}

func TestC12LimitedCalls(t *testing.T) {
	rec := vt.NewRec(t, "C12", "limited-calls", "configured message size limit x inflating pipe, end to end: process-wide limit {absolute: 2 KiB..64 KiB generated; relative: the larger frame of the first call + {0,1,9}} x protocol raw / json / protobuf x 1-3 fresh sessions, each with one call (caller-chosen pipe from {none, gzip, gzip repeated, md5+gzip, gzip+md5, md5, mixed}; payload placed relative to the limit: tiny, repetitive below / around / above (up to 5x), low entropy above, incompressible around / below; the handler echoes it, repeats it 2-4x or cuts it, so request and reply differ in restored size) and an optional small follow-up call on the same session; the case is first run under the default limit with both directions captured, which yields the announced size of every request and reply frame (frames are deterministic: fresh session, same sequence numbers); oracle: under the limit every call whose own and whose predecessors' request and reply frames are all <= the limit completes OK with exactly the expected bytes (calls with a frame above the limit are legitimately refused: they and the later calls of their session are left out of the limited run); non-trivial = a demanded call through a pipe containing gzip whose request or reply payload is larger than the limit; distinct by case")
	protos := vt.StreamProtos()
	rapid.Check(t, func(t *rapid.T) {
		vt.Init()
		defer socket.SetMessageSizeLimit(0)
		proto := rapid.SampledFrom(protos).Draw(t, "proto")
		nominal := 0
		if rapid.Bool().Draw(t, "pow2") {
			nominal = 1 << uint(rapid.IntRange(11, 16).Draw(t, "exp"))
		} else {
			nominal = rapid.IntRange(2<<10, 1<<uint(rapid.IntRange(12, 16).Draw(t, "maxexp"))).Draw(t, "limit")
		}
		mode := rapid.SampledFrom([]string{"absolute", "absolute", "relative"}).Draw(t, "mode")
		delta := 0
		if mode == "relative" {
			delta = rapid.SampledFrom([]int{0, 0, 1, 9}).Draw(t, "delta")
		}
		nlinks := rapid.SampledFrom([]int{1, 1, 2, 3}).Draw(t, "sessions")
		links := make([]c12LimLink, nlinks)
		canon := fmt.Sprintf("%s|%d|%s|%d", proto.Name, nominal, mode, delta)
		classes := []string{"proto=" + proto.Name, "mode=" + mode}
		for li := range links {
			var o c12LimOp
			o.Pipe, o.PipeCls = c12LimGenPipe(t)
			o.Payload, o.PayCls = c12LimGenPayload(t, nominal)
			o.Rep = rapid.SampledFrom([]int{1, 1, 1, 2, 4}).Draw(t, "rep")
			o.Cut = rapid.SampledFrom([]int{-1, -1, -1, 40}).Draw(t, "cut")
			links[li].Ops = []c12LimOp{o}
			classes = append(classes, o.PipeCls, o.PayCls)
			if rapid.Bool().Draw(t, "followup") {
				var f c12LimOp
				f.Pipe, f.PipeCls = c12LimGenPipe(t)
				f.Payload, f.PayCls = vt.Bytes(t, "fpay", 300), "payload=followup"
				f.Rep, f.Cut = 1, -1
				links[li].Ops = append(links[li].Ops, f)
			}
			for _, o := range links[li].Ops {
				canon += fmt.Sprintf("|%d:%x:%x:%d:%d", li, o.Pipe, o.Payload, o.Rep, o.Cut)
			}
		}

		// run 1: default limit; yields the frame sizes
		base := c12LimRun(t, proto, 0, links, func(int, int) bool { return true })
		type sz struct{ req, rep uint32 }
		sizes := make([][]sz, nlinks)
		for li, lk := range links {
			sizes[li] = make([]sz, len(lk.Ops))
			for oi, o := range lk.Ops {
				r := base[li][oi]
				tag := fmt.Sprintf("%s, default limit: call %d.%d (pipe %q, payload of %d bytes, rep %d, cut %d)", proto.Name, li, oi, o.Pipe, len(o.Payload), o.Rep, o.Cut)
				if !r.status.OK() {
					t.Fatalf("C12 violated: %s failed: %v", tag, r.status)
				}
				if !bytes.Equal(r.got, o.want()) {
					t.Fatalf("C12 violated: %s returned %d bytes that are not the expected %d bytes", tag, len(r.got), len(o.want()))
				}
				if len(r.reqSizes) != 1 || len(r.repSizes) != 1 {
					t.Fatalf("harness: %s: %d request frames and %d reply frames on the wire", tag, len(r.reqSizes), len(r.repSizes))
				}
				sizes[li][oi] = sz{r.reqSizes[0], r.repSizes[0]}
			}
		}
		limit := uint32(nominal)
		if mode == "relative" {
			limit = sizes[0][0].req
			if sizes[0][0].rep > limit {
				limit = sizes[0][0].rep
			}
			limit += uint32(delta)
		}
		fits := func(li, oi int) bool {
			for k := 0; k <= oi; k++ {
				if sizes[li][k].req > limit || sizes[li][k].rep > limit {
					return false
				}
			}
			return true
		}
		// run 2: the same calls under the limit
		nt := false
		lim := c12LimRun(t, proto, limit, links, fits)
		socket.SetMessageSizeLimit(0)
		for li, lk := range links {
			for oi, o := range lk.Ops {
				r := lim[li][oi]
				if !r.ran {
					if fits(li, oi) {
						t.Fatalf("harness: a demanded call was not run")
					}
					rec.Class("frame>limit(left out)", 1)
					continue
				}
				want := o.want()
				big := uint32(len(o.Payload)) > limit || uint32(len(want)) > limit
				inflating := false
				for _, id := range o.Pipe {
					if id != vt.XMd5 {
						inflating = true
					}
				}
				if big && inflating {
					nt = true
					rec.Class("fits,restored>limit", 1)
				} else {
					rec.Class("fits", 1)
				}
				tag := fmt.Sprintf("%s, message size limit %d: call %d.%d (pipe %q, request payload of %d bytes in a frame of size %d, reply payload of %d bytes in a frame of size %d - sizes as captured under the default limit)", proto.Name, limit, li, oi, o.Pipe, len(o.Payload), sizes[li][oi].req, len(want), sizes[li][oi].rep)
				if !r.status.OK() {
					t.Fatalf("C12 violated: %s failed: %v", tag, r.status)
				}
				if !bytes.Equal(r.got, want) {
					t.Fatalf("C12 violated: %s returned %d bytes that are not the expected payload", tag, len(r.got))
				}
				if len(r.reqSizes) != 1 || len(r.repSizes) != 1 || r.reqSizes[0] != sizes[li][oi].req || r.repSizes[0] != sizes[li][oi].rep {
					t.Fatalf("harness: %s: frames under the limit (%v / %v) differ from the captured ones", tag, r.reqSizes, r.repSizes)
				}
			}
		}
		rec.Case(canon, nt, classes...)
		if rec.WantSample() && nt {
			o := links[0].Ops[0]
			rec.Sample(map[string]interface{}{"proto": proto.Name, "limit": limit, "mode": mode, "sessions": nlinks, "first_call": map[string]interface{}{"pipe": string(o.Pipe), "payload_len": len(o.Payload), "rep": o.Rep, "cut": o.Cut, "req_frame": sizes[0][0].req, "reply_frame": sizes[0][0].rep}})
		}
	})
}
