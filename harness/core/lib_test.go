package core

import (
	"errors"
	"fmt"
	"strconv"
	"strings"
	"sync"
	"sync/atomic"

	erpc "github.com/henrylee2cn/erpc/v6"
)

// ---- behaviour library: one CALL and one PUSH handler steered by the request ----

// LibArg is the argument of the library handlers.
type LibArg struct {
	Rid   string // request id (unique per frame)
	Act   string // ret | err | err-bycodetext | panic-s | panic-e | panic-st | slow | badreply | bigreply
	Val   string
	Code  int32
	Msg   string
	Cause string
	HasC  bool
}

// LibRes is the result of the library CALL handler.
type LibRes struct {
	Rid string
	Val string
}

// libState is the per-case recorder reached by the top-level handlers.
type libState struct {
	mu      sync.Mutex
	calls   map[string]int // handler invocations by rid
	pushes  map[string]int
	entered map[string]chan struct{} // closed when the slow handler for rid was entered
	gates   map[string]chan struct{} // slow handlers wait here
	log     []string
	clock   int64
	running int32
}

var lib atomic.Value // *libState

func newLib() *libState {
	s := &libState{calls: map[string]int{}, pushes: map[string]int{}, entered: map[string]chan struct{}{}, gates: map[string]chan struct{}{}}
	lib.Store(s)
	return s
}

func curLib() *libState { return lib.Load().(*libState) }

// libs maps a peer to the recorder of the case that created it, so that a
// handler still running for a peer of an earlier case cannot write into the
// current case's recorder.
var libs sync.Map

func libFor(p erpc.Peer) *libState {
	if v, ok := libs.Load(p); ok {
		return v.(*libState)
	}
	return &libState{calls: map[string]int{}, pushes: map[string]int{}, entered: map[string]chan struct{}{}, gates: map[string]chan struct{}{}}
}

func (s *libState) tick(ev string) int64 {
	s.mu.Lock()
	defer s.mu.Unlock()
	s.clock++
	if len(s.log) < 2000 {
		s.log = append(s.log, fmt.Sprintf("%d %s", s.clock, ev))
	}
	return s.clock
}

// Gate prepares a gate for the slow handler of rid and returns (entered, release).
func (s *libState) Gate(rid string) (entered <-chan struct{}, release func()) {
	s.mu.Lock()
	defer s.mu.Unlock()
	e, g := make(chan struct{}), make(chan struct{})
	s.entered[rid], s.gates[rid] = e, g
	var once sync.Once
	return e, func() { once.Do(func() { close(g) }) }
}

func (s *libState) Calls(rid string) int {
	s.mu.Lock()
	defer s.mu.Unlock()
	return s.calls[rid]
}

func (s *libState) Pushes(rid string) int {
	s.mu.Lock()
	defer s.mu.Unlock()
	return s.pushes[rid]
}

func (s *libState) TotalCalls() int {
	s.mu.Lock()
	defer s.mu.Unlock()
	n := 0
	for _, c := range s.calls {
		n += c
	}
	return n
}

func mkStatus(a *LibArg) *erpc.Status {
	if a.HasC {
		return erpc.NewStatus(a.Code, a.Msg, a.Cause)
	}
	return erpc.NewStatus(a.Code, a.Msg)
}

// LibDo is the library CALL handler.
func LibDo(ctx erpc.CallCtx, a *LibArg) (interface{}, *erpc.Status) {
	s := libFor(ctx.Peer())
	if a.Rid == "" {
		a.Rid = string(ctx.PeekMeta("Rid"))
	}
	s.mu.Lock()
	s.calls[a.Rid]++
	e, g := s.entered[a.Rid], s.gates[a.Rid]
	s.mu.Unlock()
	atomic.AddInt32(&s.running, 1)
	defer atomic.AddInt32(&s.running, -1)
	s.tick("enter " + a.Rid)
	defer s.tick("exit " + a.Rid)
	switch a.Act {
	case "err":
		return nil, mkStatus(a)
	case "panic-s":
		panic("boom " + a.Val)
	case "panic-e":
		panic(errors.New("boom " + a.Val))
	case "panic-st":
		panic(mkStatus(a))
	case "panic-st-ok":
		panic(erpc.NewStatus(erpc.CodeOK, a.Msg, a.Cause))
	case "slow":
		if e != nil {
			close(e)
			<-g
		}
		return &LibRes{Rid: a.Rid, Val: a.Val}, nil
	case "badreply":
		return make(chan int), nil
	case "err-bycodetext":
		// a handler that builds its status from a framework code with the public constructor
		// and finishes it in place: the status it gets is its own
		st := erpc.NewStatusByCodeText(a.Code, nil, false)
		st.SetCause("detail from the handler: " + a.Val)
		if a.Msg != "" {
			st.SetMsg(a.Msg)
		}
		return nil, st
	case "ret-okstatus":
		// a handler may hand back an explicit status object that says OK
		return &LibRes{Rid: a.Rid, Val: a.Val}, erpc.NewStatus(erpc.CodeOK, "", nil)
	case "bigreply":
		// larger than the message size limit the case configured (64 KiB)
		return &LibRes{Rid: a.Rid, Val: strings.Repeat("B", 70000)}, nil
	}
	return &LibRes{Rid: a.Rid, Val: a.Val}, nil
}

// LibNote is the library PUSH handler.
func LibNote(ctx erpc.PushCtx, a *LibArg) *erpc.Status {
	s := libFor(ctx.Peer())
	if a.Rid == "" {
		a.Rid = string(ctx.PeekMeta("Rid"))
	}
	s.mu.Lock()
	s.pushes[a.Rid]++
	s.mu.Unlock()
	s.tick("push " + a.Rid)
	if a.Act == "panic-s" {
		panic("boom push")
	}
	if a.Act == "err" {
		return mkStatus(a)
	}
	return nil
}

// vetoPlugin vetoes a message at the stage named by its "Veto" metadata with
// the status code given by "Vcode"; it also counts the stages it saw per rid.
type vetoPlugin struct{ name string }

func (v *vetoPlugin) Name() string { return v.name }

type metaReader interface {
	PeekMeta(key string) []byte
}

func (v *vetoPlugin) verdict(stage string, ctx erpc.ReadCtx) *erpc.Status {
	if string(ctx.PeekMeta("Ppanic")) == stage {
		panic("plugin " + v.name + " panics at " + stage)
	}
	if string(ctx.PeekMeta("Veto")) != stage {
		return nil
	}
	code, _ := strconv.Atoi(string(ctx.PeekMeta("Vcode")))
	if code == 0 {
		code = 777
	}
	return erpc.NewStatus(int32(code), "veto at "+stage, "plugin "+v.name)
}

func (v *vetoPlugin) PostReadCallHeader(ctx erpc.ReadCtx) *erpc.Status {
	return v.verdict("PostReadCallHeader", ctx)
}
func (v *vetoPlugin) PreReadCallBody(ctx erpc.ReadCtx) *erpc.Status {
	return v.verdict("PreReadCallBody", ctx)
}
func (v *vetoPlugin) PostReadCallBody(ctx erpc.ReadCtx) *erpc.Status {
	return v.verdict("PostReadCallBody", ctx)
}
func (v *vetoPlugin) PostReadPushHeader(ctx erpc.ReadCtx) *erpc.Status {
	return v.verdict("PostReadPushHeader", ctx)
}
func (v *vetoPlugin) PreReadPushBody(ctx erpc.ReadCtx) *erpc.Status {
	return v.verdict("PreReadPushBody", ctx)
}
func (v *vetoPlugin) PostReadPushBody(ctx erpc.ReadCtx) *erpc.Status {
	return v.verdict("PostReadPushBody", ctx)
}

// write-side stages: a veto there is ignored by the framework, a panic must not
// change how often the call is answered
func (v *vetoPlugin) PreWriteReply(ctx erpc.WriteCtx) *erpc.Status {
	if rc, ok := ctx.(erpc.ReadCtx); ok && string(rc.PeekMeta("Ppanic")) == "PreWriteReply" {
		panic("plugin " + v.name + " panics at PreWriteReply")
	}
	return nil
}
func (v *vetoPlugin) PostWriteReply(ctx erpc.WriteCtx) *erpc.Status {
	if rc, ok := ctx.(erpc.ReadCtx); ok && string(rc.PeekMeta("Ppanic")) == "PostWriteReply" {
		panic("plugin " + v.name + " panics at PostWriteReply")
	}
	return nil
}

var (
	_ erpc.PostReadCallHeaderPlugin = (*vetoPlugin)(nil)
	_ erpc.PreReadCallBodyPlugin    = (*vetoPlugin)(nil)
	_ erpc.PostReadCallBodyPlugin   = (*vetoPlugin)(nil)
	_ erpc.PostReadPushHeaderPlugin = (*vetoPlugin)(nil)
	_ erpc.PreReadPushBodyPlugin    = (*vetoPlugin)(nil)
	_ erpc.PostReadPushBodyPlugin   = (*vetoPlugin)(nil)
)

// registerLib registers the library handlers and returns their route names.
var libPeers struct {
	sync.Mutex
	order []erpc.Peer
}

func registerLib(p erpc.Peer) (callRoute, pushRoute string) {
	libs.Store(p, curLib())
	libPeers.Lock()
	libPeers.order = append(libPeers.order, p)
	for len(libPeers.order) > 64 {
		libs.Delete(libPeers.order[0])
		libPeers.order = libPeers.order[1:]
	}
	libPeers.Unlock()
	return p.RouteCallFunc(LibDo), p.RoutePushFunc(LibNote)
}
