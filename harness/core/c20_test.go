package core

import (
	"context"
	"fmt"
	"runtime"
	"runtime/debug"
	"strings"
	"sync"
	"testing"
	"time"

	erpc "github.com/henrylee2cn/erpc/v6"
	"pgregory.net/rapid"

	"verifharness/vt"
)

// C20Dirty is a handler that leaves as many traces as a handler can.
type c20DirtySpec struct {
	Meta     int
	Codec    byte
	Pipe     []byte
	Swap     int
	Err      bool
	BodyLen  int
	ReqMeta  int
	ReqPipe  []byte
	Kind     string // call | push | clientpush (a Push launched by the server side)
	OtherSes bool
	Ctx      string // "" | value | deadline: the context.Context the caller attaches to the request
	AgedSes  bool   // the request travels on a session whose serving end has a context age (handler contexts get a deadline)
}

type c20CtxKey struct{}

func c20Context(kind string) (context.Context, context.CancelFunc) {
	switch kind {
	case "value":
		return context.WithValue(context.Background(), c20CtxKey{}, "left behind"), func() {}
	case "deadline":
		ctx, cancel := context.WithTimeout(context.Background(), time.Hour)
		return context.WithValue(ctx, c20CtxKey{}, "left behind"), cancel
	}
	return nil, func() {}
}

type C20Arg struct {
	S      string
	Meta   int
	Codec  int
	Pipe   []byte
	Swap   int
	Err    bool
	BodyLn int
}

type c20Seen struct {
	SwapLen      int
	InMeta       []string
	OutMeta      int
	OutCodec     byte
	OutPipe      int
	OutStatusOK  bool
	OutSize      uint32
	OutSeq       int32
	OutMtype     byte
	OutBodyNil   bool
	OutMethod    string
	StatusOK     bool
	SessSwapOnly bool
	CtxValue     interface{}
	CtxErr       error
	CtxDeadline  bool
}

var c20 struct {
	sync.Mutex
	seen []c20Seen
}

func C20Dirty(ctx erpc.CallCtx, a *C20Arg) (*C20Arg, *erpc.Status) {
	for i := 0; i < a.Meta; i++ {
		ctx.AddMeta(fmt.Sprintf("Dirty-%d", i), strings.Repeat("d", 10*(i+1)))
	}
	if a.Codec != 0 {
		ctx.SetBodyCodec(byte(a.Codec))
	}
	if len(a.Pipe) > 0 {
		ctx.AddXferPipe(a.Pipe...)
	}
	for i := 0; i < a.Swap; i++ {
		ctx.Swap().Store(fmt.Sprintf("dirty%d", i), i)
	}
	if a.Err {
		return nil, erpc.NewStatus(4300, "dirty failure", "left behind")
	}
	return &C20Arg{S: strings.Repeat("B", a.BodyLn)}, nil
}

func C20DirtyPush(ctx erpc.PushCtx, a *C20Arg) *erpc.Status {
	for i := 0; i < a.Swap; i++ {
		ctx.Swap().Store(fmt.Sprintf("dirty%d", i), i)
	}
	if a.Err {
		return erpc.NewStatus(4301, "dirty push failure", "left behind")
	}
	return nil
}

// C20Probe records everything a handler can observe about its context.
func C20Probe(ctx erpc.CallCtx, a *C20Arg) (*C20Arg, *erpc.Status) {
	s := c20Seen{SwapLen: ctx.Swap().Len(), StatusOK: true}
	ctx.VisitMeta(func(k, v []byte) { s.InMeta = append(s.InMeta, string(k)+"="+string(v)) })
	out := ctx.Output()
	s.OutMeta = out.Meta().Len()
	s.OutCodec = out.BodyCodec()
	s.OutPipe = out.XferPipe().Len()
	s.OutStatusOK = out.StatusOK()
	s.OutSize = out.Size()
	s.OutSeq = out.Seq()
	s.OutMtype = out.Mtype()
	s.OutBodyNil = out.Body() == nil
	s.OutMethod = out.ServiceMethod()
	if rc, ok := ctx.(erpc.ReadCtx); ok {
		s.StatusOK = rc.StatusOK()
	}
	if cc := ctx.Context(); cc != nil {
		s.CtxValue = cc.Value(c20CtxKey{})
		s.CtxErr = cc.Err()
		_, s.CtxDeadline = cc.Deadline()
	}
	c20.Lock()
	c20.seen = append(c20.seen, s)
	c20.Unlock()
	return &C20Arg{S: "probe:" + a.S}, nil
}

func genC20Dirty(t *rapid.T) c20DirtySpec {
	d := c20DirtySpec{
		Meta:     rapid.IntRange(0, 3).Draw(t, "meta"),
		Codec:    rapid.SampledFrom([]byte{0, 'j', 'x', 'f'}).Draw(t, "codec"),
		Swap:     rapid.IntRange(0, 3).Draw(t, "swap"),
		Err:      rapid.Bool().Draw(t, "err"),
		BodyLen:  rapid.SampledFrom([]int{0, 10, 5000}).Draw(t, "bodylen"),
		ReqMeta:  rapid.IntRange(0, 3).Draw(t, "reqmeta"),
		Kind:     rapid.SampledFrom([]string{"call", "call", "push", "clientpush"}).Draw(t, "kind"),
		OtherSes: rapid.Bool().Draw(t, "otherses"),
		Ctx:      rapid.SampledFrom([]string{"", "value", "deadline"}).Draw(t, "ctx"),
		AgedSes:  rapid.IntRange(0, 3).Draw(t, "agedses") == 0,
	}
	if rapid.Bool().Draw(t, "haspipe") {
		d.Pipe = rapid.SliceOfN(rapid.SampledFrom(vt.RegisteredXfer), 1, 2).Draw(t, "pipe")
	}
	if rapid.Bool().Draw(t, "hasreqpipe") {
		d.ReqPipe = rapid.SliceOfN(rapid.SampledFrom(vt.RegisteredXfer), 1, 2).Draw(t, "reqpipe")
	}
	return d
}

func (d c20DirtySpec) kinds() int {
	n := 0
	for _, b := range []bool{d.Meta > 0, d.Codec != 0, len(d.Pipe) > 0, d.Swap > 0, d.Err, d.BodyLen > 0, d.ReqMeta > 0, len(d.ReqPipe) > 0, d.Ctx != "", d.AgedSes} {
		if b {
			n++
		}
	}
	return n
}

func TestC20Context(t *testing.T) {
	rec := vt.NewRec(t, "C20", "context", "black box: 1-4 'dirty' requests (handler adds reply metadata, sets reply codec and pipe, stores context swap entries, fails with a status or returns a large body; request carries metadata, a pipe and optionally a context.Context with a value / deadline, optionally on a session with a context age; half the cases run on a single P so that pooled objects are reused at once; calls, pushes and pushes launched by the serving side) are followed by a plain probe request on the same or another session; oracle: the probe handler sees an empty context swap, the default ctx.Context() (no value, no deadline, no error), only its own request metadata, a default output message (no metadata, nil codec, empty pipe, OK status, size 0) and the captured reply frame to the probe carries no metadata/pipe/status/codec of the dirty requests and exactly the probe's body; non-trivial = the dirty requests set >=3 distinct kinds of state; distinct by the dirty specs")
	old := debug.SetGCPercent(-1)
	defer debug.SetGCPercent(old)
	protos := vt.StreamProtos()
	rapid.Check(t, func(t *rapid.T) {
		vt.Init()
		proto := rapid.SampledFrom(protos).Draw(t, "proto")
		nd := rapid.IntRange(1, 4).Draw(t, "ndirty")
		dirty := make([]c20DirtySpec, nd)
		kinds := 0
		for i := range dirty {
			dirty[i] = genC20Dirty(t)
			if k := dirty[i].kinds(); k > kinds {
				kinds = k
			}
		}
		probeMeta := rapid.IntRange(0, 2).Draw(t, "probemeta")
		// pooled objects are cached per P: with a single P the object released last is the
		// one handed out next, which makes reuse by the probe the rule rather than luck
		if rapid.Bool().Draw(t, "singleP") {
			defer runtime.GOMAXPROCS(runtime.GOMAXPROCS(1))
		}
		fenceCtx := rapid.SampledFrom([]string{"", "value", "deadline"}).Draw(t, "fencectx")
		rec.Case(fmt.Sprintf("%s|%+v|%d", proto.Name, dirty, probeMeta), kinds >= 3, "proto="+proto.Name)
		if rec.WantSample() && kinds >= 3 {
			rec.Sample(map[string]interface{}{"proto": proto.Name, "dirty": dirty, "probe_meta_pairs": probeMeta})
		}
		c20.Lock()
		c20.seen = nil
		c20.Unlock()
		w := vt.NewWorld()
		defer w.Close()
		srv := w.Peer(erpc.PeerConfig{})
		cli := w.Peer(erpc.PeerConfig{})
		dirtyRoute := srv.RouteCallFunc(C20Dirty)
		dirtyPush := srv.RoutePushFunc(C20DirtyPush)
		probeRoute := srv.RouteCallFunc(C20Probe)
		cliPush := cli.RoutePushFunc(C20DirtyPush)
		l1 := w.Connect(cli, srv, proto, func(p *vt.Pair) { p.SetCapture(vt.BtoA, true) })
		l2 := w.Connect(cli, srv, proto, func(p *vt.Pair) { p.SetCapture(vt.BtoA, true) })
		// a serving peer whose sessions have a context age: its handler contexts get a deadline
		srvAged := w.Peer(erpc.PeerConfig{DefaultContextAge: time.Hour})
		srvAged.RouteCallFunc(C20Dirty)
		srvAged.RoutePushFunc(C20DirtyPush)
		srvAged.RouteCallFunc(C20Probe)
		l3 := w.Connect(cli, srvAged, proto, nil)
		if l1.A == nil || l2.A == nil || l1.B == nil || l2.B == nil || l3.A == nil || l3.B == nil {
			t.Fatalf("connect failed")
		}
		for _, d := range dirty {
			l := l1
			if d.OtherSes {
				l = l2
			}
			if d.AgedSes {
				l = l3
			}
			var settings []erpc.MessageSetting
			if cc, cancel := c20Context(d.Ctx); cc != nil {
				defer cancel()
				settings = append(settings, erpc.WithContext(cc))
			}
			for i := 0; i < d.ReqMeta; i++ {
				settings = append(settings, erpc.WithAddMeta(fmt.Sprintf("Req-Dirty-%d", i), "rq"))
			}
			if len(d.ReqPipe) > 0 {
				settings = append(settings, erpc.WithXferPipe(d.ReqPipe...))
			}
			arg := &C20Arg{S: "dirty", Meta: d.Meta, Codec: int(d.Codec), Pipe: d.Pipe, Swap: d.Swap, Err: d.Err, BodyLn: d.BodyLen}
			switch d.Kind {
			case "call":
				cmd := l.A.Call(dirtyRoute, arg, new(C20Arg), settings...)
				_ = cmd
			case "push":
				l.A.Push(dirtyPush, arg, settings...)
			default:
				l.B.Push(cliPush, arg, settings...)
			}
		}
		// let asynchronous push handling finish: a call on each session is read after them
		var fenceSettings []erpc.MessageSetting
		if cc, cancel := c20Context(fenceCtx); cc != nil {
			defer cancel()
			fenceSettings = append(fenceSettings, erpc.WithContext(cc))
		}
		l3.A.Call(probeRoute+"-fence", nil, nil, fenceSettings...)
		l2.A.Call(probeRoute+"-fence", nil, nil, fenceSettings...)
		l1.A.Call(probeRoute+"-fence", nil, nil, fenceSettings...)
		// the probe
		var settings []erpc.MessageSetting
		var wantMeta []string
		for i := 0; i < probeMeta; i++ {
			settings = append(settings, erpc.WithAddMeta(fmt.Sprintf("Probe-%d", i), "p"))
			wantMeta = append(wantMeta, fmt.Sprintf("Probe-%d=p", i))
		}
		c20.Lock()
		c20.seen = nil
		c20.Unlock()
		before := len(l1.Pair.Writes(vt.BtoA))
		res := new(C20Arg)
		cmd := l1.A.Call(probeRoute, &C20Arg{S: "hello"}, res, settings...)
		if !cmd.StatusOK() {
			t.Fatalf("probe call failed: %v", cmd.Status())
		}
		if res.S != "probe:hello" {
			t.Fatalf("probe result %q", res.S)
		}
		c20.Lock()
		seen := append([]c20Seen(nil), c20.seen...)
		c20.Unlock()
		if len(seen) != 1 {
			t.Fatalf("probe handler ran %d times", len(seen))
		}
		s := seen[0]
		if s.SwapLen != 0 {
			t.Fatalf("the probe's context swap has %d entries left by earlier requests", s.SwapLen)
		}
		if strings.Join(s.InMeta, "&") != strings.Join(wantMeta, "&") {
			t.Fatalf("the probe sees request metadata %v, it sent %v", s.InMeta, wantMeta)
		}
		if s.OutMeta != 0 || s.OutCodec != 0 || s.OutPipe != 0 || !s.OutStatusOK || s.OutSize != 0 || !s.OutBodyNil || !s.StatusOK {
			t.Fatalf("the probe's output message / context is not in its default state: %+v", s)
		}
		if s.CtxValue != nil || s.CtxErr != nil || s.CtxDeadline {
			t.Fatalf("the probe's ctx.Context() is not the default one: value %v, err %v, has deadline %v (a context attached to an earlier call or an earlier session's context age)", s.CtxValue, s.CtxErr, s.CtxDeadline)
		}
		// the reply frame to the probe, as captured on the wire
		writes := l1.Pair.Writes(vt.BtoA)[before:]
		var stream []byte
		for _, wr := range writes {
			stream = append(stream, wr...)
		}
		got := vt.NewReceiver()
		if err := proto.Fn(&vt.RW{In: stream}).Unpack(got); err != nil {
			t.Fatalf("cannot decode the captured reply to the probe: %v", err)
		}
		if got.Mtype() != erpc.TypeReply || got.Seq() != cmd.Output().Seq() {
			t.Fatalf("captured frame is not the probe's reply: mtype %d seq %d", got.Mtype(), got.Seq())
		}
		if n := got.Meta().Len(); n != 0 {
			t.Fatalf("the reply to the probe carries %d metadata pairs of earlier requests: %v", n, vt.MetaPairs(got))
		}
		if got.XferPipe().Len() != 0 {
			t.Fatalf("the reply to the probe travels through pipe %x of an earlier request", got.XferPipe().IDs())
		}
		if !got.StatusOK() {
			t.Fatalf("the reply to the probe carries status %v of an earlier request", got.Status())
		}
		if got.BodyCodec() != 'j' {
			t.Fatalf("the reply to the probe uses body codec %d, want the request's (json)", got.BodyCodec())
		}
		if b := string(vt.BodyBytes(got)); !strings.Contains(b, `"probe:hello"`) || strings.Contains(b, "BBBB") {
			t.Fatalf("the reply to the probe has body %s", vt.Trunc(b))
		}
	})
}

// ---- pooled messages of the early (pre-session) sends ---------------------------------

type c20Failer struct {
	kinds []string
	got   []*erpc.Status
}

func (f *c20Failer) Name() string { return "c20failer" }
func (f *c20Failer) PostAccept(s erpc.PreSession) *erpc.Status {
	for _, k := range f.kinds {
		var st *erpc.Status
		switch k {
		case "unencodable":
			st = s.PreSend(erpc.TypePush, "/c20/early", make(chan int), nil, erpc.WithBodyCodec('j'))
		case "deadctx":
			dead, cancel := context.WithCancel(context.Background())
			cancel()
			st = s.PreSend(erpc.TypePush, "/c20/early", "x", nil, erpc.WithContext(dead))
		case "rawpush":
			st = s.RawPush("/c20/early", make(chan int), erpc.WithBodyCodec('j'))
		default: // a send that works
			st = s.PreSend(erpc.TypePush, "/c20/early", "fine", nil, erpc.WithBodyCodec('s'))
		}
		f.got = append(f.got, st)
	}
	return nil
}

// TestC20EarlySends: the messages used by the early sends of a session (PreSend, RawPush ...)
// come from the message pool and go back to it exactly once, whether the send worked or not:
// afterwards the pool hands out distinct, clean messages.
func TestC20EarlySends(t *testing.T) {
	rec := vt.NewRec(t, "C20", "early-sends", "an accept hook performs 1-4 early sends (PreSend / RawPush) of which some fail locally (unencodable body, cancelled context); afterwards 8 messages are drawn from the message pool on a single P; oracle: they are pairwise distinct objects and each is in the default state (what a fresh message shows); non-trivial = at least one early send failed; distinct by case")
	old := debug.SetGCPercent(-1)
	defer debug.SetGCPercent(old)
	rapid.Check(t, func(t *rapid.T) {
		vt.Init()
		kinds := rapid.SliceOfN(rapid.SampledFrom([]string{"unencodable", "unencodable", "deadctx", "rawpush", "fine"}), 1, 4).Draw(t, "kinds")
		nt := false
		for _, k := range kinds {
			if k != "fine" {
				nt = true
			}
		}
		rec.Case(fmt.Sprintf("%v", kinds), nt, fmt.Sprintf("sends=%d", len(kinds)))
		if rec.WantSample() && nt {
			rec.Sample(kinds)
		}
		defer runtime.GOMAXPROCS(runtime.GOMAXPROCS(1))
		w := vt.NewWorld()
		defer w.Close()
		f := &c20Failer{kinds: kinds}
		srv := w.Peer(erpc.PeerConfig{}, f)
		cli := w.Peer(erpc.PeerConfig{})
		cli.RoutePushFunc(func(ctx erpc.PushCtx, a *string) *erpc.Status { return nil })
		l := w.Connect(cli, srv, vt.StreamProtos()[0], nil)
		if l.A == nil || l.B == nil {
			t.Fatalf("connect failed: %v %v", l.AStat, l.BStat)
		}
		for i, k := range kinds {
			if k != "fine" && f.got[i].OK() {
				t.Fatalf("harness: the early send %d (%s) was expected to fail locally", i, k)
			}
		}
		var held []erpc.Message
		seen := map[erpc.Message]int{}
		for i := 0; i < 8; i++ {
			m := erpc.GetMessage()
			if j, dup := seen[m]; dup {
				t.Fatalf("C20 violated: after early sends %v the message pool handed out the same object twice (draw %d and draw %d): a message went back to the pool twice", kinds, j, i)
			}
			seen[m] = i
			if m.Seq() != 0 || m.Mtype() != 0 || m.ServiceMethod() != "" || m.Meta().Len() != 0 || m.Body() != nil || m.BodyCodec() != 0 || m.XferPipe().Len() != 0 || !m.StatusOK() || m.Size() != 0 {
				t.Fatalf("C20 violated: after early sends %v a message drawn from the pool is not in the default state: %s", kinds, m.String())
			}
			// use it the way a holder would, so that a second holder of the same object would see it
			m.SetServiceMethod(fmt.Sprintf("/held-by-%d", i))
			m.Meta().Set("owner", fmt.Sprint(i))
			held = append(held, m)
		}
		for _, m := range held {
			erpc.PutMessage(m)
		}
	})
}
