package core

// Installation histories.
//
// A peer is not always built in the text-book order "plugins to NewPeer, then the routes". Its
// plugin tree (peer container -> SubRoute group containers -> one container per handler) is the
// result of a sequence of public operations, and a plugin appended to the peer later has to reach
// every container that exists by then. phHistory is such a sequence as a generated value:
//
//	NewPeer(cfg, New...)                      plugins given to the constructor
//	group   parent.SubRoute("g<k>", Plugs...) parent = the root router or an earlier group (nesting 0-4)
//	call    group.RouteCallFunc(fn, Plugs...) one of the test's CALL handler functions
//	push    group.RoutePushFunc(fn, Plugs...)
//	ucall   peer.SetUnknownCall(fn, Plugs...)
//	upush   peer.SetUnknownPush(fn, Plugs...)
//	left    peer.PluginContainer().AppendLeft(Plugs...)
//	right   peer.PluginContainer().AppendRight(Plugs...)
//	remove  peer.PluginContainer().Remove(Plugs[0])
//
// The model half of this file says which plugins are in effect for a route once the history has
// run (the documented order: peer-level left, groups from the outside in, the route's own, peer-level
// right; AppendLeft puts in front). The builder half runs the history against a real peer.
// Tests bring the plugins (by name) and the handler functions.

import (
	"fmt"
	"strings"

	erpc "github.com/henrylee2cn/erpc/v6"
	"pgregory.net/rapid"

	"verifharness/vt"
)

type phStep struct {
	Op    string   // group | call | push | ucall | upush | left | right | remove
	At    int      // group, call, push: the group worked on (0 = the peer's root router, k = the group made by the k-th "group" step)
	Fn    int      // call, push: index into the test's handler functions
	Plugs []string // plugin names: appended (left, right), removed (remove), attached to the new group / route
}

type phHistory struct {
	New   []string // given to NewPeer, in order
	Steps []phStep
}

func (h phHistory) String() string {
	var b strings.Builder
	fmt.Fprintf(&b, "NewPeer(%s)", strings.Join(h.New, ","))
	for _, s := range h.Steps {
		switch s.Op {
		case "group":
			fmt.Fprintf(&b, "; group under g%d [%s]", s.At, strings.Join(s.Plugs, ","))
		case "call", "push":
			fmt.Fprintf(&b, "; %s#%d in g%d [%s]", s.Op, s.Fn, s.At, strings.Join(s.Plugs, ","))
		default:
			fmt.Fprintf(&b, "; %s [%s]", s.Op, strings.Join(s.Plugs, ","))
		}
	}
	return b.String()
}

// ---- model ---------------------------------------------------------------------------------

// phRoute is a handler registered by a history.
type phRoute struct {
	Step  int    // index of the registering step
	Kind  string // call | push | ucall | upush
	Fn    int
	Group int
	Depth int // nesting of its group (0 = root router)
	Own   []string
}

// groups returns parent, depth and own plugins of every group (index 0 = the root router).
func (h phHistory) groups() (parent, depth []int, own [][]string) {
	parent, depth, own = []int{-1}, []int{0}, [][]string{nil}
	for _, s := range h.Steps {
		if s.Op == "group" {
			parent = append(parent, s.At)
			depth = append(depth, depth[s.At]+1)
			own = append(own, s.Plugs)
		}
	}
	return
}

// routes lists the handlers in registration order; of several SetUnknownCall / SetUnknownPush
// steps only the last one is in effect and listed.
func (h phHistory) routes() []phRoute {
	_, depth, _ := h.groups()
	lastU := map[string]int{}
	for i, s := range h.Steps {
		if s.Op == "ucall" || s.Op == "upush" {
			lastU[s.Op] = i
		}
	}
	var out []phRoute
	for i, s := range h.Steps {
		switch s.Op {
		case "call", "push":
			out = append(out, phRoute{Step: i, Kind: s.Op, Fn: s.Fn, Group: s.At, Depth: depth[s.At], Own: s.Plugs})
		case "ucall", "upush":
			if lastU[s.Op] == i {
				out = append(out, phRoute{Step: i, Kind: s.Op, Own: s.Plugs})
			}
		}
	}
	return out
}

func (h phHistory) routeAt(step int) (phRoute, bool) {
	for _, r := range h.routes() {
		if r.Step == step {
			return r, true
		}
	}
	return phRoute{}, false
}

// global returns the peer-level plugins in effect at the end of the history, in order.
func (h phHistory) global() (left, right []string) {
	left = append(left, h.New...) // NewPeer appends its plugins on the left
	without := func(l []string, name string) []string {
		out := l[:0:0]
		for _, n := range l {
			if n != name {
				out = append(out, n)
			}
		}
		return out
	}
	for _, s := range h.Steps {
		switch s.Op {
		case "left":
			left = append(append([]string{}, s.Plugs...), left...)
		case "right":
			right = append(right, s.Plugs...)
		case "remove":
			left, right = without(left, s.Plugs[0]), without(right, s.Plugs[0])
		}
	}
	return
}

// chain returns the plugins in effect for a route at the end of the history, in the documented
// order: peer-level left, its groups from the outside in, its own, peer-level right.
func (h phHistory) chain(r phRoute) []string {
	left, right := h.global()
	parent, _, own := h.groups()
	var mid []string
	if r.Kind == "call" || r.Kind == "push" {
		var path []int
		for g := r.Group; g > 0; g = parent[g] {
			path = append([]int{g}, path...)
		}
		for _, g := range path {
			mid = append(mid, own[g]...)
		}
	}
	mid = append(mid, r.Own...)
	out := append([]string{}, left...)
	out = append(out, mid...)
	return append(out, right...)
}

func phHas(l []string, name string) bool {
	for _, n := range l {
		if n == name {
			return true
		}
	}
	return false
}

// names lists every plugin name of the history once, in order of first appearance.
func (h phHistory) names() []string {
	var out []string
	add := func(l []string) {
		for _, n := range l {
			if !phHas(out, n) {
				out = append(out, n)
			}
		}
	}
	add(h.New)
	for _, s := range h.Steps {
		if s.Op != "remove" {
			add(s.Plugs)
		}
	}
	return out
}

// phInstall says how a plugin got into the peer.
type phInstall struct {
	How          string // new | left | right | group | route | absent; "re-left" / "re-right": taken out with Remove and appended again
	Step         int    // the installing step (-1: NewPeer); for group / route the first step that carries it
	RoutesBefore int    // handlers, groups and unknown handlers registered before it was (last) installed
	DepthBefore  int    // deepest nesting at which a handler existed by then (-1: no handler)
}

func (h phHistory) install(name string) phInstall {
	in := phInstall{How: "absent", Step: -1, DepthBefore: -1}
	if phHas(h.New, name) {
		in.How = "new"
	}
	_, depth, _ := h.groups()
	routes, deepest := 0, -1
	removed := false
	for i, s := range h.Steps {
		if phHas(s.Plugs, name) {
			switch s.Op {
			case "remove":
				removed = true
			case "left", "right":
				in = phInstall{How: s.Op, Step: i, RoutesBefore: routes, DepthBefore: deepest}
				if removed {
					in.How = "re-" + s.Op
				}
			case "group":
				if in.How == "absent" {
					in = phInstall{How: "group", Step: i, RoutesBefore: routes, DepthBefore: deepest}
				}
			default:
				if in.How == "absent" {
					in = phInstall{How: "route", Step: i, RoutesBefore: routes, DepthBefore: deepest}
				}
			}
		}
		switch s.Op {
		case "group", "ucall", "upush":
			routes++
		case "call", "push":
			routes++
			if depth[s.At] > deepest {
				deepest = depth[s.At]
			}
		}
	}
	return in
}

func (in phInstall) classes(what string) []string {
	before := "none"
	switch {
	case in.RoutesBefore > 0 && in.DepthBefore < 0:
		before = "groups-only"
	case in.DepthBefore >= 0:
		before = fmt.Sprintf("handlers-to-depth-%d", in.DepthBefore)
	}
	return []string{what + "=" + in.How, what + "=" + in.How + "/registered-before=" + before}
}

// ---- builder -------------------------------------------------------------------------------

// phFns are the handler functions a history registers.
type phFns struct {
	Call  []interface{}
	Push  []interface{}
	UCall func(erpc.UnknownCallCtx) (interface{}, *erpc.Status)
	UPush func(erpc.UnknownPushCtx) *erpc.Status
}

type phRouter interface {
	SubRoute(string, ...erpc.Plugin) *erpc.SubRouter
	RouteCallFunc(interface{}, ...erpc.Plugin) string
	RoutePushFunc(interface{}, ...erpc.Plugin) string
}

type phBuilt struct {
	Peer  erpc.Peer
	Paths map[int]string // registering step -> service method
}

// phBuild runs the history: plug maps a name to its plugin (asked once per name).
func phBuild(w *vt.World, cfg erpc.PeerConfig, h phHistory, plug func(name string) erpc.Plugin, fns phFns) *phBuilt {
	cache := map[string]erpc.Plugin{}
	get := func(names []string) []erpc.Plugin {
		var out []erpc.Plugin
		for _, n := range names {
			p, ok := cache[n]
			if !ok {
				if n == phBootName {
					p = phBoot{}
				} else {
					p = plug(n)
				}
				if p == nil {
					panic("harness: no plugin for name " + n)
				}
				cache[n] = p
			}
			out = append(out, p)
		}
		return out
	}
	peer := w.Peer(cfg, get(h.New)...)
	b := &phBuilt{Peer: peer, Paths: map[int]string{}}
	routers := []phRouter{peer}
	for i, s := range h.Steps {
		switch s.Op {
		case "group":
			routers = append(routers, routers[s.At].SubRoute(fmt.Sprintf("g%d", len(routers)), get(s.Plugs)...))
		case "call":
			b.Paths[i] = routers[s.At].RouteCallFunc(fns.Call[s.Fn], get(s.Plugs)...)
		case "push":
			b.Paths[i] = routers[s.At].RoutePushFunc(fns.Push[s.Fn], get(s.Plugs)...)
		case "ucall":
			peer.SetUnknownCall(fns.UCall, get(s.Plugs)...)
		case "upush":
			peer.SetUnknownPush(fns.UPush, get(s.Plugs)...)
		case "left":
			peer.PluginContainer().AppendLeft(get(s.Plugs)...)
		case "right":
			peer.PluginContainer().AppendRight(get(s.Plugs)...)
		case "remove":
			if err := peer.PluginContainer().Remove(get(s.Plugs)[0].Name()); err != nil {
				panic("harness: Remove(" + s.Plugs[0] + "): " + err.Error())
			}
		default:
			panic("harness: unknown history step " + s.Op)
		}
	}
	return b
}

// bindLib makes the library handlers of peer p record into the current case's recorder
// (what registerLib does, without registering routes).
func bindLib(p erpc.Peer) {
	libs.Store(p, curLib())
	libPeers.Lock()
	libPeers.order = append(libPeers.order, p)
	for len(libPeers.order) > 64 {
		libs.Delete(libPeers.order[0])
		libPeers.order = libPeers.order[1:]
	}
	libPeers.Unlock()
}

// more CALL / PUSH handler functions with the behaviour of the library ones (a function can be
// registered once per group; sibling handlers of one group need different functions)
func PhAlt1(ctx erpc.CallCtx, a *LibArg) (interface{}, *erpc.Status) { return LibDo(ctx, a) }
func PhAlt2(ctx erpc.CallCtx, a *LibArg) (interface{}, *erpc.Status) { return LibDo(ctx, a) }
func PhNote1(ctx erpc.PushCtx, a *LibArg) *erpc.Status               { return LibNote(ctx, a) }

// the unknown handlers record like the library handlers, under the request id "<unknown>"
var phLibFns = phFns{
	Call: []interface{}{LibDo, PhAlt1, PhAlt2},
	Push: []interface{}{LibNote, PhNote1},
	UCall: func(ctx erpc.UnknownCallCtx) (interface{}, *erpc.Status) {
		s := libFor(ctx.Peer())
		s.mu.Lock()
		s.calls["<unknown>"]++
		s.mu.Unlock()
		return &LibRes{Rid: "<unknown>", Val: "unknown"}, nil
	},
	UPush: func(ctx erpc.UnknownPushCtx) *erpc.Status {
		s := libFor(ctx.Peer())
		s.mu.Lock()
		s.pushes["<unknown>"]++
		s.mu.Unlock()
		return nil
	},
}

// phNoise is a plugin without any effect: the other tenants of a container.
type phNoise struct{ name string }

func (p phNoise) Name() string { return p.name }

// phAcceptNoise takes part in the accept stage and lets everything through.
type phAcceptNoise struct{ phNoise }

func (p phAcceptNoise) PostAccept(erpc.PreSession) *erpc.Status { return nil }

func phNoisePlugin(name string) erpc.Plugin {
	if len(name)%2 == 0 {
		return phAcceptNoise{phNoise{name}}
	}
	return phNoise{name}
}

// phBoot registers a route of its own from PostNewPeer (as the heartbeat plugin does): the peer
// comes out of NewPeer with a handler container already derived from its plugin container.
const phBootName = "boot"

type phBoot struct{}

func (phBoot) Name() string { return phBootName }
func (phBoot) PostNewPeer(p erpc.EarlyPeer) error {
	p.RouteCallFunc(PhBootCall)
	return nil
}
func PhBootCall(ctx erpc.CallCtx, a *LibArg) (interface{}, *erpc.Status) { return LibDo(ctx, a) }

// ---- generator -----------------------------------------------------------------------------

// phTarget is a plugin the test cares about; it is installed exactly one way, drawn from How:
//
//	new        given to NewPeer
//	left|right appended to the peer's container at a drawn point of the history
//	reinstall  given to NewPeer, taken out with Remove at a drawn point, appended again later
//	group      attached to (some of) the SubRoute groups
//	route      attached to (some of) the handlers
type phTarget struct {
	Name string
	How  []string
}

type phGenCfg struct {
	NCall, NPush       int  // how many of the test's handler functions may be registered
	MaxDepth           int  // nesting of SubRoute groups
	MinSteps, MaxSteps int  // drawn steps (targets and compound steps come on top)
	GroupPlugs         int  // a new group gets 0..GroupPlugs plugins of its own
	RoutePlugs         int  // a new handler gets 0..RoutePlugs plugins of its own
	Unknown            bool // SetUnknownCall / SetUnknownPush steps
	Boot               bool // a plugin given to NewPeer may register a route from PostNewPeer
	Siblings           bool // compound steps: two sibling groups / two sibling handlers with plugins of their own, in a drawn order
	Targets            []phTarget
}

type phGen struct {
	t        *rapid.T
	label    string
	cfg      phGenCfg
	H        phHistory
	How      map[string]string
	parent   []int
	depth    []int
	carried  [][]string // per group: target plugins on its chain of groups
	usedCall []map[int]bool
	usedPush []map[int]bool
	peer     []string // removable peer-level plugins installed right now
	noiseN   int
	madeAt   []int // per group: the step that made it (-1: the root router)
	Ensured  []int // the steps returned by ensureRoute so far, kept current when a later ensureRoute inserts a step
}

func (s *phGen) int(lo, hi int, what string) int {
	return rapid.IntRange(lo, hi).Draw(s.t, s.label+"."+what)
}

func (s *phGen) noise() string {
	s.noiseN++
	// names of both lengths' parity (see phNoisePlugin)
	if s.noiseN%2 == 0 {
		return fmt.Sprintf("nz%d", s.noiseN)
	}
	return fmt.Sprintf("n%d", s.noiseN)
}

func (s *phGen) emit(st phStep) int {
	s.H.Steps = append(s.H.Steps, st)
	return len(s.H.Steps) - 1
}

// pickGroup draws a group of nesting <= maxDepth, the recent and the deep ones more often.
func (s *phGen) pickGroup(maxDepth int, ok func(g int) bool) int {
	var cand []int
	deepest := -1
	for g := range s.parent {
		if s.depth[g] <= maxDepth && (ok == nil || ok(g)) {
			cand = append(cand, g)
			if deepest < 0 || s.depth[g] >= s.depth[deepest] {
				deepest = g
			}
		}
	}
	if len(cand) == 0 {
		return -1
	}
	cand = append(cand, cand[len(cand)-1], deepest, deepest)
	return cand[s.int(0, len(cand)-1, "group")]
}

func (s *phGen) addGroup(parent int, plugs []string) int {
	carried := append([]string{}, s.carried[parent]...)
	for _, tg := range s.cfg.Targets {
		if s.How[tg.Name] == "group" && phHas(plugs, tg.Name) {
			carried = append(carried, tg.Name)
		}
	}
	s.madeAt = append(s.madeAt, s.emit(phStep{Op: "group", At: parent, Plugs: plugs}))
	s.parent = append(s.parent, parent)
	s.depth = append(s.depth, s.depth[parent]+1)
	s.carried = append(s.carried, carried)
	s.usedCall = append(s.usedCall, map[int]bool{})
	s.usedPush = append(s.usedPush, map[int]bool{})
	return len(s.parent) - 1
}

// groupPlugs draws the own plugins of a new group under parent.
func (s *phGen) groupPlugs(parent int, min int) []string {
	var plugs []string
	for i, n := 0, s.int(min, s.cfg.GroupPlugs, "ngroupplugs"); i < n; i++ {
		plugs = append(plugs, s.noise())
	}
	for _, tg := range s.cfg.Targets {
		if s.How[tg.Name] == "group" && !phHas(s.carried[parent], tg.Name) && s.int(0, 1, "carries") == 1 {
			if s.int(0, 1, "front") == 1 {
				plugs = append([]string{tg.Name}, plugs...)
			} else {
				plugs = append(plugs, tg.Name)
			}
		}
	}
	return plugs
}

// routePlugs draws the own plugins of a new handler in group g (g < 0: an unknown handler).
func (s *phGen) routePlugs(g int, min int) []string {
	var plugs []string
	for i, n := 0, s.int(min, s.cfg.RoutePlugs, "nrouteplugs"); i < n; i++ {
		plugs = append(plugs, s.noise())
	}
	for _, tg := range s.cfg.Targets {
		if s.How[tg.Name] == "route" && s.int(0, 1, "carries") == 1 {
			if s.int(0, 1, "front") == 1 {
				plugs = append([]string{tg.Name}, plugs...)
			} else {
				plugs = append(plugs, tg.Name)
			}
		}
	}
	return plugs
}

func (s *phGen) freeFn(kind string, g int) int {
	used, n := s.usedCall[g], s.cfg.NCall
	if kind == "push" {
		used, n = s.usedPush[g], s.cfg.NPush
	}
	var free []int
	for f := 0; f < n; f++ {
		if !used[f] {
			free = append(free, f)
		}
	}
	if len(free) == 0 {
		return -1
	}
	return free[s.int(0, len(free)-1, "fn")]
}

func (s *phGen) addRoute(kind string, g, fn int, plugs []string) int {
	if kind == "push" {
		s.usedPush[g][fn] = true
	} else {
		s.usedCall[g][fn] = true
	}
	return s.emit(phStep{Op: kind, At: g, Fn: fn, Plugs: plugs})
}

func (s *phGen) randomRoute(kind string) bool {
	g := s.pickGroup(s.cfg.MaxDepth, func(g int) bool {
		if kind == "push" {
			return len(s.usedPush[g]) < s.cfg.NPush
		}
		return len(s.usedCall[g]) < s.cfg.NCall
	})
	if g < 0 {
		return false
	}
	s.addRoute(kind, g, s.freeFn(kind, g), s.routePlugs(g, 0))
	return true
}

func (s *phGen) appendPeer(side string, extra ...string) {
	plugs := []string{s.noise()}
	if s.int(0, 3, "two") == 0 {
		plugs = append(plugs, s.noise())
	}
	s.peer = append(s.peer, plugs...)
	s.emit(phStep{Op: side, Plugs: append(plugs, extra...)})
}

func (s *phGen) randomStep() {
	ops := []string{"group", "group", "call", "call", "push", "left", "right", "remove"}
	if s.cfg.Unknown {
		ops = append(ops, "ucall", "upush")
	}
	if s.cfg.Siblings {
		ops = append(ops, "sibgroups", "sibgroups", "sibhandlers")
	}
	op := rapid.SampledFrom(ops).Draw(s.t, s.label+".op")
	switch op {
	case "group":
		if p := s.pickGroup(s.cfg.MaxDepth-1, nil); p >= 0 {
			s.addGroup(p, s.groupPlugs(p, 0))
		}
	case "call", "push":
		s.randomRoute(op)
	case "ucall", "upush":
		s.emit(phStep{Op: op, Plugs: s.routePlugs(-1, 0)})
	case "left", "right":
		s.appendPeer(op)
	case "remove":
		if len(s.peer) == 0 {
			s.appendPeer("right")
			return
		}
		i := s.int(0, len(s.peer)-1, "remove")
		name := s.peer[i]
		s.peer = append(append([]string{}, s.peer[:i]...), s.peer[i+1:]...)
		s.emit(phStep{Op: "remove", Plugs: []string{name}})
	case "sibgroups":
		s.sibGroups()
	case "sibhandlers":
		s.sibHandlers()
	}
}

// sibGroups adds two sibling groups with plugins of their own and a handler each; whether the
// first group gets its handler before or after its sibling exists is drawn.
func (s *phGen) sibGroups() {
	p := s.pickGroup(s.cfg.MaxDepth-1, nil)
	if p < 0 {
		return
	}
	min := 0
	if s.cfg.GroupPlugs > 0 {
		min = 1
	}
	g1 := s.addGroup(p, s.groupPlugs(p, min))
	early := s.int(0, 2, "handler-first") == 0
	if early {
		s.addRoute("call", g1, s.freeFn("call", g1), s.routePlugs(g1, 0))
	}
	g2 := s.addGroup(p, s.groupPlugs(p, min))
	first, second := g1, g2
	if s.int(0, 1, "swap") == 1 {
		first, second = g2, g1
	}
	for _, g := range []int{first, second} {
		if early && g == g1 {
			continue
		}
		s.addRoute("call", g, s.freeFn("call", g), s.routePlugs(g, 0))
	}
}

// sibHandlers adds two handlers to one group, each with plugins of its own.
func (s *phGen) sibHandlers() {
	g := s.pickGroup(s.cfg.MaxDepth, func(g int) bool { return s.cfg.NCall-len(s.usedCall[g]) >= 2 })
	if g < 0 {
		p := s.pickGroup(s.cfg.MaxDepth-1, nil)
		g = s.addGroup(p, s.groupPlugs(p, 0))
	}
	min := 0
	if s.cfg.RoutePlugs > 0 {
		min = 1
	}
	s.addRoute("call", g, s.freeFn("call", g), s.routePlugs(g, min))
	s.addRoute("call", g, s.freeFn("call", g), s.routePlugs(g, min))
}

// peerChange adds a change of the peer-level plugins (which rebuilds every container of the tree).
func (s *phGen) peerChange() {
	op := rapid.SampledFrom([]string{"left", "right", "remove"}).Draw(s.t, s.label+".peerchange")
	if op == "remove" && len(s.peer) > 0 {
		i := s.int(0, len(s.peer)-1, "remove")
		name := s.peer[i]
		s.peer = append(append([]string{}, s.peer[:i]...), s.peer[i+1:]...)
		s.emit(phStep{Op: "remove", Plugs: []string{name}})
		return
	}
	if op == "remove" {
		op = "right"
	}
	s.appendPeer(op)
}

// hasSiblingGroups: two groups of one parent that both have plugins of their own.
func (h phHistory) hasSiblingGroups() bool {
	parent, _, own := h.groups()
	n := map[int]int{}
	for g := 1; g < len(parent); g++ {
		if len(own[g]) > 0 {
			n[parent[g]]++
		}
	}
	for _, k := range n {
		if k >= 2 {
			return true
		}
	}
	return false
}

// hasSiblingHandlers: two CALL handlers of one group that both have plugins of their own.
func (h phHistory) hasSiblingHandlers() bool {
	n := map[int]int{}
	for _, r := range h.routes() {
		if r.Kind == "call" && len(r.Own) > 0 {
			n[r.Group]++
		}
	}
	for _, k := range n {
		if k >= 2 {
			return true
		}
	}
	return false
}

// genPHistory draws a history; the returned generator state can be asked for more
// (ensureRoute) before its history H is used.
func genPHistory(t *rapid.T, label string, cfg phGenCfg) *phGen {
	s := &phGen{t: t, label: label, cfg: cfg, How: map[string]string{}, parent: []int{-1}, depth: []int{0},
		carried: [][]string{nil}, usedCall: []map[int]bool{{}}, usedPush: []map[int]bool{{}}, madeAt: []int{-1}}
	var newList []string
	for i, n := 0, s.int(0, 2, "nnew"); i < n; i++ {
		name := s.noise()
		newList = append(newList, name)
		s.peer = append(s.peer, name)
	}
	if cfg.Boot && s.int(0, 3, "boot") == 0 {
		newList = append(newList, phBootName)
	}
	n := s.int(cfg.MinSteps, cfg.MaxSteps, "nsteps")
	type sched struct {
		name, op string
		at       int
	}
	var plan []sched
	insertNew := func(name string) {
		i := s.int(0, len(newList), "newpos")
		newList = append(newList[:i:i], append([]string{name}, newList[i:]...)...)
	}
	for _, tg := range cfg.Targets {
		how := rapid.SampledFrom(tg.How).Draw(t, label+".how."+tg.Name)
		s.How[tg.Name] = how
		switch how {
		case "new":
			insertNew(tg.Name)
		case "left", "right":
			// the later of two draws: more often than not something is registered by then
			at := s.int(0, n, "at")
			if at2 := s.int(0, n, "at"); at2 > at {
				at = at2
			}
			plan = append(plan, sched{tg.Name, how, at})
		case "reinstall":
			insertNew(tg.Name)
			at := s.int(0, n, "at")
			plan = append(plan, sched{tg.Name, "remove", at},
				sched{tg.Name, rapid.SampledFrom([]string{"left", "right"}).Draw(t, label+".again"), s.int(at, n, "again-at")})
		}
	}
	s.H.New = newList
	for i := 0; i <= n; i++ {
		for _, p := range plan {
			if p.at != i {
				continue
			}
			switch {
			case p.op == "remove":
				s.emit(phStep{Op: "remove", Plugs: []string{p.name}})
			case s.int(0, 3, "with-noise") == 0:
				// appended in one call together with another plugin
				other := s.noise()
				s.peer = append(s.peer, other)
				if s.int(0, 1, "noise-first") == 1 {
					s.emit(phStep{Op: p.op, Plugs: []string{other, p.name}})
				} else {
					s.emit(phStep{Op: p.op, Plugs: []string{p.name, other}})
				}
			default:
				s.emit(phStep{Op: p.op, Plugs: []string{p.name}})
			}
		}
		if i < n {
			s.randomStep()
		}
	}
	return s
}

// insertLater puts a non-group step at a drawn position behind step `after` (so that what the
// test needs is not always the last thing that happened to the peer).
func (s *phGen) insertLater(after int, st phStep) int {
	pos := s.int(after+1, len(s.H.Steps), "insert-at")
	steps := append([]phStep{}, s.H.Steps[:pos]...)
	steps = append(steps, st)
	s.H.Steps = append(steps, s.H.Steps[pos:]...)
	for i := range s.madeAt {
		if s.madeAt[i] >= pos {
			s.madeAt[i]++
		}
	}
	for i := range s.Ensured {
		if s.Ensured[i] >= pos {
			s.Ensured[i]++
		}
	}
	return pos
}

// ensureRoute returns the registering step of a handler of the kind (call | push with function
// fn, or ucall | upush) whose chain has the plugin named cover ("" = any handler), drawn among
// the ones the history has; if it has none, a registration is added: in a drawn group that exists,
// at a drawn point after that group was made (or in a new group at the end). -1: impossible
// (an unknown handler cannot be covered by a group's plugin). The result is also appended to
// s.Ensured, which stays valid when a later call inserts a step.
func (s *phGen) ensureRoute(kind string, fn int, cover string) int {
	at := s.ensureRoute1(kind, fn, cover)
	if at >= 0 {
		s.Ensured = append(s.Ensured, at)
	}
	return at
}

func (s *phGen) ensureRoute1(kind string, fn int, cover string) int {
	var have []int
	lastU := -1
	for _, r := range s.H.routes() {
		if r.Kind == kind && (r.Fn == fn || kind == "ucall" || kind == "upush") {
			if cover == "" || phHas(s.H.chain(r), cover) {
				have = append(have, r.Step)
			}
			lastU = r.Step
		}
	}
	if len(have) > 0 {
		return have[s.int(0, len(have)-1, "probe")]
	}
	how := s.How[cover]
	var own []string
	if cover != "" && how == "route" {
		own = []string{cover}
	}
	if kind == "ucall" || kind == "upush" {
		if cover != "" && how == "group" {
			return -1
		}
		// behind the unknown handler that is in effect now (the last one set counts)
		return s.insertLater(lastU, phStep{Op: kind, Plugs: own})
	}
	free := func(g int) bool {
		if kind == "push" {
			return !s.usedPush[g][fn]
		}
		return !s.usedCall[g][fn]
	}
	var g int
	if cover != "" && how == "group" {
		g = s.pickGroup(s.cfg.MaxDepth, func(g int) bool { return free(g) && phHas(s.carried[g], cover) })
		if g < 0 {
			p := s.pickGroup(s.cfg.MaxDepth-1, func(g int) bool { return !phHas(s.carried[g], cover) })
			g = s.addGroup(p, []string{cover})
		}
	} else {
		g = s.pickGroup(s.cfg.MaxDepth, free)
		if g < 0 {
			g = s.addGroup(s.pickGroup(s.cfg.MaxDepth-1, nil), nil)
		}
	}
	if kind == "push" {
		s.usedPush[g][fn] = true
	} else {
		s.usedCall[g][fn] = true
	}
	return s.insertLater(s.madeAt[g], phStep{Op: kind, At: g, Fn: fn, Plugs: own})
}
