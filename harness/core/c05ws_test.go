package core

import (
	"bytes"
	"fmt"
	"sort"
	"testing"
	"time"

	erpc "github.com/henrylee2cn/erpc/v6"
	"pgregory.net/rapid"

	"verifharness/vt"
)

// TestC05WebsocketChunks: the websocket mixer's frames (masked from the client, unmasked from
// the server) arrive in arbitrary read chunks. Whatever the chunking of the two byte streams,
// the messages decode to what was sent, in order.
func TestC05WebsocketChunks(t *testing.T) {
	rec := vt.NewRec(t, "C05", "ws-chunks", "a websocket session (real upgrade, json or protobuf sub-protocol) over a connection whose two byte streams are delivered under generated read chunkings (1-byte, small odd sizes, mixed up to 2000, a prefix schedule, or unchunked); 1-6 echo calls and pushes with bodies of generated lengths (0, 1, around the 125/126 and 65535/65536 frame-length boundaries, up to 150000) are sent back to back; oracle: every call's reply body equals the body sent and the receiving peer saw exactly the pushes' bodies (as a multiset: pushes are handled concurrently); non-trivial = a chunked stream and a body above 125 bytes; distinct by case")
	subs := vt.WsSubProtos()
	rapid.Check(t, func(t *rapid.T) {
		vt.Init()
		sub := rapid.SampledFrom(subs).Draw(t, "sub")
		upChunks, upCycle := vt.Chunks(t, "up")
		downChunks, downCycle := vt.Chunks(t, "down")
		n := rapid.IntRange(1, 6).Draw(t, "nmsgs")
		type msg struct {
			Kind string
			Len  int
		}
		var msgs []msg
		big := false
		for i := 0; i < n; i++ {
			var l int
			switch rapid.IntRange(0, 5).Draw(t, "lenclass") {
			case 0:
				l = rapid.SampledFrom([]int{0, 1, 2, 3, 5}).Draw(t, "tiny")
			case 1:
				l = rapid.IntRange(60, 140).Draw(t, "around125")
			case 2:
				l = rapid.IntRange(4000, 4200).Draw(t, "aroundbuf")
			case 3:
				l = rapid.IntRange(65300, 65700).Draw(t, "around64k")
			case 4:
				l = rapid.IntRange(70000, 150000).Draw(t, "large")
			default:
				l = rapid.IntRange(0, 3000).Draw(t, "any")
			}
			big = big || l > 125
			msgs = append(msgs, msg{Kind: rapid.SampledFrom([]string{"call", "call", "push"}).Draw(t, "kind"), Len: l})
		}
		// with one-byte chunks a large body costs one read per byte: keep those cases small
		if (len(upChunks) == 1 && upChunks[0] == 1) || (len(downChunks) == 1 && downChunks[0] == 1) {
			for i := range msgs {
				if msgs[i].Len > 5000 {
					msgs[i].Len = msgs[i].Len%5000 + 126
				}
			}
		}
		w := vt.NewWorld()
		defer w.Close()
		srv := w.Peer(erpc.PeerConfig{})
		cli := w.Peer(erpc.PeerConfig{})
		var pushed [][]byte
		pushCh := make(chan []byte, 16)
		srv.SetUnknownCall(func(ctx erpc.UnknownCallCtx) (interface{}, *erpc.Status) {
			return append([]byte(nil), ctx.InputBodyBytes()...), nil
		})
		srv.SetUnknownPush(func(ctx erpc.UnknownPushCtx) *erpc.Status {
			pushCh <- append([]byte(nil), ctx.InputBodyBytes()...)
			return nil
		})
		l, err := w.ConnectWS(cli, srv, sub, func(p *vt.Pair) {
			p.SetChunks(vt.AtoB, upChunks, upCycle)
			p.SetChunks(vt.BtoA, downChunks, downCycle)
		})
		if err != nil || l.A == nil || l.B == nil {
			t.Fatalf("harness: websocket connect: %v", err)
		}
		body := func(i, n int) []byte {
			b := make([]byte, n)
			for k := range b {
				b[k] = "abcdefghijklmnopqrstuvwxyz0123456789"[(k*7+i*13+k/36)%36]
			}
			return b
		}
		chunked := upChunks != nil || downChunks != nil
		rec.Case(fmt.Sprintf("%s|%v%v|%v%v|%+v", sub.Name, upChunks, upCycle, downChunks, downCycle, msgs), chunked && big, "sub="+sub.Name)
		if rec.WantSample() && chunked && big {
			rec.Sample(map[string]interface{}{"sub": sub.Name, "up_chunks": upChunks, "down_chunks": downChunks, "msgs": msgs})
		}
		var cmds []erpc.CallCmd
		var results []*[]byte
		var wantCalls, wantPushes [][]byte
		for i, m := range msgs {
			b := body(i, m.Len)
			if m.Kind == "push" {
				if st := l.A.Push("/c05/push", b, erpc.WithBodyCodec('s')); !st.OK() {
					t.Fatalf("C05 violated: push %d (%d bytes) could not be sent: %v", i, m.Len, st)
				}
				wantPushes = append(wantPushes, b)
				continue
			}
			r := new([]byte)
			results = append(results, r)
			wantCalls = append(wantCalls, b)
			cmds = append(cmds, l.A.AsyncCall("/c05/echo", b, r, make(chan erpc.CallCmd, 1), erpc.WithBodyCodec('s')))
		}
		for i, c := range cmds {
			if !vt.WaitClosed(c.Done()) {
				t.Fatalf("C05 violated: %s", vt.Hang(fmt.Sprintf("completion of echo call %d (%d bytes) over a websocket session with stream chunkings up=%v down=%v", i, len(wantCalls[i]), upChunks, downChunks)))
			}
			if !c.StatusOK() {
				t.Fatalf("C05 violated: echo call %d (%d bytes) over a websocket session with stream chunkings up=%v/%v down=%v/%v failed: %v", i, len(wantCalls[i]), upChunks, upCycle, downChunks, downCycle, c.Status())
			}
			if !bytes.Equal(*results[i], wantCalls[i]) {
				t.Fatalf("C05 violated: echo call %d over a chunked websocket stream returned %d bytes %s, sent %d bytes %s", i, len(*results[i]), vt.Trunc(string(*results[i])), len(wantCalls[i]), vt.Trunc(string(wantCalls[i])))
			}
		}
		// pushes are handled concurrently: compare what arrived as a multiset
		for i := range wantPushes {
			select {
			case b := <-pushCh:
				pushed = append(pushed, b)
			case <-time.After(vt.LivenessBound):
				t.Fatalf("C05 violated: %s", vt.Hang(fmt.Sprintf("arrival of push %d of %d over a chunked websocket stream", i+1, len(wantPushes))))
			}
		}
		key := func(l [][]byte) []string {
			var out []string
			for _, b := range l {
				out = append(out, string(b))
			}
			sort.Strings(out)
			return out
		}
		gp, wp := key(pushed), key(wantPushes)
		for i := range wp {
			if gp[i] != wp[i] {
				t.Fatalf("C05 violated: the pushes that arrived over a chunked websocket stream differ from the pushes sent: arrived %d bytes %s, sent %d bytes %s", len(gp[i]), vt.Trunc(gp[i]), len(wp[i]), vt.Trunc(wp[i]))
			}
		}
	})
}
