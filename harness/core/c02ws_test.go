package core

import (
	"bytes"
	"fmt"
	"sync/atomic"
	"testing"
	"time"

	erpc "github.com/henrylee2cn/erpc/v6"
	"github.com/henrylee2cn/erpc/v6/codec"
	wspb "github.com/henrylee2cn/erpc/v6/mixer/websocket/pbSubProto/pb"
	"github.com/henrylee2cn/erpc/v6/socket"
	"pgregory.net/rapid"

	"verifharness/vt"
)

// C02 over websocket sessions with a remote that answers with damaged REPLY frames: the
// serving side's sub-protocol is wrapped so that the replies it packs are altered before they
// are written (everything else - upgrade, framing, requests - is the real thing).

type tamperProto struct {
	inner  socket.Proto
	fn     socket.ProtoFunc
	rw     erpc.IOWithReadBuffer
	tamper func(frame []byte) []byte
	hits   *int32
}

func (p *tamperProto) Version() (byte, string) { return p.inner.Version() }
func (p *tamperProto) Unpack(m erpc.Message) error { return p.inner.Unpack(m) }
func (p *tamperProto) Pack(m erpc.Message) error {
	buf := &vt.RW{}
	if err := p.fn(buf).Pack(m); err != nil {
		return err
	}
	b := buf.Written()
	if m.Mtype() == erpc.TypeReply && string(m.Meta().Peek("Tamper")) == "1" {
		b = p.tamper(append([]byte(nil), b...))
		atomic.AddInt32(p.hits, 1)
	}
	_, err := p.rw.Write(b)
	return err
}

// C02Tamperable marks its reply for tampering when the request asks for it.
func C02Tamperable(ctx erpc.CallCtx, a *LibArg) (*LibRes, *erpc.Status) {
	if a.Act == "tamper" {
		ctx.SetMeta("Tamper", "1")
	}
	return &LibRes{Rid: a.Rid, Val: "reply-" + a.Rid}, nil
}

func TestC02WebsocketReplies(t *testing.T) {
	rec := vt.NewRec(t, "C02", "ws-replies", "a websocket session (json or protobuf sub-protocol, real upgrade) whose serving side alters some of the REPLY frames it packs: the pipe of the frame names an unregistered filter / the gzip-filtered body is corrupted / the frame is cut in half; 1-4 calls, each answered properly or with an altered frame; oracle: once the replies were consumed every call is done or the session has ended (a consumed reply, a healthy session and a pending call = a hang); after the link is cut every call's Done has fired exactly once, and no call whose reply named an unregistered filter is OK; non-trivial = an altered reply; distinct by case")
	subs := vt.WsSubProtos()
	rapid.Check(t, func(t *rapid.T) {
		vt.Init()
		newLib()
		sub := rapid.SampledFrom(subs).Draw(t, "sub")
		kind := rapid.SampledFrom([]string{"unregistered-filter", "unregistered-filter", "corrupt-gzip", "cut"}).Draw(t, "tamper")
		n := rapid.IntRange(1, 4).Draw(t, "calls")
		alter := make([]bool, n)
		nt := false
		for i := range alter {
			alter[i] = rapid.Bool().Draw(t, "alter")
			nt = nt || alter[i]
		}
		rec.Case(fmt.Sprintf("%s|%s|%v", sub.Name, kind, alter), nt, "sub="+sub.Name, "tamper="+kind)
		if rec.WantSample() && nt {
			rec.Sample(map[string]interface{}{"sub": sub.Name, "tamper": kind, "altered": alter})
		}
		tamper := func(f []byte) []byte {
			switch kind {
			case "cut":
				return f[:len(f)/2]
			case "corrupt-gzip":
				// the body travels gzip-filtered (the caller's pipe): flip bytes in the middle of the frame
				for i := len(f) / 2; i < len(f)/2+6 && i < len(f); i++ {
					f[i] ^= 0x5a
				}
				return f
			}
			if sub.Name == "ws-json" {
				j := bytes.Index(f, []byte(`"xferPipe":[`))
				if j < 0 {
					return f
				}
				k := bytes.IndexByte(f[j:], ']')
				return append(append(append([]byte(nil), f[:j]...), []byte(`"xferPipe":[250]`)...), f[j+k+1:]...)
			}
			var pl wspb.Payload
			if err := codec.ProtoUnmarshal(f, &pl); err != nil {
				return f
			}
			pl.XferPipe = []byte{250}
			out, _ := codec.ProtoMarshal(&pl)
			return out
		}
		var hits int32
		tsub := vt.NamedProto{Name: sub.Name + "+tamper", Fn: func(rw erpc.IOWithReadBuffer) socket.Proto {
			return &tamperProto{inner: sub.Fn(rw), fn: sub.Fn, rw: rw, tamper: tamper, hits: &hits}
		}}
		w := vt.NewWorld()
		defer w.Close()
		srv, cli := w.Peer(erpc.PeerConfig{}), w.Peer(erpc.PeerConfig{})
		route := srv.RouteCallFunc(C02Tamperable)
		l, err := w.ConnectWS(cli, srv, tsub, nil)
		if err != nil || l.A == nil || l.B == nil {
			t.Fatalf("websocket connect failed: %v", err)
		}
		shared := make(chan erpc.CallCmd, n+2)
		cmds := make([]erpc.CallCmd, n)
		for i := range cmds {
			act := "ret"
			if alter[i] {
				act = "tamper"
			}
			settings := []erpc.MessageSetting{erpc.WithBodyCodec('j')}
			if kind == "corrupt-gzip" {
				settings = append(settings, erpc.WithXferPipe(vt.XGzip5))
			}
			cmds[i] = l.A.AsyncCall(route, &LibArg{Rid: fmt.Sprintf("w%d", i), Act: act}, new(LibRes), shared, settings...)
		}
		// let the replies travel, then apply the oracle
		want := 0
		for _, a := range alter {
			if a {
				want++
			}
		}
		vt.WaitUntilFor(2*time.Second, func() bool {
			return !l.A.Health() || (int(atomic.LoadInt32(&hits)) >= want && l.Pair.Delivered(vt.BtoA) == l.Pair.Written(vt.BtoA))
		})
		time.Sleep(500 * time.Microsecond)
		for i, cmd := range cmds {
			cmd := cmd
			ok := vt.WaitUntilFor(vt.LivenessBound, func() bool {
				select {
				case <-cmd.Done():
					return true
				default:
				}
				return !l.A.Health()
			})
			if !ok {
				t.Fatalf("C02 violated over websocket (%s, %s): the reply to call %d (altered: %v; all %v) was consumed, the session is healthy, and the call is still pending after %v; goroutines:\n%s", sub.Name, kind, i, alter[i], alter, vt.LivenessBound, vt.GoroutineDump())
			}
		}
		l.Pair.Cut()
		for i, cmd := range cmds {
			if !vt.WaitClosed(cmd.Done()) {
				t.Fatalf("C02 violated over websocket: call %d: %s", i, vt.Hang("Done() after the connection was lost"))
			}
			// (what a damaged frame decodes to is the remote's business; a frame naming an
			// unregistered filter, though, is refused - C12 - so its call cannot be OK)
			if cmd.StatusOK() && alter[i] && kind == "unregistered-filter" {
				t.Fatalf("C02 violated over websocket (%s): call %d completed OK although its reply frame named an unregistered filter", sub.Name, i)
			}
		}
		closed := make(chan struct{})
		go func() { l.A.Close(); close(closed) }()
		if !vt.WaitClosed(closed) {
			t.Fatalf("%s", vt.Hang("return of Session.Close"))
		}
		time.Sleep(200 * time.Microsecond)
		count := map[erpc.CallCmd]int{}
		for {
			select {
			case c := <-shared:
				count[c]++
				continue
			default:
			}
			break
		}
		for i, cmd := range cmds {
			if count[cmd] != 1 {
				t.Fatalf("C02 violated over websocket: call %d (altered: %v) was delivered %d times to its completion channel", i, alter[i], count[cmd])
			}
		}
	})
}
