package core

import (
	"bytes"
	"fmt"
	"strings"
	"testing"
	"time"

	erpc "github.com/henrylee2cn/erpc/v6"
	"pgregory.net/rapid"

	"verifharness/vt"
)

// C03 over the HTTP-style protocol with hand-written requests: the message type travels in the
// X-Mtype header. A CALL is answered exactly once, a PUSH is handled at most once and never
// answered, a request line of an unsupported type is answered by disconnecting.
func TestC03HTTPTypes(t *testing.T) {
	rec := vt.NewRec(t, "C03", "http-types", "a serving session speaking the HTTP-style protocol receives 1-5 hand-written requests (request line + headers + JSON body) whose X-Mtype header says CALL, PUSH or an unsupported type (0, 5, 9, 77), on registered and unregistered paths, a frame of unsupported type being the last one; oracle: one response per CALL carrying its X-Seq (404 for an unregistered path) and one handler run, no response and at most one push-handler run per PUSH (never a call handler), no handler run and a disconnect for an unsupported type; non-trivial = a PUSH or an unsupported type; distinct by case")
	proto := vt.HTTPProto()
	rapid.Check(t, func(t *rapid.T) {
		vt.Init()
		lib := newLib()
		n := rapid.IntRange(1, 5).Draw(t, "frames")
		type fr struct {
			Kind  string // call | push | badtype
			Mtype int
			Known bool
		}
		var frames []fr
		nt := false
		for i := 0; i < n; i++ {
			k := rapid.SampledFrom([]string{"call", "call", "push", "push", "badtype"}).Draw(t, "kind")
			f := fr{Kind: k, Known: rapid.IntRange(0, 3).Draw(t, "known") != 0}
			switch k {
			case "call":
				f.Mtype = int(erpc.TypeCall)
			case "push":
				f.Mtype = int(erpc.TypePush)
				nt = true
			default:
				f.Mtype = rapid.SampledFrom([]int{0, 5, 9, 77}).Draw(t, "mtype")
				nt = true
			}
			frames = append(frames, f)
			if k == "badtype" {
				break // the session ends there
			}
		}
		rec.Case(fmt.Sprintf("%+v", frames), nt, fmt.Sprintf("frames=%d", len(frames)))
		if rec.WantSample() && nt {
			rec.Sample(frames)
		}
		w := vt.NewWorld()
		defer w.Close()
		srv := w.Peer(erpc.PeerConfig{})
		callRoute, pushRoute := registerLib(srv)
		pair := vt.NewPair()
		pair.SetCapture(vt.BtoA, true)
		sess, stat := srv.ServeConn(pair.B, proto.Fn)
		if !stat.OK() {
			t.Fatalf("ServeConn: %v", stat)
		}
		// the remote end is a plain reader/writer of text
		replies := make(chan struct{})
		go func() {
			defer close(replies)
			buf := make([]byte, 4096)
			for {
				if _, err := pair.A.Read(buf); err != nil {
					return
				}
			}
		}()
		calls, killer := 0, false
		for i, f := range frames {
			path := callRoute
			if f.Kind == "push" {
				path = pushRoute
			}
			if !f.Known {
				path += "_nope"
			}
			body := fmt.Sprintf(`{"Rid":"h%d","Act":"ret","Val":"v"}`, i)
			req := fmt.Sprintf("POST %s HTTP/1.1\r\nContent-Type: application/json;charset=utf-8\r\nContent-Length: %d\r\nX-Seq: %d\r\nX-Mtype: %d\r\n\r\n%s", path, len(body), 100+i, f.Mtype, body)
			pair.A.Write([]byte(req))
			if f.Kind == "call" {
				calls++
			}
			if f.Kind == "badtype" {
				killer = true
			}
		}
		responses := func() [][]byte {
			var out [][]byte
			for _, p := range bytes.Split(pair.Stream(vt.BtoA), []byte("HTTP/1.1 ")) {
				if len(p) > 0 {
					out = append(out, p)
				}
			}
			return out
		}
		if killer {
			if !vt.WaitClosed(sess.CloseNotify()) {
				t.Fatalf("C03 violated over the HTTP protocol: a request of unsupported type %d did not end the session; %s", frames[len(frames)-1].Mtype, vt.Hang("the disconnect"))
			}
		} else {
			if !vt.WaitUntilFor(vt.LivenessBound, func() bool { return len(responses()) >= calls }) {
				t.Fatalf("C03 violated over the HTTP protocol: %d of %d CALLs answered on a connection that stays up (frames %+v)", len(responses()), calls, frames)
			}
			// pushes are handled asynchronously: give them a moment, then close gracefully (barrier)
			vt.WaitUntilFor(20*time.Millisecond, func() bool {
				for i, f := range frames {
					if f.Kind == "push" && f.Known && lib.Pushes(fmt.Sprintf("h%d", i)) == 0 {
						return false
					}
				}
				return true
			})
			sess.Close()
		}
		pair.A.Close()
		<-replies
		rs := responses()
		seqCount := map[int]int{}
		for _, r := range rs {
			for _, line := range strings.Split(string(r), "\r\n") {
				if strings.HasPrefix(line, "X-Seq:") {
					var s int
					fmt.Sscanf(strings.TrimSpace(strings.TrimPrefix(line, "X-Seq:")), "%d", &s)
					seqCount[s]++
				}
			}
		}
		for i, f := range frames {
			rid := fmt.Sprintf("h%d", i)
			switch f.Kind {
			case "call":
				if !killer && seqCount[100+i] != 1 {
					t.Fatalf("C03 violated over the HTTP protocol: CALL %d (X-Seq %d) got %d responses (frames %+v)", i, 100+i, seqCount[100+i], frames)
				}
				if seqCount[100+i] > 1 {
					t.Fatalf("C03 violated over the HTTP protocol: CALL %d answered %d times", i, seqCount[100+i])
				}
				want := 0
				if f.Known {
					want = 1
				}
				if n := lib.Calls(rid); n > 1 || (!killer && n != want) {
					t.Fatalf("C03 violated over the HTTP protocol: CALL %d (registered path: %v): handler ran %d times", i, f.Known, n)
				}
			case "push":
				if seqCount[100+i] != 0 {
					t.Fatalf("C03 violated over the HTTP protocol: PUSH %d (X-Seq %d) was answered with a response (frames %+v)", i, 100+i, frames)
				}
				if lib.Calls(rid) != 0 {
					t.Fatalf("C03 violated over the HTTP protocol: PUSH %d ran a CALL handler", i)
				}
				if n := lib.Pushes(rid); n > 1 || (!f.Known && n != 0) {
					t.Fatalf("C03 violated over the HTTP protocol: PUSH %d (registered path: %v): push handler ran %d times", i, f.Known, n)
				}
			default:
				if seqCount[100+i] != 0 || lib.Calls(rid)+lib.Pushes(rid) != 0 {
					t.Fatalf("C03 violated over the HTTP protocol: a request of unsupported type %d was answered (%d responses) or handled (%d handler runs)", f.Mtype, seqCount[100+i], lib.Calls(rid)+lib.Pushes(rid))
				}
			}
		}
	})
}
