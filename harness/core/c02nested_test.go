package core

import (
	"fmt"
	"sync"
	"testing"
	"time"

	erpc "github.com/henrylee2cn/erpc/v6"
	"pgregory.net/rapid"

	"verifharness/vt"
)

// C02, calls issued from inside a handler: a handler may use its own session (the framework
// is symmetric: "server can call client"). Such a call is a call like any other: when the
// connection is lost it completes with a connection error - it must not wait for the handler
// that is waiting for it.

type c02NestedCase struct {
	Proto    string
	Handlers int    // concurrent handlers, each with one inner call on its own session
	Inner    string // call | async
	Outer    int    // ordinary pending calls issued from outside a handler
	Event    string // cut | remoteclose | garbage | localclose-then-cut
}

type nestedRec struct {
	mu      sync.Mutex
	entered int
	results []*erpc.Status
	done    chan struct{}
	want    int
	inner   string
}

var nestedCur struct {
	sync.Mutex
	m map[erpc.Peer]*nestedRec
}

// C02Nested is the handler: it calls back over its own session and waits for the result.
func C02Nested(ctx erpc.CallCtx, a *LibArg) (*LibRes, *erpc.Status) {
	nestedCur.Lock()
	r := nestedCur.m[ctx.Peer()]
	nestedCur.Unlock()
	if r == nil {
		return nil, erpc.NewStatus(500, "stale handler", "")
	}
	r.mu.Lock()
	r.entered++
	inner := r.inner
	r.mu.Unlock()
	var st *erpc.Status
	if inner == "call" {
		st = ctx.Session().Call("/remote/never_answers", &LibArg{Rid: "inner-" + a.Rid}, new(LibRes)).Status()
	} else {
		cmd := ctx.Session().AsyncCall("/remote/never_answers", &LibArg{Rid: "inner-" + a.Rid}, new(LibRes), make(chan erpc.CallCmd, 1))
		<-cmd.Done()
		st = cmd.Status()
	}
	r.mu.Lock()
	r.results = append(r.results, st)
	if len(r.results) == r.want {
		close(r.done)
	}
	r.mu.Unlock()
	return &LibRes{Rid: a.Rid}, nil
}

const ruleC02Nested = "a real session whose remote is scripted; the remote sends 1-3 CALLs whose handlers each issue a call (Call, or AsyncCall and wait) over their own session that the remote never answers, plus 0-2 ordinary pending calls issued from outside a handler; then the link is cut / closed by the remote / fed over-limit garbage / locally closed and then cut; oracle: every inner and outer call completes (20 s bound + goroutine dump) with a connection-class status, never OK; the handlers return; the close notification fires; non-trivial always; distinct by case"

func runC02Nested(c c02NestedCase, protos []vt.NamedProto) []string {
	vt.Init()
	newLib()
	w := vt.NewWorld()
	defer w.Close()
	p := w.Peer(erpc.PeerConfig{})
	route := p.RouteCallFunc(C02Nested)
	rec := &nestedRec{done: make(chan struct{}), want: c.Handlers, inner: c.Inner}
	nestedCur.Lock()
	if nestedCur.m == nil {
		nestedCur.m = map[erpc.Peer]*nestedRec{}
	}
	nestedCur.m[p] = rec
	nestedCur.Unlock()
	defer func() { nestedCur.Lock(); delete(nestedCur.m, p); nestedCur.Unlock() }()
	proto := protoByName(protos, c.Proto)
	pair := vt.NewPair()
	sess, stat := p.ServeConn(pair.A, proto.Fn)
	if !stat.OK() {
		return []string{"ServeConn: " + stat.String()}
	}
	raw := vt.NewRawPeer(pair, pair.B, proto.Fn)
	defer raw.Close()
	var fails []string
	failf := func(format string, a ...interface{}) { fails = append(fails, fmt.Sprintf(format, a...)) }
	for i := 0; i < c.Handlers; i++ {
		raw.Send(vt.Msg{Seq: int32(100 + i), Mtype: erpc.TypeCall, Method: route, Codec: 'j', Body: []byte(fmt.Sprintf(`{"Rid":"h%d"}`, i))})
	}
	var outer []erpc.CallCmd
	for i := 0; i < c.Outer; i++ {
		outer = append(outer, sess.AsyncCall("/remote/never_answers", &LibArg{Rid: fmt.Sprintf("outer%d", i)}, new(LibRes), make(chan erpc.CallCmd, 1)))
	}
	// every inner and outer CALL frame has reached the remote: the handlers are waiting
	if !raw.WaitFrames(c.Handlers + c.Outer) {
		return []string{vt.Hang("the inner and outer CALL frames on the wire")}
	}
	var closeDone chan struct{}
	switch c.Event {
	case "cut":
		pair.Cut()
	case "remoteclose":
		raw.Close()
	case "garbage":
		raw.SendBytes([]byte{0xff, 0xff, 0xff, 0xff, 1, 2, 3, 4, 5, 6, 7})
	default:
		closeDone = make(chan struct{})
		go func() { sess.Close(); close(closeDone) }()
		vt.WaitUntilFor(2*time.Second, func() bool { return !sess.Health() })
		pair.Cut()
	}
	if !vt.WaitClosed(rec.done) {
		rec.mu.Lock()
		n := len(rec.results)
		rec.mu.Unlock()
		failf("%s", vt.Hang(fmt.Sprintf("completion of the calls issued by the %d handlers over their own session after the connection was lost (%d completed); their", c.Handlers, n)))
		return fails
	}
	rec.mu.Lock()
	for i, st := range rec.results {
		if st.OK() || !isConnErr(st) {
			failf("inner call %d completed with %v after the connection was lost, want a connection error", i, st)
		}
	}
	rec.mu.Unlock()
	for i, cmd := range outer {
		if !vt.WaitClosed(cmd.Done()) {
			failf("%s", vt.Hang(fmt.Sprintf("completion of outer call %d", i)))
			return fails
		}
		if cmd.StatusOK() {
			failf("outer call %d completed OK although no reply was ever sent", i)
		}
	}
	if !vt.WaitClosed(sess.CloseNotify()) {
		failf("%s", vt.Hang("close notification of the session"))
	}
	if closeDone != nil && !vt.WaitClosed(closeDone) {
		failf("%s", vt.Hang("return of Session.Close"))
	}
	return fails
}

func TestC02NestedCall(t *testing.T) {
	rec := vt.NewRec(t, "C02", "nested", ruleC02Nested)
	protos := vt.StreamProtos()
	rapid.Check(t, func(t *rapid.T) {
		c := c02NestedCase{
			Proto:    rapid.SampledFrom(protos).Draw(t, "proto").Name,
			Handlers: rapid.IntRange(1, 3).Draw(t, "handlers"),
			Inner:    rapid.SampledFrom([]string{"call", "async"}).Draw(t, "inner"),
			Outer:    rapid.IntRange(0, 2).Draw(t, "outer"),
			Event:    rapid.SampledFrom([]string{"cut", "cut", "remoteclose", "garbage", "localclose-then-cut"}).Draw(t, "event"),
		}
		rec.Case(fmt.Sprintf("%+v", c), true, "event="+c.Event, "inner="+c.Inner)
		if rec.WantSample() {
			rec.Sample(c)
		}
		if fails := runC02Nested(c, protos); len(fails) > 0 {
			t.Fatalf("C02 violated (%d findings), first: %s\ncase: %+v", len(fails), fails[0], c)
		}
	})
}
