package core

import (
	"encoding/binary"
	"fmt"
	"runtime"
	"strings"
	"sync"
	"testing"
	"time"

	erpc "github.com/henrylee2cn/erpc/v6"
	"github.com/henrylee2cn/erpc/v6/codec"
	"pgregory.net/rapid"

	"verifharness/vt"
)

// ---- refused frames: the history dimension ----------------------------------------
//
// A frame is "refused" when the receiving session gives up on it WHILE it is being
// read - after parts of it were already taken in (filter ids, header, route lookup,
// argument object) - and drops the connection instead of handling it:
//
//   codec0        an intact frame that has a body but names body codec id 0
//   md5-altered   a genuinely packed frame whose outermost filter is the integrity filter,
//                 one byte of the packed payload (content or checksum) altered in transit
//   gzip-damaged  a genuinely packed frame whose outermost filter is gzip, the stream cut
//                 short (the frame itself is complete and correctly sized)
//   unregistered  a genuinely packed frame into whose filter list an unregistered id was
//                 inserted (after 0..n registered ones)
//   cut           a valid frame of which only a proper prefix arrives before the remote
//                 hangs up
//
// The three stream protocols share the outer layout {size u32}{n}{n filter ids}{payload
// packed through the pipe} (raw counts the size field itself, json/pb do not), which is
// all the builders below rely on.

type refusedTarget struct {
	Name     string // evidence class of the route ("call:json", "push:pb", "other" ...)
	Mtype    byte
	Route    string
	Codec    byte
	Body     func(tag string) []byte // a body the route's handler could decode
	BytesArg bool                    // the handler's argument is a plain *[]byte, which is filled without any codec
}

type refusedSpec struct {
	Class   string
	Target  string
	Mtype   byte
	Route   string
	Seq     int32
	Codec   byte
	Body    []byte
	Meta    []vt.KV
	Pipe    []byte // registered filters the frame is genuinely packed through, outermost first
	Unreg   byte   // unregistered: the id that is inserted ...
	At      int    // ... at this index of the id list
	PosPm   int    // md5-altered: position of the altered byte / gzip-damaged: kept length / cut: cut offset, in 1/1000 of the length
	Xor     byte   // md5-altered: what the byte is xor-ed with (never 0)
	Pending bool   // REPLY frames: the receiving peer has a call pending towards the sender, the frame carries its sequence number
}

func (f refusedSpec) String() string {
	return fmt.Sprintf("{%s %s mtype=%d route=%q seq=%d codec=%d body=%s pipe=%q unreg=%d@%d pos=%d/1000 xor=%#x pending=%v}",
		f.Class, f.Target, f.Mtype, f.Route, f.Seq, f.Codec, vt.Hex(f.Body), f.Pipe, f.Unreg, f.At, f.PosPm, f.Xor, f.Pending)
}

var refusedClasses = []string{"codec0", "md5-altered", "gzip-damaged", "unregistered", "cut"}

// genRefused draws one refused frame aimed at one of the given registered routes or at a
// route nobody registered.
func genRefused(t *rapid.T, tag string, targets []refusedTarget, classes []string) refusedSpec {
	f := refusedSpec{Class: rapid.SampledFrom(classes).Draw(t, "rclass")}
	var tg refusedTarget
	for {
		if rapid.IntRange(0, 4).Draw(t, "rother") == 0 {
			tg = refusedTarget{Name: "other", Mtype: rapid.SampledFrom([]byte{erpc.TypeCall, erpc.TypePush}).Draw(t, "rotype"),
				Route: rapid.SampledFrom([]string{"/nope", "/c01_json/x", "/"}).Draw(t, "roroute"), Codec: 's',
				Body: func(tag string) []byte { return []byte(tag) }}
		} else {
			tg = rapid.SampledFrom(targets).Draw(t, "rtarget")
		}
		// (an intact frame to a handler with a plain *[]byte argument is a legitimate message
		// whatever codec id it names - the bytes are handed over as they are - so it is no refused frame)
		if !(f.Class == "codec0" && tg.BytesArg) {
			break
		}
	}
	f.Target, f.Mtype, f.Route, f.Codec = tg.Name, tg.Mtype, tg.Route, tg.Codec
	f.Seq = int32(rapid.IntRange(0, 9).Draw(t, "rseq"))
	f.Body = tg.Body(tag)
	if rapid.IntRange(0, 4).Draw(t, "rasreply") == 0 {
		f.Mtype = erpc.TypeReply
		f.Pending = rapid.Bool().Draw(t, "rpending")
	}
	if rapid.Bool().Draw(t, "rmeta") {
		f.Meta = []vt.KV{{K: "tok", V: tag}, {K: "fill", V: "!"}, {K: "xl", V: "n3"}, {K: "x0", V: "!!!"}}
	}
	rest := func(max int) []byte {
		return rapid.SliceOfN(rapid.SampledFrom(vt.RegisteredXfer), 0, max).Draw(t, "rpipe")
	}
	f.PosPm = rapid.IntRange(0, 999).Draw(t, "rpos")
	switch f.Class {
	case "codec0":
		f.Codec = 0
		f.Pipe = rest(2)
	case "md5-altered":
		f.Pipe = append([]byte{vt.XMd5}, rest(2)...)
		f.Xor = byte(rapid.IntRange(1, 255).Draw(t, "rxor"))
	case "gzip-damaged":
		f.Pipe = append([]byte{rapid.SampledFrom(vt.GzipIDs).Draw(t, "rgz")}, rest(2)...)
	case "unregistered":
		f.Pipe = rest(3)
		f.Unreg = vt.UnregisteredXfer(t, "runreg")
		f.At = rapid.IntRange(0, len(f.Pipe)).Draw(t, "rat")
	case "cut":
		f.Pipe = rest(3)
		if rapid.Bool().Draw(t, "rcutlate") {
			f.PosPm = 999
		}
	}
	if f.Class != "codec0" && rapid.IntRange(0, 2).Draw(t, "rcodec0too") == 0 && !tg.BytesArg {
		f.Codec = 0
	}
	return f
}

func packFrame(proto vt.NamedProto, m vt.Msg) ([]byte, error) {
	wrw := &vt.RW{}
	if err := proto.Fn(wrw).Pack(m.Build()); err != nil {
		return nil, err
	}
	return wrw.Written(), nil
}

func joinFrame(proto vt.NamedProto, ids, payload []byte) []byte {
	size := 1 + len(ids) + len(payload)
	if proto.Name == "raw" {
		size += 4
	}
	out := make([]byte, 4, 4+size)
	binary.BigEndian.PutUint32(out, uint32(size))
	out = append(out, byte(len(ids)))
	out = append(out, ids...)
	return append(out, payload...)
}

// build returns the bytes that are written for f (seq replaces f.Seq for a REPLY to a pending call).
func (f refusedSpec) build(proto vt.NamedProto, seq int32) ([]byte, error) {
	m := vt.Msg{Seq: seq, Mtype: f.Mtype, Method: f.Route, Meta: f.Meta, Codec: f.Codec, Body: f.Body, Pipe: f.Pipe}
	frame, err := packFrame(proto, m)
	if err != nil {
		return nil, err
	}
	if len(frame) < 5 || len(frame) < 5+int(frame[4]) || int(frame[4]) != len(f.Pipe) {
		return nil, fmt.Errorf("unexpected frame layout %s", vt.Hex(frame))
	}
	ids, payload := frame[5:5+len(f.Pipe)], frame[5+len(f.Pipe):]
	switch f.Class {
	case "md5-altered":
		p := append([]byte(nil), payload...)
		p[f.PosPm*len(p)/1000] ^= f.Xor
		return joinFrame(proto, ids, p), nil
	case "gzip-damaged":
		keep := 1 + f.PosPm*(len(payload)-1)/1000 // 1 .. len-1
		if keep >= len(payload) {
			keep = len(payload) - 1
		}
		return joinFrame(proto, ids, payload[:keep]), nil
	case "unregistered":
		nids := append(append(append([]byte(nil), ids[:f.At]...), f.Unreg), ids[f.At:]...)
		return joinFrame(proto, nids, payload), nil
	case "cut":
		k := 1 + f.PosPm*(len(frame)-1)/1000 // 1 .. len-1
		if k >= len(frame) {
			k = len(frame) - 1
		}
		return frame[:k], nil
	}
	return frame, nil
}

// foreignConn is one connection of a scripted remote to a peer of the case.
type foreignConn struct {
	sess erpc.Session
	raw  *vt.RawPeer
	// the call the peer had pending towards the remote, if any
	cmd  erpc.CallCmd
	res  *string
	held string
}

// deliverRefused opens a connection of its own to peer, lets the remote send f on it and waits
// until the peer is done with that connection. It returns a harness-level problem or "".
func deliverRefused(peer erpc.Peer, proto vt.NamedProto, f refusedSpec, tag string) (fc *foreignConn, problem string) {
	pair := vt.NewPair()
	sess, stat := peer.ServeConn(pair.B, proto.Fn)
	if !stat.OK() {
		return nil, "harness: ServeConn for a foreign connection: " + stat.String()
	}
	fc = &foreignConn{sess: sess, raw: vt.NewRawPeer(pair, pair.A, proto.Fn)}
	seq := f.Seq
	if f.Pending {
		fc.res = new(string)
		arg := "to-the-foreign-remote " + tag
		fc.cmd = sess.AsyncCall("/foreign/remote", &arg, fc.res, make(chan erpc.CallCmd, 1), erpc.WithBodyCodec('s'))
		if !fc.raw.WaitFor(func(fr []vt.RawFrame) bool { return len(fr) >= 1 }) || len(fc.raw.Frames()) == 0 {
			fc.raw.Close()
			return fc, "harness: the call towards the foreign remote was not written"
		}
		seq = fc.raw.Frames()[0].Seq
	}
	b, err := f.build(proto, seq)
	if err != nil {
		fc.raw.Close()
		return fc, "harness: building a refused frame: " + err.Error()
	}
	fc.raw.SendBytes(b)
	// the remote hangs up once the peer has taken the bytes in (for a cut frame that is the cut)
	vt.WaitUntilFor(2*time.Second, func() bool { return pair.Delivered(vt.AtoB) >= int64(len(b)) || !sess.Health() })
	fc.raw.Close()
	if !vt.WaitClosed(sess.CloseNotify()) {
		return fc, "harness: " + vt.Hang("the end of a foreign connection after its remote hung up")
	}
	if fc.cmd != nil {
		if !vt.WaitClosed(fc.cmd.Done()) {
			return fc, "harness: " + vt.Hang("completion of the call that was pending on a foreign connection when it ended")
		}
		fc.held = *fc.res
	}
	return fc, ""
}

// ---- C01 with a history of refused frames ---------------------------------------------

type c01Foreign struct {
	Peer   int    // 0: the connection goes to peer A, 1: to peer B
	When   string // before | during
	Yields int    // during: scheduler yields before this connection is opened
	Proto  string
	Frame  refusedSpec
}

func c01Targets(r routes) []refusedTarget {
	var out []refusedTarget
	for _, kind := range carrierNames {
		car := carriers[kind]
		body := func(tag string) []byte {
			c, err := codec.Get(car.codec)
			if err != nil {
				panic(err)
			}
			b, err := c.Marshal(car.mk(tag))
			if err != nil {
				panic(err)
			}
			return b
		}
		out = append(out,
			refusedTarget{Name: "call:" + kind, Mtype: erpc.TypeCall, Route: r.call[kind], Codec: car.codec, Body: body, BytesArg: kind == "pbytes"},
			refusedTarget{Name: "push:" + kind, Mtype: erpc.TypePush, Route: r.push[kind], Codec: car.codec, Body: body, BytesArg: kind == "pbytes"})
	}
	return out
}

// c01RouteNames are the names registerC01 yields (they depend on the handler names only).
var c01RouteNames = func() routes {
	p := erpc.NewPeer(erpc.PeerConfig{})
	defer p.Close()
	return registerC01(p)
}

const ruleC01h = "the generated concurrent program of the cross-talk check (1-3 well-behaved sessions between two peers over raw/json/pb/websocket, 1-8 workers x 1-12 self-authenticating Call/AsyncCall/Push ops, carriers per codec, pipes, read chunking) with a HISTORY: 0-6 foreign connections (scripted remotes over their own in-memory connections, stream protocol drawn independently) to either peer, before the program or while it runs, each delivering one generated refused frame - {intact frame with body codec id 0 and a body, genuinely packed frame with one byte altered behind an outermost md5 filter, with a truncated outermost gzip stream, with an unregistered id inserted into its filter list, frame cut at a generated offset} x {CALL, PUSH, REPLY (optionally to a call the peer has pending towards that remote)} x {routes of the well-behaved traffic, unregistered routes} x pipes of 0-3 filters - after which the remote hangs up; half of the cases run on a single P (pooled objects are per-P: the object released last is handed out next); oracle: property C01 for the well-behaved traffic exactly as in the cross-talk check (every call completes within the bound and OK, carries the reply of ITS handler for ITS argument and metadata, every handler/push receiver sees only what its sender supplied under its own route, every push arrives once), no well-behaved session is disconnected, and the result object of a call that was pending on a foreign connection is not written after that call completed; non-trivial = at least one refused frame and at least two well-behaved messages; distinct by case"

func TestC01AfterRefusedFrames(t *testing.T) {
	rec := vt.NewRec(t, "C01", "after-refused-frames", ruleC01h)
	protos := append(vt.StreamProtos(), vt.WsSubProtos()...)
	streams := vt.StreamProtos()
	vt.Init()
	targets := c01Targets(c01RouteNames())
	rapid.Check(t, func(t *rapid.T) {
		c := genC01(t, protos, carrierNames)
		nf := rapid.IntRange(0, 6).Draw(t, "foreign")
		foreign := make([]c01Foreign, nf)
		for i := range foreign {
			foreign[i] = c01Foreign{
				Peer:   rapid.IntRange(0, 1).Draw(t, "fpeer"),
				When:   rapid.SampledFrom([]string{"before", "before", "during"}).Draw(t, "fwhen"),
				Yields: rapid.IntRange(0, 20).Draw(t, "fyields"),
				Proto:  rapid.SampledFrom(streams).Draw(t, "fproto").Name,
			}
			foreign[i].Frame = genRefused(t, fmt.Sprintf("FOREIGN%d|zz|not-for-you", i), targets, refusedClasses)
		}
		singleP := rapid.Bool().Draw(t, "singleP")
		nmsg := 0
		for _, ops := range c.Workers {
			nmsg += len(ops)
		}
		nt := nf >= 1 && nmsg >= 2
		classes := []string{"proto=" + c.Proto, fmt.Sprintf("singleP=%v", singleP), fmt.Sprintf("foreign=%d", nf)}
		rec.Case(fmt.Sprintf("%+v|%v|%v", c, foreign, singleP), nt, classes...)
		for _, f := range foreign {
			rec.Class("refused="+f.Frame.Class, 1)
			rec.Class(fmt.Sprintf("refused-mtype=%d", f.Frame.Mtype), 1)
			rec.Class("refused-when="+f.When, 1)
			if f.Frame.Pending {
				rec.Class("refused-reply-to-pending-call", 1)
			}
		}
		if rec.WantSample() && nt {
			var fs []string
			for _, f := range foreign {
				fs = append(fs, fmt.Sprintf("peer %d %s %s %s", f.Peer, f.When, f.Proto, f.Frame))
			}
			rec.Sample(map[string]interface{}{"proto": c.Proto, "sessions": c.Sessions, "workers": len(c.Workers), "first_worker_ops": c.Workers[0], "foreign": fs, "single_P": singleP})
		}
		if singleP {
			defer runtime.GOMAXPROCS(runtime.GOMAXPROCS(1))
		}
		around := func(a, b erpc.Peer, links []*vt.Link, state *c01State) (during, after func()) {
			var mu sync.Mutex
			var conns []*foreignConn
			deliver := func(i int, f c01Foreign) {
				peer := a
				if f.Peer == 1 {
					peer = b
				}
				fc, problem := deliverRefused(peer, protoByName(streams, f.Proto), f.Frame, fmt.Sprintf("f%d", i))
				if problem != "" {
					state.fail("%s (foreign connection %d: %s)", problem, i, f.Frame)
				}
				if fc != nil {
					mu.Lock()
					conns = append(conns, fc)
					mu.Unlock()
				}
			}
			for i, f := range foreign {
				if f.When == "before" {
					deliver(i, f)
				}
			}
			during = func() {
				for i, f := range foreign {
					if f.When != "during" {
						continue
					}
					for y := 0; y < f.Yields; y++ {
						runtime.Gosched()
					}
					deliver(i, f)
				}
			}
			after = func() {
				for i, l := range links {
					if !l.A.Health() || !l.B.Health() {
						state.fail("well-behaved session %d was disconnected (health %v/%v) although nothing was wrong on its connection", i, l.A.Health(), l.B.Health())
					}
				}
				mu.Lock()
				defer mu.Unlock()
				for _, fc := range conns {
					if fc.cmd != nil && *fc.res != fc.held {
						state.fail("the result object of a call that had completed (%s) on a foreign connection was written afterwards:\n then %s\n now  %s", fc.cmd.Status().String(), vt.Trunc(fc.held), vt.Trunc(*fc.res))
					}
				}
			}
			return during, after
		}
		errs, _, n := runC01With(c, protos, around)
		rec.Class("messages", n)
		if len(errs) > 0 {
			if strings.HasPrefix(errs[0], "harness:") {
				t.Fatalf("%s\ncase: %+v\nforeign: %v", errs[0], c, foreign)
			}
			t.Fatalf("C01 violated (%d findings) after refused frames on other connections, first: %s\ncase: %+v\nforeign: %v singleP=%v", len(errs), errs[0], c, foreign, singleP)
		}
	})
}
