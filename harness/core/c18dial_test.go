package core

import (
	"fmt"
	"net"
	"strings"
	"sync"
	"sync/atomic"
	"testing"
	"time"

	erpc "github.com/henrylee2cn/erpc/v6"
	"github.com/henrylee2cn/erpc/v6/plugin/overloader"
	"pgregory.net/rapid"

	"verifharness/vt"
)

// C18 with the overload plugin on the DIALING side: PostDial takes the slot, PostDisconnect
// gives it back, and a redial-enabled session goes through PostDial(isRedial=true) any number of
// times in between while it keeps the one slot of its first dial.

const c18DialInterval = 2 * time.Millisecond

// Another dial hook that refuses, next to the overloader. Two of the four (stage, position)
// combinations are listed known findings: while a key is listed its position is left out of the
// generated ones (and counted as excluded); when it is not listed the position is generated and
// asserted like the others. TestC18KnownProbes reproduces both with fixed histories.
//   - K1, a FIRST dial refused by a hook AFTER the overloader: the overloader has taken a slot, Peer.Dial
//     drops the connection without running the disconnect hooks (ServeConn closes the session), so
//     the slot of every refused attempt is lost;
//   - K2, a REDIAL refused by a hook BEFORE the overloader until the budget is exhausted: socket.Reset has
//     dropped the session swap (the overloader's mark), the overloader's PostDial(isRedial) is never
//     reached, and the final PostDisconnect finds no mark.
const (
	c18KeyLaterHook    = "C18:dial-side:slot-lost-when-later-dial-hook-refuses"
	c18KeyRedialBefore = "C18:dial-side:slot-lost-when-redials-refused-before-overloader"
)

// c18Positions returns the positions of the refusing hook that are generated: both, minus the
// one that a listed known finding covers.
func c18Positions(rec *vt.Rec, key, knownPos string) []string {
	if vt.IsKnown(key) {
		rec.Exclude(key)
		if knownPos == "after" {
			return []string{"before"}
		}
		return []string{"after"}
	}
	return []string{"before", "after"}
}

// c18DialObs is registered AFTER the overloader: when it has seen a hook for a session, the
// overloader's hook of the same stage has already run (quiescent point for the model).
type c18DialObs struct {
	mu          sync.Mutex
	redials     map[interface{}]int
	disconnects map[interface{}]int
}

func (o *c18DialObs) Name() string { return "c18dialobs" }
func (o *c18DialObs) PostDial(s erpc.PreSession, isRedial bool) *erpc.Status {
	if isRedial {
		o.mu.Lock()
		o.redials[interface{}(s)]++
		o.mu.Unlock()
	}
	return nil
}
func (o *c18DialObs) PostDisconnect(s erpc.BaseSession) *erpc.Status {
	o.mu.Lock()
	o.disconnects[interface{}(s)]++
	o.mu.Unlock()
	return nil
}
func (o *c18DialObs) redialsOf(s erpc.Session) int {
	o.mu.Lock()
	defer o.mu.Unlock()
	return o.redials[interface{}(s)]
}
func (o *c18DialObs) disconnectsOf(s erpc.Session) int {
	o.mu.Lock()
	defer o.mu.Unlock()
	return o.disconnects[interface{}(s)]
}

// c18DialReject is another dial hook (a failed authentication, say) that refuses while armed.
type c18DialReject struct {
	name  string
	armed int32 // 1: refuse first dials; 2: refuse redials
}

func (r *c18DialReject) Name() string { return r.name }
func (r *c18DialReject) PostDial(s erpc.PreSession, isRedial bool) *erpc.Status {
	switch atomic.LoadInt32(&r.armed) {
	case 1:
		if !isRedial {
			return erpc.NewStatus(403, "refused by another dial hook", "c18")
		}
	case 2:
		if isRedial {
			return erpc.NewStatus(403, "redial refused by another dial hook", "c18")
		}
	}
	return nil
}

// c18ConnOf finds the accepted connection that belongs to the client session (newest first: an
// ephemeral port may be reused within a case).
func c18ConnOf(ts *tcpServer, s erpc.Session) net.Conn {
	local := s.LocalAddr().String()
	ts.mu.Lock()
	defer ts.mu.Unlock()
	for i := len(ts.conns) - 1; i >= 0; i-- {
		if ts.conns[i].RemoteAddr().String() == local {
			return ts.conns[i]
		}
	}
	return nil
}

// c18StopListening closes the listening socket only (accepted connections stay), so that
// further dials are refused.
func c18StopListening(ts *tcpServer) {
	ts.mu.Lock()
	ln := ts.ln
	ts.ln = nil
	ts.mu.Unlock()
	if ln != nil {
		ln.Close()
	}
	ts.wg.Wait()
}

type c18DialSess struct {
	s       erpc.Session
	redials int // successful redials this session went through
}

func TestC18DialSide(t *testing.T) {
	rec := vt.NewRec(t, "C18", "dial-side", "DIALING peer with overloader.New{MaxConn:N} (N 1-3) as plugin and RedialTimes in {0, 2, unlimited} (interval 2 ms) against a harness-owned loopback listener in front of a serving peer; rapid state machine: dial (expected verdict from the integer model: admitted iff now < N, else refused with the overload status - with an unlimited budget a refused dial keeps retrying, so there the dial is started while full, must not be admitted, and is admitted once a slot was freed), kill the connection of an admitted session and wait for its redial (PostDial isRedial=true observed; with budget 0 the session ends), refuse new connections and kill one session's connection so that its redial budget is exhausted (session ends), outage of the whole listener (budget exhausted: all sessions end; unlimited: all redial), a dial refused by another dial hook placed before or after the overloader (consumes no slot; finite budgets), a session whose redial attempts are all refused by another dial hook placed before or after the overloader (session ends) - of these four the two positions covered by a listed known finding are left out while it is listed (counted in excluded_known), close an admitted session locally, Update(MaxConn); quiescent points are taken from a recording plugin placed after the overloader; invariant after every step: CountSession == admitted live sessions of the model, each can complete a call, a dial is admitted iff model.now < N; at the end every session is ended and exactly N further dials are admitted, the next one is not (each ended session returned its slot exactly once); non-trivial = a session that went through a redial ended, or a refusal was followed by a later dial; distinct by history")
	rapid.Check(t, func(t *rapid.T) {
		vt.Init()
		newLib()
		limit := rapid.IntRange(1, 3).Draw(t, "limit")
		budget := rapid.SampledFrom([]int32{0, 2, 2, -1, -1}).Draw(t, "budget")
		w := vt.NewWorld()
		defer w.Close()
		srv := w.Peer(erpc.PeerConfig{})
		route, _ := registerLib(srv)
		ts := &tcpServer{peer: srv}
		if err := ts.listen(); err != nil {
			t.Skip("no loopback listener: " + err.Error())
		}
		defer ts.down()
		ov := overloader.New(overloader.LimitConfig{MaxConn: int32(limit)})
		obs := &c18DialObs{redials: map[interface{}]int{}, disconnects: map[interface{}]int{}}
		rejBefore, rejAfter := &c18DialReject{name: "c18rejbefore"}, &c18DialReject{name: "c18rejafter"}
		cli := w.Peer(erpc.PeerConfig{RedialTimes: budget, RedialInterval: c18DialInterval, DialTimeout: 2 * time.Second}, rejBefore, ov, rejAfter, obs)

		var live []*c18DialSess
		var hist []string
		refused, nt := false, false
		fail := func(format string, a ...interface{}) {
			t.Fatalf("C18 violated: %s\n(limit %d, redial budget %d) history: %v", fmt.Sprintf(format, a...), limit, budget, hist)
		}
		harness := func(format string, a ...interface{}) {
			t.Fatalf("harness: %s\n(limit %d, redial budget %d) history: %v", fmt.Sprintf(format, a...), limit, budget, hist)
		}
		// a case that met a harness-level obstacle is discarded as a whole: inside a state-machine
		// action t.Skip only invalidates that action, so the remaining actions become no-ops and the
		// case is skipped after the loop
		discard := ""
		skipCase := func(why string) {
			rec.Class("discarded: "+why, 1)
			discard = why
			t.Skip(why)
		}
		relisten := func() {
			if err := ts.listen(); err != nil {
				// (the port was handed to another process while the listener was closed)
				skipCase("cannot re-listen on the same port")
			}
		}
		type dialRes struct {
			s  erpc.Session
			st *erpc.Status
		}
		dial := func() dialRes {
			var r dialRes
			if !vt.Returns(func() { r.s, r.st = cli.Dial(ts.addr) }) {
				if budget < 0 && len(live) < limit {
					// an unlimited retry budget turns a refusal into an endless retry
					fail("a dial (unlimited retry budget) is still being refused while only %d of %d slots are held by live sessions: %s", len(live), limit, vt.Hang("return of Dial"))
				}
				t.Fatalf("%s\nhistory: %v", vt.Hang("return of Dial"), hist)
			}
			return r
		}
		callOK := func(s erpc.Session, when string) {
			res := new(LibRes)
			cmd := s.AsyncCall(route, &LibArg{Rid: "c18d", Act: "ret", Val: "ok"}, res, make(chan erpc.CallCmd, 1))
			if !vt.WaitClosed(cmd.Done()) {
				t.Fatalf("%s\nhistory: %v", vt.Hang("completion of a call "+when), hist)
			}
			if !cmd.StatusOK() || res.Val != "ok" {
				fail("an admitted session cannot complete a call %s: %v", when, cmd.Status())
			}
		}
		admitted := func(r dialRes, what string) {
			if !r.st.OK() {
				if !strings.Contains(r.st.String(), "overload") {
					harness("%s failed for a reason other than the limiter: %v", what, r.st)
				}
				fail("%s was refused (%v) although %d of %d slots are held by live sessions", what, r.st, len(live), limit)
			}
			live = append(live, &c18DialSess{s: r.s})
			callOK(r.s, "right after its dial")
		}
		// waitEnded: the session is over and the disconnect hooks (overloader first) have run
		// (downSince >= 0: the harness listener is closed and the session had gone through that many
		// redials before; a redial that succeeds now has reached a foreign listener - another process
		// was given the port in the meantime - and the case is discarded)
		waitEnded := func(d *c18DialSess, how string, downSince int) {
			foreign := false
			if !vt.WaitUntil(func() bool {
				select {
				case <-d.s.CloseNotify():
					return true
				default:
				}
				foreign = downSince >= 0 && obs.redialsOf(d.s) > downSince
				return foreign
			}) {
				t.Fatalf("%s\nhistory: %v", vt.Hang("close notification of a session after "+how), hist)
			}
			if foreign {
				skipCase("a redial succeeded while the harness listener was closed (port taken by another process)")
			}
			if !vt.WaitUntil(func() bool { return obs.disconnectsOf(d.s) >= 1 }) {
				t.Fatalf("%s\nhistory: %v", vt.Hang("the disconnect hook of a session after "+how), hist)
			}
			if d.redials > 0 {
				nt = true
			}
		}
		remove := func(i int) {
			live = append(live[:i], live[i+1:]...)
		}
		killConn := func(d *c18DialSess) {
			var c net.Conn
			if !vt.WaitUntilFor(5*time.Second, func() bool { c = c18ConnOf(ts, d.s); return c != nil }) {
				harness("the accepted connection of a live session was not found")
			}
			c.Close()
		}
		waitRedialed := func(d *c18DialSess, before int, how string) {
			if !vt.WaitUntil(func() bool { return obs.redialsOf(d.s) > before && d.s.Health() }) {
				t.Fatalf("%s\nhistory: %v", vt.Hang("re-establishment of a session after "+how), hist)
			}
			d.redials++
			callOK(d.s, "after its redial")
		}
		closeLocal := func(i int) {
			d := live[i]
			if !vt.Returns(func() { d.s.Close() }) {
				t.Fatalf("%s\nhistory: %v", vt.Hang("Close of an admitted session"), hist)
			}
			waitEnded(d, "its local Close", -1)
			remove(i)
		}
		// a dial that must not be admitted now
		dialRefused := func(what string) {
			if refused {
				nt = true
			}
			if budget >= 0 {
				r := dial()
				hist = append(hist, fmt.Sprintf("dial=%v", r.st.OK()))
				if r.st.OK() {
					live = append(live, &c18DialSess{s: r.s})
					fail("%s was admitted although %d sessions hold the %d slots", what, len(live)-1, limit)
				}
				refused = true
				return
			}
			// unlimited budget: a refused dial keeps retrying; it must stay unadmitted while the
			// limiter is full and is admitted as soon as a slot is free
			done := make(chan dialRes, 1)
			go func() {
				var r dialRes
				r.s, r.st = cli.Dial(ts.addr)
				done <- r
			}()
			time.Sleep(4 * c18DialInterval)
			select {
			case r := <-done:
				hist = append(hist, fmt.Sprintf("dial-while-full=%v", r.st.OK()))
				if r.st.OK() {
					live = append(live, &c18DialSess{s: r.s})
					fail("%s was admitted although %d sessions hold the %d slots", what, len(live)-1, limit)
				}
				harness("a dial with an unlimited retry budget gave up: %v", r.st)
			default:
			}
			refused = true
			// free exactly one slot: the pending dial takes it
			if len(live) != limit {
				harness("pending dial with %d live sessions and limit %d", len(live), limit)
			}
			i := rapid.IntRange(0, len(live)-1).Draw(t, "free")
			hist = append(hist, fmt.Sprintf("dial-while-full(pending),close(%d,redials=%d)", i, live[i].redials))
			closeLocal(i)
			select {
			case r := <-done:
				hist = append(hist, fmt.Sprintf("pending-dial=%v", r.st.OK()))
				admitted(r, "the pending dial, after a slot was freed,")
			case <-time.After(vt.LivenessBound):
				fail("a dial that was waiting for a slot was not admitted within %v after a session ended and returned its slot", vt.LivenessBound)
			}
		}

		t.Repeat(map[string]func(*rapid.T){
			"dial": func(t *rapid.T) {
				if discard != "" {
					return
				}
				if len(live) >= 5 {
					t.Skip("enough")
				}
				if len(live) < limit {
					if refused {
						nt = true
					}
					r := dial()
					hist = append(hist, fmt.Sprintf("dial=%v", r.st.OK()))
					admitted(r, "a dial")
					return
				}
				if budget < 0 && len(live) != limit {
					t.Skip("unlimited budget: a dial above a lowered limit would wait for several slots")
				}
				dialRefused("a dial")
			},
			"kill": func(t *rapid.T) {
				if discard != "" {
					return
				}
				if len(live) == 0 {
					t.Skip("none")
				}
				i := rapid.IntRange(0, len(live)-1).Draw(t, "which")
				d := live[i]
				before := obs.redialsOf(d.s)
				killConn(d)
				if budget == 0 {
					hist = append(hist, fmt.Sprintf("kill(%d)->ended", i))
					waitEnded(d, "its connection was killed (no redial budget)", -1)
					remove(i)
					return
				}
				hist = append(hist, fmt.Sprintf("kill(%d)->redial", i))
				waitRedialed(d, before, "its connection was killed")
			},
			"exhaust-one": func(t *rapid.T) {
				if discard != "" {
					return
				}
				if len(live) == 0 || budget <= 0 {
					t.Skip("needs a finite redial budget and a session")
				}
				i := rapid.IntRange(0, len(live)-1).Draw(t, "which")
				d := live[i]
				hist = append(hist, fmt.Sprintf("exhaust(%d,redials=%d)", i, d.redials))
				down := obs.redialsOf(d.s)
				c18StopListening(ts)
				killConn(d)
				waitEnded(d, "its redial budget was exhausted", down)
				remove(i)
				relisten()
			},
			"outage": func(t *rapid.T) {
				if discard != "" {
					return
				}
				if len(live) == 0 {
					t.Skip("none")
				}
				befores := make([]int, len(live))
				for i, d := range live {
					befores[i] = obs.redialsOf(d.s)
				}
				ts.down()
				if budget >= 0 {
					hist = append(hist, fmt.Sprintf("outage->%d ended", len(live)))
					for i, d := range live {
						waitEnded(d, "an outage longer than its redial budget", befores[i])
					}
					live = nil
					relisten()
					return
				}
				hist = append(hist, fmt.Sprintf("outage->%d redial", len(live)))
				time.Sleep(3 * c18DialInterval)
				relisten()
				for i, d := range live {
					waitRedialed(d, befores[i], "an outage (unlimited budget)")
				}
			},
			"dial-other-hook-rejects": func(t *rapid.T) {
				if discard != "" {
					return
				}
				if budget < 0 {
					t.Skip("unlimited budget: the dial would retry for ever")
				}
				pos := rapid.SampledFrom(c18Positions(rec, c18KeyLaterHook, "after")).Draw(t, "pos")
				rj := rejBefore
				if pos == "after" {
					rj = rejAfter
				}
				atomic.StoreInt32(&rj.armed, 1)
				r := dial()
				atomic.StoreInt32(&rj.armed, 0)
				hist = append(hist, fmt.Sprintf("dial(other hook %s the overloader rejects)=%v", pos, r.st.OK()))
				if r.st.OK() {
					harness("a dial refused by a dial hook succeeded")
				}
				// a rejected connection consumes no slot: the model is unchanged
			},
			"redial-other-hook-rejects": func(t *rapid.T) {
				if discard != "" {
					return
				}
				if len(live) == 0 || budget <= 0 {
					t.Skip("needs a finite redial budget and a session")
				}
				pos := rapid.SampledFrom(c18Positions(rec, c18KeyRedialBefore, "before")).Draw(t, "pos")
				rj := rejBefore
				if pos == "after" {
					rj = rejAfter
				}
				i := rapid.IntRange(0, len(live)-1).Draw(t, "which")
				d := live[i]
				hist = append(hist, fmt.Sprintf("kill(%d,redials=%d) with every redial refused by another hook %s the overloader", i, d.redials, pos))
				atomic.StoreInt32(&rj.armed, 2)
				killConn(d)
				waitEnded(d, "every redial attempt was refused by another dial hook", -1)
				atomic.StoreInt32(&rj.armed, 0)
				remove(i)
			},
			"close": func(t *rapid.T) {
				if discard != "" {
					return
				}
				if len(live) == 0 {
					t.Skip("none")
				}
				i := rapid.IntRange(0, len(live)-1).Draw(t, "which")
				hist = append(hist, fmt.Sprintf("close(%d,redials=%d)", i, live[i].redials))
				closeLocal(i)
			},
			"update": func(t *rapid.T) {
				if discard != "" {
					return
				}
				limit = rapid.IntRange(1, 4).Draw(t, "newlimit")
				ov.Update(overloader.LimitConfig{MaxConn: int32(limit)})
				hist = append(hist, fmt.Sprintf("update(%d)", limit))
			},
			"": func(t *rapid.T) {
				if discard != "" {
					return
				}
				if !vt.WaitUntilFor(5*time.Second, func() bool { return cli.CountSession() == len(live) }) {
					fail("the dialing peer lists %d sessions, %d were admitted and are alive", cli.CountSession(), len(live))
				}
				for _, d := range live {
					callOK(d.s, "at a quiescent point")
				}
			},
		})

		if discard != "" {
			t.Skip(discard)
		}
		// every slot comes back exactly once: end everything, then exactly N dials are admitted
		for len(live) > 0 {
			hist = append(hist, fmt.Sprintf("final-close(redials=%d)", live[0].redials))
			closeLocal(0)
		}
		for k := 0; k < limit; k++ {
			r := dial()
			hist = append(hist, fmt.Sprintf("final-dial=%v", r.st.OK()))
			admitted(r, fmt.Sprintf("dial %d of %d after every session had ended", k+1, limit))
		}
		dialRefused(fmt.Sprintf("dial %d after every earlier session had ended and %d new ones were admitted", limit+1, limit))
		for len(live) > 0 {
			closeLocal(0)
		}
		rec.Case(fmt.Sprintf("%d|%d|%s", limit, budget, strings.Join(hist, ",")), nt, fmt.Sprintf("budget=%d", budget))
		if rec.WantSample() && nt {
			rec.Sample(map[string]interface{}{"budget": budget, "history": hist})
		}
	})
}

// ---- deterministic probes of the listed known findings -----------------------------------

type c18Probe struct {
	w                   *vt.World
	ts                  *tcpServer
	cli                 erpc.Peer
	obs                 *c18DialObs
	rejBefore, rejAfter *c18DialReject
}

// c18NewProbe builds the dial-side setup; nil when the loopback listener cannot be had.
func c18NewProbe(limit int32, budget int32) *c18Probe {
	vt.Init()
	newLib()
	p := &c18Probe{w: vt.NewWorld()}
	srv := p.w.Peer(erpc.PeerConfig{})
	registerLib(srv)
	p.ts = &tcpServer{peer: srv}
	if err := p.ts.listen(); err != nil {
		p.w.Close()
		return nil
	}
	p.obs = &c18DialObs{redials: map[interface{}]int{}, disconnects: map[interface{}]int{}}
	p.rejBefore, p.rejAfter = &c18DialReject{name: "c18rejbefore"}, &c18DialReject{name: "c18rejafter"}
	p.cli = p.w.Peer(erpc.PeerConfig{RedialTimes: budget, RedialInterval: c18DialInterval, DialTimeout: 2 * time.Second},
		p.rejBefore, overloader.New(overloader.LimitConfig{MaxConn: limit}), p.rejAfter, p.obs)
	return p
}

func (p *c18Probe) close() {
	p.ts.down()
	p.w.Close()
}

// dial returns (session, status, false) or (nil, nil, true) when Dial did not return in time.
func (p *c18Probe) dial() (erpc.Session, *erpc.Status, bool) {
	var s erpc.Session
	var st *erpc.Status
	if !vt.Returns(func() { s, st = p.cli.Dial(p.ts.addr) }) {
		return nil, nil, true
	}
	return s, st, false
}

// ended waits until the session is over and its disconnect hooks have run.
func (p *c18Probe) ended(s erpc.Session) bool {
	return vt.WaitClosed(s.CloseNotify()) && vt.WaitUntil(func() bool { return p.obs.disconnectsOf(s) >= 1 })
}

// c18ProbeLaterHook: N=2, budget 2; three dials admitted and closed, one dial refused by a hook
// registered after the overloader, then a dial with no session alive. Returns the status of
// that last dial when it was refused by the limiter ("" = not reproduced or not decidable).
func c18ProbeLaterHook() string {
	p := c18NewProbe(2, 2)
	if p == nil {
		return ""
	}
	defer p.close()
	for i := 0; i < 3; i++ {
		s, st, hung := p.dial()
		if hung || !st.OK() {
			return ""
		}
		if !vt.Returns(func() { s.Close() }) || !p.ended(s) {
			return ""
		}
	}
	atomic.StoreInt32(&p.rejAfter.armed, 1)
	s, st, hung := p.dial()
	atomic.StoreInt32(&p.rejAfter.armed, 0)
	if hung || st.OK() {
		if s != nil {
			s.Close()
		}
		return ""
	}
	s, st, hung = p.dial()
	if hung {
		return ""
	}
	if st.OK() {
		s.Close()
		return ""
	}
	if !strings.Contains(st.String(), "overload") {
		return ""
	}
	return st.String()
}

// c18ProbeRedialBefore: N=1, budget 2; a dial is admitted, its connection is killed while a hook
// registered before the overloader refuses every redial attempt (the session ends), then a dial
// with no session alive.
func c18ProbeRedialBefore() string {
	p := c18NewProbe(1, 2)
	if p == nil {
		return ""
	}
	defer p.close()
	a, st, hung := p.dial()
	if hung || !st.OK() {
		return ""
	}
	var c net.Conn
	if !vt.WaitUntilFor(5*time.Second, func() bool { c = c18ConnOf(p.ts, a); return c != nil }) {
		return ""
	}
	atomic.StoreInt32(&p.rejBefore.armed, 2)
	c.Close()
	over := p.ended(a)
	atomic.StoreInt32(&p.rejBefore.armed, 0)
	if !over {
		return ""
	}
	s, st, hung := p.dial()
	if hung {
		return ""
	}
	if st.OK() {
		s.Close()
		return ""
	}
	if !strings.Contains(st.String(), "overload") {
		return ""
	}
	return st.String()
}

func TestC18KnownProbes(t *testing.T) {
	var unlisted []string
	rec := vt.NewRec(t, "C18", "known-probes", "deterministic reproductions of listed known findings (overloader on the dialing side next to another refusing dial hook)")
	for _, pr := range []struct {
		key, what, violated string
		run                 func() string
	}{
		{c18KeyLaterHook,
			"overloader on the dialing side: a first Dial admitted by the overloader and then refused by a dial hook registered after it never returns its slot (limit 2, no session alive, next dial refused)",
			"limit 2, redial budget 2, history [dial=true close dial=true close dial=true close dial(other hook after the overloader rejects)=false dial]: the last dial was refused although no session is alive",
			c18ProbeLaterHook},
		{c18KeyRedialBefore,
			"overloader on the dialing side: a session whose redials are all refused by a dial hook registered before the overloader ends without returning its slot (limit 1, no session alive, next dial refused)",
			"limit 1, redial budget 2, history [dial=true kill(0) with every redial refused by another hook before the overloader dial]: the last dial was refused although no session is alive",
			c18ProbeRedialBefore},
	} {
		got := pr.run()
		rec.Case(pr.key, true, fmt.Sprintf("reproduced=%v", got != ""))
		if got == "" {
			continue
		}
		if vt.IsKnown(pr.key) {
			rec.KnownFinding(pr.key, pr.what)
			continue
		}
		unlisted = append(unlisted, fmt.Sprintf("C18 violated: %s: %s", pr.violated, got))
	}
	if len(unlisted) > 0 {
		t.Fatalf("%s", strings.Join(unlisted, "\n"))
	}
}
