package core

import (
	"encoding/json"
	"fmt"
	"regexp"
	"runtime"
	"strconv"
	"strings"
	"sync"
	"sync/atomic"
	"testing"
	"time"

	erpc "github.com/henrylee2cn/erpc/v6"
	"github.com/henrylee2cn/erpc/v6/plugin/binder"
	"github.com/henrylee2cn/erpc/v6/utils"
	"pgregory.net/rapid"

	"verifharness/vt"
)

// C01 with the parameter binding plugin (plugin/binder) installed: the argument of a CALL
// handler is then assembled from three sources - the body, the metadata of the call and
// the context swap - and the handler must still see exactly what its own sender supplied.

// ---- argument types ------------------------------------------------------------------

// BndQuery is embedded (untagged anonymous struct: resolved recursively by the binder).
type BndQuery struct {
	Q string `json:"-" xml:"-" param:"<meta:_q>"`
}

// BndArgA is the argument of the function handler: body fields and metadata-bound fields
// of every kind the binder supports.
type BndArgA struct {
	Body string   `json:"body" xml:"body"`
	N    int      `json:"n" xml:"n" param:"<range:0:999999>"`
	L    []string `json:"l,omitempty" xml:"l"`
	Tok  string   `json:"-" xml:"-" param:"<meta:tok><nonzero>"`
	Tags []string `json:"-" xml:"-" param:"<meta:tag><regexp:^t-[a-z0-9-]*$>"`
	Num  int      `json:"-" xml:"-" param:"<meta:num><range:0:999999><stat:100002:num out of range>"`
	Flag bool     `json:"-" xml:"-" param:"<meta:flag>"`
	Raw  []byte   `json:"-" xml:"-" param:"<meta:raw><len:0:80>"`
	Raws [][]byte `json:"-" xml:"-" param:"<meta:raws>"`
	Nums []int32  `json:"-" xml:"-" param:"<meta:nums>"`
	F    float64  `json:"-" xml:"-" param:"<meta:f>"`
	BndQuery
	Sw  string `json:"-" xml:"-" param:"<swap:sw>"`
	SwN int64  `json:"-" xml:"-" param:"<swap:sw_n>"`
}

// BndArgB is the argument of the struct controller: another layout, other rules, a subset
// of the metadata keys.
type BndArgB struct {
	BndQuery
	Who  string   `json:"-" xml:"-" param:"<meta:tok><nonzero><stat:100003:who is missing>"`
	Body string   `json:"body" xml:"body"`
	Tags []string `json:"-" xml:"-" param:"<meta:tag><len:0:3>"`
	Num  uint32   `json:"-" xml:"-" param:"<meta:num><range:0:999999>"`
	Flag bool     `json:"-" xml:"-" param:"<meta:flag>"`
	N    int      `json:"n" xml:"n" param:"<range:0:999999>"`
	L    []string `json:"l,omitempty" xml:"l"`
	Raw  []byte   `json:"-" xml:"-" param:"<meta:raw>"`
	Sw   string   `json:"-" xml:"-" param:"<swap:sw>"`
}

// BndRes is the reply: the canonical rendering of everything the handler saw.
type BndRes struct {
	Saw string `json:"saw" xml:"saw"`
}

// BndPushArg is the argument of the push receiver (the binder does not bind pushes).
type BndPushArg struct {
	Body string `json:"body" xml:"body"`
}

// bndSeen is what a handler saw (or what a caller expects it to have seen).
type bndSeen struct {
	Route string   `json:"route,omitempty"`
	Body  string   `json:"body,omitempty"`
	N     int      `json:"n,omitempty"`
	L     []string `json:"l,omitempty"`
	Tok   string   `json:"tok,omitempty"`
	Tags  []string `json:"tags,omitempty"`
	Num   int64    `json:"num,omitempty"`
	Flag  bool     `json:"flag,omitempty"`
	Raw   string   `json:"raw,omitempty"`
	Raws  []string `json:"raws,omitempty"`
	Nums  []int32  `json:"nums,omitempty"`
	F     float64  `json:"f,omitempty"`
	Q     string   `json:"q,omitempty"`
	Sw    string   `json:"sw,omitempty"`
	SwN   int64    `json:"swn,omitempty"`
	Meta  []string `json:"meta,omitempty"`
}

func (s bndSeen) canon() string {
	b, _ := json.Marshal(s)
	return string(b)
}

// real copies: a string or slice that aliases recycled memory must not be shared with the snapshot
func cpS(s string) string { return string(append([]byte(nil), s...)) }
func cpSS(ss []string) []string {
	var out []string
	for _, s := range ss {
		out = append(out, cpS(s))
	}
	return out
}

func (a *BndArgA) seen() bndSeen {
	s := bndSeen{Body: cpS(a.Body), N: a.N, L: cpSS(a.L), Tok: cpS(a.Tok), Tags: cpSS(a.Tags), Num: int64(a.Num), Flag: a.Flag,
		Raw: string(a.Raw), Nums: append([]int32(nil), a.Nums...), F: a.F, Q: cpS(a.Q), Sw: cpS(a.Sw), SwN: a.SwN}
	for _, r := range a.Raws {
		s.Raws = append(s.Raws, string(r))
	}
	return s
}

func (a *BndArgB) seen() bndSeen {
	return bndSeen{Body: cpS(a.Body), N: a.N, L: cpSS(a.L), Tok: cpS(a.Who), Tags: cpSS(a.Tags), Num: int64(a.Num), Flag: a.Flag,
		Raw: string(a.Raw), Q: cpS(a.Q), Sw: cpS(a.Sw)}
}

// ---- per-case state, reached from handlers and plugins through their peer -----------------

type bndState struct {
	mu       sync.Mutex
	errs     []string
	handled  map[string]int      // body token -> handler invocations
	pushSeen map[string][]string // body token -> what the push receiver saw
	inflight int32
	maxInfl  int32
	okCalls  int64
}

var bndStates sync.Map // erpc.Peer -> *bndState

func bndStateOf(p erpc.Peer) *bndState {
	if s, ok := bndStates.Load(p); ok {
		return s.(*bndState)
	}
	return nil
}

func (s *bndState) fail(format string, a ...interface{}) {
	s.mu.Lock()
	if len(s.errs) < 10 {
		s.errs = append(s.errs, fmt.Sprintf(format, a...))
	}
	s.mu.Unlock()
}

func (s *bndState) enter() {
	n := atomic.AddInt32(&s.inflight, 1)
	for {
		m := atomic.LoadInt32(&s.maxInfl)
		if n <= m || atomic.CompareAndSwapInt32(&s.maxInfl, m, n) {
			break
		}
	}
}
func (s *bndState) leave() { atomic.AddInt32(&s.inflight, -1) }

type bndMetaCtx interface {
	PeekMeta(key string) []byte
	VisitMeta(f func(key, value []byte))
	CopyMeta() *utils.Args
	ServiceMethod() string
}

func bndMetaList(ctx bndMetaCtx) []string {
	var got []string
	ctx.VisitMeta(func(k, v []byte) { got = append(got, string(k)+"="+string(v)) })
	return got
}

func bndArgsList(a *utils.Args) []string {
	var got []string
	a.VisitAll(func(k, v []byte) { got = append(got, string(k)+"="+string(v)) })
	return got
}

func bndYield(ctx bndMetaCtx) {
	for i := 0; i < 3; i++ {
		runtime.Gosched()
	}
	switch string(ctx.PeekMeta("y")) {
	case "1":
		time.Sleep(100 * time.Microsecond)
	case "2":
		time.Sleep(300 * time.Microsecond)
	}
}

// bndCopyMeta: a receiver that asks for its own copy of the metadata (ctx.CopyMeta, an Args
// object of the process-wide pool) gets exactly the metadata of its message, the copy stays
// what it is while the receiver owns it, and the receiver may give it back to the pool.
func bndCopyMeta(who string, ctx bndMetaCtx, s *bndState) (check func()) {
	mode := string(ctx.PeekMeta("cm"))
	if mode != "1" && mode != "2" {
		return func() {}
	}
	cp := ctx.CopyMeta()
	first := strings.Join(bndArgsList(cp), "&")
	if own := strings.Join(bndMetaList(ctx), "&"); first != own {
		s.fail("%s: ctx.CopyMeta() = %q, the metadata of this message is %q", who, first, own)
	}
	return func() {
		if again := strings.Join(bndArgsList(cp), "&"); again != first {
			s.fail("%s: the metadata copy this receiver owns changed while it was running: first %q, later %q", who, first, again)
		}
		if mode == "2" {
			utils.ReleaseArgs(cp)
		}
	}
}

// bndHandle is what both CALL handlers do.
func bndHandle(kind string, ctx erpc.CallCtx, snap func() bndSeen) (*BndRes, *erpc.Status) {
	s := bndStateOf(ctx.Peer())
	if s == nil {
		return nil, erpc.NewStatus(9999, "harness: no state for this peer", "")
	}
	s.enter()
	defer s.leave()
	first := snap()
	first.Route = ctx.ServiceMethod()
	first.Meta = bndMetaList(ctx)
	bodyTok, err := checkBody(first.Body)
	s.mu.Lock()
	s.handled[bodyTok]++
	s.mu.Unlock()
	metaTok := string(ctx.PeekMeta("tok"))
	who := "handler(" + kind + ") of " + metaTok
	if err != nil {
		s.fail("%s: %v", who, err)
	} else if bodyTok != metaTok {
		s.fail("%s: body token %q but metadata token %q (header/body of different messages)", who, bodyTok, metaTok)
	}
	if first.Tok != metaTok {
		s.fail("%s: the argument field bound from metadata key tok holds %q, the metadata of this call says %q", who, first.Tok, metaTok)
	}
	checkCopy := bndCopyMeta(who, ctx, s)
	// the argument must stay what it is while the handler runs
	bndYield(ctx)
	again := snap()
	again.Route = ctx.ServiceMethod()
	again.Meta = bndMetaList(ctx)
	if a, b := first.canon(), again.canon(); a != b {
		s.fail("%s: argument changed while the handler was running:\n first %s\n later %s", who, a, b)
	}
	checkCopy()
	// reply metadata derived from the (bound) argument as it is now
	ctx.SetMeta("tok", again.Tok)
	for _, t := range again.Tags {
		ctx.AddMeta("rt", t)
	}
	ctx.SetMeta("e", "")
	atomic.AddInt64(&s.okCalls, 1)
	return &BndRes{Saw: again.canon()}, nil
}

// BndFn is the function handler.
func BndFn(ctx erpc.CallCtx, a *BndArgA) (*BndRes, *erpc.Status) {
	return bndHandle("fn", ctx, a.seen)
}

// BndCtl is the struct controller.
type BndCtl struct{ erpc.CallCtx }

func (c *BndCtl) Echo(a *BndArgB) (*BndRes, *erpc.Status) {
	return bndHandle("ctl", c.CallCtx, a.seen)
}

// BndNote is the push receiver.
func BndNote(ctx erpc.PushCtx, a *BndPushArg) *erpc.Status {
	s := bndStateOf(ctx.Peer())
	if s == nil {
		return nil
	}
	s.enter()
	defer s.leave()
	first := bndSeen{Route: ctx.ServiceMethod(), Body: cpS(a.Body), Meta: bndMetaList(ctx)}
	bodyTok, err := checkBody(first.Body)
	metaTok := string(ctx.PeekMeta("tok"))
	who := "push receiver of " + metaTok
	if err != nil {
		s.fail("%s: %v", who, err)
	} else if bodyTok != metaTok {
		s.fail("%s: body token %q but metadata token %q", who, bodyTok, metaTok)
	}
	checkCopy := bndCopyMeta(who, ctx, s)
	bndYield(ctx)
	again := bndSeen{Route: ctx.ServiceMethod(), Body: cpS(a.Body), Meta: bndMetaList(ctx)}
	if x, y := first.canon(), again.canon(); x != y {
		s.fail("%s: argument changed while the receiver was running:\n first %s\n later %s", who, x, y)
	}
	checkCopy()
	s.mu.Lock()
	s.pushSeen[bodyTok] = append(s.pushSeen[bodyTok], again.canon())
	s.mu.Unlock()
	return nil
}

// bndSwapPlugin fills the context swap from the call's own metadata before the binder runs.
type bndSwapPlugin struct{}

func (bndSwapPlugin) Name() string { return "bnd_swap" }
func (bndSwapPlugin) PostReadCallBody(ctx erpc.ReadCtx) *erpc.Status {
	if v := ctx.PeekMeta("swv"); len(v) > 0 {
		ctx.Swap().Store("sw", "sw-"+string(v))
		ctx.Swap().Store("sw_n", len(v)) // an int for an int64 field: converted by the binder
	}
	return nil
}

func bndCustomErr(handlerName, paramName, reason string) *erpc.Status {
	return erpc.NewStatus(7001, "bind failed", handlerName+"|"+paramName+"|"+reason)
}

type bndRoutes struct{ fn, ctl, push string }

// bndPeer creates a peer with the binder installed in one of the three places a plugin can live.
func bndPeer(w *vt.World, install string, customErr bool) (erpc.Peer, bndRoutes, error) {
	var ef binder.ErrorFunc
	if customErr {
		ef = bndCustomErr
	}
	b := binder.NewStructArgsBinder(ef)
	var p erpc.Peer
	var route []erpc.Plugin
	switch install {
	case "newpeer":
		p = w.Peer(erpc.PeerConfig{}, bndSwapPlugin{}, b)
	case "right":
		p = w.Peer(erpc.PeerConfig{})
		p.PluginContainer().AppendRight(bndSwapPlugin{}, b)
	default: // handler-level
		p = w.Peer(erpc.PeerConfig{})
		route = []erpc.Plugin{bndSwapPlugin{}, b}
	}
	var r bndRoutes
	r.fn = p.RouteCallFunc(BndFn, route...)
	ctl := p.RouteCall(new(BndCtl), route...)
	if len(ctl) != 1 {
		return nil, r, fmt.Errorf("controller routes %v", ctl)
	}
	r.ctl = ctl[0]
	r.push = p.RoutePushFunc(BndNote)
	return p, r, nil
}

// ---- the generated case ------------------------------------------------------------------

type bndOp struct {
	Kind    string // call | async | push | pool
	Handler string // fn | ctl
	Codec   byte
	Len     int
	Fill    byte
	Fields  []string // optional metadata-bound fields the message carries
	NTags   int
	XLens   []int // filler pairs (value lengths, 0 = empty value)
	Yield   int
	CM      int    // 0: receiver does not copy the metadata, 1: copies, 2: copies and releases the copy
	Fail    string // "" or the binder rule this call violates
	Special int
}

type bndCase struct {
	Proto     string
	Install   string
	CustomErr bool
	Sessions  int
	Workers   [][]bndOp
	WorkerDir []int
	WorkerSes []int
	Chunks    []int
	Cycle     bool
}

var (
	bndOptional = []string{"tags", "num", "flag", "raw", "raws", "nums", "f", "q", "sw"}
	bndFailsA   = []string{"missing-tok", "num-range", "num-parse", "tag-regexp", "body-range", "raw-len"}
	bndFailsB   = []string{"missing-tok", "num-range", "num-parse", "tag-len", "body-range"}
	bndSpecials = []string{"", "", " a b", "&x=y", "%41+;", "\"<q>'", "é\t"}
	bndFlags    = []string{"true", "1", "on", "false", "0", "off"}
)

func genBnd(t *rapid.T, protos []vt.NamedProto) bndCase {
	c := bndCase{Proto: rapid.SampledFrom(protos).Draw(t, "proto").Name}
	c.Install = rapid.SampledFrom([]string{"newpeer", "right", "route"}).Draw(t, "install")
	c.CustomErr = rapid.Bool().Draw(t, "customerr")
	c.Sessions = rapid.IntRange(1, 3).Draw(t, "sessions")
	nw := rapid.IntRange(1, 8).Draw(t, "workers")
	for w := 0; w < nw; w++ {
		nops := rapid.IntRange(2, 8).Draw(t, "nops")
		ops := make([]bndOp, nops)
		for i := range ops {
			op := bndOp{
				Kind:    rapid.SampledFrom([]string{"call", "call", "call", "async", "async", "push", "pool"}).Draw(t, "kind"),
				Handler: rapid.SampledFrom([]string{"fn", "fn", "ctl"}).Draw(t, "handler"),
				Codec:   rapid.SampledFrom([]byte{'j', 'j', 'x'}).Draw(t, "codec"),
				Len:     rapid.SampledFrom([]int{0, 1, 7, 40, 300, 1500}).Draw(t, "len"),
				Fill:    rapid.SampledFrom([]byte("abcxyz019")).Draw(t, "fill"),
				NTags:   rapid.IntRange(1, 3).Draw(t, "ntags"),
				Yield:   rapid.SampledFrom([]int{0, 0, 1, 2}).Draw(t, "yield"),
				CM:      rapid.SampledFrom([]int{0, 0, 1, 2}).Draw(t, "copymeta"),
				Special: rapid.IntRange(0, len(bndSpecials)-1).Draw(t, "special"),
			}
			for _, f := range bndOptional {
				if rapid.IntRange(0, 3).Draw(t, "has-"+f) != 0 {
					op.Fields = append(op.Fields, f)
				}
			}
			for e, n := 0, rapid.IntRange(0, 2).Draw(t, "extra"); e < n; e++ {
				op.XLens = append(op.XLens, rapid.SampledFrom([]int{0, 0, 1, 7, 40}).Draw(t, "xlen"))
			}
			if (op.Kind == "call" || op.Kind == "async") && rapid.IntRange(0, 5).Draw(t, "fails") == 0 {
				if op.Handler == "fn" {
					op.Fail = rapid.SampledFrom(bndFailsA).Draw(t, "fail")
				} else {
					op.Fail = rapid.SampledFrom(bndFailsB).Draw(t, "fail")
				}
			}
			ops[i] = op
		}
		c.Workers = append(c.Workers, ops)
		c.WorkerDir = append(c.WorkerDir, rapid.IntRange(0, 1).Draw(t, "dir"))
		c.WorkerSes = append(c.WorkerSes, rapid.IntRange(0, c.Sessions-1).Draw(t, "ses"))
	}
	c.Chunks, c.Cycle = vt.Chunks(t, "chunks")
	return c
}

// bndMsg is one message as its sender builds it: settings, and what the receiver must see.
type bndMsg struct {
	tok      string
	id       int
	arg      interface{}
	settings []erpc.MessageSetting
	want     bndSeen // what the handler must echo (calls that pass validation) / the push receiver must record
	replyMD  string  // reply metadata the handler sets
	// calls that violate a rule:
	failCode  int32
	failMsg   string
	failParam string
}

func (op bndOp) has(f string) bool {
	for _, x := range op.Fields {
		if x == f {
			return true
		}
	}
	return false
}

func buildBnd(op bndOp, tok string, id int, route string, customErr bool) bndMsg {
	m := bndMsg{tok: tok, id: id}
	body := mkBody(tok, strings.Repeat(string(op.Fill), op.Len))
	n := id
	if op.Fail == "body-range" {
		n = 2000000 + id
	}
	l := []string{"l-" + tok, string(op.Fill)}
	var meta [][2]string
	add := func(k, v string) { meta = append(meta, [2]string{k, v}) }
	want := bndSeen{Route: route, Body: body}
	isCall := op.Kind == "call" || op.Kind == "async"
	if !isCall {
		m.arg = &BndPushArg{Body: body}
		add("tok", tok)
	} else {
		fn := op.Handler == "fn"
		if fn {
			m.arg = &BndArgA{Body: body, N: n, L: l}
		} else {
			m.arg = &BndArgB{Body: body, N: n, L: l}
		}
		want.N, want.L = n, l
		if op.Fail != "missing-tok" {
			add("tok", tok)
			want.Tok = tok
		}
		// the optional fields, in a per-message order (rotated by id)
		for i := range bndOptional {
			f := bndOptional[(i+id)%len(bndOptional)]
			if !op.has(f) && !(f == "tags" && (op.Fail == "tag-regexp" || op.Fail == "tag-len")) && !(f == "num" && (op.Fail == "num-range" || op.Fail == "num-parse")) && !(f == "raw" && op.Fail == "raw-len") {
				continue
			}
			switch f {
			case "tags":
				nt := op.NTags
				if op.Fail == "tag-len" {
					nt = 4
				}
				for k := 0; k < nt; k++ {
					v := fmt.Sprintf("t-%s-%d", tok, k)
					if op.Fail == "tag-regexp" && k == nt-1 {
						v = "BAD-" + tok
					}
					add("tag", v)
					want.Tags = append(want.Tags, v)
				}
			case "num":
				v := strconv.Itoa(id)
				if op.Fail == "num-range" {
					v = strconv.Itoa(1000000 + id)
				} else if op.Fail == "num-parse" {
					v = "bad-" + tok
				}
				add("num", v)
				want.Num = int64(id)
			case "flag":
				add("flag", bndFlags[id%len(bndFlags)])
				want.Flag = id%len(bndFlags) < 3
			case "raw":
				v := "r-" + tok + bndSpecials[op.Special]
				if op.Fail == "raw-len" {
					v = "r-" + tok + strings.Repeat("R", 90)
				}
				add("raw", v)
				want.Raw = v
			case "raws":
				add("raws", "ra-"+tok)
				add("raws", "rb-"+tok+bndSpecials[op.Special])
				if fn {
					want.Raws = []string{"ra-" + tok, "rb-" + tok + bndSpecials[op.Special]}
				}
			case "nums":
				add("nums", strconv.Itoa(id))
				add("nums", strconv.Itoa(-id-1))
				if fn {
					want.Nums = []int32{int32(id), int32(-id - 1)}
				}
			case "f":
				f64 := float64(id) + 0.25
				add("f", strconv.FormatFloat(f64, 'f', -1, 64))
				if fn {
					want.F = f64
				}
			case "q":
				add("_q", "q-"+tok)
				want.Q = "q-" + tok
			case "sw":
				add("swv", "v-"+tok)
				want.Sw = "sw-v-" + tok
				if fn {
					want.SwN = int64(len("v-" + tok))
				}
			}
		}
	}
	// filler pairs, some with an empty value
	for e, xn := range op.XLens {
		add(fmt.Sprintf("x%d", e), strings.Repeat(string(op.Fill), xn))
	}
	add("y", strconv.Itoa(op.Yield))
	add("cm", strconv.Itoa(op.CM))
	m.settings = []erpc.MessageSetting{erpc.WithBodyCodec(op.Codec)}
	for _, kv := range meta {
		m.settings = append(m.settings, erpc.WithAddMeta(kv[0], kv[1]))
		want.Meta = append(want.Meta, kv[0]+"="+kv[1])
	}
	m.want = want
	rm := []string{"tok=" + want.Tok}
	for _, t := range want.Tags {
		rm = append(rm, "rt="+t)
	}
	rm = append(rm, "e=")
	m.replyMD = strings.Join(rm, "&")
	if op.Fail != "" && isCall {
		m.failCode, m.failMsg = erpc.CodeBadMessage, "Invalid Parameter"
		if customErr {
			m.failCode, m.failMsg = 7001, "bind failed"
		}
		switch op.Fail {
		case "missing-tok":
			m.failParam = "tok"
			if op.Handler == "ctl" {
				m.failCode, m.failMsg = 100003, "who is missing"
			}
		case "num-range", "num-parse":
			m.failParam = "num"
			if op.Handler == "fn" {
				m.failCode, m.failMsg = 100002, "num out of range"
			}
		case "tag-regexp", "tag-len":
			m.failParam = "tag"
		case "body-range":
			m.failParam = "n"
		case "raw-len":
			m.failParam = "raw"
		}
	}
	return m
}

var bndForeign = regexp.MustCompile(`s\dw\do\d+z|[12]\d{6}`)

func runBnd(c bndCase, protos []vt.NamedProto) (errs []string, maxInfl int32, okCalls int64, nmsgs int) {
	vt.Init()
	state := &bndState{handled: map[string]int{}, pushSeen: map[string][]string{}}
	w := vt.NewWorld()
	closed := false
	defer func() {
		if !closed {
			w.Close()
		}
	}()
	a, ra, err := bndPeer(w, c.Install, c.CustomErr)
	if err != nil {
		return []string{"harness: " + err.Error()}, 0, 0, 0
	}
	b, rb, err := bndPeer(w, c.Install, c.CustomErr)
	if err != nil {
		return []string{"harness: " + err.Error()}, 0, 0, 0
	}
	bndStates.Store(a, state)
	bndStates.Store(b, state)
	defer bndStates.Delete(a)
	defer bndStates.Delete(b)
	proto := protoByName(protos, c.Proto)
	links := make([]*vt.Link, c.Sessions)
	for i := range links {
		links[i] = w.Connect(a, b, proto, func(p *vt.Pair) {
			p.SetChunks(vt.AtoB, c.Chunks, c.Cycle)
			p.SetChunks(vt.BtoA, c.Chunks, c.Cycle)
		})
		if links[i].A == nil || links[i].B == nil {
			return []string{fmt.Sprintf("harness: connect failed: %v %v", links[i].AStat, links[i].BStat)}, 0, 0, 0
		}
	}
	var wg sync.WaitGroup
	var smu sync.Mutex
	sentPush := map[string]string{} // token -> what its receiver must have seen
	var failedToks []string
	for wi, ops := range c.Workers {
		wg.Add(1)
		go func(wi int, ops []bndOp) {
			defer wg.Done()
			l := links[c.WorkerSes[wi]]
			sess, rt := l.A, rb
			if c.WorkerDir[wi] == 1 {
				sess, rt = l.B, ra
			}
			done := make(chan erpc.CallCmd, len(ops)+1)
			type pending struct {
				cmd erpc.CallCmd
				m   bndMsg
				op  bndOp
				res *BndRes
			}
			var pend []pending
			verify := func(p pending) bool {
				cmd, m := p.cmd, p.m
				if !vt.WaitClosed(cmd.Done()) {
					state.fail("%s", vt.Hang("completion of call "+m.tok))
					return false
				}
				what := fmt.Sprintf("call %s (%s handler, rule violated: %q)", m.tok, p.op.Handler, p.op.Fail)
				if p.op.Fail != "" {
					stat := cmd.Status()
					if stat.OK() {
						state.fail("%s completed OK with result %s", what, vt.Trunc(p.res.Saw))
						return true
					}
					cause := ""
					if stat.Cause() != nil {
						cause = stat.Cause().Error()
					}
					if stat.Code() != m.failCode || stat.Msg() != m.failMsg {
						state.fail("%s: status (%d, %q, cause %q), the binder's status for parameter %q of this handler is (%d, %q)", what, stat.Code(), stat.Msg(), cause, m.failParam, m.failCode, m.failMsg)
					}
					quoted := strconv.Quote(m.failParam)
					if c.CustomErr {
						quoted = "|" + m.failParam + "|"
					}
					if !strings.Contains(cause, quoted) {
						state.fail("%s: the error names %q, the parameter this call got wrong is %q", what, cause, m.failParam)
					}
					own := map[string]bool{m.tok: true, strconv.Itoa(1000000 + m.id): true, strconv.Itoa(2000000 + m.id): true}
					for _, f := range bndForeign.FindAllString(cause, -1) {
						if !own[f] {
							state.fail("%s: its error status quotes %q, a value of another message: %q", what, f, cause)
						}
					}
					if p.res.Saw != "" {
						state.fail("%s failed but its result object was written: %s", what, vt.Trunc(p.res.Saw))
					}
					return true
				}
				if !cmd.StatusOK() {
					state.fail("%s failed although nothing is wrong: %s", what, cmd.Status().String())
					return true
				}
				if want := m.want.canon(); p.res.Saw != want {
					state.fail("%s: the handler did not see what this call sent:\n saw  %s\n sent %s", what, vt.Trunc(p.res.Saw), vt.Trunc(want))
				}
				if rm := strings.Join(bndArgsList(cmd.InputMeta()), "&"); rm != m.replyMD {
					state.fail("%s: reply metadata %q, the handler of this call set %q", what, rm, m.replyMD)
				}
				return true
			}
			for oi, op := range ops {
				tok := fmt.Sprintf("s%dw%do%dz", c.WorkerSes[wi], wi, oi)
				id := 1 + wi*16 + oi
				route := rt.fn
				if op.Handler == "ctl" {
					route = rt.ctl
				}
				switch op.Kind {
				case "call", "async":
					m := buildBnd(op, tok, id, route, c.CustomErr)
					if op.Fail != "" {
						smu.Lock()
						failedToks = append(failedToks, tok)
						smu.Unlock()
					}
					res := new(BndRes)
					if op.Kind == "call" {
						cmd := sess.Call(route, m.arg, res, m.settings...)
						if !verify(pending{cmd, m, op, res}) {
							return
						}
					} else {
						cmd := sess.AsyncCall(route, m.arg, res, done, m.settings...)
						pend = append(pend, pending{cmd, m, op, res})
					}
				case "push":
					m := buildBnd(op, tok, id, rt.push, c.CustomErr)
					smu.Lock()
					sentPush[tok] = m.want.canon()
					smu.Unlock()
					if stat := sess.Push(rt.push, m.arg, m.settings...); !stat.OK() {
						state.fail("push %s failed: %s", tok, stat.String())
					}
				case "pool":
					// another user of the process-wide Args pool
					ar := utils.AcquireArgs()
					ar.Add("tok", tok)
					ar.Add("p", strings.Repeat(string(op.Fill), op.Len%64))
					before := strings.Join(bndArgsList(ar), "&")
					runtime.Gosched()
					if after := strings.Join(bndArgsList(ar), "&"); after != before {
						state.fail("an Args object acquired from the pool and still owned by its acquirer (%s) changed from %q to %q", tok, before, after)
					}
					utils.ReleaseArgs(ar)
				}
			}
			for _, p := range pend {
				if !verify(p) {
					return
				}
			}
		}(wi, ops)
		nmsgs += len(ops)
	}
	fin := make(chan struct{})
	go func() { wg.Wait(); close(fin) }()
	if !vt.WaitClosed(fin) {
		state.fail("%s", vt.Hang("completion of all workers"))
	}
	vt.WaitUntil(func() bool {
		state.mu.Lock()
		defer state.mu.Unlock()
		return len(state.pushSeen) >= len(sentPush) || len(state.errs) > 0
	})
	closed = true
	if msg := w.Close(); msg != "" {
		state.fail("%s", msg)
	}
	state.mu.Lock()
	defer state.mu.Unlock()
	for _, tok := range failedToks {
		if n := state.handled[tok]; n > 0 {
			state.errs = append(state.errs, fmt.Sprintf("call %s violates a rule of the binder, yet its handler ran (%d times)", tok, n))
		}
	}
	for tok, seen := range state.pushSeen {
		want, ok := sentPush[tok]
		if !ok {
			state.errs = append(state.errs, fmt.Sprintf("the push receiver saw token %q that was never pushed: %v", tok, seen))
			continue
		}
		if len(seen) != 1 {
			state.errs = append(state.errs, fmt.Sprintf("push %q was received %d times", tok, len(seen)))
		}
		if seen[0] != want {
			state.errs = append(state.errs, fmt.Sprintf("push %s: the receiver did not see what was pushed:\n saw  %s\n sent %s", tok, vt.Trunc(seen[0]), vt.Trunc(want)))
		}
	}
	if len(state.pushSeen) != len(sentPush) && len(state.errs) == 0 {
		state.errs = append(state.errs, fmt.Sprintf("%d pushes sent on healthy sessions but %d received", len(sentPush), len(state.pushSeen)))
	}
	return append([]string(nil), state.errs...), atomic.LoadInt32(&state.maxInfl), atomic.LoadInt64(&state.okCalls), nmsgs
}

const ruleC01Binder = "two peers with the parameter binding plugin (binder.NewStructArgsBinder, default or custom error function) installed as a NewPeer plugin, with AppendRight or as a handler-level plugin, plus a plugin filling the context swap; a function CALL handler and a struct-controller CALL handler whose argument structs mix body fields with fields bound from metadata (string, []string, int/uint32, bool, []byte, [][]byte, []int32, float64, a field of an embedded struct) and from the swap (string, int converted to int64), rules range/regexp/len/nonzero/stat; raw/json/pb sessions, json and xml bodies; 1-3 sessions x 1-8 worker goroutines x 2-8 ops in either direction from {Call, AsyncCall, Push with metadata, acquire/fill/release of a pooled Args}; every message carries a unique token in the body and in every metadata value, a generated subset of the bound keys, filler pairs with empty values; handlers yield (Gosched / 100-300 us), re-read their whole argument and metadata, optionally take ctx.CopyMeta() (and release it), set reply metadata from the bound fields and echo everything they saw; one call in six violates exactly one rule; oracle: the echo and the reply metadata equal what that call sent (absent keys leave zero fields), the argument does not change while the handler runs, a violating call gets the binder's status for its own parameter (code, message, parameter name, no value of another message) and its handler does not run, every push is seen once with its own body and metadata; non-trivial = >=2 handler executions overlapped (measured) and >=1 call with metadata-bound string fields was handled; distinct by the generated program"

// TestC01Binder: C01 with the binder plugin between the decoded message and the handler.
func TestC01Binder(t *testing.T) {
	rec := vt.NewRec(t, "C01", "binder", ruleC01Binder)
	protos := vt.StreamProtos()
	rapid.Check(t, func(t *rapid.T) {
		c := genBnd(t, protos)
		errs, maxInfl, okCalls, n := runBnd(c, protos)
		nt := maxInfl >= 2 && okCalls >= 1
		rec.Case(fmt.Sprintf("%+v", c), nt, "proto="+c.Proto, "install="+c.Install, fmt.Sprintf("customerr=%v", c.CustomErr), fmt.Sprintf("maxinflight>=2:%v", maxInfl >= 2), fmt.Sprintf("sessions=%d", c.Sessions))
		rec.Class("messages", n)
		rec.Class("bound-calls-handled", int(okCalls))
		for _, ops := range c.Workers {
			for _, op := range ops {
				if op.Fail != "" {
					rec.Class("rule-violated="+op.Fail, 1)
				}
				if op.Kind == "push" || op.Kind == "pool" {
					rec.Class("other-pool-user="+op.Kind, 1)
				}
			}
		}
		if rec.WantSample() && nt {
			rec.Sample(map[string]interface{}{"proto": c.Proto, "install": c.Install, "custom_error_func": c.CustomErr, "sessions": c.Sessions, "workers": len(c.Workers), "first_worker_ops": c.Workers[0], "chunks": c.Chunks, "max_overlapping_handlers": maxInfl})
		}
		if len(errs) > 0 {
			if strings.HasPrefix(errs[0], "harness:") {
				t.Fatalf("%s\ncase: %+v", errs[0], c)
			}
			t.Fatalf("C01 violated (%d findings), first: %s\ncase: %+v", len(errs), errs[0], c)
		}
	})
}
