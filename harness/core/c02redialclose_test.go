package core

import (
	"fmt"
	"sync"
	"testing"
	"time"

	erpc "github.com/henrylee2cn/erpc/v6"
	"pgregory.net/rapid"

	"verifharness/vt"
)

// TestC02CloseVsCalls: a local Close racing calls and pushes issued on the same session by other
// goroutines, on sessions with and without a redial budget, with and without a connection loss
// at about the same time. Whatever the order, every call completes exactly once and Close returns.
func TestC02CloseVsCalls(t *testing.T) {
	rec := vt.NewRec(t, "C02", "close-vs-calls", "a client session dialled over loopback TCP (redial budget 0 / 1 / 3 / unlimited) to a harness-owned listener in front of a serving peer; 1-4 goroutines issue 1-6 calls / pushes each while another goroutine closes the session after a generated head start (0-300 us), optionally the serving side kills the connection at about the same moment; oracle: every Call returns and its command is done (OK with its own result, or a non-OK status), every Push returns, Close returns - all within the liveness bound; calls issued after Close returned fail with a connection-class status; non-trivial = redial-enabled session and at least one call overlapped the close (measured: it was issued before Close returned and completed non-OK, or after Close began); distinct by case")
	rapid.Check(t, func(t *rapid.T) {
		vt.Init()
		budget := rapid.SampledFrom([]int{0, 1, 3, -1}).Draw(t, "budget")
		workers := rapid.IntRange(1, 4).Draw(t, "workers")
		nops := rapid.IntRange(1, 6).Draw(t, "nops")
		head := time.Duration(rapid.SampledFrom([]int{0, 0, 20, 100, 300}).Draw(t, "head_us")) * time.Microsecond
		kill := rapid.IntRange(0, 3).Draw(t, "kill") == 0
		pushes := rapid.Bool().Draw(t, "pushes")
		newLib()
		w := vt.NewWorld()
		defer w.Close()
		srv := w.Peer(erpc.PeerConfig{})
		callRoute, pushRoute := registerLib(srv)
		ts := &tcpServer{peer: srv}
		if err := ts.listen(); err != nil {
			t.Skip("harness: no listener")
		}
		defer ts.down()
		cli := w.Peer(erpc.PeerConfig{RedialTimes: int32(budget), RedialInterval: 2 * time.Millisecond})
		sess, stat := cli.Dial(ts.addr)
		if !stat.OK() {
			t.Skip("harness: dial failed")
		}
		var wg sync.WaitGroup
		var mu sync.Mutex
		var fails []string
		overlapped := 0
		failf := func(format string, a ...interface{}) {
			mu.Lock()
			fails = append(fails, fmt.Sprintf(format, a...))
			mu.Unlock()
		}
		closeBegan := make(chan struct{})
		closeDone := make(chan struct{})
		start := make(chan struct{})
		for g := 0; g < workers; g++ {
			wg.Add(1)
			go func(g int) {
				defer wg.Done()
				<-start
				for i := 0; i < nops; i++ {
					rid := fmt.Sprintf("g%d-%d", g, i)
					afterBegan := false
					select {
					case <-closeBegan:
						afterBegan = true
					default:
					}
					if pushes && i%2 == 1 {
						if !vt.Returns(func() { sess.Push(pushRoute, &LibArg{Rid: rid}) }) {
							failf("%s", vt.Hang("return of push "+rid+" racing a local Close (redial budget "+fmt.Sprint(budget)+")"))
							return
						}
						continue
					}
					var res LibRes
					var cmd erpc.CallCmd
					if !vt.Returns(func() { cmd = sess.Call(callRoute, &LibArg{Rid: rid, Act: "ret", Val: rid}, &res) }) {
						failf("%s", vt.Hang("return of call "+rid+" racing a local Close (redial budget "+fmt.Sprint(budget)+")"))
						return
					}
					select {
					case <-cmd.Done():
					default:
						failf("call %s returned but its done signal has not fired", rid)
					}
					if cmd.StatusOK() {
						if res.Val != rid {
							failf("call %s completed OK with %+v", rid, res)
						}
					} else {
						mu.Lock()
						overlapped++
						mu.Unlock()
					}
					if afterBegan && cmd.StatusOK() {
						mu.Lock()
						overlapped++
						mu.Unlock()
					}
				}
			}(g)
		}
		close(start)
		time.Sleep(head)
		if kill {
			go ts.kill()
		}
		go func() {
			close(closeBegan)
			sess.Close()
			close(closeDone)
		}()
		if !vt.WaitClosed(closeDone) {
			t.Fatalf("C02 violated: %s", vt.Hang(fmt.Sprintf("return of Close racing %d caller goroutine(s) on a session with redial budget %d (kill=%v)", workers, budget, kill)))
		}
		done := make(chan struct{})
		go func() { wg.Wait(); close(done) }()
		if !vt.WaitClosed(done) {
			mu.Lock()
			f := append([]string(nil), fails...)
			mu.Unlock()
			if len(f) > 0 {
				t.Fatalf("C02 violated: %s", f[0])
			}
			t.Fatalf("C02 violated: %s", vt.Hang("return of the caller goroutines after Close returned"))
		}
		if len(fails) > 0 {
			t.Fatalf("C02 violated (%d findings), first: %s", len(fails), fails[0])
		}
		// after Close returned the session is closed for good
		var cmd erpc.CallCmd
		if !vt.Returns(func() { cmd = sess.Call(callRoute, &LibArg{Rid: "late", Act: "ret"}, new(LibRes)) }) {
			t.Fatalf("C02 violated: %s", vt.Hang("return of a call issued after Close returned"))
		}
		if cmd.StatusOK() || !isConnErr(cmd.Status()) {
			t.Fatalf("C02 violated: a call issued after Close returned completed with %v, want a connection-class status", cmd.Status())
		}
		rec.Case(fmt.Sprintf("%d|%d|%d|%v|%v|%v", budget, workers, nops, head, kill, pushes), budget != 0 && overlapped > 0, fmt.Sprintf("budget=%d", budget), fmt.Sprintf("kill=%v", kill))
		if rec.WantSample() && budget != 0 && overlapped > 0 {
			rec.Sample(map[string]interface{}{"budget": budget, "workers": workers, "ops": nops, "head": head.String(), "kill": kill, "overlapping_ops": overlapped})
		}
	})
}
