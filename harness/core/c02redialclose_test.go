package core

import (
	"fmt"
	"sync"
	"sync/atomic"
	"testing"
	"time"

	erpc "github.com/henrylee2cn/erpc/v6"
	"pgregory.net/rapid"

	"verifharness/vt"
)

// TestC02CloseVsCalls: a local Close racing calls and pushes issued on the same session by other
// goroutines, on sessions with and without a redial budget, with and without a connection loss
// at about the same time. Whatever the order, every call completes exactly once and Close returns.
func TestC02CloseVsCalls(t *testing.T) {
	rec := vt.NewRec(t, "C02", "close-vs-calls", "a client session dialled over loopback TCP (redial budget 0 / 1 / 3 / unlimited) to a harness-owned listener in front of a serving peer; 1-4 goroutines issue 1-6 calls / pushes each while another goroutine closes the session after a generated head start (0-300 us), optionally the serving side kills the connection at about the same moment; oracle: every Call returns and its command is done (OK with its own result, or a non-OK status), every Push returns, Close returns - all within the liveness bound; calls issued after Close returned fail with a connection-class status; non-trivial = redial-enabled session and at least one call overlapped the close (measured: it was issued before Close returned and completed non-OK, or after Close began); distinct by case")
	rapid.Check(t, func(t *rapid.T) {
		vt.Init()
		budget := rapid.SampledFrom([]int{0, 1, 3, -1}).Draw(t, "budget")
		workers := rapid.IntRange(1, 4).Draw(t, "workers")
		nops := rapid.IntRange(1, 6).Draw(t, "nops")
		head := time.Duration(rapid.SampledFrom([]int{0, 0, 20, 100, 300}).Draw(t, "head_us")) * time.Microsecond
		kill := rapid.IntRange(0, 3).Draw(t, "kill") == 0
		pushes := rapid.Bool().Draw(t, "pushes")
		newLib()
		w := vt.NewWorld()
		defer w.Close()
		srv := w.Peer(erpc.PeerConfig{})
		callRoute, pushRoute := registerLib(srv)
		ts := &tcpServer{peer: srv}
		if err := ts.listen(); err != nil {
			t.Skip("harness: no listener")
		}
		defer ts.down()
		cli := w.Peer(erpc.PeerConfig{RedialTimes: int32(budget), RedialInterval: 2 * time.Millisecond})
		sess, stat := cli.Dial(ts.addr)
		if !stat.OK() {
			t.Skip("harness: dial failed")
		}
		var wg sync.WaitGroup
		var mu sync.Mutex
		var fails []string
		overlapped := 0
		failf := func(format string, a ...interface{}) {
			mu.Lock()
			fails = append(fails, fmt.Sprintf(format, a...))
			mu.Unlock()
		}
		closeBegan := make(chan struct{})
		closeDone := make(chan struct{})
		start := make(chan struct{})
		for g := 0; g < workers; g++ {
			wg.Add(1)
			go func(g int) {
				defer wg.Done()
				<-start
				for i := 0; i < nops; i++ {
					rid := fmt.Sprintf("g%d-%d", g, i)
					afterBegan := false
					select {
					case <-closeBegan:
						afterBegan = true
					default:
					}
					if pushes && i%2 == 1 {
						if !vt.Returns(func() { sess.Push(pushRoute, &LibArg{Rid: rid}) }) {
							failf("%s", vt.Hang("return of push "+rid+" racing a local Close (redial budget "+fmt.Sprint(budget)+")"))
							return
						}
						continue
					}
					var res LibRes
					var cmd erpc.CallCmd
					if !vt.Returns(func() { cmd = sess.Call(callRoute, &LibArg{Rid: rid, Act: "ret", Val: rid}, &res) }) {
						failf("%s", vt.Hang("return of call "+rid+" racing a local Close (redial budget "+fmt.Sprint(budget)+")"))
						return
					}
					select {
					case <-cmd.Done():
					default:
						failf("call %s returned but its done signal has not fired", rid)
					}
					if cmd.StatusOK() {
						if res.Val != rid {
							failf("call %s completed OK with %+v", rid, res)
						}
					} else {
						mu.Lock()
						overlapped++
						mu.Unlock()
					}
					if afterBegan && cmd.StatusOK() {
						mu.Lock()
						overlapped++
						mu.Unlock()
					}
				}
			}(g)
		}
		close(start)
		time.Sleep(head)
		if kill {
			go ts.kill()
		}
		go func() {
			close(closeBegan)
			sess.Close()
			close(closeDone)
		}()
		if !vt.WaitClosed(closeDone) {
			t.Fatalf("C02 violated: %s", vt.Hang(fmt.Sprintf("return of Close racing %d caller goroutine(s) on a session with redial budget %d (kill=%v)", workers, budget, kill)))
		}
		done := make(chan struct{})
		go func() { wg.Wait(); close(done) }()
		if !vt.WaitClosed(done) {
			mu.Lock()
			f := append([]string(nil), fails...)
			mu.Unlock()
			if len(f) > 0 {
				t.Fatalf("C02 violated: %s", f[0])
			}
			t.Fatalf("C02 violated: %s", vt.Hang("return of the caller goroutines after Close returned"))
		}
		if len(fails) > 0 {
			t.Fatalf("C02 violated (%d findings), first: %s", len(fails), fails[0])
		}
		// after Close returned the session is closed for good
		var cmd erpc.CallCmd
		if !vt.Returns(func() { cmd = sess.Call(callRoute, &LibArg{Rid: "late", Act: "ret"}, new(LibRes)) }) {
			t.Fatalf("C02 violated: %s", vt.Hang("return of a call issued after Close returned"))
		}
		if kill && budget != 0 && vt.IsKnown(c07CloseIgnoredKey) {
			// known finding: a Close that meets the session while it is redialing is ignored, the
			// session lives on (probe: TestC07KnownProbes); only completion is required here
			rec.Exclude(c07CloseIgnoredKey)
		} else if cmd.StatusOK() || !isConnErr(cmd.Status()) {
			t.Fatalf("C02 violated: a call issued after Close returned completed with %v, want a connection-class status", cmd.Status())
		}
		rec.Case(fmt.Sprintf("%d|%d|%d|%v|%v|%v", budget, workers, nops, head, kill, pushes), budget != 0 && overlapped > 0, fmt.Sprintf("budget=%d", budget), fmt.Sprintf("kill=%v", kill))
		if rec.WantSample() && budget != 0 && overlapped > 0 {
			rec.Sample(map[string]interface{}{"budget": budget, "workers": workers, "ops": nops, "head": head.String(), "kill": kill, "overlapping_ops": overlapped})
		}
	})
}

// TestC02RevivedSession: a redial-enabled client session that ENDED once (its redial budget was
// exhausted while the server was away: the close notification fired) and is used again after the
// server came back. Whatever such a session does with the later calls (fail them, or come back to
// life), every command issued on it completes exactly once - also the ones that are awaiting
// their reply when the connection is lost (again).
func TestC02RevivedSession(t *testing.T) {
	rec := vt.NewRec(t, "C02", "revived-session", "a client session dialled over loopback TCP with redial budget 1-3 (interval 2 ms) to a harness-owned listener in front of a serving peer; optionally a call before anything happens; the server goes away until the session's close notification has fired (budget exhausted), comes back, then 1-3 generated operations (Call / AsyncCall / Push) are issued on the same Session value, then 1-4 AsyncCalls with gated handlers (own completion channel each, or one shared channel with room for all) are issued and, once their handlers run (or they have failed), the connection is killed or the server goes away again, the gates open before or after that; oracle: every Call / Push returns, every AsyncCall returns a command whose done signal fires and which is delivered exactly once to its completion channel (counted at quiescence), OK only with its own result, all within the liveness bound; a final Close returns; non-trivial = a later operation completed OK (the session came back) and at least one gated call was awaiting its reply at the loss; distinct by case")
	rapid.Check(t, func(t *rapid.T) {
		vt.Init()
		budget := rapid.IntRange(1, 3).Draw(t, "budget")
		warm := rapid.Bool().Draw(t, "warm")
		nrev := rapid.IntRange(1, 3).Draw(t, "nrevive")
		revOps := make([]string, nrev)
		for i := range revOps {
			revOps[i] = rapid.SampledFrom([]string{"call", "async", "push"}).Draw(t, "reviveop")
		}
		npend := rapid.IntRange(1, 4).Draw(t, "npending")
		shared := rapid.Bool().Draw(t, "sharedchan")
		fault := rapid.SampledFrom([]string{"kill", "kill", "down"}).Draw(t, "fault")
		releaseFirst := rapid.IntRange(0, 3).Draw(t, "releasefirst") == 0
		lib := newLib()
		w := vt.NewWorld()
		defer w.Close()
		srv := w.Peer(erpc.PeerConfig{})
		callRoute, pushRoute := registerLib(srv)
		ts := &tcpServer{peer: srv}
		if err := ts.listen(); err != nil {
			t.Skip("harness: no listener")
		}
		defer ts.down()
		dials := &dialRecorder{}
		cli := w.Peer(erpc.PeerConfig{RedialTimes: int32(budget), RedialInterval: 2 * time.Millisecond, DialTimeout: 2 * time.Second}, dials)
		sess, stat := cli.Dial(ts.addr)
		if !stat.OK() {
			t.Skip("harness: dial failed")
		}
		canon := fmt.Sprintf("%d|%v|%v|%d|%v|%s|%v", budget, warm, revOps, npend, shared, fault, releaseFirst)
		hist := fmt.Sprintf("budget %d, ended once (server away until the close notification fired), server back, later ops %v", budget, revOps)
		// one synchronous call, bounded
		call := func(rid, what string) erpc.CallCmd {
			var res LibRes
			var cmd erpc.CallCmd
			if !vt.Returns(func() { cmd = sess.Call(callRoute, &LibArg{Rid: rid, Act: "ret", Val: rid}, &res) }) {
				t.Fatalf("C02 violated: %s", vt.Hang("return of Call "+what+" ("+hist+")"))
			}
			select {
			case <-cmd.Done():
			default:
				t.Fatalf("C02 violated: Call %s returned but its done signal has not fired (%s)", what, hist)
			}
			if cmd.StatusOK() && res.Val != rid {
				t.Fatalf("C02 violated: Call %s completed OK with %+v, want Val=%q", what, res, rid)
			}
			return cmd
		}
		if warm {
			if cmd := call("warm", "on the fresh session"); !cmd.StatusOK() {
				t.Fatalf("harness: the call on the fresh session failed: %v", cmd.Status())
			}
		}
		// the session ends: the server is away for longer than the budget bridges
		ts.down()
		vt.WaitUntil(func() bool {
			select {
			case <-sess.CloseNotify():
				return true
			default:
			}
			return atomic.LoadInt32(&dials.redials) > 0
		})
		if atomic.LoadInt32(&dials.redials) > 0 {
			t.Skip("harness: a redial was accepted while the listener was closed: its port has been given to another process")
		}
		if !vt.WaitClosed(sess.CloseNotify()) {
			t.Fatalf("harness: %s", vt.Hang(fmt.Sprintf("close notification of a session with redial budget %d whose server went away for good", budget)))
		}
		if err := ts.listen(); err != nil {
			t.Skip("harness: cannot re-listen")
		}
		// later operations on the ended session: each completes exactly once
		revived := false
		for i, op := range revOps {
			rid := fmt.Sprintf("rev%d", i)
			switch op {
			case "call":
				if call(rid, "on the ended session after the server came back").StatusOK() {
					revived = true
				}
			case "push":
				var st *erpc.Status
				if !vt.Returns(func() { st = sess.Push(pushRoute, &LibArg{Rid: rid}) }) {
					t.Fatalf("C02 violated: %s", vt.Hang("return of Push on the ended session after the server came back ("+hist+")"))
				}
				if st.OK() {
					revived = true
				}
			case "async":
				ch := make(chan erpc.CallCmd, 2)
				res := new(LibRes)
				var cmd erpc.CallCmd
				if !vt.Returns(func() { cmd = sess.AsyncCall(callRoute, &LibArg{Rid: rid, Act: "ret", Val: rid}, res, ch) }) {
					t.Fatalf("C02 violated: %s", vt.Hang("return of AsyncCall on the ended session after the server came back ("+hist+")"))
				}
				if !vt.WaitClosed(cmd.Done()) {
					t.Fatalf("C02 violated: %s", vt.Hang("done signal of an AsyncCall on the ended session after the server came back ("+hist+")"))
				}
				if cmd.StatusOK() {
					revived = true
					if res.Val != rid {
						t.Fatalf("C02 violated: AsyncCall %s completed OK with %+v", rid, *res)
					}
				}
				time.Sleep(200 * time.Microsecond)
				if n := len(ch); n != 1 {
					t.Fatalf("C02 violated: an AsyncCall on the ended session (%s) was delivered %d times to its completion channel", hist, n)
				}
			}
		}
		// pending calls on whatever the session is now, then a loss
		type pend struct {
			cmd     erpc.CallCmd
			res     *LibRes
			rid     string
			ch      chan erpc.CallCmd
			entered <-chan struct{}
			release func()
			waiting bool // its handler was running when the fault was injected
		}
		var sharedCh chan erpc.CallCmd
		if shared {
			sharedCh = make(chan erpc.CallCmd, 2*npend)
		}
		pends := make([]*pend, npend)
		defer func() {
			for _, p := range pends {
				if p != nil {
					p.release()
				}
			}
		}()
		for i := range pends {
			p := &pend{rid: fmt.Sprintf("pend%d", i), res: new(LibRes), ch: sharedCh}
			if p.ch == nil {
				p.ch = make(chan erpc.CallCmd, 2)
			}
			p.entered, p.release = lib.Gate(p.rid)
			pends[i] = p
			if !vt.Returns(func() { p.cmd = sess.AsyncCall(callRoute, &LibArg{Rid: p.rid, Act: "slow", Val: p.rid}, p.res, p.ch) }) {
				t.Fatalf("C02 violated: %s", vt.Hang("return of AsyncCall (gated handler) on the session ("+hist+")"))
			}
		}
		nwaiting := 0
		for _, p := range pends {
			tm := time.NewTimer(vt.LivenessBound)
			select {
			case <-p.entered:
				p.waiting = true
				nwaiting++
			case <-p.cmd.Done():
			case <-tm.C:
				t.Fatalf("C02 violated: %s", vt.Hang("entry of the handler of call "+p.rid+" or its completion ("+hist+")"))
			}
			tm.Stop()
		}
		if releaseFirst {
			for _, p := range pends {
				p.release()
			}
		}
		if fault == "down" {
			ts.down()
		} else {
			ts.kill()
		}
		for _, p := range pends {
			p.release()
		}
		for _, p := range pends {
			if !vt.WaitClosed(p.cmd.Done()) {
				t.Fatalf("C02 violated: %s", vt.Hang(fmt.Sprintf("done signal of call %s that was awaiting its reply (handler running: %v) when the connection was lost (%s) on a session with this history: %s, came back: %v", p.rid, p.waiting, fault, hist, revived)))
			}
			if p.cmd.StatusOK() && p.res.Val != p.rid {
				t.Fatalf("C02 violated: call %s completed OK with %+v", p.rid, *p.res)
			}
		}
		// exactly one delivery each, counted at quiescence
		time.Sleep(300 * time.Microsecond)
		count := map[erpc.CallCmd]int{}
		drain := func(ch chan erpc.CallCmd) {
			for {
				select {
				case c := <-ch:
					count[c]++
					continue
				default:
				}
				return
			}
		}
		if shared {
			drain(sharedCh)
		} else {
			for _, p := range pends {
				drain(p.ch)
			}
		}
		for _, p := range pends {
			if count[p.cmd] != 1 {
				t.Fatalf("C02 violated: call %s (done, status %v) was delivered %d times to its completion channel (%s, loss: %s)", p.rid, p.cmd.Status(), count[p.cmd], hist, fault)
			}
		}
		if len(count) != npend {
			t.Fatalf("C02 violated: the completion channels delivered %d distinct commands, %d were issued", len(count), npend)
		}
		if !vt.Returns(func() { sess.Close() }) {
			t.Fatalf("C02 violated: %s", vt.Hang("return of Close at the end ("+hist+", then "+fmt.Sprint(npend)+" pending calls and a loss: "+fault+")"))
		}
		nt := revived && nwaiting > 0
		rec.Case(canon, nt, fmt.Sprintf("budget=%d", budget), "fault="+fault, fmt.Sprintf("came-back=%v", revived), fmt.Sprintf("awaiting-reply-at-loss=%d", nwaiting))
		if rec.WantSample() && nt {
			rec.Sample(map[string]interface{}{"budget": budget, "later_ops": revOps, "pending": npend, "awaiting_reply_at_loss": nwaiting, "shared_channel": shared, "fault": fault, "gates_open_before_loss": releaseFirst})
		}
	})
}

const c07CloseIgnoredKey = "C07:redialing-session:close-is-ignored"

// TestC07KnownProbes: deterministic reproduction of the listed known finding
// C07:redialing-session:close-is-ignored. A redial-enabled client session loses its connection
// while one of its handlers is running; its reader has marked the session as passively closing and
// waits for the handler before it redials. A local Close issued in that window returns at once
// without closing anything; afterwards the redial succeeds and the session is healthy again and
// serves calls - after a local close.
func TestC07KnownProbes(t *testing.T) {
	rec := vt.NewRec(t, "C07", "known-probes", "deterministic reproductions of listed known findings")
	vt.Init()
	newLib()
	w := vt.NewWorld()
	defer w.Close()
	srv := w.Peer(erpc.PeerConfig{})
	callRoute, _ := registerLib(srv)
	ts := &tcpServer{peer: srv}
	if err := ts.listen(); err != nil {
		return
	}
	defer ts.down()
	cli := w.Peer(erpc.PeerConfig{RedialTimes: -1, RedialInterval: 2 * time.Millisecond})
	cliRoute, _ := registerLib(cli)
	sess, stat := cli.Dial(ts.addr)
	if !stat.OK() {
		return
	}
	// a handler of the client is running (a call issued by the server): the disconnect handling
	// of the client's reader waits for it before it redials
	var srvSess erpc.Session
	if !vt.WaitUntilFor(3*time.Second, func() bool {
		srv.RangeSession(func(x erpc.Session) bool { srvSess = x; return false })
		return srvSess != nil
	}) {
		return
	}
	entered, release := curLib().Gate("held")
	defer release()
	go srvSess.Call(cliRoute, &LibArg{Rid: "held", Act: "slow", Val: "v"}, new(LibRes))
	if !vt.WaitClosed(entered) {
		return
	}
	ts.kill()
	if !vt.WaitUntilFor(5*time.Second, func() bool { return !sess.Health() }) {
		return
	}
	time.Sleep(2 * time.Millisecond)
	if !vt.Returns(func() { sess.Close() }) {
		t.Fatalf("C07 violated: %s", vt.Hang("return of Close on a session whose connection was just lost"))
	}
	release()
	alive := vt.WaitUntilFor(3*time.Second, func() bool {
		if !sess.Health() {
			return false
		}
		var res LibRes
		var st *erpc.Status
		if !vt.Returns(func() { st = sess.Call(callRoute, &LibArg{Rid: "after-close", Act: "ret", Val: "v"}, &res).Status() }) {
			return false
		}
		return st.OK()
	})
	if !alive {
		return // does not reproduce (any more)
	}
	// the probe's session must not outlive the probe (it would go on redialing)
	defer func() { vt.Returns(func() { sess.Close() }) }()
	what := "a local Close issued between the loss of the connection of a redial-enabled session and its redial (the reader waits for a running handler) returns without closing anything: the redial then succeeds, the session is healthy again and a call issued after Close returned succeeds"
	if vt.IsKnown(c07CloseIgnoredKey) {
		rec.KnownFinding(c07CloseIgnoredKey, what)
		return
	}
	t.Fatalf("C07 violated: %s", what)
}
