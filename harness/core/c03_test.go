package core

import (
	"context"
	"encoding/json"
	"fmt"
	"strings"
	"testing"
	"time"

	erpc "github.com/henrylee2cn/erpc/v6"
	"github.com/henrylee2cn/erpc/v6/socket"
	"pgregory.net/rapid"

	"verifharness/vt"
)

type c03Frame struct {
	Kind  string // call | push | reply | badtype
	Mtype byte
	Route string // lib | unknown | empty | long
	Act   string
	Body  string // ok | undecodable | empty
	Codec string // json | unreg | zero
	Veto  string
	Panic string // plugin stage at which the plugin panics ("" = never)
	Seq   int32
	Rid   string
}

type c03Case struct {
	Proto   string
	Frames  []c03Frame
	OneShot bool // all frames in one write (pipelined)
	Chunks  []int
	Cycle   bool
	// before the frames arrive the serving session itself sent messages with a context that
	// has a deadline, and that deadline has passed since: none | push | call
	PriorDeadline string
	// the serving peer bounds the age of its handler contexts (generously: nothing expires):
	// "" | config (PeerConfig.DefaultContextAge) | session (SetContextAge in a PostAccept hook)
	CtxAge string
	// size of the process-wide goroutine pool (erpc.SetGopool) the serving peer runs on; 0 = default.
	// The reader of the serving session occupies one of them, every handler that has not returned another.
	Pool int
	// the serving session starts with a short session age (PeerConfig.DefaultSessionAge) that is
	// prolonged on the running session before it elapses (SetSessionAge to one minute / to
	// unlimited); the frames arrive after the initial age has passed: "" | minute | unlimited
	SessAge string
}

// c03InitialAge is the session age a "prolonged" session starts with.
// (the framework measures session ages with a clock of 100 ms granularity)
const c03InitialAge = 150 * time.Millisecond

// c03Unrealised is returned by runC03 when the machine was too slow to set up a timed case.
const c03Unrealised = "harness: timed case not realised"

var callStages = []string{"PostReadCallHeader", "PreReadCallBody", "PostReadCallBody"}
var pushStages = []string{"PostReadPushHeader", "PreReadPushBody", "PostReadPushBody"}

func genC03(t *rapid.T, protos []vt.NamedProto) c03Case {
	c := c03Case{Proto: rapid.SampledFrom(protos).Draw(t, "proto").Name}
	n := rapid.IntRange(1, 10).Draw(t, "nframes")
	for i := 0; i < n; i++ {
		f := c03Frame{Rid: fmt.Sprintf("r%d", i)}
		f.Kind = rapid.SampledFrom([]string{"call", "call", "call", "call", "push", "push", "reply", "badtype"}).Draw(t, "kind")
		if f.Kind == "badtype" {
			if rapid.IntRange(0, 9).Draw(t, "rarebad") != 0 {
				f.Kind = "call" // keep killers rare so that most cases exercise the exactly-once half
			} else {
				f.Mtype = rapid.SampledFrom([]byte{0, 4, 5, 6, 7, 100, 255}).Draw(t, "mtype")
			}
		}
		f.Route = rapid.SampledFrom([]string{"lib", "lib", "lib", "lib", "unknown", "empty", "long"}).Draw(t, "route")
		f.Act = rapid.SampledFrom([]string{"ret", "ret", "ret-okstatus", "err", "panic-s", "panic-e", "panic-st", "slow", "badreply", "bigreply"}).Draw(t, "act")
		f.Body = rapid.SampledFrom([]string{"ok", "ok", "ok", "undecodable", "empty"}).Draw(t, "body")
		f.Codec = rapid.SampledFrom([]string{"json", "json", "json", "json", "unreg", "zero"}).Draw(t, "codec")
		if f.Codec == "zero" && rapid.IntRange(0, 3).Draw(t, "rarezero") != 0 {
			f.Codec = "json"
		}
		if rapid.IntRange(0, 4).Draw(t, "hasveto") == 0 {
			if f.Kind == "push" {
				f.Veto = rapid.SampledFrom(pushStages).Draw(t, "Veto")
			} else {
				f.Veto = rapid.SampledFrom(callStages).Draw(t, "Veto")
			}
		}
		if f.Veto == "" && f.Kind == "call" && rapid.IntRange(0, 5).Draw(t, "haspanic") == 0 {
			f.Panic = rapid.SampledFrom([]string{"PostReadCallBody", "PreWriteReply", "PostWriteReply", "PostWriteReply"}).Draw(t, "ppanic")
		}
		if i > 0 && rapid.IntRange(0, 5).Draw(t, "dupseq") == 0 {
			f.Seq = c.Frames[rapid.IntRange(0, i-1).Draw(t, "dupidx")].Seq
		} else {
			f.Seq = int32(100 + i)
			if rapid.IntRange(0, 6).Draw(t, "extseq") == 0 {
				f.Seq = vt.Seq(t, "seq")
			}
		}
		c.Frames = append(c.Frames, f)
	}
	c.OneShot = rapid.Bool().Draw(t, "oneshot")
	c.PriorDeadline = rapid.SampledFrom([]string{"none", "none", "none", "push", "call"}).Draw(t, "priordeadline")
	c.CtxAge = rapid.SampledFrom([]string{"", "", "config", "session"}).Draw(t, "ctxage")
	c.Chunks, c.Cycle = vt.Chunks(t, "chunks")
	return c
}

// bodyObjectBound: the framework binds a body object only when the route is
// known and no hook vetoed before the body is read.
func (f c03Frame) bodyObjectBound() bool {
	if f.Route != "lib" {
		return false
	}
	return f.Veto != "PostReadCallHeader" && f.Veto != "PreReadCallBody" && f.Veto != "PostReadPushHeader" && f.Veto != "PreReadPushBody"
}

func (f c03Frame) bodyBytes() []byte {
	switch f.Body {
	case "empty":
		return nil
	case "undecodable":
		return []byte(`{"Rid": 5, "Act": [`)
	}
	b, _ := json.Marshal(LibArg{Rid: f.Rid, Act: f.Act, Val: "v" + f.Rid, Code: 4242, Msg: "m", Cause: "c", HasC: true})
	return b
}

// killer: a frame after which the session is disconnected instead of answered.
func (f c03Frame) killer() bool {
	if f.Kind == "badtype" {
		return true
	}
	if f.Kind == "reply" {
		return false
	}
	// read error with body codec id 0 ends the read loop
	return f.Codec == "zero" && len(f.bodyBytes()) > 0 && f.bodyObjectBound()
}

func (f c03Frame) decodes() bool {
	if len(f.bodyBytes()) == 0 {
		return true
	}
	return f.Body == "ok" && f.Codec == "json"
}

func (f c03Frame) handlerExpected() bool {
	return (f.Kind == "call" || f.Kind == "push") && f.Route == "lib" && f.Veto == "" && f.decodes() && f.Panic != "PostReadCallBody"
}

func (f c03Frame) expectedCode() int32 {
	switch {
	case f.Veto == "PostReadCallHeader":
		return 777
	case f.Route == "empty":
		return 400
	case f.Route != "lib":
		return 404
	case f.Veto == "PreReadCallBody":
		return 777
	case !f.decodes():
		return 400
	case f.Veto == "PostReadCallBody":
		return 777
	case f.Panic == "PostReadCallBody":
		return 500 // a panicking hook before the handler: the call is answered once, with 500
	}
	if f.Panic == "PreWriteReply" {
		// a panicking hook before the reply is written: answered once; 500 unless the handler already failed
		g := f
		g.Panic = ""
		if c := g.expectedCode(); c != 0 {
			return c
		}
		return 500
	}
	if len(f.bodyBytes()) == 0 {
		// zero LibArg: Act "" -> ret; the reply body is marshalled with the
		// request's codec, which fails for an unregistered / nil codec id
		if f.Codec != "json" {
			return 500
		}
		return 0
	}
	switch f.Act {
	case "err":
		return 4242
	case "panic-s", "panic-e", "panic-st":
		return 500 // a panic of any value is the framework's 500 rule
	case "badreply", "bigreply":
		return 500 // the reply cannot be written (unmarshalable / over the size limit): one 500 instead
	}
	return 0
}

func (f c03Frame) msg(callRoute, pushRoute string) vt.Msg {
	m := vt.Msg{Seq: f.Seq, Body: f.bodyBytes()}
	switch f.Kind {
	case "call":
		m.Mtype = erpc.TypeCall
	case "push":
		m.Mtype = erpc.TypePush
	case "reply":
		m.Mtype = erpc.TypeReply
	default:
		m.Mtype = f.Mtype
	}
	route := callRoute
	if f.Kind == "push" {
		route = pushRoute
	}
	switch f.Route {
	case "lib":
		m.Method = route
	case "unknown":
		m.Method = route + "_nope"
	case "empty":
		m.Method = ""
	case "long":
		m.Method = "/" + strings.Repeat("u", 254)
	}
	switch f.Codec {
	case "json":
		m.Codec = 'j'
	case "unreg":
		m.Codec = 'q'
	case "zero":
		m.Codec = 0
	}
	m.Meta = []vt.KV{{K: "Rid", V: f.Rid}}
	if f.Veto != "" {
		m.Meta = append(m.Meta, vt.KV{K: "Veto", V: f.Veto}, vt.KV{K: "Vcode", V: "777"})
	}
	if f.Panic != "" {
		m.Meta = append(m.Meta, vt.KV{K: "Ppanic", V: f.Panic})
	}
	return m
}

func runC03(c c03Case, protos []vt.NamedProto) []string {
	vt.Init()
	if c.Pool > 0 {
		erpc.SetGopool(c.Pool, time.Minute)
		defer erpc.SetGopool(0, 0)
	}
	s := newLib()
	w := vt.NewWorld()
	defer w.Close()
	cfg := erpc.PeerConfig{}
	if c.CtxAge == "config" {
		cfg.DefaultContextAge = time.Minute
	}
	if c.SessAge != "" {
		cfg.DefaultSessionAge = c03InitialAge
	}
	plugs := []erpc.Plugin{&vetoPlugin{name: "veto"}}
	if c.CtxAge == "session" {
		plugs = append(plugs, &ageSetter{age: time.Minute})
	}
	srv := w.Peer(cfg, plugs...)
	callRoute, pushRoute := registerLib(srv)
	proto := protoByName(protos, c.Proto)
	pair := vt.NewPair()
	pair.SetChunks(vt.AtoB, c.Chunks, c.Cycle)
	sess, stat := srv.ServeConn(pair.B, proto.Fn)
	if !stat.OK() {
		return []string{"ServeConn: " + stat.String()}
	}
	raw := vt.NewRawPeer(pair, pair.A, proto.Fn)
	defer raw.Close()

	var fails []string
	failf := func(format string, a ...interface{}) { fails = append(fails, fmt.Sprintf(format, a...)) }

	if c.SessAge != "" {
		// the age the session started with is replaced before it elapses; the session lives on.
		// A push that has been handled shows that the reader of the session is running (it
		// picks up the session age when it starts).
		warm := c03Frame{Kind: "push", Route: "lib", Act: "ret", Body: "ok", Codec: "json", Seq: -77003, Rid: "warm"}
		raw.Send(warm.msg(callRoute, pushRoute))
		if !vt.WaitUntilFor(c03InitialAge/3, func() bool { return s.Pushes("warm") == 1 }) {
			return []string{c03Unrealised} // too slow for the initial age: nothing to check
		}
		if c.SessAge == "minute" {
			sess.(erpc.PreSession).SetSessionAge(time.Minute)
		} else {
			sess.(erpc.PreSession).SetSessionAge(0)
		}
		time.Sleep(c03InitialAge + 5*time.Millisecond)
		if !sess.Health() || raw.EOF() {
			// the machine stalled for longer than the initial age between ServeConn and
			// SetSessionAge: the session legitimately expired; nothing to check
			return []string{c03Unrealised}
		}
	}

	if c.PriorDeadline != "none" {
		// what the session sent earlier - and with which deadline - has no bearing on the replies it owes now
		ctx, cancel := context.WithTimeout(context.Background(), 2*time.Millisecond)
		ownFrame := func() (vt.RawFrame, bool) {
			for _, fr := range raw.Frames() {
				if fr.Method == "/client/note" || fr.Method == "/client/do" {
					return fr, true
				}
			}
			return vt.RawFrame{}, false
		}
		if c.PriorDeadline == "push" {
			sess.Push("/client/note", &LibArg{Rid: "prior"}, erpc.WithContext(ctx))
		} else {
			prior := sess.AsyncCall("/client/do", &LibArg{Rid: "prior"}, new(LibRes), make(chan erpc.CallCmd, 1), erpc.WithContext(ctx))
			written := true
			select {
			case <-prior.Done():
				written = false // the deadline passed before the message could be written: no frame
			default:
			}
			if written {
				// answer it, so that nothing of it is left pending when the session closes
				if vt.WaitUntilFor(vt.LivenessBound, func() bool {
					_, ok := ownFrame()
					if ok {
						return true
					}
					select {
					case <-prior.Done():
						return true
					default:
						return false
					}
				}) {
					if fr, ok := ownFrame(); ok {
						raw.Send(vt.Msg{Seq: fr.Seq, Mtype: erpc.TypeReply, Codec: 'j', Body: []byte(`{"Rid":"prior"}`)})
					}
				}
			}
		}
		<-ctx.Done()
		cancel()
		time.Sleep(200 * time.Microsecond)
	}
	hasKiller := false
	var releases []func()
	for _, f := range c.Frames {
		if f.Act == "bigreply" {
			// a configured message size limit that the handler's result exceeds
			socket.SetMessageSizeLimit(64 << 10)
			defer socket.SetMessageSizeLimit(0)
		}
		if f.killer() {
			hasKiller = true
		}
		if f.Kind == "call" && f.Act == "slow" {
			_, rel := s.Gate(f.Rid)
			releases = append(releases, rel)
		}
	}
	// send
	if c.OneShot {
		// pack every frame into a buffer and deliver it as one write
		wrw := &vt.RW{}
		p := proto.Fn(wrw)
		for _, f := range c.Frames {
			if err := p.Pack(f.msg(callRoute, pushRoute).Build()); err != nil {
				return []string{"harness pack: " + err.Error()}
			}
		}
		raw.SendBytes(wrw.Written())
	} else {
		for _, f := range c.Frames {
			if err := raw.Send(f.msg(callRoute, pushRoute)); err != nil {
				break // the session may already be gone after a killer
			}
		}
	}
	for _, rel := range releases {
		rel()
	}

	ncalls := 0
	for _, f := range c.Frames {
		if f.Kind == "call" {
			ncalls++
		}
	}
	const fenceSeq = int32(-77001)
	if !hasKiller {
		// every CALL must be answered while the session stays up
		ok := raw.WaitFor(func(fr []vt.RawFrame) bool { return countReplies(fr) >= ncalls })
		if !ok {
			failf("%s", vt.Hang(fmt.Sprintf("only %d of %d CALL frames were answered on a connection that stays up; the rest", countReplies(raw.Frames()), ncalls)))
		} else if raw.EOF() && countReplies(raw.Frames()) < ncalls {
			failf("session was disconnected although no frame requires it; %d of %d CALLs answered", countReplies(raw.Frames()), ncalls)
		}
		// fence: the session is still fully functional
		fence := c03Frame{Kind: "call", Route: "lib", Act: "ret", Body: "ok", Codec: "json", Seq: fenceSeq, Rid: "fence"}
		raw.Send(fence.msg(callRoute, pushRoute))
		if !raw.WaitFor(func(fr []vt.RawFrame) bool {
			for _, x := range fr {
				if x.Seq == fenceSeq {
					return true
				}
			}
			return false
		}) {
			failf("%s", vt.Hang("reply to a CALL sent after the sequence"))
		}
		// barrier: a graceful close waits for every running handler and its reply
		sess.Close()
	}
	if !raw.WaitEOF() {
		failf("%s", vt.Hang("disconnect (after a frame of unsupported type / unreadable frame, or after Close)"))
	}
	frames := raw.Frames()
	// the session's own earlier message (whenever it shows up in the capture) is not a response
	own := frames[:0:0]
	for _, fr := range frames {
		if fr.Method == "/client/note" || fr.Method == "/client/do" {
			continue
		}
		own = append(own, fr)
	}
	frames = own

	// count replies per seq; nothing but REPLY frames may ever be written by the server here
	replies := map[int32][]vt.RawFrame{}
	for _, fr := range frames {
		if fr.Mtype != erpc.TypeReply {
			failf("server wrote a frame of type %d (seq %d) in response to the input", fr.Mtype, fr.Seq)
			continue
		}
		replies[fr.Seq] = append(replies[fr.Seq], fr)
	}
	callsPerSeq := map[int32][]c03Frame{}
	for _, f := range c.Frames {
		if f.Kind == "call" {
			callsPerSeq[f.Seq] = append(callsPerSeq[f.Seq], f)
		}
	}
	for seq, fs := range callsPerSeq {
		got := len(replies[seq])
		if got > len(fs) {
			failf("seq %d: %d CALL frame(s) but %d REPLY frames (answered twice)", seq, len(fs), got)
		}
		if !hasKiller && got < len(fs) {
			failf("seq %d: %d CALL frame(s) but %d REPLY frames (silently dropped)", seq, len(fs), got)
		}
		if !hasKiller && len(fs) == 1 && got == 1 {
			if want := fs[0].expectedCode(); replies[seq][0].Status.Code != want {
				failf("seq %d (%+v): reply status code %d, want %d", seq, fs[0], replies[seq][0].Status.Code, want)
			}
		}
	}
	for seq, rs := range replies {
		if seq == fenceSeq {
			if len(rs) != 1 {
				failf("fence call answered %d times", len(rs))
			}
			continue
		}
		if len(callsPerSeq[seq]) == 0 {
			failf("REPLY with seq %d but no CALL with that seq was sent (%d replies)", seq, len(rs))
		}
	}
	// handler invocations
	for _, f := range c.Frames {
		var n int
		switch f.Kind {
		case "call":
			n = s.Calls(f.Rid)
		case "push":
			n = s.Pushes(f.Rid)
		default:
			if s.Calls(f.Rid)+s.Pushes(f.Rid) != 0 {
				failf("frame %+v of type %s invoked a handler", f, f.Kind)
			}
			continue
		}
		if n > 1 {
			failf("frame %+v: handler invoked %d times", f, n)
		}
		if !hasKiller {
			want := 0
			if f.handlerExpected() {
				want = 1
			}
			if f.Kind == "push" && c.Pool > 0 && n == 0 {
				// a push carries no acknowledgement; the property bounds its handler invocations by one
				continue
			}
			if n != want {
				failf("frame %+v: handler invoked %d times, want %d", f, n, want)
			}
		} else if !f.handlerExpected() && n != 0 {
			failf("frame %+v: handler invoked %d times although route/veto/body rule it out", f, n)
		}
	}
	return fails
}

func countReplies(fr []vt.RawFrame) int {
	n := 0
	for _, f := range fr {
		if f.Mtype == erpc.TypeReply {
			n++
		}
	}
	return n
}

func (c c03Case) nontrivial() bool {
	for _, f := range c.Frames {
		if f.Kind == "call" && (f.Route != "lib" || f.Veto != "" || f.Panic != "" || !f.decodes() || strings.HasPrefix(f.Act, "panic") || f.Act == "badreply" || f.Act == "bigreply" || f.Act == "err") {
			return true
		}
	}
	return len(c.Frames) >= 2 && c.OneShot
}

func TestC03Dispatch(t *testing.T) {
	rec := vt.NewRec(t, "C03", "dispatch", "a scripted raw peer sends 1-10 generated frames (type byte, route known/unknown/empty/255 bytes, body decodable/undecodable/empty, codec registered/unregistered/0, veto metadata for a pre-handler plugin, a plugin panicking at PostReadCallBody / PreWriteReply / PostWriteReply, duplicate and extreme seqs; handler behaviour return/error/panic(string,error,*Status)/gated/unmarshalable reply/reply larger than a configured 64 KiB message size limit) to a real server session (which, in two cases out of five, has itself sent a push or a call whose context deadline has passed since, and which in half of the cases bounds the age of its handler contexts by PeerConfig.DefaultContextAge or by SetContextAge in a PostAccept hook at one minute), pipelined in one write or frame by frame, under a generated read chunking; reference model of dispatch decides expected replies per seq and handler invocations per request id; non-trivial = an error path or >=2 pipelined frames; distinct by the frame list")
	protos := vt.StreamProtos()
	rapid.Check(t, func(t *rapid.T) {
		c := genC03(t, protos)
		killer := false
		for _, f := range c.Frames {
			killer = killer || f.killer()
		}
		rec.Case(fmt.Sprintf("%+v", c), c.nontrivial(), "proto="+c.Proto, fmt.Sprintf("killer=%v", killer), fmt.Sprintf("oneshot=%v", c.OneShot))
		if rec.WantSample() && c.nontrivial() {
			rec.Sample(c)
		}
		vt.Journal("C03", c)
		if fails := runC03(c, protos); len(fails) > 0 {
			t.Fatalf("C03 violated (%d findings), first: %s\ncase: %+v", len(fails), fails[0], c)
		}
	})
}

// TestC03SmallPool: the same dispatch model on a process whose goroutine pool was configured
// small (erpc.SetGopool, a documented knob): gated handlers hold the few goroutines there are
// while further frames arrive. However the framework schedules the work, every CALL is still
// answered exactly once and handled at most once on a connection that stays up.
func TestC03SmallPool(t *testing.T) {
	rec := vt.NewRec(t, "C03", "small-pool", "the dispatch cases of C03 (1-14 frames, more of them with gated handlers) against a serving peer whose process-wide goroutine pool was set to 2 / 3 / 4 / 6 goroutines with erpc.SetGopool before the peer was created; the reader of the session holds one of them and every gated handler another until the harness releases it, so frames arrive while no goroutine is free; same reference model: every CALL answered exactly once with the modelled status, handler invocations per request id, a fence call answered afterwards, graceful close returns; non-trivial = more gated handlers than free goroutines; distinct by the frame list")
	protos := vt.StreamProtos()
	defer erpc.SetGopool(0, 0)
	rapid.Check(t, func(t *rapid.T) {
		c := genC03(t, protos)
		c.Pool = rapid.SampledFrom([]int{2, 2, 3, 4, 6}).Draw(t, "pool")
		extra := rapid.IntRange(0, 6).Draw(t, "extra")
		for i := 0; i < extra; i++ {
			c.Frames = append(c.Frames, c03Frame{Kind: rapid.SampledFrom([]string{"call", "call", "push"}).Draw(t, "xkind"), Route: "lib", Act: rapid.SampledFrom([]string{"slow", "slow", "ret"}).Draw(t, "xact"), Body: "ok", Codec: "json", Seq: int32(5000 + i), Rid: fmt.Sprintf("x%d", i)})
		}
		gated := 0
		killer := false
		for _, f := range c.Frames {
			killer = killer || f.killer()
			if f.Kind == "call" && f.Act == "slow" && f.handlerExpected() {
				gated++
			}
		}
		busy := gated > c.Pool-1
		rec.Case(fmt.Sprintf("%+v", c), busy && !killer, fmt.Sprintf("pool=%d", c.Pool), fmt.Sprintf("killer=%v", killer), fmt.Sprintf("gated>free=%v", busy))
		if rec.WantSample() && busy && !killer {
			rec.Sample(c)
		}
		vt.Journal("C03", c)
		if fails := runC03(c, protos); len(fails) > 0 {
			t.Fatalf("C03 violated (%d findings), first: %s\ncase: %+v", len(fails), fails[0], c)
		}
	})
}

// TestC03SessionAge: the serving session starts with a short session age that is renewed on
// the running session (SetSessionAge, to one minute or to unlimited) before it elapses; the
// frames arrive after the initial age has passed. The session is live, so the dispatch model
// holds unchanged.
func TestC03SessionAge(t *testing.T) {
	rec := vt.NewRec(t, "C03", "session-age", "the dispatch cases of C03 against a serving session created with PeerConfig.DefaultSessionAge = 150 ms whose age is renewed through SetSessionAge (one minute / unlimited) once its reader runs (a handled push shows that) and before the initial age elapses; the generated frames arrive 5 ms after the initial age has passed, on a session that is healthy; with and without a context age; same reference model (every CALL answered exactly once with the modelled status, handlers at most once, fence call answered); a case in which the machine was too slow to renew the age in time is counted as unrealised and decides nothing; non-trivial = realised; distinct by the frame list")
	protos := vt.StreamProtos()
	rapid.Check(t, func(t *rapid.T) {
		c := genC03(t, protos)
		c.SessAge = rapid.SampledFrom([]string{"minute", "unlimited"}).Draw(t, "sessage")
		c.PriorDeadline = "none"
		vt.Journal("C03", c)
		fails := runC03(c, protos)
		if len(fails) == 1 && fails[0] == c03Unrealised {
			rec.Case(fmt.Sprintf("%+v", c), false, "unrealised")
			return
		}
		rec.Case(fmt.Sprintf("%+v", c), true, "renewed="+c.SessAge, "ctxage="+c.CtxAge)
		if rec.WantSample() {
			rec.Sample(c)
		}
		if len(fails) > 0 {
			t.Fatalf("C03 violated (%d findings), first: %s\ncase: %+v", len(fails), fails[0], c)
		}
	})
}
