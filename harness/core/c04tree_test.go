package core

// C04, cause class "veto by a plugin of the route's own chain": the vetoing plugin is not the
// peer's but one attached to a SubRoute group above the handler or to the handler itself, on a
// generated tree of groups with sibling groups and sibling handlers that carry different plugins.
// What a caller of a route sees is decided by the plugins on the chain of THAT route only.

import (
	"fmt"
	"strings"
	"testing"

	erpc "github.com/henrylee2cn/erpc/v6"
	"pgregory.net/rapid"

	"verifharness/vt"
)

// c04TreeVeto is the behaviour of one plugin of the tree.
type c04TreeVeto struct {
	Name  string
	Stage string // "" lets every call through | PostReadCallHeader (peer-level plugins only) | PreReadCallBody | PostReadCallBody
	Code  int32
}

func (v c04TreeVeto) status() (int32, string, string) {
	return v.Code, "veto by " + v.Name, "at " + v.Stage
}

// treeVetoPlugin is attached to groups and handlers (the stages that run on a handler's chain).
type treeVetoPlugin struct{ spec c04TreeVeto }

func (p *treeVetoPlugin) Name() string { return p.spec.Name }
func (p *treeVetoPlugin) at(stage string) *erpc.Status {
	if p.spec.Stage == stage {
		return erpc.NewStatus(p.spec.status())
	}
	return nil
}
func (p *treeVetoPlugin) PreReadCallBody(erpc.ReadCtx) *erpc.Status  { return p.at("PreReadCallBody") }
func (p *treeVetoPlugin) PostReadCallBody(erpc.ReadCtx) *erpc.Status { return p.at("PostReadCallBody") }

// peerVetoPlugin is a peer-level plugin: it also sees the header stage.
type peerVetoPlugin struct{ treeVetoPlugin }

func (p *peerVetoPlugin) PostReadCallHeader(erpc.ReadCtx) *erpc.Status {
	return p.at("PostReadCallHeader")
}

type c04TreeCase struct {
	Proto string
	Hist  phHistory
	Plugs []c04TreeVeto
}

func (c c04TreeCase) spec(name string) c04TreeVeto {
	for _, p := range c.Plugs {
		if p.Name == name {
			return p
		}
	}
	return c04TreeVeto{Name: name}
}

// expect returns the plugin whose status the caller of r must see (nil: OK and the result) and
// where that plugin sits: peer | group | own.
func (c c04TreeCase) expect(r phRoute) (*c04TreeVeto, string) {
	left, right := c.Hist.global()
	global := append(append([]string{}, left...), right...)
	level := func(name string) string {
		switch {
		case phHas(global, name):
			return "peer"
		case phHas(r.Own, name):
			return "own"
		}
		return "group"
	}
	// the header stage runs on the peer's plugins before the route is looked up
	for _, n := range global {
		if v := c.spec(n); v.Stage == "PostReadCallHeader" {
			return &v, "peer"
		}
	}
	chain := c.Hist.chain(r)
	for _, stage := range []string{"PreReadCallBody", "PostReadCallBody"} {
		for _, n := range chain {
			if v := c.spec(n); v.Stage == stage {
				return &v, level(n)
			}
		}
	}
	return nil, "none"
}

func genC04Tree(t *rapid.T, protos []vt.NamedProto) c04TreeCase {
	c := c04TreeCase{Proto: rapid.SampledFrom(protos).Draw(t, "proto").Name}
	g := genPHistory(t, "tree", phGenCfg{NCall: 3, MaxDepth: 4, MinSteps: 2, MaxSteps: 10, GroupPlugs: 2, RoutePlugs: 2, Unknown: true, Siblings: true})
	// somewhere in the tree: two sibling groups and two sibling handlers with plugins of their own
	if !g.H.hasSiblingGroups() {
		g.sibGroups()
	}
	if !g.H.hasSiblingHandlers() {
		g.sibHandlers()
	}
	// a later change of the peer-level plugins
	if rapid.Bool().Draw(t, "peerchange") {
		g.peerChange()
	}
	c.Hist = g.H
	left, right := c.Hist.global()
	for _, name := range c.Hist.names() {
		v := c04TreeVeto{Name: name, Code: rapid.Int32Range(1000, 9999).Draw(t, "code")}
		if phHas(left, name) || phHas(right, name) || phHas(c.Hist.New, name) {
			if rapid.IntRange(0, 9).Draw(t, "peerveto") == 0 {
				v.Stage = rapid.SampledFrom([]string{"PostReadCallHeader", "PreReadCallBody", "PostReadCallBody"}).Draw(t, "stage")
			}
		} else if rapid.IntRange(0, 2).Draw(t, "veto") == 0 {
			v.Stage = rapid.SampledFrom([]string{"PreReadCallBody", "PostReadCallBody"}).Draw(t, "stage")
		}
		c.Plugs = append(c.Plugs, v)
	}
	return c
}

func runC04Tree(c c04TreeCase, protos []vt.NamedProto) (fails []string, outcomes []string) {
	vt.Init()
	lib := newLib()
	w := vt.NewWorld()
	defer w.Close()
	left, right := c.Hist.global()
	b := phBuild(w, erpc.PeerConfig{}, c.Hist, func(name string) erpc.Plugin {
		if phHas(left, name) || phHas(right, name) || phHas(c.Hist.New, name) {
			return &peerVetoPlugin{treeVetoPlugin{c.spec(name)}}
		}
		for _, s := range c.Hist.Steps {
			if (s.Op == "left" || s.Op == "right") && phHas(s.Plugs, name) {
				return &peerVetoPlugin{treeVetoPlugin{c.spec(name)}} // appended and removed again
			}
		}
		return &treeVetoPlugin{c.spec(name)}
	}, phLibFns)
	srv := b.Peer
	bindLib(srv)
	cli := w.Peer(erpc.PeerConfig{})
	l := w.Connect(cli, srv, protoByName(protos, c.Proto), nil)
	if l.A == nil || l.B == nil {
		return []string{fmt.Sprintf("harness: connect: %v %v", l.AStat, l.BStat)}, nil
	}
	failf := func(format string, a ...interface{}) { fails = append(fails, fmt.Sprintf(format, a...)) }
	for _, r := range c.Hist.routes() {
		if r.Kind != "call" && r.Kind != "ucall" {
			continue
		}
		path, rid, wantRid := b.Paths[r.Step], fmt.Sprintf("r%d", r.Step), fmt.Sprintf("r%d", r.Step)
		if r.Kind == "ucall" {
			path, wantRid = "/no/such/route", "<unknown>"
		}
		what := fmt.Sprintf("route %s (registered by step %d, chain %v)", path, r.Step, c.Hist.chain(r))
		var res LibRes
		cmd := l.A.AsyncCall(path, &LibArg{Rid: rid, Act: "ret", Val: "v-" + rid}, &res, make(chan erpc.CallCmd, 1), erpc.WithBodyCodec('j'))
		if !vt.WaitClosed(cmd.Done()) {
			return append(fails, vt.Hang("completion of the call to "+path)), outcomes
		}
		got := vt.TripleOf(cmd.Status())
		veto, level := c.expect(r)
		outcomes = append(outcomes, fmt.Sprintf("veto-by=%s/handler-depth=%d", level, r.Depth))
		ran := lib.Calls(wantRid)
		if veto == nil {
			if !cmd.StatusOK() {
				failf("%s: no plugin on the chain of the route vetoes, but the caller sees %+v", what, got)
			} else if res.Rid != wantRid || r.Kind == "call" && res.Val != "v-"+rid {
				failf("%s: status OK but result %+v", what, res)
			}
			if ran != 1 {
				failf("%s: the handler ran %d times, want 1", what, ran)
			}
			continue
		}
		code, msg, cause := veto.status()
		if cmd.StatusOK() {
			failf("%s: the caller sees OK (result %+v) although plugin %s on the chain of the route vetoes the call with code %d", what, res, veto.Name, code)
		} else if got.Code != code || got.Msg != msg || got.Cause != cause {
			failf("%s: the caller sees %+v, want the status of the first vetoing plugin on the chain of the route, %s: {%d %q %q}", what, got, veto.Name, code, msg, cause)
		}
		if ran != 0 {
			failf("%s: the handler ran %d time(s) although plugin %s vetoes the call", what, ran, veto.Name)
		}
	}
	return fails, outcomes
}

const ruleC04Tree = "cause class 'veto by a plugin of the route's own chain': the serving peer is built along a generated history (phist_test.go) that makes a tree of SubRoute groups nested 0-4 deep with 0-2 plugins per group and per handler, at least two sibling groups and two sibling handlers that carry plugins of their own, a drawn order of creating the sibling groups and registering their handlers, an unknown-call handler with plugins of its own, and peer-level AppendLeft / AppendRight / Remove before, between and after the registrations; every plugin either lets calls through or vetoes every call at PreReadCallBody or PostReadCallBody (peer-level ones also at PostReadCallHeader) with a status of its own (code 1000-9999, message and cause naming the plugin); every CALL route of the tree (and an unregistered name when an unknown-call handler is set) is called once over raw / json / pb; oracle: the caller sees exactly (code, msg, cause) of the first vetoing plugin on the chain of ITS route (peer-level left, its groups from the outside in, its own, peer-level right; header stage on the peer-level plugins first) and the handler did not run, or OK with the handler's result and exactly one handler run when nothing on its chain vetoes - never the verdict of a sibling's plugin; non-trivial = some route is vetoed by a group's or a handler's plugin; distinct by case"

func TestC04RouteVetoes(t *testing.T) {
	rec := vt.NewRec(t, "C04", "route-vetoes", ruleC04Tree)
	protos := vt.StreamProtos()
	rapid.Check(t, func(t *rapid.T) {
		c := genC04Tree(t, protos)
		vt.Journal("C04", c)
		fails, outcomes := runC04Tree(c, protos)
		nt := false
		classes := []string{"proto=" + c.Proto}
		seen := map[string]bool{}
		for _, o := range outcomes {
			if !seen[o] {
				seen[o] = true
				classes = append(classes, o)
			}
			nt = nt || strings.HasPrefix(o, "veto-by=group") || strings.HasPrefix(o, "veto-by=own")
		}
		_, depth, _ := c.Hist.groups()
		deepest := 0
		for _, d := range depth {
			if d > deepest {
				deepest = d
			}
		}
		classes = append(classes, fmt.Sprintf("tree-depth=%d", deepest), fmt.Sprintf("routes=%d", len(outcomes)))
		rec.Case(fmt.Sprintf("%+v", c), nt, classes...)
		if rec.WantSample() && nt {
			rec.Sample(c)
		}
		if len(fails) > 0 && strings.HasPrefix(fails[0], "harness:") {
			t.Fatalf("%s\ncase: %+v", fails[0], c)
		}
		if len(fails) > 0 {
			t.Fatalf("C04 violated (%d findings), first: %s\ncase: %+v", len(fails), fails[0], c)
		}
	})
}
