package core

import (
	"bytes"
	"context"
	"encoding/json"
	"fmt"
	"sync/atomic"
	"testing"
	"time"

	erpc "github.com/henrylee2cn/erpc/v6"
	"pgregory.net/rapid"

	"verifharness/vt"
)

// C02, the send window: a call is registered before its pre-write hooks run and is written
// after them. Whatever happens to the connection while the call sits in that window, it
// still completes exactly once.

type c02Gate struct {
	entered chan int32
	release chan *erpc.Status
}

func (g *c02Gate) Name() string { return "c02gate" }
func (g *c02Gate) PreWriteCall(ctx erpc.WriteCtx) *erpc.Status {
	g.entered <- ctx.Output().Seq()
	return <-g.release
}

type c02WindowCase struct {
	Proto   string
	Calls   int
	Mode    string // async | call
	During  string // none | cut | remoteclose | earlyreply | localclose
	Verdict string // pass | veto
	After   string // reply | cut | remoteclose
}

const ruleC02Window = "a client session whose peer has a PreWriteCall plugin under harness control; 1-3 calls (AsyncCall with a shared completion channel, or Call) are parked inside the hook; while they are parked one of {nothing, cut, remote close, a REPLY carrying the parked call's sequence number, local Close} happens and the harness waits until the session noticed; then the hook lets the calls pass or vetoes them; then the remote answers what reaches it, or the link is cut / closed; oracle: AsyncCall returns a command, Done() fires within the liveness bound, each command is delivered exactly once to the completion channel (counted at quiescence), no call is OK unless a reply was sent for it, Close returns; non-trivial = something happens during the window or the hook vetoes; distinct by case"

func runC02Window(c c02WindowCase, protos []vt.NamedProto) []string {
	vt.Init()
	newLib()
	w := vt.NewWorld()
	defer w.Close()
	gate := &c02Gate{entered: make(chan int32, 8), release: make(chan *erpc.Status, 8)}
	cli := w.Peer(erpc.PeerConfig{}, gate)
	proto := protoByName(protos, c.Proto)
	pair := vt.NewPair()
	sess, stat := cli.ServeConn(pair.A, proto.Fn)
	if !stat.OK() {
		return []string{"ServeConn: " + stat.String()}
	}
	raw := vt.NewRawPeer(pair, pair.B, proto.Fn)
	defer raw.Close()
	var fails []string
	failf := func(format string, a ...interface{}) { fails = append(fails, fmt.Sprintf(format, a...)) }
	pack := func(m vt.Msg) []byte {
		wrw := &vt.RW{}
		if err := proto.Fn(wrw).Pack(m.Build()); err != nil {
			panic("harness pack: " + err.Error())
		}
		return wrw.Written()
	}
	shared := make(chan erpc.CallCmd, 2*c.Calls+2)
	type pending struct {
		cmd      erpc.CallCmd
		returned chan struct{}
		seq      int32
	}
	pend := make([]*pending, c.Calls)
	for i := range pend {
		p := &pending{returned: make(chan struct{})}
		pend[i] = p
		arg := &LibArg{Rid: fmt.Sprintf("w%d", i), Act: "ret", Val: "v"}
		go func() {
			defer close(p.returned)
			if c.Mode == "call" {
				p.cmd = sess.Call("/lib_do", arg, new(LibRes))
			} else {
				p.cmd = sess.AsyncCall("/lib_do", arg, new(LibRes), shared)
			}
		}()
		select {
		case p.seq = <-gate.entered:
		case <-time.After(vt.LivenessBound):
			return []string{vt.Hang("entry of the call into its PreWriteCall hook")}
		}
	}
	replied := make([]bool, c.Calls)
	connLost := false
	var closeDone chan struct{}
	body := func(i int) []byte {
		b, _ := json.Marshal(LibRes{Rid: fmt.Sprintf("w%d", i), Val: "reply"})
		return b
	}
	switch c.During {
	case "cut":
		pair.Cut()
		connLost = true
	case "remoteclose":
		raw.Close()
		connLost = true
	case "earlyreply":
		for i, p := range pend {
			raw.SendBytes(pack(vt.Msg{Seq: p.seq, Mtype: erpc.TypeReply, Codec: 'j', Body: body(i)}))
			replied[i] = true
		}
		// the reader has taken the frames off the wire and is parked on the calls
		vt.WaitUntilFor(2*time.Second, func() bool { return pair.Delivered(vt.BtoA) == pair.Written(vt.BtoA) })
		time.Sleep(500 * time.Microsecond)
	case "localclose":
		closeDone = make(chan struct{})
		go func() { sess.Close(); close(closeDone) }()
		time.Sleep(300 * time.Microsecond)
	}
	if connLost {
		// let the session notice the loss while the calls are still parked
		vt.WaitUntilFor(2*time.Second, func() bool { return !sess.Health() })
		time.Sleep(200 * time.Microsecond)
	}
	for range pend {
		if c.Verdict == "veto" {
			gate.release <- erpc.NewStatus(4555, "vetoed in the send window", "c02")
		} else {
			gate.release <- nil
		}
	}
	for i, p := range pend {
		if c.Mode == "call" && !connLost && c.Verdict == "pass" && !replied[i] {
			continue // a Call that was written is still waiting for its reply: answered below
		}
		if !vt.WaitClosed(p.returned) {
			failf("call %d: %s", i, vt.Hang("return of the call after its PreWriteCall hook returned"))
			return fails
		}
	}
	if !connLost {
		if c.After == "reply" && c.Verdict == "pass" {
			// answer every CALL frame that reached the remote
			raw.WaitFrames(c.Calls)
			for _, f := range raw.Frames() {
				if f.Mtype != erpc.TypeCall {
					continue
				}
				for i, p := range pend {
					if p.seq == f.Seq && !replied[i] {
						raw.SendBytes(pack(vt.Msg{Seq: p.seq, Mtype: erpc.TypeReply, Codec: 'j', Body: body(i)}))
						replied[i] = true
					}
				}
			}
		}
		settled := true
		for i := range pend {
			settled = settled && (replied[i] || c.Verdict == "veto")
		}
		if !settled || c.After != "reply" {
			if c.After == "remoteclose" {
				raw.Close()
			} else {
				pair.Cut()
			}
			connLost = true
		}
	}
	for i, p := range pend {
		if !vt.WaitClosed(p.returned) {
			failf("call %d: %s", i, vt.Hang("return of Session.Call after its terminal event"))
			return fails
		}
		if p.cmd == nil {
			failf("call %d: AsyncCall/Call returned a nil command (window event %q, verdict %q)", i, c.During, c.Verdict)
			continue
		}
		if !vt.WaitClosed(p.cmd.Done()) {
			failf("call %d: %s", i, vt.Hang("Done() of the call after its terminal event"))
			return fails
		}
	}
	if len(fails) > 0 {
		return fails
	}
	// quiescence, then count deliveries
	if closeDone == nil {
		closeDone = make(chan struct{})
		go func() { sess.Close(); close(closeDone) }()
	}
	if !vt.WaitClosed(closeDone) {
		failf("%s", vt.Hang("return of Session.Close after every call completed"))
		return fails
	}
	time.Sleep(300 * time.Microsecond)
	count := map[erpc.CallCmd]int{}
	for {
		select {
		case cmd := <-shared:
			count[cmd]++
			continue
		default:
		}
		break
	}
	for i, p := range pend {
		if c.Mode == "async" && count[p.cmd] != 1 {
			failf("call %d: delivered %d times to its completion channel (window event %q, verdict %q)", i, count[p.cmd], c.During, c.Verdict)
		}
		if !replied[i] && p.cmd.StatusOK() {
			failf("call %d completed OK although no reply was ever sent for it", i)
		}
		if c.Verdict == "veto" && c.During == "none" && p.cmd.Status().Code() != 4555 {
			failf("call %d was vetoed by its PreWriteCall hook with 4555 but completed with %v", i, p.cmd.Status())
		}
	}
	return fails
}

func TestC02SendWindow(t *testing.T) {
	rec := vt.NewRec(t, "C02", "sendwindow", ruleC02Window)
	protos := vt.StreamProtos()
	rapid.Check(t, func(t *rapid.T) {
		c := c02WindowCase{
			Proto:   rapid.SampledFrom(protos).Draw(t, "proto").Name,
			Calls:   rapid.IntRange(1, 3).Draw(t, "calls"),
			Mode:    rapid.SampledFrom([]string{"async", "async", "call"}).Draw(t, "mode"),
			During:  rapid.SampledFrom([]string{"none", "cut", "cut", "remoteclose", "earlyreply", "localclose"}).Draw(t, "during"),
			Verdict: rapid.SampledFrom([]string{"pass", "pass", "veto"}).Draw(t, "verdict"),
			After:   rapid.SampledFrom([]string{"reply", "reply", "cut", "remoteclose"}).Draw(t, "after"),
		}
		nt := c.During != "none" || c.Verdict == "veto"
		rec.Case(fmt.Sprintf("%+v", c), nt, "during="+c.During, "verdict="+c.Verdict, "after="+c.After, "mode="+c.Mode)
		if rec.WantSample() && nt {
			rec.Sample(c)
		}
		vt.Journal("C02", c)
		if fails := runC02Window(c, protos); len(fails) > 0 {
			t.Fatalf("C02 violated (%d findings), first: %s\ncase: %+v", len(fails), fails[0], c)
		}
	})
}

// C02, the write queue: senders queue for the session's write lock; one of them may give up
// (its context is cancelled) while it waits behind a stalled write. That sender's call fails,
// everybody else's call still completes.

type c02QueueCase struct {
	Proto   string
	Waiters []string // kinds of the senders queued behind the stalled write: call | push, each with a context that is cancelled while it waits
	After   int      // ordinary calls issued after the stall is over
}

func runC02Queue(c c02QueueCase, protos []vt.NamedProto) []string {
	vt.Init()
	newLib()
	w := vt.NewWorld()
	defer w.Close()
	cli := w.Peer(erpc.PeerConfig{})
	proto := protoByName(protos, c.Proto)
	pair := vt.NewPair()
	sess, stat := cli.ServeConn(pair.A, proto.Fn)
	if !stat.OK() {
		return []string{"ServeConn: " + stat.String()}
	}
	raw := vt.NewRawPeer(pair, pair.B, proto.Fn)
	defer raw.Close()
	var fails []string
	failf := func(format string, a ...interface{}) { fails = append(fails, fmt.Sprintf(format, a...)) }
	pack := func(m vt.Msg) []byte {
		wrw := &vt.RW{}
		if err := proto.Fn(wrw).Pack(m.Build()); err != nil {
			panic("harness pack: " + err.Error())
		}
		return wrw.Written()
	}
	// the remote answers every CALL frame it sees
	stopAnswering := make(chan struct{})
	defer close(stopAnswering)
	go func() {
		answered := 0
		for {
			select {
			case <-stopAnswering:
				return
			default:
			}
			fr := raw.Frames()
			for ; answered < len(fr); answered++ {
				if f := fr[answered]; f.Mtype == erpc.TypeCall {
					raw.SendBytes(pack(vt.Msg{Seq: f.Seq, Mtype: erpc.TypeReply, Codec: 'j', Body: []byte(`{"Rid":"r","Val":"reply"}`)}))
				}
			}
			time.Sleep(100 * time.Microsecond)
		}
	}()
	// stall the first write
	stalled, open := make(chan struct{}), make(chan struct{})
	var first int32 = 1
	pair.SetGate(vt.AtoB, func(b []byte) {
		if atomic.CompareAndSwapInt32(&first, 1, 0) {
			close(stalled)
			<-open
		}
	})
	headCmd := make(chan erpc.CallCmd, 1)
	go func() { headCmd <- sess.Call("/lib_do", &LibArg{Rid: "head"}, new(LibRes)) }()
	if !vt.WaitClosed(stalled) {
		close(open)
		return []string{vt.Hang("the first write reaching the transport")}
	}
	type waiter struct {
		kind   string
		cancel context.CancelFunc
		done   chan *erpc.Status
	}
	var ws []*waiter
	for i, k := range c.Waiters {
		ctx, cancel := context.WithCancel(context.Background())
		wt := &waiter{kind: k, cancel: cancel, done: make(chan *erpc.Status, 1)}
		ws = append(ws, wt)
		go func(i int) {
			if wt.kind == "push" {
				wt.done <- sess.Push("/lib_note", &LibArg{Rid: fmt.Sprintf("qp%d", i)}, erpc.WithContext(ctx))
			} else {
				wt.done <- sess.Call("/lib_do", &LibArg{Rid: fmt.Sprintf("qc%d", i)}, new(LibRes), erpc.WithContext(ctx)).Status()
			}
		}(i)
	}
	time.Sleep(2 * time.Millisecond) // the waiters are queued behind the stalled write now
	for _, wt := range ws {
		wt.cancel()
	}
	time.Sleep(200 * time.Microsecond)
	close(open)
	select {
	case cmd := <-headCmd:
		if !cmd.StatusOK() {
			failf("the call whose write was stalled for a while failed: %v", cmd.Status())
		}
	case <-time.After(vt.LivenessBound):
		return []string{vt.Hang("completion of the call whose write was stalled")}
	}
	for i, wt := range ws {
		select {
		case st := <-wt.done:
			_ = st // failed (context cancelled) or sent: both fine
		case <-time.After(vt.LivenessBound):
			return []string{vt.Hang(fmt.Sprintf("return of queued %s %d whose context was cancelled while it waited for the write lock", wt.kind, i))}
		}
	}
	for i := 0; i < c.After; i++ {
		var cmd erpc.CallCmd
		if !vt.Returns(func() {
			cmd = sess.AsyncCall("/lib_do", &LibArg{Rid: fmt.Sprintf("after%d", i)}, new(LibRes), make(chan erpc.CallCmd, 1))
		}) {
			return []string{vt.Hang("return of AsyncCall after a queued sender gave up (the remote is answering)")}
		}
		if !vt.WaitClosed(cmd.Done()) {
			return []string{vt.Hang("completion of a call issued after a queued sender gave up (the remote is answering)")}
		}
		if !cmd.StatusOK() {
			failf("a call issued after a queued sender gave up failed although the remote answers: %v", cmd.Status())
		}
	}
	closed := make(chan struct{})
	go func() { sess.Close(); close(closed) }()
	if !vt.WaitClosed(closed) {
		failf("%s", vt.Hang("return of Session.Close"))
	}
	return fails
}

func TestC02WriteQueue(t *testing.T) {
	rec := vt.NewRec(t, "C02", "writequeue", "a client session over a transport whose first write is stalled by the harness; 1-3 further senders (Call / Push, each with its own context) queue for the write lock behind it and their contexts are cancelled while they wait; the stall ends, the remote answers every CALL it receives; then 1-3 ordinary calls are issued; oracle: the stalled call completes OK, every queued sender returns, every later AsyncCall returns and completes OK (20 s bound + goroutine dump), Close returns; every case non-trivial; distinct by case")
	protos := vt.StreamProtos()
	rapid.Check(t, func(t *rapid.T) {
		c := c02QueueCase{
			Proto:   rapid.SampledFrom(protos).Draw(t, "proto").Name,
			Waiters: rapid.SliceOfN(rapid.SampledFrom([]string{"call", "call", "push"}), 1, 3).Draw(t, "waiters"),
			After:   rapid.IntRange(1, 3).Draw(t, "after"),
		}
		rec.Case(fmt.Sprintf("%+v", c), true, "proto="+c.Proto)
		if rec.WantSample() {
			rec.Sample(c)
		}
		if fails := runC02Queue(c, protos); len(fails) > 0 {
			t.Fatalf("C02 violated (%d findings), first: %s\ncase: %+v", len(fails), fails[0], c)
		}
	})
}

// C02 over the HTTP-style protocol: a reply frame that is well framed (status line, headers,
// Content-Length) but whose payload is not what its status line promises still completes the
// call it is addressed to.
func TestC02HTTPReplies(t *testing.T) {
	rec := vt.NewRec(t, "C02", "http-replies", "a client session speaking the HTTP-style protocol against a scripted remote; 1-4 outstanding calls; per call the remote answers with one of {200 reply, 299 reply with a proper status document, 299 reply whose payload (same length) is not a status document: HTML / truncated JSON / wrong-typed JSON, 200 reply with an undecodable body}; oracle: once the replies were consumed every call is done or the session has ended (a consumed reply, a healthy session and a pending call = a hang); then the link is cut and every call's Done fires (20 s bound + goroutine dump), exactly one delivery on the completion channel, a call answered with a broken 299 document is not OK, Close returns; non-trivial = at least one broken reply; distinct by case")
	proto := vt.HTTPProto()
	rapid.Check(t, func(t *rapid.T) {
		vt.Init()
		newLib()
		n := rapid.IntRange(1, 4).Draw(t, "calls")
		classes := make([]string, n)
		nt := false
		for i := range classes {
			classes[i] = rapid.SampledFrom([]string{"ok", "status", "html", "html", "truncjson", "wrongtype", "badbody"}).Draw(t, "class")
			if classes[i] != "ok" && classes[i] != "status" {
				nt = true
			}
		}
		rec.Case(fmt.Sprintf("%v", classes), nt, fmt.Sprintf("calls=%d", n))
		if rec.WantSample() && nt {
			rec.Sample(classes)
		}
		w := vt.NewWorld()
		defer w.Close()
		cli := w.Peer(erpc.PeerConfig{})
		pair := vt.NewPair()
		sess, stat := cli.ServeConn(pair.A, proto.Fn)
		if !stat.OK() {
			t.Fatalf("ServeConn: %v", stat)
		}
		raw := vt.NewRawPeer(pair, pair.B, proto.Fn)
		defer raw.Close()
		pack := func(m vt.Msg) []byte {
			wrw := &vt.RW{}
			if err := proto.Fn(wrw).Pack(m.Build()); err != nil {
				panic("harness pack: " + err.Error())
			}
			return wrw.Written()
		}
		shared := make(chan erpc.CallCmd, n+2)
		cmds := make([]erpc.CallCmd, n)
		for i := range cmds {
			cmds[i] = sess.AsyncCall("/lib_do", &LibArg{Rid: fmt.Sprintf("h%d", i)}, new(LibRes), shared, erpc.WithBodyCodec('j'))
			if !raw.WaitFrames(i + 1) {
				t.Fatalf("%s", vt.Hang("the CALL frame on the wire"))
			}
		}
		frames := raw.Frames()
		for i, cl := range classes {
			seq := frames[i].Seq
			var f []byte
			switch cl {
			case "ok":
				f = pack(vt.Msg{Seq: seq, Mtype: erpc.TypeReply, Codec: 'j', Body: []byte(`{"Rid":"r","Val":"v"}`)})
			case "badbody":
				f = pack(vt.Msg{Seq: seq, Mtype: erpc.TypeReply, Codec: 'j', Body: []byte(`{"Rid":[1,`)})
			default:
				f = pack(vt.Msg{Seq: seq, Mtype: erpc.TypeReply, HasStatus: true, Code: 4242, StatMsg: "handler said no", Cause: "because", HasCause: true})
				if cl != "status" {
					// keep the framing (status line, headers, Content-Length), replace the document
					k := bytes.Index(f, []byte("\r\n\r\n"))
					if k < 0 {
						t.Fatalf("harness: no header/body separator in %q", f)
					}
					doc := f[k+4:]
					var repl []byte
					switch cl {
					case "html":
						repl = bytes.Repeat([]byte("<html>502 bad gateway</html> "), len(doc)/20+1)[:len(doc)]
					case "truncjson":
						repl = append([]byte(nil), doc...)
						for j := len(repl) / 2; j < len(repl); j++ {
							repl[j] = ' '
						}
					default: // wrongtype
						repl = append([]byte(`{"code":"x","msg":7}`), bytes.Repeat([]byte(" "), len(doc))...)[:len(doc)]
					}
					f = append(append([]byte(nil), f[:k+4]...), repl...)
				}
			}
			raw.SendBytes(f)
		}
		// every reply frame has been taken off the wire: from now on each call is either
		// completed by its reply, or the session ends (which completes it too) - a consumed
		// reply, a healthy session and a call still pending is a call that hangs
		vt.WaitUntilFor(2*time.Second, func() bool { return pair.Delivered(vt.BtoA) == pair.Written(vt.BtoA) })
		for i, cmd := range cmds {
			cmd := cmd
			ok := vt.WaitUntilFor(vt.LivenessBound, func() bool {
				select {
				case <-cmd.Done():
					return true
				default:
				}
				return !sess.Health()
			})
			if !ok {
				t.Fatalf("C02 violated over the HTTP protocol: the reply to call %d (class %q; all classes %v) was consumed, the session is healthy, and the call is still pending after %v; goroutines:\n%s", i, classes[i], classes, vt.LivenessBound, vt.GoroutineDump())
			}
		}
		pair.Cut() // whatever is still outstanding gets its terminal event
		for i, cmd := range cmds {
			if !vt.WaitClosed(cmd.Done()) {
				t.Fatalf("C02 violated over the HTTP protocol: call %d (answered with class %q; all classes %v): %s", i, classes[i], classes, vt.Hang("Done() after its reply frame was delivered and the connection was lost"))
			}
			if cmd.StatusOK() && classes[i] != "ok" {
				t.Fatalf("C02 violated over the HTTP protocol: call %d was answered with class %q and completed OK", i, classes[i])
			}
		}
		closed := make(chan struct{})
		go func() { sess.Close(); close(closed) }()
		if !vt.WaitClosed(closed) {
			t.Fatalf("%s", vt.Hang("return of Session.Close"))
		}
		time.Sleep(200 * time.Microsecond)
		count := map[erpc.CallCmd]int{}
		for {
			select {
			case c := <-shared:
				count[c]++
				continue
			default:
			}
			break
		}
		for i, cmd := range cmds {
			if count[cmd] != 1 {
				t.Fatalf("C02 violated over the HTTP protocol: call %d (class %q) was delivered %d times to its completion channel", i, classes[i], count[cmd])
			}
		}
	})
}
