package core

import (
	"bytes"
	"context"
	"fmt"
	"strings"
	"testing"
	"time"

	erpc "github.com/henrylee2cn/erpc/v6"
	"pgregory.net/rapid"

	"verifharness/vt"
)

type c08Case struct {
	Proto     string
	Closer    string   // A | B : which end of the link closes
	PeerClose bool     // Close the whole peer instead of the session
	In        int      // calls in flight towards the closing side (its handlers run)
	Out       int      // calls issued by the closing side (the other side's handlers run)
	Late      int      // calls issued towards the closing side right after Close was invoked
	Release   []int    // release order: indexes into the In+Out handlers
	Cut       bool     // cut the connection after Close began and before the last release
	CutAfter  int      // number of releases before the cut
	Second    string   // a second closer started right after the first one: "" | session
	SessAge   bool     // the closing side's session has a session age (PeerConfig.DefaultSessionAge) that elapses while Close waits for the handlers
	Prior     []string // operations completed on the closing side's session before anything is in flight: okcall | failcall | push | unencodable (the argument cannot be marshalled: the call fails locally) | deadctx (the call's context is already cancelled: it fails locally)
}

func genC08(t *rapid.T, protos []vt.NamedProto) c08Case {
	c := c08Case{Proto: rapid.SampledFrom(protos).Draw(t, "proto").Name}
	c.Closer = rapid.SampledFrom([]string{"A", "B"}).Draw(t, "closer")
	c.PeerClose = rapid.Bool().Draw(t, "peerclose")
	c.In = rapid.IntRange(0, 4).Draw(t, "in")
	c.Out = rapid.IntRange(0, 4).Draw(t, "out")
	c.Late = rapid.IntRange(0, 2).Draw(t, "late")
	c.Release = rapid.Permutation(seq(c.In+c.Out)).Draw(t, "release")
	c.Cut = rapid.IntRange(0, 4).Draw(t, "cut") == 0
	if c.In+c.Out > 0 {
		c.CutAfter = rapid.IntRange(0, c.In+c.Out-1).Draw(t, "cutafter")
	}
	// (a second *peer-level* Close is not generated: Peer.Close only looks at the sessions still
	// indexed, and a session leaves the index when its close begins, so whether such a call has
	// anything left to wait for is not something the property fixes)
	c.Second = rapid.SampledFrom([]string{"", "", "session"}).Draw(t, "second")
	c.Prior = rapid.SliceOfN(rapid.SampledFrom([]string{"okcall", "failcall", "push", "unencodable", "unencodable", "deadctx"}), 0, 3).Draw(t, "prior")
	return c
}

func seq(n int) []int {
	out := make([]int, n)
	for i := range out {
		out[i] = i
	}
	return out
}

type c08Call struct {
	rid      string
	cmd      erpc.CallCmd
	res      *LibRes
	entered  <-chan struct{}
	release  func()
	inbound  bool // handled by the closing side
	released bool
}

func runC08(c c08Case, protos []vt.NamedProto) []string {
	vt.Init()
	lib := newLib()
	w := vt.NewWorld()
	defer w.Close()
	cfgA, cfgB := erpc.PeerConfig{}, erpc.PeerConfig{}
	if c.SessAge {
		if c.Closer == "A" {
			cfgA.DefaultSessionAge = c03InitialAge
		} else {
			cfgB.DefaultSessionAge = c03InitialAge
		}
	}
	t0 := time.Now()
	pa := w.Peer(cfgA)
	pb := w.Peer(cfgB)
	ra, _ := registerLib(pa)
	rb, _ := registerLib(pb)
	if ra != rb {
		return []string{"harness: routes differ"}
	}
	l := w.Connect(pa, pb, protoByName(protos, c.Proto), func(p *vt.Pair) {
		p.SetCapture(vt.AtoB, true)
		p.SetCapture(vt.BtoA, true)
	})
	if l.A == nil || l.B == nil {
		return []string{"connect failed"}
	}
	closer, other := l.A, l.B
	closerPeer := pa
	if c.Closer == "B" {
		closer, other = l.B, l.A
		closerPeer = pb
	}
	var fails []string
	failf := func(format string, a ...interface{}) { fails = append(fails, fmt.Sprintf(format, a...)) }

	// history before the close: completed operations, some of which failed locally (never written)
	for i, op := range c.Prior {
		rid := fmt.Sprintf("prior%d", i)
		var cmd erpc.CallCmd
		switch op {
		case "okcall":
			cmd = closer.Call(ra, &LibArg{Rid: rid, Act: "ret", Val: "v"}, new(LibRes))
			if !cmd.StatusOK() {
				failf("prior call %d failed: %v", i, cmd.Status())
			}
		case "failcall":
			cmd = closer.Call(ra, &LibArg{Rid: rid, Act: "err", Code: 4242, Msg: "m"}, new(LibRes))
			if cmd.Status().Code() != 4242 {
				failf("prior failing call %d completed with %v", i, cmd.Status())
			}
		case "push":
			closer.Push(ra, &LibArg{Rid: rid})
		case "unencodable":
			cmd = closer.Call(ra, make(chan int), new(LibRes))
			if cmd.StatusOK() {
				failf("a call whose argument cannot be marshalled completed OK")
			}
		case "deadctx":
			dead, cancel := context.WithCancel(context.Background())
			cancel()
			cmd = closer.Call(ra, &LibArg{Rid: rid, Act: "ret"}, new(LibRes), erpc.WithContext(dead))
			if cmd.StatusOK() {
				failf("a call with an already cancelled context completed OK")
			}
		}
	}
	if len(fails) > 0 {
		return fails
	}

	var calls []*c08Call
	mk := func(from erpc.Session, rid string, inbound bool) *c08Call {
		e, rel := lib.Gate(rid)
		cc := &c08Call{rid: rid, res: new(LibRes), entered: e, release: rel, inbound: inbound}
		cc.cmd = from.AsyncCall(ra, &LibArg{Rid: rid, Act: "slow", Val: "genuine-" + rid}, cc.res, make(chan erpc.CallCmd, 1))
		return cc
	}
	for i := 0; i < c.In; i++ {
		calls = append(calls, mk(other, fmt.Sprintf("in%d", i), true))
	}
	for i := 0; i < c.Out; i++ {
		calls = append(calls, mk(closer, fmt.Sprintf("out%d", i), false))
	}
	defer func() {
		for _, cc := range calls {
			cc.release()
		}
	}()
	// every handler has been entered before Close is invoked
	for _, cc := range calls {
		if !vt.WaitClosed(cc.entered) {
			return []string{vt.Hang("entry of handler " + cc.rid)}
		}
	}
	closeReturned := make(chan struct{})
	var closeClock int64
	go func() {
		if c.PeerClose {
			closerPeer.Close()
		} else {
			closer.Close()
		}
		closeClock = lib.tick("close-returned")
		close(closeReturned)
	}()
	// wait until Close has really begun (the session reports unhealthy / closing)
	vt.WaitUntilFor(3*time.Second, func() bool { return !closer.Health() })
	if c.SessAge {
		if time.Since(t0) > c03InitialAge*2/3 {
			// too slow: the session age may have elapsed before the close began, which ends the session by itself
			return []string{c03Unrealised}
		}
		// the session age of the closing side elapses while Close waits for the entered handlers
		time.Sleep(c03InitialAge + 5*time.Millisecond)
	}
	// a second closer arrives while the first is still waiting: it is a Close like any other
	close2Returned := make(chan struct{})
	var close2Clock int64
	if c.Second == "" {
		close(close2Returned)
	} else {
		go func() {
			if c.Second == "peer" {
				closerPeer.Close()
			} else {
				closer.Close()
			}
			close2Clock = lib.tick("close2-returned")
			close(close2Returned)
		}()
		time.Sleep(200 * time.Microsecond)
	}
	// calls issued towards the closing side right after Close was invoked: either outcome, but exactly once
	var late []*c08Call
	for i := 0; i < c.Late; i++ {
		cc := mk(other, fmt.Sprintf("late%d", i), true)
		cc.release() // never gated for long
		late = append(late, cc)
	}
	pendingIn, pendingOut := c.In, c.Out
	cutDone := false
	for n, idx := range c.Release {
		if c.Cut && !cutDone && n == c.CutAfter {
			l.Pair.Cut()
			cutDone = true
		}
		cc := calls[idx]
		// Close must not have returned while an inbound handler is still running or an outbound call is unanswered
		if !cutDone && (pendingIn > 0 || pendingOut > 0) {
			select {
			case <-closeReturned:
				failf("Close returned while %d entered handler(s) of the closing side were still running and %d of its own calls were unanswered", pendingIn, pendingOut)
				return fails
			default:
			}
			if c.Second != "" {
				select {
				case <-close2Returned:
					failf("a second Close (%s level), started while the first was waiting, returned while %d entered handler(s) of the closing side were still running and %d of its own calls were unanswered", c.Second, pendingIn, pendingOut)
					return fails
				default:
				}
			}
		}
		cc.release()
		cc.released = true
		if cutDone {
			// after a connection loss a session cancels its pending calls only once its
			// own running handlers have finished: completion is awaited after all releases
			continue
		}
		if !vt.WaitClosed(cc.cmd.Done()) {
			failf("%s", vt.Hang("completion of call "+cc.rid+" after its handler was released"))
			return fails
		}
		if cc.inbound {
			pendingIn--
		} else {
			pendingOut--
		}
		if !cutDone {
			if !cc.cmd.StatusOK() {
				failf("call %s (handler entered before Close, no connection loss) completed with %v instead of its genuine reply", cc.rid, cc.cmd.Status())
			} else if cc.res.Val != "genuine-"+cc.rid {
				failf("call %s completed OK with result %+v", cc.rid, *cc.res)
			}
		} else if cc.cmd.StatusOK() && cc.res.Val != "genuine-"+cc.rid {
			failf("call %s completed OK with result %+v after the cut", cc.rid, *cc.res)
		}
	}
	if c.Cut && !cutDone {
		l.Pair.Cut()
		cutDone = true
	}
	for _, cc := range calls {
		if !vt.WaitClosed(cc.cmd.Done()) {
			failf("%s", vt.Hang("completion of call "+cc.rid+" after every handler was released"))
			return fails
		}
		if cc.cmd.StatusOK() && cc.res.Val != "genuine-"+cc.rid {
			failf("call %s completed OK with result %+v", cc.rid, *cc.res)
		}
	}
	if !vt.WaitClosed(closeReturned) {
		failf("%s", vt.Hang("return of Close after every handler was released"))
		return fails
	}
	if !vt.WaitClosed(close2Returned) {
		failf("%s", vt.Hang("return of the second Close after every handler was released"))
		return fails
	}
	for _, cc := range late {
		if !vt.WaitClosed(cc.cmd.Done()) {
			failf("%s", vt.Hang("completion of a call issued right after Close was invoked"))
			return fails
		}
		if cc.cmd.StatusOK() && cc.res.Val != "genuine-"+cc.rid {
			failf("late call %s OK with wrong result %+v", cc.rid, *cc.res)
		}
		if n := lib.Calls(cc.rid); n > 1 {
			dir := vt.BtoA
			if c.Closer == "B" {
				dir = vt.AtoB
			}
			onWire := bytes.Count(l.Pair.Stream(dir), []byte(cc.rid+`"`))
			lib.mu.Lock()
			lg := strings.Join(lib.log, " | ")
			lib.mu.Unlock()
			failf("late call %s handled %d times (its request id occurs %d time(s) in the captured request stream; status %v; log: %s)", cc.rid, n, onWire, cc.cmd.Status(), lg)
		}
	}
	// Close returned only after the handlers of the closing side had exited (logical clock)
	lib.mu.Lock()
	log := append([]string(nil), lib.log...)
	lib.mu.Unlock()
	for _, line := range log {
		var clk int64
		var ev, rid string
		fmt.Sscanf(line, "%d %s %s", &clk, &ev, &rid)
		if ev == "exit" && clk > closeClock {
			for _, cc := range calls {
				if cc.rid == rid && cc.inbound && !cutDone {
					failf("Close returned (clock %d) before handler %s exited (clock %d)", closeClock, rid, clk)
				}
			}
		}
		if ev == "exit" && c.Second != "" && clk > close2Clock {
			for _, cc := range calls {
				if cc.rid == rid && cc.inbound && !cutDone {
					failf("the second Close returned (clock %d) before handler %s exited (clock %d)", close2Clock, rid, clk)
				}
			}
		}
	}
	// and after their replies were written: count REPLY frames from the closing side on the wire
	if !cutDone {
		dir := vt.AtoB
		if c.Closer == "B" {
			dir = vt.BtoA
		}
		stream := l.Pair.Stream(dir)
		proto := protoByName(protos, c.Proto)
		p := proto.Fn(&vt.RW{In: stream})
		replies := 0
		for {
			m := vt.NewReceiver()
			var err error
			func() {
				defer func() {
					if r := recover(); r != nil {
						err = fmt.Errorf("panic")
					}
				}()
				err = p.Unpack(m)
			}()
			if err != nil {
				break
			}
			if m.Mtype() == erpc.TypeReply {
				replies++
			}
		}
		if replies < c.In {
			failf("Close returned but only %d of %d replies of entered handlers are on the wire", replies, c.In)
		}
	}
	if closer.Health() {
		failf("the closed session is reported healthy")
	}
	return fails
}

const ruleC08 = "one session between two peers; first 0-3 operations complete on the closing side's session (call answered OK / failed by its handler, push, call that fails locally because its argument cannot be marshalled or its context is already cancelled); then 0-4 calls in flight towards the closing side and 0-4 issued by it, every handler gated and ENTERED before Close (session-level or peer-level, on either end) is invoked; optionally a second session-level Close is started right after the first began and is held to the same oracle; 0-2 more calls are issued right after Close began; handlers are released in a generated permutation, optionally with a connection cut after a generated number of releases; oracle (logical clock + wire capture): Close does not return while an entered handler of the closing side runs or one of its own calls is unanswered; every call whose handler was entered before Close completes OK with its genuine result unless the connection was cut first; Close returns after all releases, after the handlers' exits and after their REPLY frames are on the wire; late calls complete exactly once; non-trivial = >=1 handler entered and unreleased when Close is invoked; distinct by case"

func TestC08GracefulClose(t *testing.T) {
	rec := vt.NewRec(t, "C08", "graceful-close", ruleC08)
	protos := vt.StreamProtos()
	rapid.Check(t, func(t *rapid.T) {
		c := genC08(t, protos)
		rec.Case(fmt.Sprintf("%+v", c), c.In+c.Out > 0, "proto="+c.Proto, fmt.Sprintf("cut=%v", c.Cut), fmt.Sprintf("peerclose=%v", c.PeerClose), fmt.Sprintf("in>0=%v,out>0=%v", c.In > 0, c.Out > 0))
		if rec.WantSample() && c.In+c.Out > 0 {
			rec.Sample(c)
		}
		vt.Journal("C08", c)
		if fails := runC08(c, protos); len(fails) > 0 {
			t.Fatalf("C08 violated (%d findings), first: %s\ncase: %+v", len(fails), fails[0], c)
		}
	})
}

// TestC08SessionAge: the closing side's session has a session age, and that age elapses while
// Close is waiting for handlers entered before it. The replies of those handlers are still genuine.
func TestC08SessionAge(t *testing.T) {
	rec := vt.NewRec(t, "C08", "session-age", "graceful close (session-level or peer-level, either end, optionally with a second closer) of a session whose closing side was configured with PeerConfig.DefaultSessionAge = 150 ms: 1-4 calls towards the closing side whose gated handlers are entered before Close is invoked; the harness then waits until the session age has elapsed (Close is still waiting) and releases the handlers in a generated order; oracle as in graceful-close: every such call completes OK with its genuine result, Close returns after the handlers' exits and after their replies are on the wire; a case in which Close could not be started within two thirds of the age is unrealised and decides nothing; non-trivial = realised; distinct by case")
	protos := vt.StreamProtos()
	rapid.Check(t, func(t *rapid.T) {
		c := genC08(t, protos)
		c.SessAge = true
		c.In = rapid.IntRange(1, 4).Draw(t, "in_aged")
		c.Out, c.Late, c.Cut, c.CutAfter = 0, 0, false, 0
		c.Release = rapid.Permutation(seq(c.In)).Draw(t, "release_aged")
		if len(c.Prior) > 1 {
			c.Prior = c.Prior[:1]
		}
		vt.Journal("C08", c)
		fails := runC08(c, protos)
		if len(fails) == 1 && fails[0] == c03Unrealised {
			rec.Case(fmt.Sprintf("%+v", c), false, "unrealised")
			return
		}
		rec.Case(fmt.Sprintf("%+v", c), true, "proto="+c.Proto, fmt.Sprintf("peerclose=%v", c.PeerClose))
		if rec.WantSample() {
			rec.Sample(c)
		}
		if len(fails) > 0 {
			t.Fatalf("C08 violated (%d findings), first: %s\ncase: %+v", len(fails), fails[0], c)
		}
	})
}
