package core

import (
	"bytes"
	"encoding/base64"
	"encoding/hex"
	"fmt"
	"strings"
	"sync"
	"testing"
	"time"

	erpc "github.com/henrylee2cn/erpc/v6"
	"github.com/henrylee2cn/erpc/v6/plugin/secure"
	"pgregory.net/rapid"

	"verifharness/vt"
)

type SecArg struct {
	Marker string
	N      int64
	L      []string
}

type c17Case struct {
	Proto   string
	Codec   string // json | pb
	Kind    string // call | push
	Unknown bool   // the request is served by the peer's unknown-call / unknown-push handler (it binds the raw body itself)
	// how the two peers were built (phist_test.go): where and when the secure plugin was installed,
	// and the registering step of the receiving peer's handler that the message goes to
	SrvHist   phHistory
	CliHist   phHistory
	Probe     int
	RawResult bool   // the caller receives the reply body as raw bytes (*[]byte result)
	Secure    bool   // WithSecureMeta on the request
	Accept    string // "" | "true" | "false"  (WithAcceptSecureMeta)
	KeyLen    int
	SameKey   bool
	ReqMarker string
	ResMarker string
	HandlerOK bool
	Enforce   bool // the call handler marks its reply secure itself (secure.EnforceSecure on the reply message)
}

func genC17(t *rapid.T, protos []vt.NamedProto) c17Case {
	mk := func(label string) string {
		// an empty marker makes the protobuf body marshal to zero bytes: the envelope and the
		// key check are owed for such a message as for any other
		if rapid.IntRange(0, 4).Draw(t, label+"-empty") == 0 {
			return ""
		}
		return rapid.StringMatching(`[A-Za-z0-9]{24}`).Draw(t, label)
	}
	c := c17Case{
		Proto:     rapid.SampledFrom(protos).Draw(t, "proto").Name,
		Codec:     rapid.SampledFrom([]string{"json", "pb"}).Draw(t, "codec"),
		Kind:      rapid.SampledFrom([]string{"call", "call", "call", "push"}).Draw(t, "kind"),
		Secure:    rapid.Bool().Draw(t, "secure"),
		Accept:    rapid.SampledFrom([]string{"", "true", "false"}).Draw(t, "accept"),
		KeyLen:    rapid.SampledFrom([]int{16, 24, 32}).Draw(t, "keylen"),
		SameKey:   rapid.IntRange(0, 3).Draw(t, "samekey") != 0,
		ReqMarker: mk("reqmarker"),
		ResMarker: mk("resmarker"),
		HandlerOK: rapid.IntRange(0, 4).Draw(t, "handlerok") != 0,
		Unknown:   rapid.IntRange(0, 3).Draw(t, "unknown") == 0,
		RawResult: rapid.IntRange(0, 3).Draw(t, "rawresult") == 0,
		Enforce:   rapid.IntRange(0, 3).Draw(t, "enforce") == 0,
	}
	// the receiving peer: the secure plugin is given to NewPeer, appended to the peer's container
	// at a drawn point of the history (left / right; or removed and appended again), attached to
	// SubRoute groups or to handlers; the handlers live at nesting 0-3, registered before or
	// after the plugin came in. The message goes to a handler that has the plugin on its chain.
	sg := genPHistory(t, "srv", phGenCfg{NCall: 2, NPush: 2, MaxDepth: 3, MaxSteps: 8, GroupPlugs: 1, RoutePlugs: 1, Unknown: true,
		Targets: []phTarget{{Name: c17Secure, How: []string{"new", "new", "left", "left", "right", "right", "group", "route", "reinstall"}}}})
	fn := 0
	if c.Codec == "pb" {
		fn = 1
	}
	c.Probe = -1
	if c.Unknown {
		if c.Probe = sg.ensureRoute("u"+c.Kind, 0, c17Secure); c.Probe < 0 {
			c.Unknown = false // a group's plugin does not cover the unknown handlers
		}
	}
	if !c.Unknown {
		c.Probe = sg.ensureRoute(c.Kind, fn, c17Secure)
	}
	c.SrvHist = sg.H
	// the sending peer uses the plugin peer-wide (its writes and reply reads run on the peer's
	// container), installed early or late among routes of its own
	c.CliHist = genPHistory(t, "cli", phGenCfg{NCall: 3, NPush: 2, MaxDepth: 2, MaxSteps: 5, GroupPlugs: 1, RoutePlugs: 1, Unknown: true,
		Targets: []phTarget{{Name: c17Secure, How: []string{"new", "new", "left", "right", "reinstall"}}}}).H
	return c
}

const c17Secure = "secure(encrypt/decrypt)" // the plugin's name

var c17 struct {
	sync.Mutex
	calls   int
	pushes  int
	gotReq  string
	resMark string
	ok      bool
	enforce bool
}

func c17Enforce() bool { c17.Lock(); defer c17.Unlock(); return c17.enforce }

func c17Handle(marker string) (string, *erpc.Status) {
	c17.Lock()
	defer c17.Unlock()
	c17.calls++
	c17.gotReq = marker
	if !c17.ok {
		return "", erpc.NewStatus(4400, "handler says no", "c17")
	}
	return c17.resMark, nil
}

func C17Json(ctx erpc.CallCtx, a *SecArg) (*SecArg, *erpc.Status) {
	r, st := c17Handle(a.Marker)
	if st != nil {
		return nil, st
	}
	if c17Enforce() {
		secure.EnforceSecure(ctx.Output())
	}
	return &SecArg{Marker: r, N: -a.N, L: []string{"r"}}, nil
}
func C17Pb(ctx erpc.CallCtx, a *secure.Encrypt) (*secure.Encrypt, *erpc.Status) {
	r, st := c17Handle(a.Ciphertext)
	if st != nil {
		return nil, st
	}
	if c17Enforce() {
		secure.EnforceSecure(ctx.Output())
	}
	return &secure.Encrypt{Ciphertext: r}, nil
}
func C17PushJson(ctx erpc.PushCtx, a *SecArg) *erpc.Status {
	c17.Lock()
	c17.pushes++
	c17.gotReq = a.Marker
	c17.Unlock()
	return nil
}
func C17PushPb(ctx erpc.PushCtx, a *secure.Encrypt) *erpc.Status {
	c17.Lock()
	c17.pushes++
	c17.gotReq = a.Ciphertext
	c17.Unlock()
	return nil
}

func containsMarker(stream []byte, marker string) bool {
	if marker == "" {
		panic("containsMarker: empty marker")
	}
	forms := [][]byte{[]byte(marker), []byte(hex.EncodeToString([]byte(marker))), []byte(strings.ToUpper(hex.EncodeToString([]byte(marker))))}
	b64 := base64.StdEncoding.EncodeToString([]byte(marker))
	forms = append(forms, []byte(b64[:len(b64)-4]))
	for _, f := range forms {
		if bytes.Contains(stream, f) {
			return true
		}
	}
	return false
}

func runC17(c c17Case, protos []vt.NamedProto) []string {
	vt.Init()
	c17.Lock()
	c17.calls, c17.pushes, c17.gotReq, c17.resMark, c17.ok, c17.enforce = 0, 0, "", c.ResMarker, c.HandlerOK, c.Enforce
	c17.Unlock()
	keyA := strings.Repeat("k", c.KeyLen)
	keyB := keyA
	if !c.SameKey {
		keyB = strings.Repeat("z", c.KeyLen)
	}
	const statCode = 9100
	w := vt.NewWorld()
	defer w.Close()
	srvFns := phFns{Call: []interface{}{C17Json, C17Pb}, Push: []interface{}{C17PushJson, C17PushPb}}
	// unknown-call / unknown-push handlers bind the raw body themselves
	srvFns.UCall = func(ctx erpc.UnknownCallCtx) (interface{}, *erpc.Status) {
		var marker string
		if ctx.GetBodyCodec() == 'j' {
			a := new(SecArg)
			if _, err := ctx.Bind(a); err != nil {
				return nil, erpc.NewStatus(4401, "cannot bind", err.Error())
			}
			marker = a.Marker
			r, st := c17Handle(marker)
			if st != nil {
				return nil, st
			}
			if c.Enforce {
				ctx.SetMeta(secure.SECURE_META_KEY, "true")
			}
			return &SecArg{Marker: r, L: []string{"r"}}, nil
		}
		a := new(secure.Encrypt)
		if _, err := ctx.Bind(a); err != nil {
			return nil, erpc.NewStatus(4401, "cannot bind", err.Error())
		}
		r, st := c17Handle(a.Ciphertext)
		if st != nil {
			return nil, st
		}
		if c.Enforce {
			ctx.SetMeta(secure.SECURE_META_KEY, "true")
		}
		return &secure.Encrypt{Ciphertext: r}, nil
	}
	srvFns.UPush = func(ctx erpc.UnknownPushCtx) *erpc.Status {
		var marker string
		if ctx.GetBodyCodec() == 'j' {
			a := new(SecArg)
			ctx.Bind(a)
			marker = a.Marker
		} else {
			a := new(secure.Encrypt)
			ctx.Bind(a)
			marker = a.Ciphertext
		}
		c17.Lock()
		c17.pushes++
		c17.gotReq = marker
		c17.Unlock()
		return nil
	}
	// both peers are built along their installation histories
	plugs := func(key string) func(string) erpc.Plugin {
		return func(name string) erpc.Plugin {
			if name == c17Secure {
				return secure.NewPlugin(statCode, key)
			}
			return phNoisePlugin(name)
		}
	}
	sb := phBuild(w, erpc.PeerConfig{}, c.SrvHist, plugs(keyB), srvFns)
	srv := sb.Peer
	cli := phBuild(w, erpc.PeerConfig{}, c.CliHist, plugs(keyA), phLibFns).Peer
	l := w.Connect(cli, srv, protoByName(protos, c.Proto), func(p *vt.Pair) {
		p.SetCapture(vt.AtoB, true)
		p.SetCapture(vt.BtoA, true)
	})
	if l.A == nil || l.B == nil {
		return []string{"connect failed"}
	}
	var fails []string
	failf := func(format string, a ...interface{}) { fails = append(fails, fmt.Sprintf(format, a...)) }
	var settings []erpc.MessageSetting
	var arg, res interface{}
	getRes := func() string { return "" }
	if c.Codec == "json" {
		settings = append(settings, erpc.WithBodyCodec('j'))
		arg = &SecArg{Marker: c.ReqMarker, N: 42, L: []string{"a", "b"}}
		r := new(SecArg)
		res = r
		getRes = func() string { return r.Marker }
	} else {
		settings = append(settings, erpc.WithBodyCodec('p'))
		arg = &secure.Encrypt{Ciphertext: c.ReqMarker}
		r := new(secure.Encrypt)
		res = r
		getRes = func() string { return r.Ciphertext }
	}
	if c.Secure {
		settings = append(settings, secure.WithSecureMeta())
	}
	if c.Accept != "" {
		settings = append(settings, secure.WithAcceptSecureMeta(c.Accept == "true"))
	}
	reqEncrypted := c.Secure
	// the reply is encrypted when the request was encrypted (unless it declined with accept=false) or asked for it
	replyEncrypted := c.Secure && c.Accept != "false" || !c.Secure && c.Accept == "true"
	replyUnspecified := c.Secure && c.Accept == "false" // the two readings of the property differ: not asserted
	if c.Enforce && c.Kind == "call" {
		// the handler marked the reply secure itself: a message marked secure is encrypted
		replyEncrypted, replyUnspecified = true, false
	}
	route := sb.Paths[c.Probe]
	if c.Unknown {
		route = "/not/registered/" + c.Kind
	}
	var rawRes *[]byte
	if c.RawResult && c.Kind == "call" {
		// the reply body as it is after the plugin restored it: the encoded result
		rawRes = new([]byte)
		res = rawRes
		getRes = func() string {
			if c.ResMarker != "" && bytes.Contains(*rawRes, []byte(c.ResMarker)) {
				return c.ResMarker
			}
			if c.ResMarker == "" {
				return ""
			}
			return "raw:" + vt.Trunc(string(*rawRes))
		}
	}

	if c.Kind == "push" {
		if st := l.A.Push(route, arg, settings...); !st.OK() {
			failf("push failed to send: %v", st)
			return fails
		}
		decryptable := !reqEncrypted || c.SameKey
		if decryptable {
			if !vt.WaitUntilFor(5*time.Second, func() bool { c17.Lock(); defer c17.Unlock(); return c17.pushes == 1 }) {
				failf("push (secure=%v, same key=%v) was not delivered to its handler", c.Secure, c.SameKey)
			}
		} else {
			vt.WaitUntilFor(3*time.Millisecond, func() bool { c17.Lock(); defer c17.Unlock(); return c17.pushes > 0 })
		}
		c17.Lock()
		pushes, got := c17.pushes, c17.gotReq
		c17.Unlock()
		if decryptable && pushes == 1 && got != c.ReqMarker {
			failf("push handler received marker %q, sent %q", got, c.ReqMarker)
		}
		if !decryptable && pushes != 0 {
			failf("push encrypted with another key was handed to the handler (marker %q)", got)
		}
	} else {
		cmd := l.A.AsyncCall(route, arg, res, make(chan erpc.CallCmd, 1), settings...)
		if !vt.WaitClosed(cmd.Done()) {
			return []string{vt.Hang("completion of the call")}
		}
		c17.Lock()
		calls, got := c17.calls, c17.gotReq
		c17.Unlock()
		switch {
		case reqEncrypted && !c.SameKey:
			if calls != 0 {
				failf("request encrypted with another key: handler was invoked (marker %q)", got)
			}
			if cmd.StatusOK() || cmd.Status().Code() != statCode {
				failf("request encrypted with another key: caller sees %v, want the plugin's status code %d", cmd.Status(), statCode)
			}
		default:
			if calls != 1 {
				failf("handler ran %d times", calls)
			} else if got != c.ReqMarker {
				failf("handler received marker %q, caller sent %q", got, c.ReqMarker)
			}
			switch {
			case !c.HandlerOK:
				if cmd.Status().Code() != 4400 {
					failf("handler failed with 4400 but caller sees %v", cmd.Status())
				}
			case replyEncrypted && !c.SameKey:
				// the reply was encrypted with the server's key: it must not be delivered
				if cmd.StatusOK() {
					failf("reply encrypted with another key was delivered as OK (result marker %q)", getRes())
				} else if cmd.Status().Code() != statCode {
					failf("reply encrypted with another key: caller sees %v, want the plugin's status code %d", cmd.Status(), statCode)
				}
				if c.ResMarker != "" && getRes() == c.ResMarker {
					failf("reply encrypted with another key: the original result was delivered")
				}
			case replyUnspecified && !c.SameKey:
				// either encrypted (undecipherable) or clear (delivered): both readings allowed
			default:
				if !cmd.StatusOK() {
					failf("call failed: %v", cmd.Status())
				} else if getRes() != c.ResMarker {
					failf("caller received result marker %q, handler returned %q", getRes(), c.ResMarker)
				}
				if rep, _ := cmd.Reply(); cmd.StatusOK() && rep != res {
					failf("CallCmd.Reply() returns %T, not the caller's result object %T", rep, res)
				}
			}
		}
	}
	// wire: what must be encrypted is not in clear; what is unmarked stays clear
	req := l.Pair.Stream(vt.AtoB)
	rep := l.Pair.Stream(vt.BtoA)
	if c.ReqMarker == "" {
		// nothing to look for
	} else if reqEncrypted && containsMarker(req, c.ReqMarker) {
		failf("the request was marked secure but its argument appears in clear on the wire")
	}
	if c.ReqMarker != "" && !reqEncrypted && !containsMarker(req, c.ReqMarker) {
		failf("an unmarked request does not carry its argument in clear (it must pass unchanged)")
	}
	if c.Kind == "call" && c.HandlerOK && c.ResMarker != "" && !(reqEncrypted && !c.SameKey) {
		switch {
		case replyUnspecified:
		case replyEncrypted && containsMarker(rep, c.ResMarker):
			failf("the reply had to be encrypted (request secure=%v accept=%q) but the result appears in clear on the wire", c.Secure, c.Accept)
		case !replyEncrypted && !containsMarker(rep, c.ResMarker):
			failf("an unmarked exchange does not carry the result in clear (it must pass unchanged)")
		}
	}
	return fails
}

const ruleC17 = "both peers run the secure plugin (key length 16/24/32, equal or different keys) and are built along generated installation histories: the receiving peer got the plugin through NewPeer, through AppendLeft / AppendRight at a drawn point among its registrations (or through NewPeer, Remove and a later append), attached to SubRoute groups or attached to handlers, its handlers are registered at nesting 0-3 of SubRoute groups before or after the plugin came in, next to other plugins appended, removed and attached to groups and routes, and the message goes to a drawn handler that has the plugin on its chain; the sending peer got it through NewPeer or a late append among routes of its own; one call or push per case with body codec json or protobuf, a 24-character random marker (or, one time in five, an empty one: the protobuf body then marshals to zero bytes) in the argument and another in the result, request marked secure or not, served by a typed handler or by the unknown-call / unknown-push handler (which binds the raw body itself), result received typed or as raw bytes, accept-secure marker absent/true/false, handler succeeding or failing, and in a quarter of the cases marking its reply secure itself (secure.EnforceSecure / the X-Secure reply metadata); oracle: with decipherable traffic the handler sees the original argument and the caller the original result; with a different key the handler is not invoked (or the result not delivered) and the status carries the plugin's code; wire capture of both directions: a marker that must be encrypted never occurs (raw, hex, base64), a marker of an unmarked message does occur; the reply of (secure request, accept=false) is not asserted either way; non-trivial = at least one frame must be encrypted; distinct by case"

func TestC17Secure(t *testing.T) {
	rec := vt.NewRec(t, "C17", "secure", ruleC17)
	protos := vt.StreamProtos()
	rapid.Check(t, func(t *rapid.T) {
		c := genC17(t, protos)
		nt := c.Secure || c.Accept == "true" || c.Enforce && c.Kind == "call"
		classes := []string{"kind=" + c.Kind, "codec=" + c.Codec, fmt.Sprintf("secure=%v", c.Secure), "accept=" + c.Accept, fmt.Sprintf("samekey=%v", c.SameKey), fmt.Sprintf("enforce=%v", c.Enforce)}
		in := c.SrvHist.install(c17Secure)
		classes = append(classes, in.classes("receiver-plugin")...)
		classes = append(classes, "sender-plugin="+c.CliHist.install(c17Secure).How)
		if r, ok := c.SrvHist.routeAt(c.Probe); ok {
			when := "after"
			if r.Step < in.Step {
				when = "before"
			}
			classes = append(classes, fmt.Sprintf("handler=%s/depth=%d", r.Kind, r.Depth), fmt.Sprintf("receiver-plugin=%s/handler-depth=%d/registered-%s-the-plugin", in.How, r.Depth, when))
		}
		rec.Case(fmt.Sprintf("%+v", c), nt, classes...)
		if rec.WantSample() && nt {
			rec.Sample(c)
		}
		if fails := runC17(c, protos); len(fails) > 0 {
			t.Fatalf("C17 violated (%d findings), first: %s\ncase: %+v", len(fails), fails[0], c)
		}
	})
}
