package core

import (
	"fmt"
	"net"
	"sync"
	"sync/atomic"
	"testing"
	"time"

	erpc "github.com/henrylee2cn/erpc/v6"
	"github.com/henrylee2cn/erpc/v6/plugin/auth"
	"github.com/henrylee2cn/erpc/v6/socket"
	"pgregory.net/rapid"

	"verifharness/vt"
)

// msgHookCounter counts every per-message hook it sees.
type msgHookCounter struct{ n int64 }

func (m *msgHookCounter) Name() string { return "c16hooks" }
func (m *msgHookCounter) hit() *erpc.Status {
	atomic.AddInt64(&m.n, 1)
	return nil
}
func (m *msgHookCounter) PreReadHeader(erpc.PreCtx) error               { atomic.AddInt64(&m.n, 1); return nil }
func (m *msgHookCounter) PostReadCallHeader(erpc.ReadCtx) *erpc.Status  { return m.hit() }
func (m *msgHookCounter) PreReadCallBody(erpc.ReadCtx) *erpc.Status     { return m.hit() }
func (m *msgHookCounter) PostReadCallBody(erpc.ReadCtx) *erpc.Status    { return m.hit() }
func (m *msgHookCounter) PostReadPushHeader(erpc.ReadCtx) *erpc.Status  { return m.hit() }
func (m *msgHookCounter) PreReadPushBody(erpc.ReadCtx) *erpc.Status     { return m.hit() }
func (m *msgHookCounter) PostReadPushBody(erpc.ReadCtx) *erpc.Status    { return m.hit() }
func (m *msgHookCounter) PostReadReplyHeader(erpc.ReadCtx) *erpc.Status { return m.hit() }
func (m *msgHookCounter) PreWriteReply(erpc.WriteCtx) *erpc.Status      { return m.hit() }
func (m *msgHookCounter) PostWriteReply(erpc.WriteCtx) *erpc.Status     { return m.hit() }
func (m *msgHookCounter) count() int64                                  { return atomic.LoadInt64(&m.n) }

type c16Case struct {
	Proto    string
	First    string // goodauth | badauth | call | push | reply | authreply | badtype | malformed | truncated | nothing | callsfirst
	Verdict  string // bycreds | retry (receive a second time on bad credentials) | reject-after-setid | panic
	Renames  int    // the checker renames the session this many times before its verdict (a provisional id, then the claimed one)
	Pipeline int    // CALL frames pipelined behind the first frame in the same write
	Pushes   int
	OneWrite bool
	Chunks   []int
	Cycle    bool
	// how the serving peer was built (phist_test.go) and the registering steps of the
	// routes that the client's CALL and PUSH frames name
	Hist   phHistory
	CallAt int
	PushAt int
}

// c16Hist draws the installation history of the serving peer of the C16 checks: the checker
// (and the hook counter) is given to NewPeer, or appended to the peer's container at some point
// of a generated sequence of route / group / unknown-handler registrations and of other
// plugins coming and going, or given to NewPeer, removed and appended again.
func c16Hist(t *rapid.T) (phHistory, int, int) {
	g := genPHistory(t, "hist", phGenCfg{NCall: 3, NPush: 2, MaxDepth: 3, MaxSteps: 8, GroupPlugs: 1, RoutePlugs: 1, Unknown: true, Boot: true,
		Targets: []phTarget{
			{Name: "auth-checker", How: []string{"new", "new", "left", "left", "right", "right", "right", "reinstall"}},
			{Name: "c16hooks", How: []string{"new", "new", "left", "right"}},
		}})
	g.ensureRoute("call", rapid.IntRange(0, 2).Draw(t, "callfn"), "")
	g.ensureRoute("push", rapid.IntRange(0, 1).Draw(t, "pushfn"), "")
	return g.H, g.Ensured[0], g.Ensured[1]
}

// c16Server builds the serving peer along the history.
func c16Server(w *vt.World, h phHistory, callAt, pushAt int, checker erpc.Plugin, hooks *msgHookCounter) (srv erpc.Peer, callRoute, pushRoute string) {
	b := phBuild(w, erpc.PeerConfig{}, h, func(name string) erpc.Plugin {
		switch name {
		case "auth-checker":
			return checker
		case "c16hooks":
			return hooks
		}
		return phNoisePlugin(name)
	}, phLibFns)
	bindLib(b.Peer)
	return b.Peer, b.Paths[callAt], b.Paths[pushAt]
}

func genC16(t *rapid.T, protos []vt.NamedProto) c16Case {
	c := c16Case{Proto: rapid.SampledFrom(protos).Draw(t, "proto").Name}
	c.First = rapid.SampledFrom([]string{"goodauth", "goodauth", "goodauth", "badauth", "call", "push", "reply", "authreply", "badtype", "malformed", "truncated", "nothing", "callsfirst"}).Draw(t, "first")
	c.Verdict = rapid.SampledFrom([]string{"bycreds", "bycreds", "bycreds", "retry", "retry", "reject-after-setid", "panic"}).Draw(t, "verdict")
	c.Renames = rapid.SampledFrom([]int{0, 0, 1, 2, 3}).Draw(t, "renames")
	c.Pipeline = rapid.IntRange(0, 3).Draw(t, "pipeline")
	c.Pushes = rapid.IntRange(0, 2).Draw(t, "pushes")
	c.OneWrite = rapid.Bool().Draw(t, "onewrite")
	c.Chunks, c.Cycle = vt.Chunks(t, "chunks")
	c.Hist, c.CallAt, c.PushAt = c16Hist(t)
	return c
}

func (c c16Case) accepted() bool {
	return c.First == "goodauth" && (c.Verdict == "bycreds" || c.Verdict == "retry")
}

func runC16(c c16Case, protos []vt.NamedProto) []string {
	vt.Init()
	lib := newLib()
	proto := protoByName(protos, c.Proto)
	hooks := &msgHookCounter{}
	var checkerRuns int64
	checker := auth.NewCheckerPlugin(func(sess auth.Session, recv auth.RecvOnce) (interface{}, *erpc.Status) {
		atomic.AddInt64(&checkerRuns, 1)
		var info string
		if stat := recv(&info); !stat.OK() {
			return nil, stat
		}
		for i := 0; i < c.Renames; i++ {
			sess.SetID(fmt.Sprintf("provisional-%d", i))
		}
		switch c.Verdict {
		case "reject-after-setid":
			sess.SetID("claimed-user")
			return nil, erpc.NewStatus(erpc.CodeUnauthorized, "no", "rejected after SetID")
		case "panic":
			panic("checker exploded")
		}
		if info != "good-credentials" && c.Verdict == "retry" {
			// a checker that asks for the credentials a second time: the plugin allows one
			// exchange per connection and answers with its MultiRecvErr, which the checker passes on
			if stat := recv(&info); !stat.OK() {
				return nil, stat
			}
		}
		if info != "good-credentials" {
			return nil, erpc.NewStatus(erpc.CodeUnauthorized, erpc.CodeText(erpc.CodeUnauthorized), "bad credentials")
		}
		return "welcome", nil
	}, erpc.WithBodyCodec('s'))
	w := vt.NewWorld()
	defer w.Close()
	srv, callRoute, pushRoute := c16Server(w, c.Hist, c.CallAt, c.PushAt, checker, hooks)
	var fails []string
	failf := func(format string, a ...interface{}) { fails = append(fails, fmt.Sprintf(format, a...)) }

	pair := vt.NewPair()
	pair.SetChunks(vt.AtoB, c.Chunks, c.Cycle)
	raw := vt.NewRawPeer(pair, pair.A, proto.Fn)
	defer raw.Close()
	pack := func(m vt.Msg) []byte {
		wrw := &vt.RW{}
		if err := proto.Fn(wrw).Pack(m.Build()); err != nil {
			panic(err)
		}
		return wrw.Written()
	}
	call := func(i int) []byte {
		return pack(vt.Msg{Seq: int32(10 + i), Mtype: erpc.TypeCall, Method: callRoute, Codec: 'j', Body: []byte(fmt.Sprintf(`{"Rid":"c%d","Act":"ret","Val":"v"}`, i))})
	}
	push := func(i int) []byte {
		return pack(vt.Msg{Seq: int32(50 + i), Mtype: erpc.TypePush, Method: pushRoute, Codec: 'j', Body: []byte(fmt.Sprintf(`{"Rid":"p%d","Act":"ret","Val":"v"}`, i))})
	}
	authFrame := func(cred string) []byte {
		return pack(vt.Msg{Seq: 1, Mtype: erpc.TypeAuthCall, Codec: 's', Body: []byte(cred)})
	}
	var chunks [][]byte
	closeAfter := false
	switch c.First {
	case "goodauth":
		chunks = append(chunks, authFrame("good-credentials"))
	case "badauth":
		chunks = append(chunks, authFrame("wrong"))
	case "call":
		chunks = append(chunks, call(9))
	case "push":
		chunks = append(chunks, push(9))
	case "reply":
		chunks = append(chunks, pack(vt.Msg{Seq: 1, Mtype: erpc.TypeReply, Codec: 's', Body: []byte("x")}))
	case "authreply":
		chunks = append(chunks, pack(vt.Msg{Seq: 1, Mtype: erpc.TypeAuthReply, Codec: 's', Body: []byte("x")}))
	case "badtype":
		chunks = append(chunks, pack(vt.Msg{Seq: 1, Mtype: 77, Codec: 's', Body: []byte("x")}))
	case "malformed":
		chunks = append(chunks, []byte{0xff, 0xff, 0xff, 0xff, 1, 2, 3, 4, 5})
	case "truncated":
		f := authFrame("good-credentials")
		chunks = append(chunks, f[:len(f)/2])
		closeAfter = true
	case "nothing":
		closeAfter = true
	case "callsfirst":
		chunks = append(chunks, call(8), authFrame("good-credentials"))
	}
	for i := 0; i < c.Pipeline; i++ {
		chunks = append(chunks, call(i))
	}
	for i := 0; i < c.Pushes; i++ {
		chunks = append(chunks, push(i))
	}
	type res struct {
		s  erpc.Session
		st *erpc.Status
	}
	served := make(chan res, 1)
	go func() { s, st := srv.ServeConn(pair.B, proto.Fn); served <- res{s, st} }()
	if c.OneWrite {
		var all []byte
		for _, ch := range chunks {
			all = append(all, ch...)
		}
		if len(all) > 0 {
			raw.SendBytes(all)
		}
	} else {
		for _, ch := range chunks {
			raw.SendBytes(ch)
		}
	}
	if closeAfter {
		raw.Close()
	}
	var r res
	select {
	case r = <-served:
	case <-time.After(vt.LivenessBound):
		return []string{vt.Hang("return of ServeConn (the authentication exchange)")}
	}
	if n := atomic.LoadInt64(&checkerRuns); n != 1 {
		failf("the checker ran %d times for one connection", n)
	}
	if c.accepted() {
		if r.s == nil {
			failf("good credentials were rejected: %v", r.st)
			return fails
		}
		// the auth reply and then exactly one reply per pipelined CALL
		if !raw.WaitFor(func(fr []vt.RawFrame) bool { return len(fr) >= 1+c.Pipeline }) {
			failf("%s", vt.Hang("auth reply and replies to the CALLs pipelined behind the auth frame"))
			return fails
		}
		vt.WaitUntilFor(3*time.Second, func() bool {
			for i := 0; i < c.Pushes; i++ {
				if lib.Pushes(fmt.Sprintf("p%d", i)) == 0 {
					return false
				}
			}
			return true
		})
		// the accepted connection is listed exactly once, under the last id the checker gave it
		if c.Renames > 0 {
			want := fmt.Sprintf("provisional-%d", c.Renames-1)
			if n := srv.CountSession(); n != 1 || r.s.ID() != want {
				failf("accepted connection renamed %d times by the checker: %d sessions listed, id %q, want 1 and %q", c.Renames, n, r.s.ID(), want)
			}
		}
		r.s.Close()
		raw.WaitEOF()
		if n := srv.CountSession(); n != 0 {
			failf("%d sessions are still listed after the only (accepted) connection was closed", n)
		}
		fr := raw.Frames()
		if len(fr) != 1+c.Pipeline {
			failf("accepted connection: %d frames written by the server, want 1 auth reply + %d replies", len(fr), c.Pipeline)
		}
		if len(fr) > 0 && (fr[0].Mtype != erpc.TypeAuthReply || fr[0].Status.Code != 0 || string(fr[0].Body) != "welcome") {
			failf("first frame is not the OK auth reply: %+v", fr[0])
		}
		for i := 0; i < c.Pipeline; i++ {
			if n := lib.Calls(fmt.Sprintf("c%d", i)); n != 1 {
				failf("CALL %d pipelined behind a successful authentication was handled %d times", i, n)
			}
		}
		return fails
	}
	// not accepted ---------------------------------------------------------------------
	if r.s != nil || r.st.OK() {
		failf("a connection whose authentication did not succeed (%s/%s) got a session", c.First, c.Verdict)
	}
	if !closeAfter {
		if !raw.WaitEOF() {
			failf("%s", vt.Hang("EOF at the client of a rejected connection"))
		}
	}
	// settle: anything wrongly dispatched would show up now
	vt.WaitUntilFor(2*time.Millisecond, func() bool { return lib.TotalCalls() > 0 || hooks.count() > 0 })
	if n := lib.TotalCalls(); n != 0 {
		failf("%d call handler(s) ran on a connection whose authentication did not succeed", n)
	}
	lib.mu.Lock()
	np := len(lib.pushes)
	lib.mu.Unlock()
	if np != 0 {
		failf("%d push handler(s) ran on a connection whose authentication did not succeed", np)
	}
	if n := hooks.count(); n != 0 {
		failf("%d per-message hook(s) ran on a connection whose authentication did not succeed", n)
	}
	if srv.CountSession() != 0 {
		failf("a rejected connection is listed as a session")
	}
	if _, ok := srv.GetSession("claimed-user"); ok {
		failf("the id claimed by a rejected connection is listed")
	}
	for i := 0; i < c.Renames; i++ {
		if _, ok := srv.GetSession(fmt.Sprintf("provisional-%d", i)); ok {
			failf("provisional id %d given by the checker to a rejected connection is listed", i)
		}
	}
	srv.RangeSession(func(s erpc.Session) bool {
		failf("RangeSession lists session %q after the only connection was rejected", s.ID())
		return true
	})
	for _, f := range raw.Frames() {
		if f.Mtype != erpc.TypeAuthReply {
			failf("a rejected connection received a frame of type %d", f.Mtype)
		}
	}
	if len(raw.Frames()) > 1 {
		failf("a rejected connection received %d frames", len(raw.Frames()))
	}
	return fails
}

const ruleC16 = "serving peer built along a generated installation history (the checker and the hook counter are given to NewPeer, or appended with AppendLeft / AppendRight before any route, after some routes, after handlers inside SubRoute groups nested 1-3 deep, after SetUnknownCall / SetUnknownPush, or given to NewPeer, removed and appended again; other plugins are appended, removed and attached to groups and routes before and after; a plugin given to NewPeer may register a route from PostNewPeer; the client addresses a drawn one of the registered routes) with auth.NewCheckerPlugin (verdict by credentials / second receive attempt on bad credentials / reject after SetID / panic; before its verdict the checker renames the session 0-3 times) and a counter on every per-message hook; a raw client's first frame is {good AUTH_CALL, bad AUTH_CALL, CALL, PUSH, REPLY, AUTH_REPLY, unknown type, over-limit garbage, half an auth frame then close, nothing then close, CALL before the auth frame} with 0-3 CALLs and 0-2 PUSHes pipelined behind it, in one write or several, under a generated read chunking; oracle: checker runs exactly once; without a successful exchange no handler and no per-message hook runs, the client gets at most one AUTH_REPLY then EOF, nothing is indexed (also not under any id the checker set); with a successful exchange the pipelined CALLs are answered exactly once; non-trivial = first frame is not a plain good AUTH_CALL or frames are pipelined; distinct by case"

func TestC16Auth(t *testing.T) {
	rec := vt.NewRec(t, "C16", "checker", ruleC16)
	protos := vt.StreamProtos()
	rapid.Check(t, func(t *rapid.T) {
		c := genC16(t, protos)
		nt := c.First != "goodauth" || c.Pipeline+c.Pushes > 0 || c.Verdict != "bycreds"
		classes := []string{"first=" + c.First, "verdict=" + c.Verdict, fmt.Sprintf("accepted=%v", c.accepted())}
		in := c.Hist.install("auth-checker")
		classes = append(classes, in.classes("checker")...)
		classes = append(classes, fmt.Sprintf("checker=%s/accepted=%v", in.How, c.accepted()))
		if r, ok := c.Hist.routeAt(c.CallAt); ok {
			classes = append(classes, fmt.Sprintf("call-route-depth=%d", r.Depth))
		}
		rec.Case(fmt.Sprintf("%+v", c), nt, classes...)
		if rec.WantSample() && nt {
			rec.Sample(c)
		}
		vt.Journal("C16", c)
		if fails := runC16(c, protos); len(fails) > 0 {
			t.Fatalf("C16 violated (%d findings), first: %s\ncase: %+v", len(fails), fails[0], c)
		}
	})
}

// ---- the dialling side: bearer plugin against a scripted server over loopback TCP ------

type c16DialCase struct {
	Answer string // ok | error | wrongtype | garbage | close
	Pushes int    // PUSH frames the scripted server pipelines behind its answer
}

func TestC16Bearer(t *testing.T) {
	rec := vt.NewRec(t, "C16", "bearer", "dialling peer with auth.NewBearerPlugin against a scripted TCP server whose answer to the AUTH_CALL is {OK AUTH_REPLY, AUTH_REPLY with error status, REPLY (wrong type), garbage, close} followed by 0-2 pipelined PUSH frames; oracle: Dial succeeds iff the answer is the OK AUTH_REPLY; otherwise no session is returned or indexed and no push handler / per-message hook runs on the dialling peer; after success the pipelined pushes are handled at most once each; non-trivial = answer is not OK or pushes are pipelined; distinct by case")
	rapid.Check(t, func(t *rapid.T) {
		vt.Init()
		c := c16DialCase{Answer: rapid.SampledFrom([]string{"ok", "ok", "error", "wrongtype", "garbage", "close"}).Draw(t, "answer"), Pushes: rapid.IntRange(0, 2).Draw(t, "pushes")}
		rec.Case(fmt.Sprintf("%+v", c), c.Answer != "ok" || c.Pushes > 0, "answer="+c.Answer)
		if rec.WantSample() {
			rec.Sample(c)
		}
		lib := newLib()
		hooks := &msgHookCounter{}
		lis, err := net.Listen("tcp", "127.0.0.1:0")
		if err != nil {
			t.Skip("no loopback listener: " + err.Error())
		}
		defer lis.Close()
		var wg sync.WaitGroup
		wg.Add(1)
		go func() {
			defer wg.Done()
			conn, err := lis.Accept()
			if err != nil {
				return
			}
			defer conn.Close()
			// read the AUTH_CALL through the protocol
			sock := socket.NewSocket(conn)
			m := vt.NewReceiver()
			if err := sock.ReadMessage(m); err != nil {
				return
			}
			pack := func(mm vt.Msg) []byte {
				wrw := &vt.RW{}
				socket.DefaultProtoFunc()(wrw).Pack(mm.Build())
				return wrw.Written()
			}
			var out []byte
			switch c.Answer {
			case "ok":
				out = pack(vt.Msg{Seq: m.Seq(), Mtype: erpc.TypeAuthReply, Codec: 's', Body: []byte("welcome")})
			case "error":
				out = pack(vt.Msg{Seq: m.Seq(), Mtype: erpc.TypeAuthReply, HasStatus: true, Code: 401, StatMsg: "Unauthorized"})
			case "wrongtype":
				out = pack(vt.Msg{Seq: m.Seq(), Mtype: erpc.TypeReply, Codec: 's', Body: []byte("welcome")})
			case "garbage":
				out = []byte{0xff, 0xff, 0xff, 0xff, 9, 9, 9}
			case "close":
				return
			}
			for i := 0; i < c.Pushes; i++ {
				out = append(out, pack(vt.Msg{Seq: int32(100 + i), Mtype: erpc.TypePush, Method: "/lib_note", Codec: 'j', Body: []byte(fmt.Sprintf(`{"Rid":"bp%d","Act":"ret"}`, i))})...)
			}
			conn.Write(out)
			// keep the connection open until the client is done
			buf := make([]byte, 64)
			conn.SetReadDeadline(time.Now().Add(vt.LivenessBound))
			for {
				if _, err := conn.Read(buf); err != nil {
					return
				}
			}
		}()
		bearer := auth.NewBearerPlugin(func(sess auth.Session, send auth.SendOnce) *erpc.Status {
			var ret string
			return send("good-credentials", &ret)
		}, erpc.WithBodyCodec('s'))
		w := vt.NewWorld()
		cli := w.Peer(erpc.PeerConfig{DialTimeout: 5 * time.Second}, bearer, hooks)
		registerLib(cli)
		type dres struct {
			s  erpc.Session
			st *erpc.Status
		}
		done := make(chan dres, 1)
		go func() { s, st := cli.Dial(lis.Addr().String()); done <- dres{s, st} }()
		var d dres
		select {
		case d = <-done:
		case <-time.After(vt.LivenessBound):
			t.Fatalf("%s", vt.Hang("return of Dial with the bearer plugin"))
		}
		if c.Answer == "ok" {
			if d.s == nil {
				t.Fatalf("C16 violated: Dial failed although the server accepted: %v", d.st)
			}
			vt.WaitUntilFor(3*time.Second, func() bool {
				for i := 0; i < c.Pushes; i++ {
					if lib.Pushes(fmt.Sprintf("bp%d", i)) == 0 {
						return false
					}
				}
				return true
			})
			for i := 0; i < c.Pushes; i++ {
				if n := lib.Pushes(fmt.Sprintf("bp%d", i)); n > 1 {
					t.Fatalf("C16 violated: push %d handled %d times", i, n)
				}
			}
		} else {
			if d.s != nil || d.st.OK() {
				t.Fatalf("C16 violated: Dial returned a session although the authentication answer was %q", c.Answer)
			}
			vt.WaitUntilFor(2*time.Millisecond, func() bool { return hooks.count() > 0 })
			lib.mu.Lock()
			np := len(lib.pushes)
			lib.mu.Unlock()
			if np != 0 || hooks.count() != 0 {
				t.Fatalf("C16 violated: %d push handler(s) / %d per-message hook(s) ran on the dialling peer although its authentication failed (%s)", np, hooks.count(), c.Answer)
			}
			if cli.CountSession() != 0 {
				t.Fatalf("C16 violated: a session whose authentication failed is listed by the dialling peer")
			}
		}
		w.Close()
		lis.Close()
		wg.Wait()
	})
}
