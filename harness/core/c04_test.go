package core

import (
	"fmt"
	"strings"
	"testing"

	erpc "github.com/henrylee2cn/erpc/v6"
	"github.com/henrylee2cn/erpc/v6/codec"
	"pgregory.net/rapid"

	"verifharness/vt"
)

type c04Case struct {
	Proto    string // raw json pb http ws-json ws-pb
	Codec    string // json xml form
	Cause    string
	Code     int32
	Msg      string
	CauseTxt string
	HasC     bool
	Val      string
	Result   string // lib | int | strings | wrongstruct
	Pipe     []byte // transfer-filter pipe of the request (the reply travels through it too)
	Accept   string // reply codec the caller asks for: "" | json | xml | form | unreg (an id nobody registered: the request is to be ignored)
}

var c04Causes = []string{
	"handler-ok", "handler-ok", "handler-ok-status", "handler-err", "handler-err", "handler-err", "unknown-route", "bad-body", "panic-s", "panic-e", "panic-st", "panic-st-ok",
	"veto-PostReadCallHeader", "veto-PreReadCallBody", "veto-PostReadCallBody", "conn-closed", "result-mismatch", "result-mismatch",
	"cveto-PreWriteCall", "rveto-PostReadReplyHeader", "rveto-PreReadReplyBody", "rveto-PostReadReplyBody",
}

var c04Protos = []string{"raw", "json", "pb", "http", "ws-json", "ws-pb"}

func xmlSafe(s string) string {
	var b strings.Builder
	for _, r := range s {
		if r == 0x9 || r == 0xA || r >= 0x20 && r <= 0xD7FF || r >= 0xE000 && r < 0xFFFD {
			b.WriteRune(r)
		}
	}
	return b.String()
}

func genC04(t *rapid.T, protos []string) c04Case {
	c := c04Case{
		Proto: rapid.SampledFrom(protos).Draw(t, "proto"),
		Codec: rapid.SampledFrom([]string{"json", "json", "xml", "form"}).Draw(t, "codec"),
		Cause: rapid.SampledFrom(c04Causes).Draw(t, "cause"),
	}
	c.Code = vt.StatusCode(t, "code")
	text := func(label string) string {
		if c.Proto == "http" {
			// the HTTP protocol carries the status as a JSON document
			return strings.ToValidUTF8(vt.ValidUTF8(t, label, 200), "?")
		}
		return string(vt.Bytes(t, label, 200))
	}
	c.Msg = text("msg")
	c.HasC = rapid.Bool().Draw(t, "hasC")
	if c.HasC {
		c.CauseTxt = text("causeTxt")
	}
	// the status travels in the request body to the handler: keep it representable in the request codec
	if c.Codec == "xml" {
		c.Msg, c.CauseTxt = xmlSafe(strings.ToValidUTF8(c.Msg, "?")), xmlSafe(strings.ToValidUTF8(c.CauseTxt, "?"))
	}
	if c.Codec == "json" {
		c.Msg, c.CauseTxt = strings.ToValidUTF8(c.Msg, "?"), strings.ToValidUTF8(c.CauseTxt, "?")
		c.Msg, c.CauseTxt = strings.ReplaceAll(c.Msg, "�", "?"), strings.ReplaceAll(c.CauseTxt, "�", "?")
	}
	c.Val = rapid.StringMatching(`[a-zA-Z0-9 ]{0,40}`).Draw(t, "val")
	switch rapid.IntRange(0, 5).Draw(t, "pipeclass") {
	case 0:
		c.Pipe = []byte{vt.XGzip5}
	case 1:
		if c.Proto != "http" { // the HTTP-style protocol supports gzip only
			c.Pipe = []byte{vt.XMd5}
		}
	case 2:
		if c.Proto != "http" {
			c.Pipe = []byte{vt.XGzip1, vt.XMd5}
		}
	}
	c.Result = "lib"
	if c.Cause == "result-mismatch" {
		c.Result = rapid.SampledFrom([]string{"int", "strings", "wrongstruct"}).Draw(t, "result")
	} else {
		c.Accept = rapid.SampledFrom([]string{"", "", "", "json", "xml", "form", "unreg", "unreg"}).Draw(t, "accept")
	}
	return c
}

// clientVeto vetoes on the calling side: before the CALL is written, or at one
// of the reply-reading stages (steered by request / reply metadata).
type clientVeto struct{}

func (clientVeto) Name() string { return "clientveto" }
func (clientVeto) PreWriteCall(ctx erpc.WriteCtx) *erpc.Status {
	if string(ctx.Output().Meta().Peek("Cveto")) == "PreWriteCall" {
		return erpc.NewStatus(778, "client veto", "PreWriteCall")
	}
	return nil
}
func replyVeto(stage string, ctx erpc.ReadCtx) *erpc.Status {
	if string(ctx.PeekMeta("Rveto")) == stage {
		return erpc.NewStatus(779, "reply veto", stage)
	}
	return nil
}
func (clientVeto) PostReadReplyHeader(ctx erpc.ReadCtx) *erpc.Status {
	return replyVeto("PostReadReplyHeader", ctx)
}
func (clientVeto) PreReadReplyBody(ctx erpc.ReadCtx) *erpc.Status {
	return replyVeto("PreReadReplyBody", ctx)
}
func (clientVeto) PostReadReplyBody(ctx erpc.ReadCtx) *erpc.Status {
	return replyVeto("PostReadReplyBody", ctx)
}

// echoRveto copies the request's "Rveto" metadata into the reply metadata.
type echoRveto struct{}

func (echoRveto) Name() string { return "echorveto" }
func (echoRveto) PreWriteReply(ctx erpc.WriteCtx) *erpc.Status {
	if rc, ok := ctx.(erpc.ReadCtx); ok {
		if v := rc.PeekMeta("Rveto"); len(v) > 0 {
			ctx.Output().Meta().Set("Rveto", string(v))
		}
	}
	return nil
}

type wrongStruct struct {
	Rid []int
	Val map[string]int
}

type expect struct {
	ok        bool
	code      int32
	msg       *string
	cause     *string
	anyNonOK  bool
	resultVal *string
}

func sp(s string) *string { return &s }

func codecID(name string) byte {
	c, _ := codec.GetByName(name)
	return c.ID()
}

func (c c04Case) arg() *LibArg {
	a := &LibArg{Rid: "c04", Act: "ret", Val: c.Val, Code: c.Code, Msg: c.Msg, Cause: c.CauseTxt, HasC: c.HasC}
	switch c.Cause {
	case "handler-err":
		a.Act = "err"
	case "handler-ok-status":
		a.Act = "ret-okstatus"
	case "panic-s":
		a.Act = "panic-s"
	case "panic-e":
		a.Act = "panic-e"
	case "panic-st", "panic-st-ok":
		a.Act = c.Cause
	case "conn-closed":
		a.Act = "slow"
	}
	return a
}

func (c c04Case) expected() expect {
	st := erpc.NewStatus(c.Code, c.Msg)
	if c.HasC {
		st = erpc.NewStatus(c.Code, c.Msg, c.CauseTxt)
	}
	viaHTTP := func(tr vt.StatusTriple, hadEmptyCause bool) vt.StatusTriple {
		// JSON status representation: an empty cause is indistinguishable from none,
		// and the accessor then reports the message as the cause
		if c.Proto == "http" && hadEmptyCause {
			tr.Cause = tr.Msg
		}
		return tr
	}
	switch {
	case c.Cause == "handler-ok", c.Cause == "handler-ok-status":
		return expect{ok: true, resultVal: sp(c.Val)}
	case c.Cause == "handler-err":
		tr := viaHTTP(vt.TripleOf(st), c.HasC && c.CauseTxt == "")
		return expect{code: tr.Code, msg: &tr.Msg, cause: &tr.Cause}
	case c.Cause == "unknown-route":
		tr := viaHTTP(vt.StatusTriple{Code: 404, Msg: "Not Found", Cause: ""}, true)
		return expect{code: 404, msg: &tr.Msg, cause: &tr.Cause}
	case c.Cause == "bad-body":
		return expect{code: 400, msg: sp("Bad Message")}
	case c.Cause == "panic-s" || c.Cause == "panic-e":
		return expect{code: 500, msg: sp("Internal Server Error"), cause: sp("boom " + c.Val)}
	case c.Cause == "panic-st" || c.Cause == "panic-st-ok":
		// a handler that panics with a Status value (ThrowStatus / CheckStatus style) has
		// panicked all the same: the 500 rule, whatever the thrown status says
		return expect{code: 500, msg: sp("Internal Server Error")}
	case strings.HasPrefix(c.Cause, "veto-"):
		stage := strings.TrimPrefix(c.Cause, "veto-")
		return expect{code: 777, msg: sp("veto at " + stage), cause: sp("plugin veto")}
	case c.Cause == "conn-closed":
		return expect{code: 102, msg: sp("Connection Closed")}
	case c.Cause == "cveto-PreWriteCall":
		return expect{code: 778, msg: sp("client veto"), cause: sp("PreWriteCall")}
	case strings.HasPrefix(c.Cause, "rveto-"):
		return expect{code: 779, msg: sp("reply veto"), cause: sp(strings.TrimPrefix(c.Cause, "rveto-"))}
	case c.Cause == "result-mismatch":
		// independent oracle: does the reply body decode into the caller's result type?
		cd, _ := codec.GetByName(c.Codec)
		enc, err := cd.Marshal(&LibRes{Rid: "c04", Val: c.Val})
		if err != nil {
			return expect{ok: true}
		}
		var derr error
		func() {
			defer func() {
				if p := recover(); p != nil {
					derr = fmt.Errorf("panic %v", p)
				}
			}()
			derr = cd.Unmarshal(enc, c.newResult())
		}()
		if derr != nil {
			return expect{anyNonOK: true}
		}
		return expect{ok: true}
	}
	panic("unknown cause " + c.Cause)
}

func (c c04Case) newResult() interface{} {
	switch c.Result {
	case "int":
		return new(int)
	case "strings":
		return new([]string)
	case "wrongstruct":
		return new(wrongStruct)
	}
	return new(LibRes)
}

// c04Connect builds client and server for the case's protocol.
func c04Connect(w *vt.World, proto string, cli, srv erpc.Peer) (*vt.Link, error) {
	switch proto {
	case "raw", "json", "pb":
		l := w.Connect(cli, srv, protoByName(vt.StreamProtos(), proto), nil)
		if l.A == nil || l.B == nil {
			return nil, fmt.Errorf("connect: %v %v", l.AStat, l.BStat)
		}
		return l, nil
	case "http":
		l := w.Connect(cli, srv, vt.HTTPProto(), nil)
		if l.A == nil || l.B == nil {
			return nil, fmt.Errorf("connect: %v %v", l.AStat, l.BStat)
		}
		return l, nil
	case "ws-json", "ws-pb":
		l, err := w.ConnectWS(cli, srv, protoByName(vt.WsSubProtos(), proto), nil)
		if err != nil {
			return nil, err
		}
		if l.A == nil || l.B == nil {
			return nil, fmt.Errorf("ws connect: %v", l.AStat)
		}
		return l, nil
	}
	return nil, fmt.Errorf("unknown proto %s", proto)
}

func runC04(c c04Case) (string, vt.StatusTriple) {
	vt.Init()
	s := newLib()
	w := vt.NewWorld()
	defer w.Close()
	srv := w.Peer(erpc.PeerConfig{}, &vetoPlugin{name: "veto"}, echoRveto{})
	cli := w.Peer(erpc.PeerConfig{}, clientVeto{})
	callRoute, _ := registerLib(srv)
	l, err := c04Connect(w, c.Proto, cli, srv)
	if err != nil {
		return "harness: " + err.Error(), vt.StatusTriple{}
	}
	route := callRoute
	settings := []erpc.MessageSetting{erpc.WithBodyCodec(codecID(c.Codec))}
	var arg interface{} = c.arg()
	switch {
	case c.Cause == "unknown-route":
		route = callRoute + "/nope"
	case c.Cause == "bad-body":
		arg = map[string][]byte{"json": []byte(`{"Rid": [`), "xml": []byte("<LibArg><Rid></LibArg>"), "form": []byte("Rid=%zz&%=1")}[c.Codec]
	case strings.HasPrefix(c.Cause, "veto-"):
		settings = append(settings, erpc.WithAddMeta("Veto", strings.TrimPrefix(c.Cause, "veto-")), erpc.WithAddMeta("Vcode", "777"))
	case strings.HasPrefix(c.Cause, "cveto-"):
		settings = append(settings, erpc.WithAddMeta("Cveto", strings.TrimPrefix(c.Cause, "cveto-")))
	case strings.HasPrefix(c.Cause, "rveto-"):
		settings = append(settings, erpc.WithAddMeta("Rveto", strings.TrimPrefix(c.Cause, "rveto-")))
	}
	if len(c.Pipe) > 0 {
		settings = append(settings, erpc.WithXferPipe(c.Pipe...))
	}
	wantReplyCodec := codecID(c.Codec)
	switch c.Accept {
	case "":
	case "unreg":
		settings = append(settings, erpc.WithAcceptBodyCodec(200)) // nobody registered it: ignored
	default:
		settings = append(settings, erpc.WithAcceptBodyCodec(codecID(c.Accept)))
		wantReplyCodec = codecID(c.Accept)
	}
	result := c.newResult()
	var cmd erpc.CallCmd
	if c.Cause == "conn-closed" {
		entered, release := s.Gate("c04")
		defer release()
		cmd = l.A.AsyncCall(route, arg, result, make(chan erpc.CallCmd, 1), settings...)
		if !vt.WaitClosed(entered) {
			return vt.Hang("handler entry"), vt.StatusTriple{}
		}
		l.Pair.Cut() // the connection is lost before the reply
	} else {
		cmd = l.A.AsyncCall(route, arg, result, make(chan erpc.CallCmd, 1), settings...)
	}
	if !vt.WaitClosed(cmd.Done()) {
		return vt.Hang("completion of the call"), vt.StatusTriple{}
	}
	got := vt.TripleOf(cmd.Status())
	if c.Cause != "conn-closed" {
		// what a completed call hands out belongs to the caller: more traffic on the
		// session (another failing call, a successful one, a push) must not change it
		l.A.Call(callRoute, &LibArg{Rid: "after-err", Act: "err", Code: 31337, Msg: "later failure", Cause: "later cause", HasC: true}, new(LibRes), erpc.WithBodyCodec('j'))
		l.A.Call(callRoute, &LibArg{Rid: "after-ok", Act: "ret", Val: "later"}, new(LibRes), erpc.WithBodyCodec('j'))
		l.A.Call(callRoute+"/nope", &LibArg{}, new(LibRes), erpc.WithBodyCodec('j'))
		if again := vt.TripleOf(cmd.Status()); again != got {
			return fmt.Sprintf("the status of the completed call changed from %+v to %+v after later calls on the session", got, again), got
		}
	}
	e := c.expected()
	switch {
	case e.ok:
		if !cmd.StatusOK() {
			return fmt.Sprintf("caller sees %+v although the handler succeeded and the reply is decodable", got), got
		}
		if e.resultVal != nil {
			r, _ := result.(*LibRes)
			if r == nil || r.Val != *e.resultVal || r.Rid != "c04" {
				return fmt.Sprintf("status OK but result %+v, want Val=%q", result, *e.resultVal), got
			}
			if got := cmd.InputBodyCodec(); got != wantReplyCodec && c.Proto != "http" {
				return fmt.Sprintf("the reply body came in codec %d, want %d (request codec %q, accept %q)", got, wantReplyCodec, c.Codec, c.Accept), vt.StatusTriple{}
			}
		}
	case e.anyNonOK:
		if cmd.StatusOK() {
			return fmt.Sprintf("caller sees OK although the reply body cannot be decoded into the caller's result type %T (result left as %+v)", result, reflectDeref(result)), got
		}
	default:
		if cmd.StatusOK() {
			return fmt.Sprintf("caller sees OK, want code %d", e.code), got
		}
		if got.Code != e.code {
			return fmt.Sprintf("caller sees code %d (%+v), want %d", got.Code, got, e.code), got
		}
		if e.msg != nil && got.Msg != *e.msg {
			return fmt.Sprintf("caller sees msg %q, want %q (code %d)", got.Msg, *e.msg, got.Code), got
		}
		if e.cause != nil && got.Cause != *e.cause {
			return fmt.Sprintf("caller sees cause %q, want %q (code %d)", got.Cause, *e.cause, got.Code), got
		}
	}
	// the handler ran exactly when the model says so
	wantCalls := 0
	switch {
	case c.Cause == "handler-ok", c.Cause == "handler-ok-status", c.Cause == "handler-err", c.Cause == "panic-s", c.Cause == "panic-e", c.Cause == "panic-st", c.Cause == "panic-st-ok", c.Cause == "conn-closed", c.Cause == "result-mismatch", strings.HasPrefix(c.Cause, "rveto-"):
		wantCalls = 1
	}
	if c.Cause != "conn-closed" {
		wantCalls += 2 // the two follow-up calls that reach the handler
	}
	if n := s.TotalCalls(); n != wantCalls {
		return fmt.Sprintf("handler ran %d times, want %d", n, wantCalls), got
	}
	return "", got
}

func reflectDeref(v interface{}) interface{} {
	switch x := v.(type) {
	case *int:
		return *x
	case *[]string:
		return *x
	case *wrongStruct:
		return *x
	case *LibRes:
		return *x
	}
	return v
}

func (c c04Case) knownKey() string {
	if c.Proto == "ws-pb" && !c.expected().ok {
		// every non-OK outcome that travels in a reply frame is lost by the pb sub-protocol
		switch {
		case c.Cause == "conn-closed", strings.HasPrefix(c.Cause, "cveto-"), strings.HasPrefix(c.Cause, "rveto-"), c.Cause == "result-mismatch":
			return ""
		}
		return "C04:ws-pbSubProto:no-status-field"
	}
	return ""
}

const ruleC04 = "one call per case: cause in {handler OK (nil status or an explicit status object with code 0), handler status (any int32 code, any msg/cause bytes within the codec's text domain), unknown route, undecodable request body, handler panic (with a string, an error, a non-OK Status or an OK Status as the panic value), server-side veto at each pre-handler stage, caller-side veto before writing and at each reply-reading stage, connection cut while the handler runs, result-type mismatch} x protocol {raw,json,pb,http,ws+json,ws+pb over the real websocket upgrade} x body codec {json,xml,form} x transfer-filter pipe {none, gzip, md5, gzip+md5} x reply codec asked for {none, json, xml, form, an unregistered id}; oracle: small model of the expected (code,msg,cause) at accessor level, decodability of a mismatching result decided by the codec alone; non-trivial = expected outcome is not OK or the result type mismatches; distinct by the case"

func TestC04Status(t *testing.T) {
	rec := vt.NewRec(t, "C04", "status", ruleC04)
	rapid.Check(t, func(t *rapid.T) {
		c := genC04(t, c04Protos)
		if key := c.knownKey(); key != "" && vt.IsKnown(key) {
			rec.Exclude(key)
			c.Cause = "handler-ok"
		}
		e := c.expected()
		nt := !e.ok || c.Cause == "result-mismatch"
		rec.Case(fmt.Sprintf("%+v", c), nt, "proto="+c.Proto, "cause="+c.Cause, "codec="+c.Codec)
		if rec.WantSample() && nt {
			rec.Sample(c)
		}
		vt.Journal("C04", c)
		if msg, _ := runC04(c); msg != "" {
			t.Fatalf("C04 violated: %s\ncase: %+v", msg, c)
		}
	})
}

// TestC04KnownProbes re-checks the listed known findings of C04.
func TestC04KnownProbes(t *testing.T) {
	rec := vt.NewRec(t, "C04", "known-probes", "deterministic reproductions of listed known findings")
	if key := "C04:ws-pbSubProto:no-status-field"; vt.IsKnown(key) {
		c := c04Case{Proto: "ws-pb", Codec: "json", Cause: "unknown-route", Result: "lib"}
		msg, got := runC04(c)
		if msg != "" && got.Code == 0 {
			rec.KnownFinding(key, "ws+pb: a call to an unknown route completes with status OK instead of 404 (error replies lose their status)")
		}
	}
}
