package core

import (
	"encoding/json"
	"fmt"
	"reflect"
	"sort"
	"sync"
	"testing"

	erpc "github.com/henrylee2cn/erpc/v6"
	"pgregory.net/rapid"

	"verifharness/vt"
)

// struct controllers (RouteCall / RoutePush of a struct): the framework creates the argument
// of every invocation and reuses controller objects between requests.

type CtlArg struct {
	ID   int               `json:"id"`
	Note string            `json:"note,omitempty"`
	Tags map[string]string `json:"tags,omitempty"`
	List []string          `json:"list,omitempty"`
	Sub  *CtlSub           `json:"sub,omitempty"`
}

type CtlSub struct {
	A string `json:"a,omitempty"`
	B int    `json:"b,omitempty"`
}

// C01Ctl echoes what it received, whole.
type C01Ctl struct{ erpc.CallCtx }

func (c *C01Ctl) Mirror(a *CtlArg) (*CtlArg, *erpc.Status) {
	out := *a
	return &out, nil
}

// C01PushCtl records what it received, per peer.
type C01PushCtl struct{ erpc.PushCtx }

var ctlPushes sync.Map // erpc.Peer -> *ctlPushLog

type ctlPushLog struct {
	mu   sync.Mutex
	seen []CtlArg
}

func (p *C01PushCtl) Note(a *CtlArg) *erpc.Status {
	if l, ok := ctlPushes.Load(p.Peer()); ok {
		cp := *a
		l.(*ctlPushLog).mu.Lock()
		l.(*ctlPushLog).seen = append(l.(*ctlPushLog).seen, cp)
		l.(*ctlPushLog).mu.Unlock()
	}
	return nil
}

type ctlMsg struct {
	Kind   string // call | push
	Fields []string
	Empty  bool // no body at all
	ID     int
}

func (m ctlMsg) arg() CtlArg {
	a := CtlArg{}
	if m.Empty {
		return a
	}
	a.ID = m.ID
	for _, f := range m.Fields {
		switch f {
		case "note":
			a.Note = fmt.Sprintf("note-of-%d", m.ID)
		case "tags":
			a.Tags = map[string]string{fmt.Sprintf("tag-%d", m.ID): "x"}
		case "list":
			a.List = []string{fmt.Sprintf("item-%d", m.ID), "y"}
		case "sub":
			a.Sub = &CtlSub{A: fmt.Sprintf("sub-%d", m.ID), B: m.ID}
		}
	}
	return a
}

func canonCtl(a CtlArg) string {
	b, _ := json.Marshal(a)
	return string(b)
}

// TestC01Controllers: every invocation of a struct-controller handler sees exactly the argument
// its own request carried - fields a request does not carry are zero, not what an earlier
// request of this or of another session carried.
func TestC01Controllers(t *testing.T) {
	rec := vt.NewRec(t, "C01", "controllers", "a serving peer with a CALL struct controller (RouteCall) and a PUSH struct controller (RoutePush) whose argument has optional fields (string, map, slice, nested pointer); 1-3 sessions x 1-3 goroutines send 2-12 calls / pushes each with a generated subset of the fields present (JSON bodies omit the absent ones) or with no body at all; oracle: the call handler's echo of its whole argument equals exactly what that call sent (absent fields zero), and the multiset of arguments the push controller saw equals the multiset sent; non-trivial = a message with an absent field follows, on the same handler, one that carried it; distinct by the generated message lists")
	protos := vt.StreamProtos()
	rapid.Check(t, func(t *rapid.T) {
		vt.Init()
		proto := rapid.SampledFrom(protos).Draw(t, "proto")
		nsess := rapid.IntRange(1, 3).Draw(t, "sessions")
		ngor := rapid.IntRange(1, 3).Draw(t, "goroutines")
		w := vt.NewWorld()
		defer w.Close()
		srv := w.Peer(erpc.PeerConfig{})
		callRoutes := srv.RouteCall(new(C01Ctl))
		pushRoutes := srv.RoutePush(new(C01PushCtl))
		if len(callRoutes) != 1 || len(pushRoutes) != 1 {
			t.Fatalf("harness: controller routes %v %v", callRoutes, pushRoutes)
		}
		plog := &ctlPushLog{}
		ctlPushes.Store(srv, plog)
		defer ctlPushes.Delete(srv)
		cli := w.Peer(erpc.PeerConfig{})
		var links []*vt.Link
		for i := 0; i < nsess; i++ {
			l := w.Connect(cli, srv, proto, nil)
			if l.A == nil || l.B == nil {
				t.Fatalf("harness: connect failed")
			}
			links = append(links, l)
		}
		id := 0
		plans := make([][]ctlMsg, nsess*ngor)
		nt := false
		carried := map[string]bool{}
		for g := range plans {
			n := rapid.IntRange(2, 12).Draw(t, "nmsgs")
			for i := 0; i < n; i++ {
				id++
				m := ctlMsg{ID: id, Kind: rapid.SampledFrom([]string{"call", "call", "push"}).Draw(t, "kind")}
				m.Empty = rapid.IntRange(0, 5).Draw(t, "empty") == 0
				if !m.Empty {
					m.Fields = rapid.SliceOfDistinct(rapid.SampledFrom([]string{"note", "tags", "list", "sub"}), rapid.ID[string]).Draw(t, "fields")
					sort.Strings(m.Fields)
				}
				for _, f := range []string{"note", "tags", "list", "sub"} {
					has := false
					for _, x := range m.Fields {
						has = has || x == f
					}
					if !has && carried[m.Kind+f] {
						nt = true
					}
					if has {
						carried[m.Kind+f] = true
					}
				}
				plans[g] = append(plans[g], m)
			}
		}
		var mu sync.Mutex
		var fails []string
		var sentPushes []string
		var wg sync.WaitGroup
		for g, plan := range plans {
			wg.Add(1)
			go func(g int, plan []ctlMsg) {
				defer wg.Done()
				sess := links[g%nsess].A
				for _, m := range plan {
					want := m.arg()
					var body interface{}
					if !m.Empty {
						b, _ := json.Marshal(want)
						body = b
					}
					settings := []erpc.MessageSetting{erpc.WithBodyCodec('j')}
					if m.Kind == "push" {
						if st := sess.Push(pushRoutes[0], body, settings...); !st.OK() {
							mu.Lock()
							fails = append(fails, fmt.Sprintf("push %d failed: %v", m.ID, st))
							mu.Unlock()
							return
						}
						mu.Lock()
						sentPushes = append(sentPushes, canonCtl(want))
						mu.Unlock()
						continue
					}
					var raw []byte
					cmd := sess.AsyncCall(callRoutes[0], body, &raw, make(chan erpc.CallCmd, 1), settings...)
					if !vt.WaitClosed(cmd.Done()) {
						mu.Lock()
						fails = append(fails, vt.Hang(fmt.Sprintf("completion of call %d", m.ID)))
						mu.Unlock()
						return
					}
					if !cmd.StatusOK() {
						mu.Lock()
						fails = append(fails, fmt.Sprintf("call %d (fields %v, empty=%v) failed: %v", m.ID, m.Fields, m.Empty, cmd.Status()))
						mu.Unlock()
						return
					}
					var got CtlArg
					if err := json.Unmarshal(raw, &got); err != nil {
						mu.Lock()
						fails = append(fails, fmt.Sprintf("call %d: reply %q does not decode: %v", m.ID, raw, err))
						mu.Unlock()
						return
					}
					if !reflect.DeepEqual(normCtl(got), normCtl(want)) {
						mu.Lock()
						fails = append(fails, fmt.Sprintf("the controller method invoked for call %d saw argument %s, the call sent %s (fields %v, no body=%v)", m.ID, canonCtl(got), canonCtl(want), m.Fields, m.Empty))
						mu.Unlock()
						return
					}
				}
			}(g, plan)
		}
		done := make(chan struct{})
		go func() { wg.Wait(); close(done) }()
		if !vt.WaitClosed(done) {
			t.Fatalf("C01 check: %s", vt.Hang("the senders"))
		}
		if len(fails) == 0 {
			vt.WaitUntilFor(vt.LivenessBound, func() bool { plog.mu.Lock(); defer plog.mu.Unlock(); return len(plog.seen) >= len(sentPushes) })
			plog.mu.Lock()
			var seen []string
			for _, a := range plog.seen {
				seen = append(seen, canonCtl(a))
			}
			plog.mu.Unlock()
			sort.Strings(seen)
			sort.Strings(sentPushes)
			if !reflect.DeepEqual(seen, sentPushes) {
				fails = append(fails, fmt.Sprintf("the push controller saw arguments %v, the pushes sent %v", seen, sentPushes))
			}
		}
		rec.Case(fmt.Sprintf("%s|%d|%+v", proto.Name, nsess, plans), nt, "proto="+proto.Name, fmt.Sprintf("sessions=%d", nsess), fmt.Sprintf("goroutines=%d", ngor))
		if rec.WantSample() && nt {
			rec.Sample(map[string]interface{}{"proto": proto.Name, "sessions": nsess, "plans": plans})
		}
		if len(fails) > 0 {
			t.Fatalf("C01 violated (%d findings), first: %s", len(fails), fails[0])
		}
	})
}

// normCtl identifies nil and empty containers (JSON cannot tell them apart).
func normCtl(a CtlArg) CtlArg {
	if len(a.Tags) == 0 {
		a.Tags = nil
	}
	if len(a.List) == 0 {
		a.List = nil
	}
	return a
}
