package vt

import (
	"bytes"
	"encoding/hex"
	"fmt"
	"math"
	"strings"
	"unicode/utf8"

	"pgregory.net/rapid"
)

// ---- byte strings -------------------------------------------------------------

// BoundaryLens are the lengths every length-sensitive generator visits.
var BoundaryLens = []int{0, 1, 2, 15, 16, 17, 127, 128, 254, 255, 256, 257, 1023, 1024, 1025, 4095, 4096, 4097}

// Bytes draws a byte string from a mixture of classes; max bounds the length.
func Bytes(t *rapid.T, label string, max int) []byte {
	if max < 0 {
		max = 0
	}
	class := rapid.IntRange(0, 9).Draw(t, label+".class")
	var n int
	pickLen := func() int {
		if rapid.IntRange(0, 3).Draw(t, label+".lenclass") == 0 {
			l := rapid.SampledFrom(BoundaryLens).Draw(t, label+".blen")
			if l <= max {
				return l
			}
		}
		m := max
		if m > 64 && rapid.IntRange(0, 2).Draw(t, label+".small") != 0 {
			m = 64
		}
		return rapid.IntRange(0, m).Draw(t, label+".len")
	}
	switch class {
	case 0:
		return []byte{}
	case 1:
		if max == 0 {
			return []byte{}
		}
		return []byte{rapid.Byte().Draw(t, label+".b")}
	case 2: // ASCII identifier
		n = pickLen()
		return []byte(rapid.StringOfN(rapid.RuneFrom([]rune("abcdefghijklmnopqrstuvwxyzABCXYZ0123456789_")), n, n, -1).Draw(t, label+".ident"))
	case 3: // every byte value
		n = pickLen()
		return rapid.SliceOfN(rapid.Byte(), n, n).Draw(t, label+".any")
	case 4: // specials
		n = pickLen()
		return rapid.SliceOfN(rapid.SampledFrom([]byte("\"\\%+&= \r\n\x00'<>/?#;:,{}[]\t\x7f\xff\x80a")), n, n).Draw(t, label+".special")
	case 5: // valid multi-byte UTF-8
		n = pickLen()
		s := rapid.StringOfN(rapid.RuneFrom([]rune("aé世界😀ßЖ  z")), 0, n, n).Draw(t, label+".utf8")
		return []byte(s)
	case 6: // compressible run
		n = pickLen()
		b := rapid.Byte().Draw(t, label+".runbyte")
		return bytes.Repeat([]byte{b}, n)
	case 7: // JSON-looking text
		n = pickLen()
		s := `{"k":"v\"q\\","n":[1,2,3],"s":"line\nbreak"}`
		out := []byte(strings.Repeat(s, n/len(s)+1))
		return out[:n]
	default:
		n = pickLen()
		return rapid.SliceOfN(rapid.Byte(), n, n).Draw(t, label+".noise")
	}
}

// PrintableASCII draws a string of printable ASCII characters (0x20..0x7e).
func PrintableASCII(t *rapid.T, label string, max int) string {
	n := rapid.IntRange(0, max).Draw(t, label+".len")
	b := rapid.SliceOfN(rapid.ByteRange(0x20, 0x7e), n, n).Draw(t, label)
	return string(b)
}

// ValidUTF8 draws a valid UTF-8 string with at most max bytes.
func ValidUTF8(t *rapid.T, label string, max int) string {
	s := rapid.StringOfN(rapid.Rune(), 0, -1, max).Draw(t, label)
	if !utf8.ValidString(s) {
		s = strings.ToValidUTF8(s, "?")
	}
	return s
}

// Seq draws a sequence number with boundary values.
func Seq(t *rapid.T, label string) int32 {
	switch rapid.IntRange(0, 7).Draw(t, label+".class") {
	case 0:
		return 0
	case 1:
		return 1
	case 2:
		return -1
	case 3:
		return math.MinInt32
	case 4:
		return math.MaxInt32
	default:
		return rapid.Int32().Draw(t, label)
	}
}

// StatusCode draws a status code with boundary classes.
func StatusCode(t *rapid.T, label string) int32 {
	switch rapid.IntRange(0, 9).Draw(t, label+".class") {
	case 0:
		return -1
	case 1:
		return 1
	case 2:
		return rapid.Int32Range(100, 199).Draw(t, label)
	case 3:
		return rapid.Int32Range(400, 599).Draw(t, label)
	case 4:
		return rapid.Int32Range(1001, 100000).Draw(t, label)
	case 5:
		return math.MinInt32
	case 6:
		return math.MaxInt32
	case 7:
		return rapid.SampledFrom([]int32{102, 104, 105, 400, 401, 404, 405, 408, 500, 502}).Draw(t, label)
	default:
		c := rapid.Int32().Draw(t, label)
		if c == 0 {
			c = 7
		}
		return c
	}
}

// KV is one metadata pair.
type KV struct{ K, V string }

func (kv KV) String() string { return fmt.Sprintf("%q=%q", kv.K, kv.V) }

// Meta draws an ordered multimap of byte-string pairs. A pair with empty key
// and empty value has no representation in the query-string encoding and is
// outside the domain.
func Meta(t *rapid.T, label string, maxPairs, maxLen int) []KV {
	n := rapid.IntRange(0, maxPairs).Draw(t, label+".n")
	out := make([]KV, 0, n)
	for i := 0; i < n; i++ {
		var k, v string
		if i > 0 && rapid.IntRange(0, 4).Draw(t, fmt.Sprintf("%s.dup%d", label, i)) == 0 {
			k = out[rapid.IntRange(0, i-1).Draw(t, fmt.Sprintf("%s.dupidx%d", label, i))].K
		} else {
			k = string(Bytes(t, fmt.Sprintf("%s.k%d", label, i), maxLen))
		}
		v = string(Bytes(t, fmt.Sprintf("%s.v%d", label, i), maxLen))
		if k == "" && v == "" {
			k = "k"
		}
		out = append(out, KV{k, v})
	}
	return out
}

// Chunks draws a read-size schedule.
func Chunks(t *rapid.T, label string) (chunks []int, cycle bool) {
	switch rapid.IntRange(0, 4).Draw(t, label+".class") {
	case 0:
		return []int{1}, true
	case 1:
		return rapid.SliceOfN(rapid.IntRange(1, 7), 1, 16).Draw(t, label+".small"), true
	case 2:
		return rapid.SliceOfN(rapid.IntRange(1, 2000), 1, 16).Draw(t, label+".mixed"), true
	case 3:
		return rapid.SliceOfN(rapid.IntRange(1, 64), 0, 8).Draw(t, label+".prefix"), false
	default:
		return nil, false
	}
}

// Hex renders bytes for samples, truncated.
func Hex(b []byte) string {
	if len(b) > 48 {
		return fmt.Sprintf("%s…(%d bytes)", hex.EncodeToString(b[:48]), len(b))
	}
	return hex.EncodeToString(b)
}

// Trunc renders a string for samples, truncated.
func Trunc(s string) string {
	if len(s) > 64 {
		return fmt.Sprintf("%q…(%d bytes)", s[:64], len(s))
	}
	return fmt.Sprintf("%q", s)
}

// IsSpecial reports whether b has a byte outside [A-Za-z0-9].
func IsSpecial(b []byte) bool {
	for _, c := range b {
		if !(c >= 'a' && c <= 'z' || c >= 'A' && c <= 'Z' || c >= '0' && c <= '9') {
			return true
		}
	}
	return false
}

// IsBoundaryLen reports whether n is one of the boundary lengths (>1).
func IsBoundaryLen(n int) bool {
	for _, l := range BoundaryLens {
		if l == n && n > 2 {
			return true
		}
	}
	return false
}
