package vt

import (
	"fmt"
	"os"
	"runtime"
	"strings"
	"sync"
	"time"

	erpc "github.com/henrylee2cn/erpc/v6"
	"github.com/henrylee2cn/erpc/v6/socket"
)

// FatalPanic is the value panicked with when the framework logs at CRITICAL
// level (Fatalf / Panicf). It turns os.Exit(1) into a recoverable observable.
type FatalPanic struct{ Msg string }

func (f FatalPanic) Error() string { return "erpc CRITICAL: " + f.Msg }

type outputter struct {
	mu      sync.Mutex
	discard bool
	lines   []string
	keep    bool
}

func (o *outputter) Output(calldepth int, msgBytes []byte, level erpc.LoggerLevel) {
	if level == erpc.CRITICAL {
		panic(FatalPanic{Msg: string(msgBytes)})
	}
	if o.keep {
		o.mu.Lock()
		if len(o.lines) < 1000 {
			o.lines = append(o.lines, level.String()+" "+string(msgBytes))
		}
		o.mu.Unlock()
	}
}

func (o *outputter) Flush() error { return nil }

var theOutputter = &outputter{}

var initOnce sync.Once

// Init puts the framework's process-global knobs into the harness' baseline
// state. It is called at the top of every case.
func Init() {
	initOnce.Do(func() {
		erpc.SetLoggerOutputter(theOutputter)
		erpc.SetLoggerLevel2(erpc.CRITICAL)
	})
	socket.SetMessageSizeLimit(0) // default (1 GiB)
	socket.SetDefaultProtoFunc(socket.RawProtoFunc)
}

// SetLogLevel changes the framework log level (messages go to a discarding outputter).
func SetLogLevel(l erpc.LoggerLevel) { erpc.SetLoggerLevel2(l) }

// CatchFatal runs f and reports a framework Fatalf/Panicf as (msg,true).
func CatchFatal(f func()) (msg string, fatal bool) {
	defer func() {
		if p := recover(); p != nil {
			if fp, ok := p.(FatalPanic); ok {
				msg, fatal = fp.Msg, true
				return
			}
			panic(p)
		}
	}()
	f()
	return "", false
}

// Tier returns "quick" or "thorough".
func Tier() string {
	if os.Getenv("VERIF_TIER") == "thorough" {
		return "thorough"
	}
	return "quick"
}

// Thorough reports whether the thorough tier is running.
func Thorough() bool { return Tier() == "thorough" }

// LivenessBound is the generous bound used for "must eventually happen" oracles.
// It is only paid on failure.
const LivenessBound = 20 * time.Second

// WaitClosed waits for ch to be closed within the liveness bound.
func WaitClosed(ch <-chan struct{}) bool {
	select {
	case <-ch:
		return true
	default:
	}
	t := time.NewTimer(LivenessBound)
	defer t.Stop()
	select {
	case <-ch:
		return true
	case <-t.C:
		return false
	}
}

// WaitUntil polls cond until it is true or the liveness bound expires.
func WaitUntil(cond func() bool) bool { return WaitUntilFor(LivenessBound, cond) }

// WaitUntilFor polls cond until it is true or d expires.
func WaitUntilFor(d time.Duration, cond func() bool) bool {
	deadline := time.Now().Add(d)
	for i := 0; ; i++ {
		if cond() {
			return true
		}
		if time.Now().After(deadline) {
			return false
		}
		if i < 50 {
			runtime.Gosched()
		} else if i < 200 {
			time.Sleep(50 * time.Microsecond)
		} else {
			time.Sleep(time.Millisecond)
		}
	}
}

// GoroutineDump returns the stacks of all goroutines.
func GoroutineDump() string {
	buf := make([]byte, 1<<20)
	n := runtime.Stack(buf, true)
	return string(buf[:n])
}

// DumpShowsParked reports whether some goroutine whose stack mentions frame
// is parked on a synchronisation primitive (i.e. blocked, not running).
func DumpShowsParked(dump, frame string) bool {
	for _, g := range strings.Split(dump, "\n\n") {
		if !strings.Contains(g, frame) {
			continue
		}
		head := g
		if i := strings.IndexByte(g, '\n'); i >= 0 {
			head = g[:i]
		}
		for _, st := range []string{"chan receive", "chan send", "semacquire", "sync.Mutex.Lock", "sync.Cond.Wait", "select", "sync.WaitGroup.Wait", "sync.RWMutex"} {
			if strings.Contains(head, st) {
				return true
			}
		}
	}
	return false
}

// Hang describes a liveness failure together with supporting evidence.
// Returns runs f on its own goroutine and reports whether it returned within the
// liveness bound. A call into the framework that must not block goes through here so
// a deadlock becomes a reported violation rather than a test-binary timeout.
func Returns(f func()) bool {
	done := make(chan struct{})
	go func() {
		defer close(done)
		f()
	}()
	return WaitClosed(done)
}

func Hang(what string) string {
	return fmt.Sprintf("%s did not happen within %v; goroutine dump:\n%s", what, LivenessBound, GoroutineDump())
}
