package vt

import (
	"bytes"
	"fmt"
	"io"
	"sync"

	"github.com/henrylee2cn/erpc/v6/socket"
	"github.com/henrylee2cn/erpc/v6/xfer"
	"github.com/henrylee2cn/erpc/v6/xfer/gzip"
	"github.com/henrylee2cn/erpc/v6/xfer/md5"
	"pgregory.net/rapid"
)

// Registered transfer filter ids (registered once per binary).
const (
	XGzip1 = 'g' // level 1
	XGzip5 = 'G' // level 5
	XGzip9 = 'z' // level 9
	XMd5   = 'm'
)

// RegisteredXfer lists the registered filter ids.
var RegisteredXfer = []byte{XGzip1, XGzip5, XGzip9, XMd5}

// GzipIDs lists the gzip filter ids.
var GzipIDs = []byte{XGzip1, XGzip5, XGzip9}

func init() {
	gzip.Reg(XGzip1, "gzip-1", 1)
	gzip.Reg(XGzip5, "gzip-5", 5)
	gzip.Reg(XGzip9, "gzip-9", 9)
	md5.Reg(XMd5, "md5")
}

// UnregisteredXfer returns a filter id that is not registered.
func UnregisteredXfer(t *rapid.T, label string) byte {
	for {
		b := rapid.Byte().Draw(t, label)
		if _, err := xfer.Get(b); err != nil {
			return b
		}
	}
}

// Msg is the abstract model of a wire message.
type Msg struct {
	Seq       int32
	Mtype     byte
	Method    string
	HasStatus bool
	Code      int32
	StatMsg   string
	Cause     string
	HasCause  bool
	Meta      []KV
	Codec     byte
	Body      []byte
	Pipe      []byte
}

// Sample renders the message compactly for evidence samples.
func (m Msg) Sample() map[string]interface{} {
	meta := []string{}
	for _, kv := range m.Meta {
		meta = append(meta, Trunc(kv.K)+"="+Trunc(kv.V))
	}
	return map[string]interface{}{
		"seq": m.Seq, "mtype": m.Mtype, "method": Trunc(m.Method),
		"status": fmt.Sprintf("has=%v code=%d msg=%s cause=%s(has=%v)", m.HasStatus, m.Code, Trunc(m.StatMsg), Trunc(m.Cause), m.HasCause),
		"meta":   meta, "codec": m.Codec, "body": Hex(m.Body), "pipe": Hex(m.Pipe),
	}
}

// Canon is a canonical encoding used for distinct counting.
func (m Msg) Canon() string {
	return fmt.Sprintf("%d|%d|%q|%v|%d|%q|%q|%v|%v|%d|%x|%x", m.Seq, m.Mtype, m.Method, m.HasStatus, m.Code, m.StatMsg, m.Cause, m.HasCause, m.Meta, m.Codec, m.Body, m.Pipe)
}

// Build makes a framework message from the model. The body is given as raw
// bytes, which the framework documents to bypass the body codec.
func (m Msg) Build() socket.Message {
	out := socket.NewMessage()
	m.Fill(out)
	return out
}

// Fill sets the model's fields on an existing message.
func (m Msg) Fill(out socket.Message) {
	out.SetSeq(m.Seq)
	out.SetMtype(m.Mtype)
	out.SetServiceMethod(m.Method)
	if m.HasStatus {
		if m.HasCause {
			out.SetStatus(socket.NewStatus(m.Code, m.StatMsg, m.Cause))
		} else {
			out.SetStatus(socket.NewStatus(m.Code, m.StatMsg))
		}
	}
	for _, kv := range m.Meta {
		out.Meta().Add(kv.K, kv.V)
	}
	out.SetBodyCodec(m.Codec)
	if m.Body != nil {
		out.SetBody(append([]byte(nil), m.Body...))
	}
	if len(m.Pipe) > 0 {
		if err := out.XferPipe().Append(m.Pipe...); err != nil {
			panic(err)
		}
	}
}

// StatusTriple is the API-level view of a status.
type StatusTriple struct {
	Code  int32
	Msg   string
	Cause string
}

// TripleOf reads a status through its accessors.
func TripleOf(s *socket.Status) StatusTriple {
	t := StatusTriple{Code: s.Code(), Msg: s.Msg()}
	if c := s.Cause(); c != nil {
		t.Cause = c.Error()
	}
	return t
}

// ExpectedTriple is the accessor-level triple of the model's status.
func (m Msg) ExpectedTriple() StatusTriple {
	if !m.HasStatus {
		return StatusTriple{}
	}
	var s *socket.Status
	if m.HasCause {
		s = socket.NewStatus(m.Code, m.StatMsg, m.Cause)
	} else {
		s = socket.NewStatus(m.Code, m.StatMsg)
	}
	return TripleOf(s)
}

// NewReceiver returns a message prepared to receive a raw-bytes body.
func NewReceiver() socket.Message {
	return socket.NewMessage(socket.WithNewBody(func(socket.Header) interface{} { return new([]byte) }))
}

// BodyBytes extracts the raw body of a received message.
func BodyBytes(m socket.Message) []byte {
	switch b := m.Body().(type) {
	case *[]byte:
		if b == nil {
			return nil
		}
		return *b
	case []byte:
		return b
	case nil:
		return nil
	}
	return []byte(fmt.Sprintf("<%T>", m.Body()))
}

// MetaPairs extracts the ordered metadata pairs of a message.
func MetaPairs(m socket.Message) []KV {
	var out []KV
	m.Meta().VisitAll(func(k, v []byte) { out = append(out, KV{string(k), string(v)}) })
	return out
}

// CompareOpts selects which fields a protocol is documented to carry.
type CompareOpts struct {
	SkipMethod bool
	SkipStatus bool
	SkipCodec  bool
	MetaAsSet  bool                        // expected pairs must be present (key -> value); extras allowed
	BodyOf     func(socket.Message) []byte // how to read the received body as bytes (default BodyBytes)
}

// Compare checks a received message against the model and returns a
// description of the first difference, or "".
func (m Msg) Compare(got socket.Message, o CompareOpts) string {
	if got.Seq() != m.Seq {
		return fmt.Sprintf("seq: got %d want %d", got.Seq(), m.Seq)
	}
	if got.Mtype() != m.Mtype {
		return fmt.Sprintf("mtype: got %d want %d", got.Mtype(), m.Mtype)
	}
	if !o.SkipMethod && got.ServiceMethod() != m.Method {
		return fmt.Sprintf("service method: got %q want %q", got.ServiceMethod(), m.Method)
	}
	if !o.SkipStatus {
		if g, w := TripleOf(got.Status()), m.ExpectedTriple(); g != w {
			return fmt.Sprintf("status: got %+v want %+v", g, w)
		}
	}
	gm := MetaPairs(got)
	if o.MetaAsSet {
		for _, kv := range m.Meta {
			found := false
			for _, g := range gm {
				if g == kv {
					found = true
				}
			}
			if !found {
				return fmt.Sprintf("meta: pair %v missing in %v", kv, gm)
			}
		}
	} else {
		if len(gm) != len(m.Meta) {
			return fmt.Sprintf("meta: got %v want %v", gm, m.Meta)
		}
		for i := range gm {
			if gm[i] != m.Meta[i] {
				return fmt.Sprintf("meta[%d]: got %v want %v", i, gm[i], m.Meta[i])
			}
		}
	}
	if !o.SkipCodec && got.BodyCodec() != m.Codec {
		return fmt.Sprintf("body codec: got %d want %d", got.BodyCodec(), m.Codec)
	}
	bodyOf := BodyBytes
	if o.BodyOf != nil {
		bodyOf = o.BodyOf
	}
	if gb := bodyOf(got); !bytes.Equal(gb, m.Body) {
		return fmt.Sprintf("body: got %s want %s", Hex(gb), Hex(m.Body))
	}
	if !bytes.Equal(got.XferPipe().IDs(), m.Pipe) {
		return fmt.Sprintf("xfer pipe: got %x want %x", got.XferPipe().IDs(), m.Pipe)
	}
	return ""
}

// ---- an in-memory IOWithReadBuffer with chunked reads and write recording ------

// RW is a socket.IOWithReadBuffer over a byte buffer: writes are recorded one
// by one, reads are served from In with a chunk schedule, and the number of
// bytes consumed is counted.
type RW struct {
	mu       sync.Mutex
	In       []byte
	pos      int
	Chunks   []int
	Cycle    bool
	chunkIdx int
	Writes   [][]byte
	ReadErr  error // returned when In is exhausted (default io.EOF)
}

// Read implements io.Reader.
func (r *RW) Read(p []byte) (int, error) {
	r.mu.Lock()
	defer r.mu.Unlock()
	if r.pos >= len(r.In) {
		if r.ReadErr != nil {
			return 0, r.ReadErr
		}
		return 0, io.EOF
	}
	if len(p) == 0 {
		return 0, nil
	}
	n := len(p)
	if n > len(r.In)-r.pos {
		n = len(r.In) - r.pos
	}
	if r.chunkIdx < len(r.Chunks) {
		if c := r.Chunks[r.chunkIdx]; c > 0 && n > c {
			n = c
		}
		r.chunkIdx++
		if r.Cycle && r.chunkIdx >= len(r.Chunks) {
			r.chunkIdx = 0
		}
	}
	copy(p, r.In[r.pos:r.pos+n])
	r.pos += n
	return n, nil
}

// Write implements io.Writer.
func (r *RW) Write(p []byte) (int, error) {
	r.mu.Lock()
	r.Writes = append(r.Writes, append([]byte(nil), p...))
	r.mu.Unlock()
	return len(p), nil
}

// Consumed returns how many input bytes have been read.
func (r *RW) Consumed() int { r.mu.Lock(); defer r.mu.Unlock(); return r.pos }

// Written returns the concatenation of all writes.
func (r *RW) Written() []byte {
	r.mu.Lock()
	defer r.mu.Unlock()
	var out []byte
	for _, w := range r.Writes {
		out = append(out, w...)
	}
	return out
}
