package vt

import (
	"fmt"
	"sync"
	"time"

	erpc "github.com/henrylee2cn/erpc/v6"
	"github.com/henrylee2cn/erpc/v6/mixer/websocket/jsonSubProto"
	"github.com/henrylee2cn/erpc/v6/mixer/websocket/pbSubProto"
	"github.com/henrylee2cn/erpc/v6/proto/jsonproto"
	"github.com/henrylee2cn/erpc/v6/proto/pbproto"
	"github.com/henrylee2cn/erpc/v6/socket"
)

// NamedProto is a wire protocol usable for sessions over memconn.
type NamedProto struct {
	Name string
	Fn   erpc.ProtoFunc
}

// StreamProtos are the shipped stream protocols that need no special
// transport and have no process-global side effects when imported.
func StreamProtos() []NamedProto {
	return []NamedProto{
		{"raw", socket.RawProtoFunc},
		{"json", jsonproto.NewJSONProtoFunc()},
		{"pb", pbproto.NewPbProtoFunc()},
	}
}

// WsSubProtos are the websocket sub-protocols used directly as stream
// protocols is not possible (they read to EOF); they are listed for the
// websocket checks.
func WsSubProtos() []NamedProto {
	return []NamedProto{
		{"ws-json", jsonSubProto.NewJSONSubProtoFunc()},
		{"ws-pb", pbSubProto.NewPbSubProtoFunc()},
	}
}

// World is the set of peers, links and sessions of one case; Close tears
// everything down and waits for it.
type World struct {
	mu      sync.Mutex
	peers   []erpc.Peer
	links   []*Link
	closers []func()
}

// Link is one connection between two peers over a memconn pair.
type Link struct {
	Pair *Pair
	// A is the session on the peer that "dialled" (holds Pair.A), B the accepting one.
	A, B   erpc.Session
	AStat  *erpc.Status
	BStat  *erpc.Status
	APeer  erpc.Peer
	BPeer  erpc.Peer
	Proto  NamedProto
	closed bool
}

// NewWorld creates an empty world.
func NewWorld() *World { return &World{} }

// Peer creates a peer with the given config and global-left plugins.
func (w *World) Peer(cfg erpc.PeerConfig, plugins ...erpc.Plugin) erpc.Peer {
	p := erpc.NewPeer(cfg, plugins...)
	w.mu.Lock()
	w.peers = append(w.peers, p)
	w.mu.Unlock()
	return p
}

// Connect links two peers with a fresh memconn pair; both ends are served
// with ServeConn (which runs the accept hooks). Either side may be rejected
// by its hooks, in which case that session is nil and the status says why.
func (w *World) Connect(a, b erpc.Peer, proto NamedProto, prepare func(p *Pair)) *Link {
	pair := NewPair()
	if prepare != nil {
		prepare(pair)
	}
	l := &Link{Pair: pair, APeer: a, BPeer: b, Proto: proto}
	var wg sync.WaitGroup
	wg.Add(2)
	go func() {
		defer wg.Done()
		l.B, l.BStat = b.ServeConn(pair.B, proto.Fn)
	}()
	go func() {
		defer wg.Done()
		l.A, l.AStat = a.ServeConn(pair.A, proto.Fn)
	}()
	wg.Wait()
	w.mu.Lock()
	w.links = append(w.links, l)
	w.mu.Unlock()
	return l
}

// Close closes every peer of the world (which closes their sessions) and
// cuts every pair; it returns an error description if something hangs.
func (w *World) Close() string {
	w.mu.Lock()
	peers := w.peers
	links := w.links
	closers := w.closers
	w.peers, w.links, w.closers = nil, nil, nil
	w.mu.Unlock()
	defer func() {
		for _, c := range closers {
			c()
		}
	}()
	done := make(chan struct{})
	go func() {
		var wg sync.WaitGroup
		for _, p := range peers {
			wg.Add(1)
			go func(p erpc.Peer) { defer wg.Done(); p.Close() }(p)
		}
		wg.Wait()
		close(done)
	}()
	select {
	case <-done:
	case <-time.After(LivenessBound):
		for _, l := range links {
			l.Pair.Cut()
		}
		return Hang("closing the peers of the case")
	}
	for _, l := range links {
		l.Pair.Cut()
	}
	return ""
}

// MustOK fails with a readable message if stat is not OK.
func MustOK(stat *erpc.Status, what string) error {
	if stat.OK() {
		return nil
	}
	return fmt.Errorf("%s: %s", what, stat.String())
}
