package vt

import (
	"encoding/binary"
	"fmt"
	"os"
	"runtime"
	"testing"

	"github.com/henrylee2cn/erpc/v6/socket"
	"pgregory.net/rapid"
)

// ValidFrames packs a few small valid messages with proto and returns the frames.
func ValidFrames(t *rapid.T, spec ProtoSpec, rec *Rec, n int) [][]byte {
	var out [][]byte
	for i := 0; i < n; i++ {
		m := spec.Gen(t, rec)
		if len(m.Body) > 300 && spec.Build == nil {
			m.Body = m.Body[:300]
		}
		wrw := &RW{}
		f, _, err := PackOne(spec, spec.Fn()(wrw), wrw, m)
		if err != nil {
			continue
		}
		out = append(out, f)
	}
	return out
}

// HostileLimits are the read limits the checks run under.
var HostileLimits = []uint32{64, 512, 4096, 65536}

var boundaryU32 = func(limit uint32) []uint32 {
	return []uint32{0, 1, 4, 5, limit - 1, limit, limit + 1, limit + 5, 1 << 20, 1 << 24, 1<<28 - 1, 1 << 28}
}

// HostileInput draws a hostile byte string for a protocol: random bytes, a
// mutated valid frame, a truncated valid frame, a valid frame whose 4-byte
// length prefix was overwritten with a boundary value, two spliced frames or
// a duplicated frame. It returns the bytes and the class name.
func HostileInput(t *rapid.T, spec ProtoSpec, rec *Rec, limit uint32) ([]byte, string) {
	cls := rapid.SampledFrom([]string{"random", "mutated", "truncated", "lenfield", "innerlen", "splice", "dup", "announce"}).Draw(t, "hclass")
	frames := ValidFrames(t, spec, rec, 2)
	if len(frames) == 0 {
		cls = "random"
	}
	if spec.AllocKnownKey != "" && IsKnown(spec.AllocKnownKey) && (cls == "innerlen" || cls == "mutated" || cls == "splice") {
		// these classes corrupt element lengths inside a frame, which the
		// (third-party) decoder allocates as announced: steer away, and count it
		rec.Exclude(spec.AllocKnownKey)
		cls = "truncated"
	}
	switch cls {
	case "random":
		return Bytes(t, "rnd", 400), cls
	case "mutated":
		f := append([]byte(nil), frames[0]...)
		nm := rapid.IntRange(1, 3).Draw(t, "nmut")
		for i := 0; i < nm && len(f) > 0; i++ {
			f[rapid.IntRange(0, len(f)-1).Draw(t, "mpos")] = rapid.Byte().Draw(t, "mbyte")
		}
		return f, cls
	case "truncated":
		f := frames[0]
		return append([]byte(nil), f[:rapid.IntRange(0, len(f)).Draw(t, "cut")]...), cls
	case "lenfield":
		f := append([]byte(nil), frames[0]...)
		if len(f) >= 4 {
			v := rapid.SampledFrom(boundaryU32(limit)).Draw(t, "lenval")
			if rapid.Bool().Draw(t, "lenrel") {
				v = uint32(int64(len(f)) + int64(rapid.IntRange(-5, 5).Draw(t, "lendelta")))
			}
			binary.BigEndian.PutUint32(f, v)
		}
		return f, cls
	case "innerlen":
		// overwrite 4 bytes somewhere inside the frame with a huge big-endian length
		f := append([]byte(nil), frames[0]...)
		if len(f) >= 8 {
			pos := rapid.IntRange(4, len(f)-4).Draw(t, "ilpos")
			binary.BigEndian.PutUint32(f[pos:], rapid.SampledFrom([]uint32{0x7fffffff, 0x10000000, 0x04000000, limit + 1, 0xffffffff}).Draw(t, "ilval"))
		}
		return f, cls
	case "splice":
		if len(frames) < 2 {
			return frames[0], cls
		}
		a, b := frames[0], frames[1]
		return append(append([]byte(nil), a[:rapid.IntRange(0, len(a)).Draw(t, "sa")]...), b[rapid.IntRange(0, len(b)).Draw(t, "sb"):]...), cls
	case "dup":
		return append(append([]byte(nil), frames[0]...), frames[0]...), cls
	default: // announce: only a size prefix far above the limit, followed by a little payload
		v := rapid.SampledFrom([]uint32{limit + 1, limit * 2, 1 << 26, 1 << 28}).Draw(t, "announce")
		f := make([]byte, 4, 4+64)
		binary.BigEndian.PutUint32(f, v)
		return append(f, Bytes(t, "tail", 60)...), cls
	}
}

// UnpackMeasured runs one Unpack of in under the given read limit and reports
// whether it panicked, its error, the bytes consumed and the bytes allocated.
func UnpackMeasured(spec ProtoSpec, in []byte, limit uint32) (panicked interface{}, err error, consumed int, alloc uint64, got socket.Message) {
	socket.SetMessageSizeLimit(limit)
	defer socket.SetMessageSizeLimit(0)
	rw := &RW{In: in}
	p := spec.Fn()(rw)
	got = spec.receiver()
	var m0, m1 runtime.MemStats
	runtime.ReadMemStats(&m0)
	func() {
		defer func() { panicked = recover() }()
		err = p.Unpack(got)
	}()
	runtime.ReadMemStats(&m1)
	return panicked, err, rw.Consumed(), m1.TotalAlloc - m0.TotalAlloc, got
}

// AllocBound is the allocation allowed around one Unpack under limit. It is
// deliberately generous: TotalAlloc counts every transient allocation (a pipe
// of 255 gzip stages allocates a reader state per stage), while the defect it
// is meant to expose - buffering what a frame merely announces - is off by
// orders of magnitude (64 MiB .. 2 GiB announced against limits <= 64 KiB).
func AllocBound(limit uint32, inputLen int) uint64 {
	return 16*uint64(limit) + 16*uint64(inputLen) + 24<<20
}

// RunHostileProto is the protocol-level part of C06 for one protocol.
func RunHostileProto(t *testing.T, spec ProtoSpec) {
	rec := NewRec(t, "C06", spec.Name+"/unpack", "byte strings = random | mutated valid frame | valid frame truncated at a generated offset | length prefix overwritten with boundary values (0,1,limit-1,limit,limit+1,2^24,2^28,len+-5) | spliced frames | duplicated frame | bare over-limit size announcement, fed to Proto.Unpack under read limit in {64,512,4096,65536}; oracle: bytes allocated around the Unpack <= 16*limit + 16*len(input) + 24 MiB (announcements are >= 64 MiB), and after an over-limit size announcement in the length prefix no payload byte is consumed; a panic out of Unpack is recorded (the session level must contain it) ; non-trivial = input is derived from a valid frame or announces a size; distinct by input")
	rapid.Check(t, func(rt *rapid.T) {
		Init()
		limit := rapid.SampledFrom(HostileLimits).Draw(rt, "limit")
		in, cls := HostileInput(rt, spec, rec, limit)
		rec.Case(fmt.Sprintf("%d|%x", limit, in), cls != "random", "class="+cls, fmt.Sprintf("limit=%d", limit))
		if rec.WantSample() && cls != "random" {
			rec.Sample(map[string]interface{}{"proto": spec.Name, "limit": limit, "class": cls, "input": Hex(in)})
		}
		p, _, consumed, alloc, _ := UnpackMeasured(spec, in, limit)
		if p != nil {
			rec.Class("panic-out-of-unpack(contained-by-session)", 1)
		}
		if spec.AllocKnownKey != "" && IsKnown(spec.AllocKnownKey) {
			rec.Exclude(spec.AllocKnownKey)
			alloc = 0
		}
		if b := AllocBound(limit, len(in)); alloc > b {
			if os.Getenv("VERIF_DEBUG_ALLOC") != "" {
				runtime.MemProfileRate = 1
				UnpackMeasured(spec, in, limit)
				recs := make([]runtime.MemProfileRecord, 100000)
				n, _ := runtime.MemProfile(recs, true)
				var best runtime.MemProfileRecord
				for _, r := range recs[:n] {
					if r.AllocBytes > best.AllocBytes {
						best = r
					}
				}
				fmt.Printf("BIGGEST ALLOC %d bytes\n", best.AllocBytes)
				frames := runtime.CallersFrames(best.Stack())
				for {
					f, more := frames.Next()
					fmt.Printf("   %s:%d %s\n", f.File, f.Line, f.Function)
					if !more {
						break
					}
				}
				runtime.MemProfileRate = 512 * 1024
			}
			rt.Fatalf("%s: one Unpack under read limit %d allocated %d bytes (bound %d) for a %d-byte input of class %s: %s", spec.Name, limit, alloc, b, len(in), cls, Hex(in))
		}
		if spec.SizePrefixed && len(in) >= 4 {
			if ann := binary.BigEndian.Uint32(in); ann > limit && consumed > 4 && !(spec.AnnounceExempt != nil && spec.AnnounceExempt(ann)) {
				rt.Fatalf("%s: frame announces %d bytes under read limit %d but %d bytes were consumed (payload read before refusing)", spec.Name, ann, limit, consumed)
			}
		}
	})
}

// RunTruncationSweep feeds EVERY proper prefix of a set of valid frames to
// Unpack (followed by EOF): it must return an error (never a message), stay
// within the allocation bound and must not consume more than it was given.
func RunTruncationSweep(t *testing.T, spec ProtoSpec) {
	rec := NewRec(t, "C06", spec.Name+"/truncation-sweep", "every proper prefix (all cut offsets 0..len-1) of 6 fixed valid frames (with/without status, metadata, pipe, empty and 300-byte bodies) followed by EOF, under read limit 4096 — complete enumeration for these frames; oracle: Unpack returns an error (no message is fabricated from a truncated frame), allocation bound holds; non-trivial = offset > 0")
	Init()
	msgs := []Msg{
		{Seq: 1, Mtype: 1, Method: "/a/b", Codec: 'j', Body: []byte(`{"x":1}`)},
		{Seq: -7, Mtype: 2, Method: "/a/b", Codec: 'j', HasStatus: true, Code: 404, StatMsg: "Not Found", Cause: "c", HasCause: true},
		{Seq: 2147483647, Mtype: 3, Method: "/p", Codec: 's', Body: make([]byte, 300), Meta: []KV{{"k", "v"}, {"k", "w"}, {"a b", "%&="}}},
		{Seq: 5, Mtype: 1, Method: "/z", Codec: 'j', Body: []byte("hello"), Pipe: []byte{XGzip5}},
		{Seq: 6, Mtype: 1, Method: "/z", Codec: 'j', Body: []byte("hello hello hello"), Pipe: []byte{XMd5, XGzip1}},
		{Seq: 0, Mtype: 1, Method: "/e", Codec: 'j'},
	}
	total := 0
	for mi, m := range msgs {
		if spec.Build != nil {
			continue
		}
		if spec.Name == "http" {
			if m.Mtype == 3 {
				m.Mtype = 1
			}
			m.Pipe = nil
			m.Meta = nil
		}
		wrw := &RW{}
		f, _, err := PackOne(spec, spec.Fn()(wrw), wrw, m)
		if err != nil {
			t.Fatalf("%s: pack fixed frame %d: %v", spec.Name, mi, err)
		}
		for off := 0; off < len(f); off++ {
			rec.Case(fmt.Sprintf("%d|%d", mi, off), off > 0, fmt.Sprintf("frame=%d", mi))
			total++
			p, err, consumed, alloc, _ := UnpackMeasured(spec, f[:off], 4096)
			if p == nil && err == nil {
				// HTTP frames without a body are complete at the end of the header block only
				t.Fatalf("%s: frame %d truncated at offset %d of %d was accepted as a complete message", spec.Name, mi, off, len(f))
			}
			if consumed > off {
				t.Fatalf("%s: consumed %d of %d bytes", spec.Name, consumed, off)
			}
			if spec.AllocKnownKey == "" || !IsKnown(spec.AllocKnownKey) {
				if b := AllocBound(4096, off); alloc > b {
					t.Fatalf("%s: frame %d truncated at %d: allocated %d bytes (bound %d)", spec.Name, mi, off, alloc, b)
				}
			}
		}
		rec.Sample(map[string]interface{}{"proto": spec.Name, "frame": m.Sample(), "frame_len": len(f), "offsets_enumerated": len(f)})
	}
	rec.SetExhaustive()
}

// FuzzSeeds returns a few valid frames of spec plus hostile constants, as the
// starting corpus of the native fuzz targets.
func FuzzSeeds(spec ProtoSpec) [][]byte {
	Init()
	msgs := []Msg{
		{Seq: 1, Mtype: 1, Method: "/a/b", Codec: 'j', Body: []byte(`{"x":1}`)},
		{Seq: -7, Mtype: 2, Method: "/a/b", Codec: 'j', HasStatus: true, Code: 404, StatMsg: "Not Found"},
		{Seq: 9, Mtype: 1, Method: "/z", Codec: 'j', Body: []byte("hello hello hello"), Pipe: []byte{XGzip5}},
	}
	var out [][]byte
	for _, m := range msgs {
		if spec.Build != nil {
			continue
		}
		if spec.Name == "http" {
			m.Pipe = nil
		}
		wrw := &RW{}
		if f, _, err := PackOne(spec, spec.Fn()(wrw), wrw, m); err == nil {
			out = append(out, f)
		}
	}
	out = append(out,
		[]byte{0xff, 0xff, 0xff, 0xff}, []byte{0x7f, 0xff, 0xff, 0xff, 0, 0}, []byte{0, 0, 0, 5, 0}, []byte{0, 0, 0, 6, 255, 1},
		[]byte("POST / HTTP/1.1\r\nContent-Length: 99999999\r\n\r\n"), []byte("HTTP/1.1 299 Business Error\r\nContent-Length: 2\r\n\r\n{}"))
	return out
}

// FuzzOneUnpack is the body of the native fuzz targets: semantic oracles of
// C06 at protocol level inside the target, global state reset at the top.
func FuzzOneUnpack(t *testing.T, spec ProtoSpec, data []byte, limitSel uint8) {
	Init()
	limit := HostileLimits[int(limitSel)%len(HostileLimits)]
	_, _, consumed, alloc, _ := UnpackMeasured(spec, data, limit)
	if spec.AllocKnownKey == "" || !IsKnown(spec.AllocKnownKey) {
		if b := AllocBound(limit, len(data)); alloc > b {
			t.Fatalf("%s: one Unpack under read limit %d allocated %d bytes (bound %d) for input %x", spec.Name, limit, alloc, b, data)
		}
	}
	if spec.SizePrefixed && len(data) >= 4 {
		if ann := binary.BigEndian.Uint32(data); ann > limit && consumed > 4 && !(spec.AnnounceExempt != nil && spec.AnnounceExempt(ann)) {
			t.Fatalf("%s: frame announces %d bytes under read limit %d but %d bytes were consumed", spec.Name, ann, limit, consumed)
		}
	}
	if consumed > len(data) {
		t.Fatalf("%s: consumed %d of %d bytes", spec.Name, consumed, len(data))
	}
}
