package vt

import (
	"bytes"
	"fmt"

	"git.apache.org/thrift.git/lib/go/thrift"
)

// TStruct is a hand-written thrift struct with several field kinds, used as a
// body for the thrift codec and the thrift struct protocol.
type TStruct struct {
	S   string
	I   int64
	B   []byte
	Ok  bool
	L   []string
	D   float64
	I32 int32
}

var _ thrift.TStruct = (*TStruct)(nil)

// Equal compares two structs (nil and empty slices are identified).
func (p *TStruct) Equal(o *TStruct) bool {
	if p.S != o.S || p.I != o.I || !bytes.Equal(p.B, o.B) || p.Ok != o.Ok || len(p.L) != len(o.L) || p.I32 != o.I32 {
		return false
	}
	if p.D != o.D && !(p.D != p.D && o.D != o.D) {
		return false
	}
	for i := range p.L {
		if p.L[i] != o.L[i] {
			return false
		}
	}
	return true
}

func (p *TStruct) String() string {
	return fmt.Sprintf("TStruct{S:%s I:%d B:%s Ok:%v L:%d D:%v I32:%d}", Trunc(p.S), p.I, Hex(p.B), p.Ok, len(p.L), p.D, p.I32)
}

// Read implements thrift.TStruct.
func (p *TStruct) Read(iprot thrift.TProtocol) error {
	if _, err := iprot.ReadStructBegin(); err != nil {
		return err
	}
	for {
		_, ft, id, err := iprot.ReadFieldBegin()
		if err != nil {
			return err
		}
		if ft == thrift.STOP {
			break
		}
		switch {
		case id == 1 && ft == thrift.STRING:
			if p.S, err = iprot.ReadString(); err != nil {
				return err
			}
		case id == 2 && ft == thrift.I64:
			if p.I, err = iprot.ReadI64(); err != nil {
				return err
			}
		case id == 3 && ft == thrift.STRING:
			if p.B, err = iprot.ReadBinary(); err != nil {
				return err
			}
		case id == 4 && ft == thrift.BOOL:
			if p.Ok, err = iprot.ReadBool(); err != nil {
				return err
			}
		case id == 5 && ft == thrift.LIST:
			_, n, err := iprot.ReadListBegin()
			if err != nil {
				return err
			}
			if n < 0 || n > 1<<20 {
				return fmt.Errorf("bad list size %d", n)
			}
			p.L = make([]string, 0, n)
			for i := 0; i < n; i++ {
				s, err := iprot.ReadString()
				if err != nil {
					return err
				}
				p.L = append(p.L, s)
			}
			if err := iprot.ReadListEnd(); err != nil {
				return err
			}
		case id == 6 && ft == thrift.DOUBLE:
			if p.D, err = iprot.ReadDouble(); err != nil {
				return err
			}
		case id == 7 && ft == thrift.I32:
			if p.I32, err = iprot.ReadI32(); err != nil {
				return err
			}
		default:
			if err := iprot.Skip(ft); err != nil {
				return err
			}
		}
		if err := iprot.ReadFieldEnd(); err != nil {
			return err
		}
	}
	return iprot.ReadStructEnd()
}

// Write implements thrift.TStruct.
func (p *TStruct) Write(o thrift.TProtocol) error {
	if err := o.WriteStructBegin("TStruct"); err != nil {
		return err
	}
	w := func(name string, t thrift.TType, id int16, f func() error) error {
		if err := o.WriteFieldBegin(name, t, id); err != nil {
			return err
		}
		if err := f(); err != nil {
			return err
		}
		return o.WriteFieldEnd()
	}
	if err := w("s", thrift.STRING, 1, func() error { return o.WriteString(p.S) }); err != nil {
		return err
	}
	if err := w("i", thrift.I64, 2, func() error { return o.WriteI64(p.I) }); err != nil {
		return err
	}
	if err := w("b", thrift.STRING, 3, func() error { return o.WriteBinary(p.B) }); err != nil {
		return err
	}
	if err := w("ok", thrift.BOOL, 4, func() error { return o.WriteBool(p.Ok) }); err != nil {
		return err
	}
	if err := w("l", thrift.LIST, 5, func() error {
		if err := o.WriteListBegin(thrift.STRING, len(p.L)); err != nil {
			return err
		}
		for _, s := range p.L {
			if err := o.WriteString(s); err != nil {
				return err
			}
		}
		return o.WriteListEnd()
	}); err != nil {
		return err
	}
	if err := w("d", thrift.DOUBLE, 6, func() error { return o.WriteDouble(p.D) }); err != nil {
		return err
	}
	if err := w("i32", thrift.I32, 7, func() error { return o.WriteI32(p.I32) }); err != nil {
		return err
	}
	if err := o.WriteFieldStop(); err != nil {
		return err
	}
	return o.WriteStructEnd()
}
