package vt

import (
	"sync"
	"time"

	erpc "github.com/henrylee2cn/erpc/v6"
	"github.com/henrylee2cn/erpc/v6/socket"
)

// RawPeer is a scripted remote: the harness end of a memconn pair driven at
// frame level (through the protocol's own Pack/Unpack) or at byte level.
type RawPeer struct {
	Conn  *Conn
	Pair  *Pair
	Sock  socket.Socket
	proto erpc.ProtoFunc

	mu     sync.Mutex
	frames []RawFrame
	eof    bool
	rerr   error
	cond   *sync.Cond
}

// RawFrame is one frame received by a RawPeer.
type RawFrame struct {
	Seq    int32
	Mtype  byte
	Method string
	Status StatusTriple
	Meta   []KV
	Codec  byte
	Body   []byte
	Pipe   []byte
}

// NewRawPeer wraps conn (one end of pair) as a scripted remote speaking proto
// and starts collecting the frames the other side sends.
func NewRawPeer(pair *Pair, conn *Conn, proto erpc.ProtoFunc) *RawPeer {
	r := &RawPeer{Conn: conn, Pair: pair, proto: proto}
	r.cond = sync.NewCond(&r.mu)
	r.Sock = socket.NewSocket(conn, proto)
	go r.readLoop()
	return r
}

func (r *RawPeer) readLoop() {
	for {
		m := NewReceiver()
		var err error
		func() {
			defer func() {
				if p := recover(); p != nil {
					err = errPanic{p}
				}
			}()
			err = r.Sock.ReadMessage(m)
		}()
		r.mu.Lock()
		if err != nil {
			r.eof, r.rerr = true, err
			r.cond.Broadcast()
			r.mu.Unlock()
			return
		}
		r.frames = append(r.frames, RawFrame{
			Seq: m.Seq(), Mtype: m.Mtype(), Method: m.ServiceMethod(), Status: TripleOf(m.Status()),
			Meta: MetaPairs(m), Codec: m.BodyCodec(), Body: append([]byte(nil), BodyBytes(m)...), Pipe: m.XferPipe().IDs(),
		})
		r.cond.Broadcast()
		r.mu.Unlock()
	}
}

type errPanic struct{ v interface{} }

func (e errPanic) Error() string { return "panic while reading" }

// Send packs and writes one frame described by m.
func (r *RawPeer) Send(m Msg) error {
	return r.Sock.WriteMessage(m.Build())
}

// SendBytes writes raw bytes to the other side.
func (r *RawPeer) SendBytes(b []byte) error {
	_, err := r.Conn.Write(b)
	return err
}

// Frames returns a copy of the frames received so far.
func (r *RawPeer) Frames() []RawFrame {
	r.mu.Lock()
	defer r.mu.Unlock()
	return append([]RawFrame(nil), r.frames...)
}

// EOF reports whether the read side has ended (remote closed / cut / error).
func (r *RawPeer) EOF() bool {
	r.mu.Lock()
	defer r.mu.Unlock()
	return r.eof
}

// WaitFrames waits until at least n frames have been received or the stream
// ended; it returns false on liveness timeout.
func (r *RawPeer) WaitFrames(n int) bool {
	return r.waitCond(func() bool { return len(r.frames) >= n || r.eof })
}

// WaitEOF waits for the stream to end.
func (r *RawPeer) WaitEOF() bool {
	return r.waitCond(func() bool { return r.eof })
}

// WaitFor waits until pred over the received frames holds or the stream ended.
func (r *RawPeer) WaitFor(pred func(frames []RawFrame) bool) bool {
	return r.waitCond(func() bool { return r.eof || pred(r.frames) })
}

func (r *RawPeer) waitCond(c func() bool) bool {
	deadline := time.Now().Add(LivenessBound)
	timer := time.AfterFunc(LivenessBound, func() {
		r.mu.Lock()
		r.cond.Broadcast()
		r.mu.Unlock()
	})
	defer timer.Stop()
	r.mu.Lock()
	defer r.mu.Unlock()
	for !c() {
		if time.Now().After(deadline) {
			return false
		}
		r.cond.Wait()
	}
	return true
}

// Close closes the raw peer's end of the connection.
func (r *RawPeer) Close() { r.Conn.Close() }
