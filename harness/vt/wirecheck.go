package vt

import (
	"bytes"
	"fmt"
	"strconv"
	"strings"
	"testing"
	"unicode/utf8"

	erpc "github.com/henrylee2cn/erpc/v6"
	"github.com/henrylee2cn/erpc/v6/socket"
	"pgregory.net/rapid"
)

// ProtoSpec describes one shipped wire protocol for the round-trip checks.
type ProtoSpec struct {
	Name     string
	Fn       func() erpc.ProtoFunc
	Gen      func(t *rapid.T, rec *Rec) Msg // documented supported field set
	Cmp      func(m Msg) CompareOpts
	PerFrame bool // the protocol reads one frame per underlying reader (websocket sub-protocols)
	// SizePrefixed: a frame starts with a 4-byte big-endian size that is checked against the read limit
	SizePrefixed bool
	// AnnounceExempt reports prefixes that are not size announcements (e.g. unframed thrift clients)
	AnnounceExempt func(prefix uint32) bool
	// AllocKnownKey: key of a known finding because of which the allocation oracle cannot be applied to this protocol
	AllocKnownKey string
	// optional overrides for protocols whose body is not a raw byte string
	Build    func(m Msg) socket.Message
	Receiver func() socket.Message
	BodyOf   func(got socket.Message) []byte
	// BodyObj makes the object a receiver that takes the body binds to it (default: new([]byte), the
	// documented codec bypass). Must agree with Receiver when both are set.
	BodyObj func() interface{}
	// NoTypedBody reports messages that cannot carry a body of their own (e.g. an HTTP error reply, whose
	// payload is the status document): the stream check gives those the spec's default body only.
	NoTypedBody func(m Msg) bool
}

func GenStatus(t *rapid.T, m *Msg, maxLen int, text func(t *rapid.T, label string, max int) string) {
	m.HasStatus = rapid.IntRange(0, 2).Draw(t, "hasStatus") != 0
	if !m.HasStatus {
		return
	}
	m.Code = StatusCode(t, "code")
	if rapid.IntRange(0, 5).Draw(t, "codeZero") == 0 {
		m.Code = 0
	}
	m.StatMsg = text(t, "statmsg", maxLen)
	m.HasCause = rapid.Bool().Draw(t, "hasCause")
	if m.HasCause {
		m.Cause = text(t, "cause", maxLen)
	}
}

func AnyText(t *rapid.T, label string, max int) string { return string(Bytes(t, label, max)) }

func GenPipe(t *rapid.T, ids []byte, maxLen int) []byte {
	switch rapid.IntRange(0, 5).Draw(t, "pipeclass") {
	case 0, 1:
		return nil
	case 2:
		return []byte{rapid.SampledFrom(ids).Draw(t, "pipe1")}
	case 3, 4:
		n := 4
		if n > maxLen {
			n = maxLen
		}
		return rapid.SliceOfN(rapid.SampledFrom(ids), 0, n).Draw(t, "pipe")
	default:
		n := rapid.SampledFrom([]int{5, 17, 64, 254, 255}).Draw(t, "pipelen")
		if n > maxLen {
			n = maxLen
		}
		return rapid.SliceOfN(rapid.SampledFrom(ids), n, n).Draw(t, "longpipe")
	}
}

func GenBody(t *rapid.T, longPipe bool) []byte {
	if longPipe {
		return Bytes(t, "body", 64)
	}
	if rapid.IntRange(0, 40).Draw(t, "bigbody") == 40 {
		n := rapid.SampledFrom([]int{65535, 65536, 70000, 200000}).Draw(t, "bigbodylen")
		b := make([]byte, n)
		seed := rapid.Byte().Draw(t, "bigbodyseed")
		for i := range b {
			b[i] = byte(i*7) ^ seed
		}
		return b
	}
	return Bytes(t, "body", 4097)
}

// GenRawLike generates the field set carried by the raw protocol family
// (raw, json, pb): every header field, ordered multimap metadata, any codec
// byte, any body bytes, pipes over the registered filters.
func GenRawLike(methodGen func(t *rapid.T) string, statusText func(t *rapid.T, label string, max int) string, bodyFix func(t *rapid.T, rec *Rec, b []byte) []byte) func(t *rapid.T, rec *Rec) Msg {
	return func(t *rapid.T, rec *Rec) Msg {
		var m Msg
		m.Seq = Seq(t, "seq")
		if rapid.IntRange(0, 3).Draw(t, "mtypeclass") == 0 {
			m.Mtype = rapid.Byte().Draw(t, "mtype")
		} else {
			m.Mtype = rapid.SampledFrom([]byte{erpc.TypeCall, erpc.TypeReply, erpc.TypePush, erpc.TypeAuthCall, erpc.TypeAuthReply}).Draw(t, "mtype")
		}
		m.Method = methodGen(t)
		GenStatus(t, &m, 600, statusText)
		m.Meta = Meta(t, "meta", 6, 300)
		// boundaries of the 2-byte length fields (status, metadata): encoded length
		// just below / at 32767, 32768 and 65535 - all within the documented limit
		switch rapid.IntRange(0, 24).Draw(t, "bigfield") {
		case 23:
			target := rapid.SampledFrom([]int{32767, 32768, 40000, 65535}).Draw(t, "bigstatus")
			m.HasStatus, m.HasCause, m.Cause = true, false, ""
			if m.Code == 0 {
				m.Code = 7
			}
			overhead := len("code=&msg=") + len(strconv.Itoa(int(m.Code)))
			m.StatMsg = strings.Repeat("s", target-overhead)
		case 24:
			target := rapid.SampledFrom([]int{32767, 32768, 40000, 65535}).Draw(t, "bigmeta")
			m.Meta = []KV{{K: "k", V: strings.Repeat("v", target-2)}}
		}
		if rapid.IntRange(0, 3).Draw(t, "codecclass") == 0 {
			m.Codec = rapid.Byte().Draw(t, "codec")
		} else {
			m.Codec = rapid.SampledFrom([]byte{0, 'j', 'p', 'f', 's', 'x', 't'}).Draw(t, "codec")
		}
		m.Pipe = GenPipe(t, RegisteredXfer, 255)
		m.Body = GenBody(t, len(m.Pipe) > 4)
		if bodyFix != nil {
			m.Body = bodyFix(t, rec, m.Body)
		}
		return m
	}
}

func MethodAnyBytes(t *rapid.T) string {
	if rapid.IntRange(0, 9).Draw(t, "methodlenclass") == 0 {
		n := rapid.SampledFrom([]int{254, 255}).Draw(t, "methodblen")
		return string(rapid.SliceOfN(rapid.Byte(), n, n).Draw(t, "methodb"))
	}
	return string(Bytes(t, "method", 255))
}

func MethodUTF8(t *rapid.T) string {
	if rapid.IntRange(0, 2).Draw(t, "methodclass") == 0 {
		return rapid.StringMatching(`/[a-z0-9_/]{0,40}`).Draw(t, "method")
	}
	return ValidUTF8(t, "method", 255)
}

// MethodPrintable: the JSON protocols document the service method as a %q
// quoted string; Go quoting and JSON string syntax agree on printable text.
func MethodPrintable(t *rapid.T) string {
	if rapid.IntRange(0, 2).Draw(t, "methodclass") == 0 {
		return rapid.StringMatching(`/[a-z0-9_/]{0,40}`).Draw(t, "method")
	}
	s := ValidUTF8(t, "method", 200)
	out := make([]rune, 0, len(s))
	for _, r := range s {
		if strconv.IsPrint(r) && r != utf8.RuneError && r < 0x10000 {
			out = append(out, r)
		}
	}
	return string(out)
}

func NontrivialMsg(m Msg) bool {
	if IsSpecial([]byte(m.Method)) && len(m.Method) > 1 || m.Seq < 0 || m.Seq == 2147483647 || len(m.Pipe) > 0 {
		return true
	}
	if IsBoundaryLen(len(m.Body)) || IsBoundaryLen(len(m.Method)) || IsSpecial(m.Body) {
		return true
	}
	for _, kv := range m.Meta {
		if IsSpecial([]byte(kv.K)) || IsSpecial([]byte(kv.V)) {
			return true
		}
	}
	return m.HasStatus && (IsSpecial([]byte(m.StatMsg)) || IsSpecial([]byte(m.Cause)))
}

func ClassesOf(m Msg) []string {
	cls := []string{mtypeClass(m.Mtype)}
	if len(m.Pipe) > 0 {
		cls = append(cls, "pipe")
	}
	if len(m.Pipe) > 4 {
		cls = append(cls, "longpipe")
	}
	if m.HasStatus && m.Code != 0 {
		cls = append(cls, "status-nonok")
	}
	if len(m.Meta) > 1 {
		cls = append(cls, "meta>=2")
	}
	if len(m.Body) > 1024 {
		cls = append(cls, "body>1KiB")
	}
	if len(m.Body) >= 65535 {
		cls = append(cls, "body>=64KiB")
	}
	if IsSpecial(m.Body) {
		cls = append(cls, "body-special")
	}
	if m.Seq < 0 {
		cls = append(cls, "seq<0")
	}
	return cls
}

// PackOne packs m on proto (whose writer is rw) and returns the frame bytes.
func PackOne(spec ProtoSpec, proto erpc.Proto, rw *RW, m Msg) (frame []byte, size uint32, err error) {
	before := len(rw.Writes)
	msg := spec.build(m)
	if err = proto.Pack(msg); err != nil {
		return nil, 0, err
	}
	// A frame may be written with several Write calls (the thrift header
	// transport does); the frame is whatever this Pack wrote.
	for _, w := range rw.Writes[before:] {
		frame = append(frame, w...)
	}
	if len(frame) == 0 && !spec.PerFrame {
		// (a websocket sub-protocol frame of an all-default message is legitimately empty)
		return nil, 0, fmt.Errorf("Pack wrote nothing")
	}
	return frame, msg.Size(), nil
}

func CheckRoundTrip(t *rapid.T, spec ProtoSpec, rec *Rec) {
	Init()
	m := spec.Gen(t, rec)
	rec.Case(m.Canon(), NontrivialMsg(m), ClassesOf(m)...)
	if rec.WantSample() && NontrivialMsg(m) {
		rec.Sample(map[string]interface{}{"proto": spec.Name, "msg": m.Sample()})
	}
	wrw := &RW{}
	frame, psize, err := PackOne(spec, spec.Fn()(wrw), wrw, m)
	if err != nil {
		t.Fatalf("%s: Pack of a message inside the documented set failed: %v\nmsg=%v", spec.Name, err, m.Sample())
	}
	chunks, cycle := Chunks(t, "chunks")
	rrw := &RW{In: frame, Chunks: chunks, Cycle: cycle}
	got := spec.receiver()
	var uerr error
	func() {
		defer func() {
			if p := recover(); p != nil {
				uerr = fmt.Errorf("panic: %v", p)
			}
		}()
		uerr = spec.Fn()(rrw).Unpack(got)
	}()
	if uerr != nil {
		t.Fatalf("%s: Unpack(Pack(m)) failed: %v\nmsg=%v", spec.Name, uerr, m.Sample())
	}
	if d := m.Compare(got, spec.cmpOpts(m)); d != "" {
		t.Fatalf("%s: round trip differs: %s\nmsg=%v", spec.Name, d, m.Sample())
	}
	if rrw.Consumed() != len(frame) {
		t.Fatalf("%s: Unpack consumed %d of %d frame bytes", spec.Name, rrw.Consumed(), len(frame))
	}
	// the size limit is inclusive: under a limit equal to the message's size (as the packing
	// and the unpacking side report it) the very same frame still round-trips
	limit := psize
	if got.Size() > limit {
		limit = got.Size()
	}
	if limit > 0 {
		socket.SetMessageSizeLimit(limit)
		again := spec.receiver()
		var lerr error
		func() {
			defer func() {
				if p := recover(); p != nil {
					lerr = fmt.Errorf("panic: %v", p)
				}
			}()
			lerr = spec.Fn()(&RW{In: frame}).Unpack(again)
		}()
		socket.SetMessageSizeLimit(0)
		if lerr != nil {
			t.Fatalf("%s: a message of size %d (pack side) / %d (unpack side) was refused under a message size limit of %d: %v\nmsg=%v", spec.Name, psize, got.Size(), limit, lerr, m.Sample())
		}
		if d := m.Compare(again, spec.cmpOpts(m)); d != "" {
			t.Fatalf("%s: round trip under a size limit equal to the message size differs: %s", spec.Name, d)
		}
	}
}

func CheckStream(t *rapid.T, spec ProtoSpec, rec *Rec) {
	Init()
	k := rapid.IntRange(1, 6).Draw(t, "frames")
	msgs := make([]Msg, k)
	// how the body of each frame is handed to Pack and taken from Unpack: the spec's default (raw
	// bytes, the documented codec bypass) or a typed value that goes through a body codec
	bodies := make([]frameBody, k)
	typed := false
	for i := range msgs {
		msgs[i] = spec.Gen(t, rec)
		bodies[i] = spec.genFrameBody(t, &msgs[i])
		typed = typed || bodies[i].kind != BodyDefault
	}
	chunks, cycle := Chunks(t, "chunks")
	small := len(chunks) > 0 && cycle
	// what the receiving side does with the body of each frame
	modes := make([]RecvMode, k)
	untakenBeforeFrame := false
	for i := range modes {
		modes[i] = rapid.SampledFrom(recvModeDist).Draw(t, "receiver")
		if !modes[i].takes() && i < k-1 {
			untakenBeforeFrame = true
		}
	}
	canon := ""
	for _, m := range msgs {
		canon += m.Canon() + "#"
	}
	classes := []string{fmt.Sprintf("frames=%d", k), fmt.Sprintf("smallchunks=%v", small), fmt.Sprintf("untaken-body-before-a-frame=%v", untakenBeforeFrame), fmt.Sprintf("typed-body=%v", typed)}
	kinds := make([]BodyKind, k)
	for i, md := range modes {
		kinds[i] = bodies[i].kind
		if !md.takes() {
			classes = append(classes, "untaken:"+mtypeClass(msgs[i].Mtype))
		} else {
			classes = append(classes, "body:"+string(bodies[i].kind))
		}
	}
	rec.Case(canon+fmt.Sprint(chunks, cycle, modes, kinds), k >= 2 && (small || untakenBeforeFrame), classes...)
	if rec.WantSample() && k >= 2 && (small || untakenBeforeFrame) {
		ss := []interface{}{}
		for _, m := range msgs {
			ss = append(ss, m.Sample())
		}
		rec.Sample(map[string]interface{}{"proto": spec.Name, "stream": ss, "chunks": chunks, "cycle": cycle, "receivers": fmt.Sprint(modes), "bodies": fmt.Sprint(kinds)})
	}

	// pack all frames through ONE protocol instance (shared writer)
	wrw := &RW{}
	wp := spec.Fn()(wrw)
	frames := make([][]byte, k)
	psizes := make([]uint32, k)
	for i, m := range msgs {
		fspec := spec.withFrameBody(bodies[i])
		f, sz, err := PackOne(fspec, wp, wrw, m)
		if err != nil {
			t.Fatalf("%s: Pack #%d (body %s) failed: %v", spec.Name, i, bodies[i].kind, err)
		}
		frames[i], psizes[i] = f, sz
		// size independence on the packing side: a fresh instance reports the same size
		frw := &RW{}
		_, fsz, err := PackOne(fspec, spec.Fn()(frw), frw, m)
		if err != nil {
			t.Fatalf("%s: Pack #%d on a fresh instance failed: %v", spec.Name, i, err)
		}
		if fsz != sz {
			t.Fatalf("%s: size of packed message #%d depends on preceding traffic: %d after %d frames, %d on a fresh protocol instance", spec.Name, i, sz, i, fsz)
		}
	}
	stream := bytes.Join(frames, nil)
	rrw := &RW{In: stream, Chunks: chunks, Cycle: cycle}
	rp := spec.Fn()(rrw)
	consumed := 0
	// like a session's read loop, decode every frame of the stream into ONE recycled
	// message (reset between frames) in half of the cases, into fresh ones otherwise
	recycle := len(chunks)%2 == 0
	var pooled socket.Message
	// RETENTION: what the receiving side was handed for every frame is kept and compared again
	// after the whole stream has been decoded and after further traffic in the process
	var kept []retainedFrame
	for i, m := range msgs {
		fspec := spec.withFrameBody(bodies[i])
		if spec.PerFrame {
			// one frame per underlying reader (the websocket layer delimits the frames): the frames
			// are decoded one after the other, each from its own reader, by the generated receivers
			rrw = &RW{In: frames[i], Chunks: chunks, Cycle: cycle}
			rp = spec.Fn()(rrw)
			consumed = 0
		}
		mode := modes[i]
		obs := &bindObs{}
		got := fspec.streamReceiver(mode, pooled, obs)
		if recycle {
			pooled = got
		}
		var uerr error
		func() {
			defer func() {
				if p := recover(); p != nil {
					uerr = fmt.Errorf("panic: %v", p)
				}
			}()
			uerr = rp.Unpack(got)
		}()
		how := fmt.Sprintf("frame #%d of %d (receiver: %s, body: %s; receivers of the stream: %v, bodies: %v)", i, k, mode, bodies[i].kind, modes, kinds)
		if uerr != nil {
			t.Fatalf("C05 violated: %s: %s in a chunked stream failed to decode: %v", spec.Name, how, uerr)
		}
		want, opts := m, fspec.cmpOpts(m)
		if !mode.takes() {
			// nobody takes the body: the header fields are still those of the frame
			want, opts = fspec.headerOnly(m)
		}
		if d := want.Compare(got, opts); d != "" {
			t.Fatalf("C05 violated: %s: %s in a chunked stream differs: %s", spec.Name, how, d)
		}
		kept = append(kept, retain(got, recycle, want, opts, how))
		if mode.binds() {
			// the read path of a session decides inside the binder what to do with the frame
			// (route lookup by service method, pending call by seq, reply metadata handed to the
			// call): it runs once per frame and sees the frame's own header
			if obs.calls != 1 {
				t.Fatalf("C05 violated: %s: %s: the body binder (Message.NewBody func) ran %d times during one Unpack", spec.Name, how, obs.calls)
			}
			if d := obs.diff(m, opts); d != "" {
				t.Fatalf("C05 violated: %s: %s: header seen by the body binder differs from the frame's: %s", spec.Name, how, d)
			}
		}
		consumed += len(frames[i])
		if rrw.Consumed() != consumed {
			t.Fatalf("C05 violated: %s: after %s the reader consumed %d bytes, frames so far are %d bytes (lost frame sync)", spec.Name, how, rrw.Consumed(), consumed)
		}
		// size independence on the reading side (same kind of receiver, frame alone on a fresh instance)
		arw := &RW{In: frames[i]}
		alone := fspec.streamReceiver(mode, nil, &bindObs{})
		if err := spec.Fn()(arw).Unpack(alone); err != nil {
			t.Fatalf("C05 violated: %s: %s alone failed to decode: %v", spec.Name, how, err)
		}
		if alone.Size() != got.Size() {
			t.Fatalf("C05 violated: %s: reported size of %s depends on preceding traffic: %d in the stream, %d decoded alone", spec.Name, how, got.Size(), alone.Size())
		}
	}
	if !spec.PerFrame {
		// the stream is exhausted: the next Unpack must report an error, not a message
		extra := spec.receiver()
		var uerr error
		func() {
			defer func() {
				if p := recover(); p != nil {
					uerr = fmt.Errorf("panic: %v", p)
				}
			}()
			uerr = rp.Unpack(extra)
		}()
		if uerr == nil {
			t.Fatalf("%s: Unpack on an exhausted stream returned a message", spec.Name)
		}
	}
	// what was decoded stays what it was: after the whole stream ...
	recheckKept(t, spec, kept, "after the whole stream had been decoded")
	// ... and after further Pack/Unpack traffic on fresh protocol instances in the same process
	// (frames of the same sizes with other contents, so that recycled frame buffers are rewritten)
	for round := 0; round < 2; round++ {
		for i, m := range msgs {
			if round > 0 && len(frames[i]) > 8192 {
				continue // (cost: big frames get one follow-up only)
			}
			cm := spec.churnVariant(m, bodies[i], round)
			crw := &RW{}
			f, _, err := PackOne(spec, spec.Fn()(crw), crw, cm)
			if err != nil {
				t.Fatalf("%s: Pack of the follow-up message #%d failed: %v\nmsg=%v", spec.Name, i, err, cm.Sample())
			}
			cgot := spec.receiver()
			var cerr error
			func() {
				defer func() {
					if p := recover(); p != nil {
						cerr = fmt.Errorf("panic: %v", p)
					}
				}()
				cerr = spec.Fn()(&RW{In: f}).Unpack(cgot)
			}()
			if cerr != nil {
				t.Fatalf("C05 violated: %s: follow-up message #%d (round %d) failed to decode on a fresh protocol instance: %v\nmsg=%v", spec.Name, i, round, cerr, cm.Sample())
			}
			if d := cm.Compare(cgot, spec.cmpOpts(cm)); d != "" {
				t.Fatalf("C05 violated: %s: follow-up message #%d (round %d) differs after a round trip on fresh protocol instances: %s", spec.Name, i, round, d)
			}
		}
	}
	recheckKept(t, spec, kept, "after further Pack/Unpack traffic on fresh protocol instances in the same process")
}

const RuleMsg = "one message per case drawn from the protocol's documented field set (see DESIGN.md C05 table); non-trivial = a text field with a byte outside [A-Za-z0-9], a boundary length, a negative/extreme seq or a non-empty filter pipe; distinct by canonical encoding of all fields"
const RuleStream = "1-6 back-to-back frames packed through one protocol instance, decoded from the concatenated stream (websocket sub-protocols: frame by frame, one reader each) under a generated read-chunk schedule into fresh messages or one recycled message; per frame the body is (generated) raw bytes or, where the protocol carries a codec id and a body of its own, a typed value through a body codec (plain codec with *string / named string / **string / *[]byte / named []byte, json codec with a small struct) and the receiver (generated) takes the body through its NewBody binder, takes it into a preset body object, or leaves it untaken (binder returns nil, binder sets a body and then returns nil like a vetoed reply, no binder at all); oracle: a taken frame equals the packed message in every field, an untaken frame in every header field, the binder runs once per frame and sees the frame's seq/type/method/metadata, the reader has consumed exactly the frames so far, sizes equal those of the frame decoded alone by the same kind of receiver, the exhausted stream yields an error; RETENTION: everything handed to the receiver for every frame (the messages themselves when fresh, else the body objects, service method strings and status objects) is compared with what was packed again after the whole stream was decoded and once more after two rounds of same-sized follow-up frames with other contents were packed and unpacked on fresh protocol instances; non-trivial = >=2 frames and (a cycling small-chunk schedule or an untaken body followed by another frame)"

func RunSpec(t *testing.T, spec ProtoSpec) {
	t.Run("msg", func(t *testing.T) {
		rec := NewRec(t, "C05", spec.Name+"/msg", RuleMsg)
		rapid.Check(t, func(rt *rapid.T) { CheckRoundTrip(rt, spec, rec) })
	})
	t.Run("stream", func(t *testing.T) {
		rec := NewRec(t, "C05", spec.Name+"/stream", RuleStream)
		rapid.Check(t, func(rt *rapid.T) { CheckStream(rt, spec, rec) })
	})
}

// RecvMode says what the receiving side does with the body of one frame.
type RecvMode string

const (
	RecvTake     RecvMode = "take"      // the NewBody binder returns the body object (a handler's argument, a call's result)
	RecvPreset   RecvMode = "preset"    // the body object was set on the message beforehand, no binder
	RecvUntaken  RecvMode = "untaken"   // the binder returns nil: unknown route, reply to a call that is gone, result-less call
	RecvVetoed   RecvMode = "vetoed"    // the binder sets the body and then returns nil (bindReply when a reply hook refuses)
	RecvNoBinder RecvMode = "no-binder" // neither body nor binder
)

var recvModeDist = []RecvMode{RecvTake, RecvTake, RecvTake, RecvTake, RecvPreset, RecvUntaken, RecvUntaken, RecvUntaken, RecvVetoed, RecvNoBinder}

func (r RecvMode) takes() bool { return r == RecvTake || r == RecvPreset }
func (r RecvMode) binds() bool { return r == RecvTake || r == RecvUntaken || r == RecvVetoed }

// bindObs is what a body binder saw of the header when it ran.
type bindObs struct {
	calls  int
	seq    int32
	mtype  byte
	method string
	meta   []KV
}

func (o *bindObs) record(h socket.Header) {
	o.calls++
	o.seq, o.mtype, o.method = h.Seq(), h.Mtype(), h.ServiceMethod()
	o.meta = nil
	h.Meta().VisitAll(func(k, v []byte) { o.meta = append(o.meta, KV{string(k), string(v)}) })
}

func (o *bindObs) diff(m Msg, opts CompareOpts) string {
	if o.seq != m.Seq {
		return fmt.Sprintf("seq: got %d want %d", o.seq, m.Seq)
	}
	if o.mtype != m.Mtype {
		return fmt.Sprintf("mtype: got %d want %d", o.mtype, m.Mtype)
	}
	if !opts.SkipMethod && o.method != m.Method {
		return fmt.Sprintf("service method: got %q want %q", o.method, m.Method)
	}
	if opts.MetaAsSet {
		for _, kv := range m.Meta {
			found := false
			for _, g := range o.meta {
				found = found || g == kv
			}
			if !found {
				return fmt.Sprintf("meta: pair %v missing in %v", kv, o.meta)
			}
		}
		return ""
	}
	if len(o.meta) != len(m.Meta) {
		return fmt.Sprintf("meta: got %v want %v", o.meta, m.Meta)
	}
	for i := range o.meta {
		if o.meta[i] != m.Meta[i] {
			return fmt.Sprintf("meta[%d]: got %v want %v", i, o.meta[i], m.Meta[i])
		}
	}
	return ""
}

func (spec ProtoSpec) bodyObj() interface{} {
	if spec.BodyObj != nil {
		return spec.BodyObj()
	}
	return new([]byte)
}

// streamReceiver prepares the message one frame is decoded into, the way the framework's read
// path does (context.go: input.Reset(WithNewBody(binding)); binding returns nil for a body
// nobody takes): pooled is reset and reused when given, otherwise a new message is made.
func (spec ProtoSpec) streamReceiver(mode RecvMode, pooled socket.Message, obs *bindObs) socket.Message {
	var msg socket.Message
	var settings []socket.MessageSetting
	switch mode {
	case RecvTake:
		settings = append(settings, socket.WithNewBody(func(h socket.Header) interface{} { obs.record(h); return spec.bodyObj() }))
	case RecvPreset:
		settings = append(settings, socket.WithBody(spec.bodyObj()))
	case RecvUntaken:
		settings = append(settings, socket.WithNewBody(func(h socket.Header) interface{} { obs.record(h); return nil }))
	case RecvVetoed:
		settings = append(settings, socket.WithNewBody(func(h socket.Header) interface{} {
			obs.record(h)
			msg.SetBody(spec.bodyObj())
			return nil
		}))
	case RecvNoBinder:
	default:
		panic("harness: unknown receiver mode " + string(mode))
	}
	if pooled != nil {
		msg = pooled.Reset(settings...)
	} else {
		msg = socket.NewMessage(settings...)
	}
	return msg
}

// headerOnly is the expectation for a frame whose body nobody took: every header field.
func (spec ProtoSpec) headerOnly(m Msg) (Msg, CompareOpts) {
	o := spec.Cmp(m)
	o.BodyOf = func(socket.Message) []byte { return nil }
	m.Body = nil
	return m, o
}

func (spec ProtoSpec) build(m Msg) socket.Message {
	if spec.Build != nil {
		return spec.Build(m)
	}
	return m.Build()
}

func (spec ProtoSpec) receiver() socket.Message {
	if spec.Receiver != nil {
		return spec.Receiver()
	}
	return NewReceiver()
}

func (spec ProtoSpec) cmpOpts(m Msg) CompareOpts {
	o := spec.Cmp(m)
	o.BodyOf = spec.BodyOf
	return o
}

func mtypeClass(b byte) string {
	if b >= 1 && b <= 5 {
		return "mtype=" + strconv.Itoa(int(b))
	}
	return "mtype=other"
}

// ---- typed bodies and retention (stream check) ------------------------------------------

// BodyKind says how the body of one frame is given to Pack and received from Unpack.
type BodyKind string

const (
	BodyDefault         BodyKind = "default"            // the spec's own body (raw bytes: the documented codec bypass)
	BodyPlainString     BodyKind = "plain:*string"      // plain codec, *string
	BodyPlainNamed      BodyKind = "plain:*named-str"   // plain codec, pointer to a named string type
	BodyPlainPP         BodyKind = "plain:**string"     // plain codec, pointer to pointer to string
	BodyPlainPBytes     BodyKind = "plain:*[]byte"      // codec id plain, *[]byte
	BodyPlainNamedBytes BodyKind = "plain:*named-bytes" // plain codec, pointer to a named []byte type
	BodyJSONStruct      BodyKind = "json:struct"        // json codec, small struct
)

var bodyKindDist = []BodyKind{BodyDefault, BodyDefault, BodyDefault, BodyDefault, BodyPlainString, BodyPlainString, BodyPlainNamed, BodyPlainPP, BodyPlainPBytes, BodyPlainNamedBytes, BodyJSONStruct, BodyJSONStruct}

// NamedStr and NamedBytes are receivers the plain codec reaches through reflection.
type NamedStr string
type NamedBytes []byte

// JBody is the small struct carried by the json codec.
type JBody struct {
	A string   `json:"a"`
	N int64    `json:"n"`
	B []byte   `json:"b"`
	L []string `json:"l,omitempty"`
}

func (j *JBody) canon() []byte {
	if j == nil {
		return nil
	}
	return []byte(fmt.Sprintf("A=%q N=%d B=%x L=%q", j.A, j.N, j.B, j.L))
}

func (j *JBody) clone() *JBody {
	return &JBody{A: j.A, N: j.N, B: append([]byte(nil), j.B...), L: append([]string(nil), j.L...)}
}

type frameBody struct {
	kind BodyKind
	jb   *JBody // the packed value of a BodyJSONStruct frame
}

// genFrameBody draws the body kind of one frame and adapts the model: the codec id is the one of
// the codec in use; the model's Body is the bytes the typed value stands for (plain codec: the
// string's bytes; json struct: a canonical rendering of the struct, compared through typedBytes).
func (spec ProtoSpec) genFrameBody(t *rapid.T, m *Msg) frameBody {
	if spec.Build != nil || spec.BodyObj != nil || spec.Receiver != nil || spec.BodyOf != nil {
		return frameBody{kind: BodyDefault}
	}
	if spec.NoTypedBody != nil && spec.NoTypedBody(*m) {
		return frameBody{kind: BodyDefault}
	}
	fb := frameBody{kind: rapid.SampledFrom(bodyKindDist).Draw(t, "bodykind")}
	switch fb.kind {
	case BodyDefault:
	case BodyJSONStruct:
		m.Codec = 'j'
		b := m.Body
		if len(b) > 5000 {
			b = b[:5000]
		}
		fb.jb = &JBody{
			A: ValidUTF8(t, "jbody.a", 40),
			N: rapid.Int64().Draw(t, "jbody.n"),
			B: append([]byte{}, b...),
		}
		for i, n := 0, rapid.IntRange(0, 3).Draw(t, "jbody.nl"); i < n; i++ {
			fb.jb.L = append(fb.jb.L, ValidUTF8(t, "jbody.l", 20))
		}
		m.Body = fb.jb.canon()
	default:
		m.Codec = 's'
	}
	return fb
}

// withFrameBody returns the spec as it applies to one frame with the given body kind.
func (spec ProtoSpec) withFrameBody(fb frameBody) ProtoSpec {
	if fb.kind == BodyDefault {
		return spec
	}
	spec.Build = func(m Msg) socket.Message {
		body := m.Body
		m.Body = nil
		out := m.Build()
		switch fb.kind {
		case BodyPlainString:
			s := string(body)
			out.SetBody(&s)
		case BodyPlainNamed:
			s := NamedStr(body)
			out.SetBody(&s)
		case BodyPlainPP:
			s := string(body)
			p := &s
			out.SetBody(&p)
		case BodyPlainPBytes:
			b := append([]byte(nil), body...)
			out.SetBody(&b)
		case BodyPlainNamedBytes:
			b := NamedBytes(append([]byte(nil), body...))
			out.SetBody(&b)
		case BodyJSONStruct:
			out.SetBody(fb.jb.clone())
		default:
			panic("harness: unknown body kind " + string(fb.kind))
		}
		return out
	}
	spec.BodyObj = func() interface{} {
		switch fb.kind {
		case BodyPlainString:
			return new(string)
		case BodyPlainNamed:
			return new(NamedStr)
		case BodyPlainPP:
			p := new(string)
			return &p
		case BodyPlainPBytes:
			return new([]byte)
		case BodyPlainNamedBytes:
			return new(NamedBytes)
		case BodyJSONStruct:
			return new(JBody)
		}
		panic("harness: unknown body kind " + string(fb.kind))
	}
	spec.Receiver = func() socket.Message {
		return socket.NewMessage(socket.WithNewBody(func(socket.Header) interface{} { return spec.BodyObj() }))
	}
	spec.BodyOf = typedBytes
	return spec
}

// typedBytes renders a received typed body as the bytes the model's Body holds.
func typedBytes(got socket.Message) []byte {
	switch b := got.Body().(type) {
	case nil:
		return nil
	case *string:
		return []byte(*b)
	case *NamedStr:
		return []byte(*b)
	case **string:
		if *b == nil {
			return []byte("<nil *string>")
		}
		return []byte(**b)
	case *[]byte:
		return *b
	case *NamedBytes:
		return []byte(*b)
	case *JBody:
		return b.canon()
	}
	return []byte(fmt.Sprintf("<%T>", got.Body()))
}

// churnVariant is a message of the same shape and sizes as m with other contents: body bytes,
// metadata values and status texts are mapped onto letters (never onto themselves), everything
// else but a long filter pipe is kept. It travels with the spec's default body.
func (spec ProtoSpec) churnVariant(m Msg, fb frameBody, round int) Msg {
	base := byte('a')
	if round%2 == 1 {
		base = 'A'
	}
	mapb := func(b []byte) []byte {
		if b == nil {
			return nil
		}
		out := make([]byte, len(b))
		for i, c := range b {
			out[i] = base + c%26
		}
		return out
	}
	c := m
	if spec.Build == nil {
		c.Body = mapb(m.Body)
	}
	// (cost: the follow-up traffic does not run long filter pipes again; filtered bodies do not
	// live in the frame buffer anyway)
	if len(m.Pipe) > 1 || round > 0 {
		c.Pipe = nil
	}
	c.Meta = make([]KV, len(m.Meta))
	for i, kv := range m.Meta {
		c.Meta[i] = KV{K: kv.K, V: string(mapb([]byte(kv.V)))}
	}
	if m.HasStatus {
		c.StatMsg = string(mapb([]byte(m.StatMsg)))
		if m.HasCause {
			c.Cause = string(mapb([]byte(m.Cause)))
		}
	}
	return c
}

// retainedFrame is what the receiving side holds of one decoded frame.
type retainedFrame struct {
	how  string
	want Msg
	opts CompareOpts
	// the message itself when every frame got a fresh one ...
	msg socket.Message
	// ... otherwise (one recycled message, like a session's read loop) what an application keeps
	// beyond the next frame: the body object, the service method string and the status object
	body   interface{}
	method string
	status *socket.Status
}

func retain(got socket.Message, recycled bool, want Msg, opts CompareOpts, how string) retainedFrame {
	r := retainedFrame{how: how, want: want, opts: opts}
	if !recycled {
		r.msg = got
		return r
	}
	r.body, r.method, r.status = got.Body(), got.ServiceMethod(), got.Status()
	return r
}

func recheckKept(t *rapid.T, spec ProtoSpec, kept []retainedFrame, when string) {
	for _, r := range kept {
		if r.msg != nil {
			if d := r.want.Compare(r.msg, r.opts); d != "" {
				t.Fatalf("C05 violated: %s: %s was decoded correctly, but %s the retained message differs from what was packed: %s", spec.Name, r.how, when, d)
			}
			continue
		}
		if !r.opts.SkipMethod && r.method != r.want.Method {
			t.Fatalf("C05 violated: %s: %s was decoded correctly, but %s the retained service method string reads %q, packed %q", spec.Name, r.how, when, r.method, r.want.Method)
		}
		if !r.opts.SkipStatus {
			if g, w := TripleOf(r.status), r.want.ExpectedTriple(); g != w {
				t.Fatalf("C05 violated: %s: %s was decoded correctly, but %s the retained status object reads %+v, packed %+v", spec.Name, r.how, when, g, w)
			}
		}
		bodyOf := BodyBytes
		if r.opts.BodyOf != nil {
			bodyOf = r.opts.BodyOf
		}
		if gb := bodyOf(socket.NewMessage(socket.WithBody(r.body))); !bytes.Equal(gb, r.want.Body) {
			t.Fatalf("C05 violated: %s: %s was decoded correctly, but %s the retained body object reads %s, packed %s", spec.Name, r.how, when, Hex(gb), Hex(r.want.Body))
		}
	}
}
