package vt

import (
	"errors"
	"net"
	"net/http"
	"sync"

	erpc "github.com/henrylee2cn/erpc/v6"
	"github.com/henrylee2cn/erpc/v6/mixer/websocket"
	ws "github.com/henrylee2cn/erpc/v6/mixer/websocket/websocket"
	"github.com/henrylee2cn/erpc/v6/proto/httproto"
)

// HTTPProto is the HTTP-style stream protocol.
func HTTPProto() NamedProto { return NamedProto{"http", httproto.NewHTTProtoFunc()} }

// oneShotListener hands out one connection and then blocks until closed.
type oneShotListener struct {
	ch     chan net.Conn
	closed chan struct{}
	once   sync.Once
	addr   net.Addr
}

func (l *oneShotListener) Accept() (net.Conn, error) {
	select {
	case c := <-l.ch:
		return c, nil
	case <-l.closed:
		return nil, errors.New("listener closed")
	}
}
func (l *oneShotListener) Close() error   { l.once.Do(func() { close(l.closed) }); return nil }
func (l *oneShotListener) Addr() net.Addr { return l.addr }

// ConnectWS links two peers with a websocket session over a memconn pair:
// the accepting peer serves the real websocket HTTP upgrade handler, the
// other side performs the real client handshake; sub is the sub-protocol.
// The returned link's B session is the accepting side's session.
func (w *World) ConnectWS(a, b erpc.Peer, sub NamedProto, prepare func(p *Pair)) (*Link, error) {
	pair := NewPair()
	if prepare != nil {
		prepare(pair)
	}
	l := &Link{Pair: pair, APeer: a, BPeer: b, Proto: sub}
	lis := &oneShotListener{ch: make(chan net.Conn, 1), closed: make(chan struct{}), addr: pair.B.LocalAddr()}
	lis.ch <- pair.B
	srv := &http.Server{Handler: websocket.NewServeHandler(b, nil, sub.Fn)}
	go srv.Serve(lis)
	before := map[string]bool{}
	b.RangeSession(func(s erpc.Session) bool { before[s.ID()] = true; return true })

	cfg, err := ws.NewConfig("ws://"+pair.A.RemoteAddr().String()+"/", "ws://"+pair.A.LocalAddr().String()+"/")
	if err != nil {
		lis.Close()
		return nil, err
	}
	wsConn, err := ws.NewClient(cfg, pair.A)
	if err != nil {
		lis.Close()
		return nil, err
	}
	l.A, l.AStat = a.ServeConn(wsConn, websocket.NewWsProtoFunc(sub.Fn))
	ok := WaitUntil(func() bool {
		found := false
		b.RangeSession(func(s erpc.Session) bool {
			if !before[s.ID()] {
				l.B = s
				found = true
				return false
			}
			return true
		})
		return found
	})
	w.mu.Lock()
	w.links = append(w.links, l)
	w.closers = append(w.closers, func() { lis.Close(); srv.Close() })
	w.mu.Unlock()
	if !ok {
		return l, errors.New("websocket server session did not appear")
	}
	return l, nil
}

// RawWS is a websocket connection to a peer's upgrade handler whose frames the harness writes
// itself: the handshake is the real one, afterwards raw frame bytes go straight to the pair.
type RawWS struct {
	Pair *Pair
	Conn *ws.Conn
	B    erpc.Session // the accepting peer's session
}

// ConnectRawWS performs the websocket handshake with peer b over a new pair.
func (w *World) ConnectRawWS(b erpc.Peer, sub NamedProto) (*RawWS, error) {
	pair := NewPair()
	lis := &oneShotListener{ch: make(chan net.Conn, 1), closed: make(chan struct{}), addr: pair.B.LocalAddr()}
	lis.ch <- pair.B
	srv := &http.Server{Handler: websocket.NewServeHandler(b, nil, sub.Fn)}
	go srv.Serve(lis)
	before := map[string]bool{}
	b.RangeSession(func(s erpc.Session) bool { before[s.ID()] = true; return true })
	w.mu.Lock()
	w.closers = append(w.closers, func() { lis.Close(); srv.Close(); pair.Cut() })
	w.mu.Unlock()
	cfg, err := ws.NewConfig("ws://"+pair.A.RemoteAddr().String()+"/", "ws://"+pair.A.LocalAddr().String()+"/")
	if err != nil {
		return nil, err
	}
	c, err := ws.NewClient(cfg, pair.A)
	if err != nil {
		return nil, err
	}
	r := &RawWS{Pair: pair, Conn: c}
	ok := WaitUntil(func() bool {
		found := false
		b.RangeSession(func(s erpc.Session) bool {
			if !before[s.ID()] {
				r.B, found = s, true
				return false
			}
			return true
		})
		return found
	})
	if !ok {
		return r, errors.New("websocket server session did not appear")
	}
	return r, nil
}

// WriteFrame writes one masked client frame (FIN set) with the given opcode; announce is the
// payload length put into the header, payload what is actually sent after it.
func (r *RawWS) WriteFrame(opcode byte, announce int, payload []byte) error {
	hdr := []byte{0x80 | opcode}
	switch {
	case announce < 126:
		hdr = append(hdr, 0x80|byte(announce))
	case announce < 65536:
		hdr = append(hdr, 0x80|126, byte(announce>>8), byte(announce))
	default:
		hdr = append(hdr, 0x80|127, 0, 0, 0, 0, byte(announce>>24), byte(announce>>16), byte(announce>>8), byte(announce))
	}
	hdr = append(hdr, 0, 0, 0, 0) // masking key 0: the payload travels as it is
	if _, err := r.Pair.A.Write(hdr); err != nil {
		return err
	}
	for len(payload) > 0 {
		n := len(payload)
		if n > 16<<10 {
			n = 16 << 10
		}
		if _, err := r.Pair.A.Write(payload[:n]); err != nil {
			return err
		}
		payload = payload[n:]
	}
	return nil
}
