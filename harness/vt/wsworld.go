package vt

import (
	"errors"
	"net"
	"net/http"
	"sync"

	erpc "github.com/henrylee2cn/erpc/v6"
	"github.com/henrylee2cn/erpc/v6/mixer/websocket"
	ws "github.com/henrylee2cn/erpc/v6/mixer/websocket/websocket"
	"github.com/henrylee2cn/erpc/v6/proto/httproto"
)

// HTTPProto is the HTTP-style stream protocol.
func HTTPProto() NamedProto { return NamedProto{"http", httproto.NewHTTProtoFunc()} }

// oneShotListener hands out one connection and then blocks until closed.
type oneShotListener struct {
	ch     chan net.Conn
	closed chan struct{}
	once   sync.Once
	addr   net.Addr
}

func (l *oneShotListener) Accept() (net.Conn, error) {
	select {
	case c := <-l.ch:
		return c, nil
	case <-l.closed:
		return nil, errors.New("listener closed")
	}
}
func (l *oneShotListener) Close() error   { l.once.Do(func() { close(l.closed) }); return nil }
func (l *oneShotListener) Addr() net.Addr { return l.addr }

// ConnectWS links two peers with a websocket session over a memconn pair:
// the accepting peer serves the real websocket HTTP upgrade handler, the
// other side performs the real client handshake; sub is the sub-protocol.
// The returned link's B session is the accepting side's session.
func (w *World) ConnectWS(a, b erpc.Peer, sub NamedProto, prepare func(p *Pair)) (*Link, error) {
	pair := NewPair()
	if prepare != nil {
		prepare(pair)
	}
	l := &Link{Pair: pair, APeer: a, BPeer: b, Proto: sub}
	lis := &oneShotListener{ch: make(chan net.Conn, 1), closed: make(chan struct{}), addr: pair.B.LocalAddr()}
	lis.ch <- pair.B
	srv := &http.Server{Handler: websocket.NewServeHandler(b, nil, sub.Fn)}
	go srv.Serve(lis)
	before := map[string]bool{}
	b.RangeSession(func(s erpc.Session) bool { before[s.ID()] = true; return true })

	cfg, err := ws.NewConfig("ws://"+pair.A.RemoteAddr().String()+"/", "ws://"+pair.A.LocalAddr().String()+"/")
	if err != nil {
		lis.Close()
		return nil, err
	}
	wsConn, err := ws.NewClient(cfg, pair.A)
	if err != nil {
		lis.Close()
		return nil, err
	}
	l.A, l.AStat = a.ServeConn(wsConn, websocket.NewWsProtoFunc(sub.Fn))
	ok := WaitUntil(func() bool {
		found := false
		b.RangeSession(func(s erpc.Session) bool {
			if !before[s.ID()] {
				l.B = s
				found = true
				return false
			}
			return true
		})
		return found
	})
	w.mu.Lock()
	w.links = append(w.links, l)
	w.closers = append(w.closers, func() { lis.Close(); srv.Close() })
	w.mu.Unlock()
	if !ok {
		return l, errors.New("websocket server session did not appear")
	}
	return l, nil
}
