// Package vt is the shared library of the verification harness: a
// harness-owned in-memory transport, global-state control, statistics /
// evidence collection and common generators.
package vt

import (
	"errors"
	"fmt"
	"io"
	"net"
	"os"
	"sync"
	"sync/atomic"
	"time"
)

// Addr is a synthetic TCP-looking address.
type Addr struct{ S string }

// Network implements net.Addr.
func (a Addr) Network() string { return "tcp" }
func (a Addr) String() string  { return a.S }

var pairCounter int64

// half is one direction of a pair: bytes written by one end, read by the other.
type half struct {
	mu   sync.Mutex
	cond *sync.Cond

	buf       []byte
	wclosed   bool  // writer side closed: reader sees EOF after draining
	rclosed   bool  // reader side closed: reader gets ErrClosedPipe, writer gets EPIPE
	broken    bool  // cut: both see errors, pending bytes are dropped
	delivered int64 // bytes handed to the reader so far
	written   int64
	cutAt     int64 // -1: none. When delivered reaches cutAt the pair is torn down.

	chunks   []int // read sizes; the i-th Read returns at most chunks[i]; afterwards unlimited
	chunkIdx int
	cycle    bool // cycle through chunks forever

	capture  bool
	writes   [][]byte // every Write call's bytes (copied), when capture is on
	deadline time.Time
	dlTimer  *time.Timer

	wdeadline time.Time // write deadline of the writer of this direction (sticky, like a net.Conn's)

	gate func(b []byte) // called (outside the lock) before a write is appended; may block
	werr error          // when set, every Write of this direction fails with it (reads are unaffected)
}

func newHalf() *half {
	h := &half{cutAt: -1}
	h.cond = sync.NewCond(&h.mu)
	return h
}

// Pair is two connected in-memory net.Conn endpoints.
type Pair struct {
	A, B *Conn // A is conventionally the client end, B the server end
	ab   *half // A writes, B reads
	ba   *half // B writes, A reads
	torn int32
}

// Conn is one endpoint of a Pair.
type Conn struct {
	pair          *Pair
	r, w          *half
	local, remote Addr
	closed        int32
}

// NewPair creates a connected pair with unique synthetic addresses.
func NewPair() *Pair {
	k := atomic.AddInt64(&pairCounter, 1)
	p := &Pair{ab: newHalf(), ba: newHalf()}
	aAddr := Addr{fmt.Sprintf("10.%d.%d.1:%d", (k>>8)&255, k&255, 10000+k%50000)}
	bAddr := Addr{fmt.Sprintf("10.%d.%d.2:%d", (k>>8)&255, k&255, 10000+k%50000)}
	p.A = &Conn{pair: p, r: p.ba, w: p.ab, local: aAddr, remote: bAddr}
	p.B = &Conn{pair: p, r: p.ab, w: p.ba, local: bAddr, remote: aAddr}
	return p
}

// Dir selects a direction of a pair.
type Dir int

const (
	// AtoB is the direction written by A and read by B.
	AtoB Dir = iota
	// BtoA is the direction written by B and read by A.
	BtoA
)

func (p *Pair) half(d Dir) *half {
	if d == AtoB {
		return p.ab
	}
	return p.ba
}

// SetChunks sets the read-size schedule for the reader of direction d.
func (p *Pair) SetChunks(d Dir, chunks []int, cycle bool) {
	h := p.half(d)
	h.mu.Lock()
	h.chunks = append([]int(nil), chunks...)
	h.chunkIdx = 0
	h.cycle = cycle
	h.mu.Unlock()
}

// SetCapture turns write capture on for direction d.
func (p *Pair) SetCapture(d Dir, on bool) {
	h := p.half(d)
	h.mu.Lock()
	h.capture = on
	h.mu.Unlock()
}

// Writes returns a copy of the captured writes of direction d.
func (p *Pair) Writes(d Dir) [][]byte {
	h := p.half(d)
	h.mu.Lock()
	defer h.mu.Unlock()
	out := make([][]byte, len(h.writes))
	for i, w := range h.writes {
		out[i] = append([]byte(nil), w...)
	}
	return out
}

// Stream returns the concatenation of all captured writes of direction d.
func (p *Pair) Stream(d Dir) []byte {
	var out []byte
	for _, w := range p.Writes(d) {
		out = append(out, w...)
	}
	return out
}

// Written returns the number of bytes written so far in direction d.
func (p *Pair) Written(d Dir) int64 {
	h := p.half(d)
	h.mu.Lock()
	defer h.mu.Unlock()
	return h.written
}

// Delivered returns the number of bytes delivered to the reader of direction d.
func (p *Pair) Delivered(d Dir) int64 {
	h := p.half(d)
	h.mu.Lock()
	defer h.mu.Unlock()
	return h.delivered
}

// CutAt arranges for the whole pair to be torn down as soon as n bytes have
// been delivered in direction d (n counts from the start of the connection).
// If n bytes were already delivered the pair is torn down now.
func (p *Pair) CutAt(d Dir, n int64) {
	h := p.half(d)
	h.mu.Lock()
	h.cutAt = n
	now := h.delivered >= n
	h.mu.Unlock()
	if now {
		p.Cut()
	} else {
		h.mu.Lock()
		h.cond.Broadcast()
		h.mu.Unlock()
	}
}

// SetGate installs a function called before each write of direction d is
// appended to the stream; it may block (it runs outside internal locks).
func (p *Pair) SetGate(d Dir, g func(b []byte)) {
	h := p.half(d)
	h.mu.Lock()
	h.gate = g
	h.mu.Unlock()
}

// FailWrites makes every further Write of direction d fail with err while the
// connection otherwise stays up (a half-broken link: e.g. EPIPE on send).
func (p *Pair) FailWrites(d Dir, err error) {
	h := p.half(d)
	h.mu.Lock()
	h.werr = err
	h.mu.Unlock()
}

// Cut tears down both directions at once: pending bytes are dropped, reads
// return io.EOF, writes return io.ErrClosedPipe.
func (p *Pair) Cut() {
	if !atomic.CompareAndSwapInt32(&p.torn, 0, 1) {
		return
	}
	for _, h := range []*half{p.ab, p.ba} {
		h.mu.Lock()
		h.broken = true
		h.buf = nil
		h.cond.Broadcast()
		h.mu.Unlock()
	}
}

// IsCut reports whether the pair was torn down by Cut / CutAt.
func (p *Pair) IsCut() bool { return atomic.LoadInt32(&p.torn) == 1 }

type timeoutError struct{}

func (timeoutError) Error() string   { return "memconn: i/o timeout" }
func (timeoutError) Timeout() bool   { return true }
func (timeoutError) Temporary() bool { return true }

var _ net.Error = timeoutError{}

// ErrDeadline is what a Read returns after its deadline passed.
var ErrDeadline error = timeoutError{}

func init() {
	// make errors.Is(err, os.ErrDeadlineExceeded) style checks irrelevant; keep os imported
	_ = os.ErrDeadlineExceeded
}

// Read implements net.Conn.
func (c *Conn) Read(p []byte) (int, error) {
	h := c.r
	h.mu.Lock()
	for {
		if h.rclosed {
			h.mu.Unlock()
			return 0, io.ErrClosedPipe
		}
		if h.broken {
			h.mu.Unlock()
			return 0, io.EOF
		}
		if !h.deadline.IsZero() && !time.Now().Before(h.deadline) {
			h.mu.Unlock()
			return 0, ErrDeadline
		}
		if len(p) == 0 {
			h.mu.Unlock()
			return 0, nil
		}
		if len(h.buf) > 0 {
			n := len(p)
			if n > len(h.buf) {
				n = len(h.buf)
			}
			if h.chunkIdx < len(h.chunks) {
				if c := h.chunks[h.chunkIdx]; c > 0 && n > c {
					n = c
				}
				h.chunkIdx++
				if h.cycle && h.chunkIdx >= len(h.chunks) {
					h.chunkIdx = 0
				}
			}
			cutNow := false
			if h.cutAt >= 0 {
				left := h.cutAt - h.delivered
				if left <= 0 {
					h.mu.Unlock()
					c.pair.Cut()
					return 0, io.EOF
				}
				if int64(n) >= left {
					n = int(left)
					cutNow = true
				}
			}
			copy(p, h.buf[:n])
			h.buf = h.buf[n:]
			h.delivered += int64(n)
			h.mu.Unlock()
			if cutNow {
				c.pair.Cut()
			}
			return n, nil
		}
		if h.wclosed {
			h.mu.Unlock()
			return 0, io.EOF
		}
		if h.cutAt >= 0 && h.delivered >= h.cutAt {
			h.mu.Unlock()
			c.pair.Cut()
			return 0, io.EOF
		}
		h.cond.Wait()
	}
}

// Write implements net.Conn.
func (c *Conn) Write(p []byte) (int, error) {
	h := c.w
	h.mu.Lock()
	g := h.gate
	h.mu.Unlock()
	if g != nil {
		g(p)
	}
	h.mu.Lock()
	defer h.mu.Unlock()
	if h.wclosed || h.broken {
		return 0, io.ErrClosedPipe
	}
	if h.werr != nil {
		return 0, h.werr
	}
	if !h.wdeadline.IsZero() && !time.Now().Before(h.wdeadline) {
		// like a net.Conn: once the write deadline has passed every write fails until it is
		// moved or cleared
		return 0, ErrDeadline
	}
	if h.rclosed {
		return 0, errors.New("memconn: write: broken pipe")
	}
	if h.capture {
		h.writes = append(h.writes, append([]byte(nil), p...))
	}
	h.buf = append(h.buf, p...)
	h.written += int64(len(p))
	h.cond.Broadcast()
	return len(p), nil
}

// Close implements net.Conn.
func (c *Conn) Close() error {
	if !atomic.CompareAndSwapInt32(&c.closed, 0, 1) {
		return nil
	}
	c.w.mu.Lock()
	c.w.wclosed = true
	c.w.cond.Broadcast()
	c.w.mu.Unlock()
	c.r.mu.Lock()
	c.r.rclosed = true
	c.r.buf = nil
	c.r.cond.Broadcast()
	c.r.mu.Unlock()
	return nil
}

// Closed reports whether Close was called on this endpoint.
func (c *Conn) Closed() bool { return atomic.LoadInt32(&c.closed) == 1 }

// LocalAddr implements net.Conn.
func (c *Conn) LocalAddr() net.Addr { return c.local }

// RemoteAddr implements net.Conn.
func (c *Conn) RemoteAddr() net.Addr { return c.remote }

// SetDeadline implements net.Conn.
func (c *Conn) SetDeadline(t time.Time) error {
	c.SetReadDeadline(t)
	c.SetWriteDeadline(t)
	return nil
}

// SetReadDeadline implements net.Conn.
func (c *Conn) SetReadDeadline(t time.Time) error {
	h := c.r
	h.mu.Lock()
	h.deadline = t
	if h.dlTimer != nil {
		h.dlTimer.Stop()
		h.dlTimer = nil
	}
	if !t.IsZero() {
		d := time.Until(t)
		if d < 0 {
			d = 0
		}
		h.dlTimer = time.AfterFunc(d, func() {
			h.mu.Lock()
			h.cond.Broadcast()
			h.mu.Unlock()
		})
	}
	h.cond.Broadcast()
	h.mu.Unlock()
	return nil
}

// SetWriteDeadline implements net.Conn. Writes never block here, but the deadline is kept
// and enforced the way a net.Conn does: it is sticky, and a write after it fails.
func (c *Conn) SetWriteDeadline(t time.Time) error {
	c.w.mu.Lock()
	c.w.wdeadline = t
	c.w.mu.Unlock()
	return nil
}

// Feed appends raw bytes to the stream read by this endpoint's peer, i.e. it
// is a Write that bypasses gate and capture. Used by byte-level raw peers.
func (c *Conn) Feed(b []byte) (int, error) { return c.Write(b) }
