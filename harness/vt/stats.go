package vt

import (
	"encoding/json"
	"fmt"
	"hash/fnv"
	"os"
	"sync"
	"testing"
)

// Rec collects what a check actually explored; it is flushed as one JSON line
// to the file named by VERIF_STATS when the test ends.
type Rec struct {
	mu        sync.Mutex
	Prop      string `json:"prop"`
	Sub       string `json:"sub"`
	Rule      string `json:"rule"`
	Evals     int    `json:"evals"`
	Nontriv   int    `json:"nontrivial_total"`
	distinct  map[uint64]struct{}
	Distinct  []uint64       `json:"distinct_hashes"`
	Classes   map[string]int `json:"classes"`
	Samples   []interface{}  `json:"samples"`
	Excluded  map[string]int `json:"excluded_known"`
	Known     []string       `json:"known_findings"`
	Exhaust   bool           `json:"exhaustive"`
	Notes     []string       `json:"notes"`
	maxSample int
}

// NewRec creates a recorder for property prop / sub-check sub and arranges
// for it to be flushed when t ends.
func NewRec(t *testing.T, prop, sub, rule string) *Rec {
	r := &Rec{Prop: prop, Sub: sub, Rule: rule, distinct: map[uint64]struct{}{}, Classes: map[string]int{}, Excluded: map[string]int{}, maxSample: 4}
	t.Cleanup(r.Flush)
	return r
}

func hash64(s string) uint64 {
	h := fnv.New64a()
	h.Write([]byte(s))
	return h.Sum64()
}

// Case records one executed case. canon is a canonical encoding of the case
// (used only for counting distinct non-trivial cases).
func (r *Rec) Case(canon string, nontrivial bool, classes ...string) {
	r.mu.Lock()
	defer r.mu.Unlock()
	r.Evals++
	if nontrivial {
		r.Nontriv++
		r.distinct[hash64(canon)] = struct{}{}
	}
	for _, c := range classes {
		r.Classes[c]++
	}
}

// Class bumps a class counter without counting a case.
func (r *Rec) Class(c string, n int) {
	r.mu.Lock()
	r.Classes[c] += n
	r.mu.Unlock()
}

// Sample keeps v as one of the first few samples of this run.
func (r *Rec) Sample(v interface{}) {
	r.mu.Lock()
	defer r.mu.Unlock()
	if len(r.Samples) < r.maxSample {
		r.Samples = append(r.Samples, v)
	}
}

// WantSample reports whether another sample would be kept.
func (r *Rec) WantSample() bool {
	r.mu.Lock()
	defer r.mu.Unlock()
	return len(r.Samples) < r.maxSample
}

// Exclude counts a generated case (or part of one) that was steered away
// from a listed known finding.
func (r *Rec) Exclude(key string) {
	r.mu.Lock()
	r.Excluded[key]++
	r.mu.Unlock()
}

// Note attaches a free-text note to the evidence.
func (r *Rec) Note(format string, a ...interface{}) {
	r.mu.Lock()
	if len(r.Notes) < 20 {
		r.Notes = append(r.Notes, fmt.Sprintf(format, a...))
	}
	r.mu.Unlock()
}

// SetExhaustive marks the sub-run as a complete enumeration of a finite space.
func (r *Rec) SetExhaustive() { r.mu.Lock(); r.Exhaust = true; r.mu.Unlock() }

// KnownFinding reports that a listed known finding still reproduces.
func (r *Rec) KnownFinding(key, what string) {
	r.mu.Lock()
	r.Known = append(r.Known, key)
	r.mu.Unlock()
	fmt.Printf("KNOWN-FINDING: property=%s %s [%s]\n", r.Prop, what, key)
}

// Flush appends the record to VERIF_STATS.
func (r *Rec) Flush() {
	path := os.Getenv("VERIF_STATS")
	if path == "" {
		return
	}
	r.mu.Lock()
	defer r.mu.Unlock()
	r.Distinct = r.Distinct[:0]
	for h := range r.distinct {
		r.Distinct = append(r.Distinct, h)
	}
	b, err := json.Marshal(r)
	if err != nil {
		b, _ = json.Marshal(map[string]interface{}{"prop": r.Prop, "sub": r.Sub, "error": err.Error(), "evals": r.Evals})
	}
	f, err := os.OpenFile(path, os.O_APPEND|os.O_CREATE|os.O_WRONLY, 0o644)
	if err != nil {
		return
	}
	f.Write(append(b, '\n'))
	f.Close()
}

// ---- known findings ----------------------------------------------------------

type knownEntry struct {
	Kind     string `json:"kind"`
	Property string `json:"property"`
	Key      string `json:"key"`
	What     string `json:"what"`
	Commit   string `json:"commit"`
}

var (
	knownOnce sync.Once
	knownMap  map[string]knownEntry
)

func loadKnown() {
	knownMap = map[string]knownEntry{}
	path := os.Getenv("VERIF_KNOWN")
	if path == "" {
		path = "/verif/known_findings.json"
	}
	b, err := os.ReadFile(path)
	if err != nil {
		return
	}
	var doc struct {
		Entries []knownEntry `json:"entries"`
	}
	if json.Unmarshal(b, &doc) != nil {
		return
	}
	for _, e := range doc.Entries {
		if e.Kind == "known" {
			knownMap[e.Key] = e
		}
	}
}

// IsKnown reports whether key is listed as a known (unrepaired) finding.
func IsKnown(key string) bool {
	knownOnce.Do(loadKnown)
	_, ok := knownMap[key]
	return ok
}

// KnownWhat returns the description of a known finding.
func KnownWhat(key string) string {
	knownOnce.Do(loadKnown)
	return knownMap[key].What
}

// ---- journal -----------------------------------------------------------------

// Journal writes the case about to be executed to VERIF_JOURNAL so that the
// driver can report it if the process dies.
func Journal(prop string, v interface{}) {
	path := os.Getenv("VERIF_JOURNAL")
	if path == "" {
		return
	}
	b, err := json.Marshal(map[string]interface{}{"property": prop, "case": v})
	if err != nil {
		return
	}
	os.WriteFile(path, b, 0o644)
}
