package pure

// C11, structure-aware garbage: the decoder input is a valid encoding of a generated value in
// which one or two *length / count / numeric* fields - located by small parsers of the wire
// formats that live in this file and share nothing with the codecs - are overwritten with
// boundary values. Byte flips and truncations (TestC11Garbage) practically never produce, say,
// a thrift binary length with the top bit set in front of an otherwise well-formed remainder;
// this class produces exactly such inputs, for every length-prefixed field kind of every codec.

import (
	"bytes"
	"encoding/binary"
	"fmt"
	"sort"
	"strings"
	"testing"

	"git.apache.org/thrift.git/lib/go/thrift"
	"github.com/henrylee2cn/erpc/v6/codec"
	benchmsg "github.com/henrylee2cn/erpc/v6/examples/bench/msg"
	wspb "github.com/henrylee2cn/erpc/v6/mixer/websocket/pbSubProto/pb"
	"github.com/henrylee2cn/erpc/v6/plugin/secure"
	ppb "github.com/henrylee2cn/erpc/v6/proto/pbproto/pb"
	expb "github.com/henrylee2cn/erpc/v6/socket/example/pb"
	"pgregory.net/rapid"

	"verifharness/vt"
)

// ---- a thrift struct with every length-prefixed field kind ----------------------------------

// tRich is written the way the thrift compiler writes Go code: Read checks the field type,
// reads with the protocol's Read* methods, sizes its containers by what the protocol's
// Read*Begin returned and skips what it does not know. It has no size guards of its own: the
// protocol handed to it by the codec is what stands between an announced size and make().
type tRich struct {
	S  string             // 1: string
	B  []byte             // 2: binary
	LB [][]byte           // 3: list<binary>
	SI []int32            // 4: set<i32> (kept in wire order)
	M  map[string][]byte  // 5: map<string,binary>
	N  *vt.TStruct        // 6: struct
	LL []int64            // 7: list<i64>
	MM map[int32][]string // 8: map<i32,list<string>>
	OB []byte             // 9: binary (second one, behind the containers)
}

var _ thrift.TStruct = (*tRich)(nil)

func (p *tRich) Read(iprot thrift.TProtocol) error {
	if _, err := iprot.ReadStructBegin(); err != nil {
		return err
	}
	for {
		_, ft, id, err := iprot.ReadFieldBegin()
		if err != nil {
			return err
		}
		if ft == thrift.STOP {
			break
		}
		switch {
		case id == 1 && ft == thrift.STRING:
			if p.S, err = iprot.ReadString(); err != nil {
				return err
			}
		case id == 2 && ft == thrift.STRING:
			if p.B, err = iprot.ReadBinary(); err != nil {
				return err
			}
		case id == 3 && ft == thrift.LIST:
			_, size, err := iprot.ReadListBegin()
			if err != nil {
				return err
			}
			tSlice := make([][]byte, 0, size)
			for i := 0; i < size; i++ {
				e, err := iprot.ReadBinary()
				if err != nil {
					return err
				}
				tSlice = append(tSlice, e)
			}
			p.LB = tSlice
			if err := iprot.ReadListEnd(); err != nil {
				return err
			}
		case id == 4 && ft == thrift.SET:
			_, size, err := iprot.ReadSetBegin()
			if err != nil {
				return err
			}
			tSet := make([]int32, 0, size)
			for i := 0; i < size; i++ {
				e, err := iprot.ReadI32()
				if err != nil {
					return err
				}
				tSet = append(tSet, e)
			}
			p.SI = tSet
			if err := iprot.ReadSetEnd(); err != nil {
				return err
			}
		case id == 5 && ft == thrift.MAP:
			_, _, size, err := iprot.ReadMapBegin()
			if err != nil {
				return err
			}
			tMap := make(map[string][]byte, size)
			for i := 0; i < size; i++ {
				k, err := iprot.ReadString()
				if err != nil {
					return err
				}
				v, err := iprot.ReadBinary()
				if err != nil {
					return err
				}
				tMap[k] = v
			}
			p.M = tMap
			if err := iprot.ReadMapEnd(); err != nil {
				return err
			}
		case id == 6 && ft == thrift.STRUCT:
			p.N = &vt.TStruct{}
			if err := p.N.Read(iprot); err != nil {
				return err
			}
		case id == 7 && ft == thrift.LIST:
			_, size, err := iprot.ReadListBegin()
			if err != nil {
				return err
			}
			tSlice := make([]int64, 0, size)
			for i := 0; i < size; i++ {
				e, err := iprot.ReadI64()
				if err != nil {
					return err
				}
				tSlice = append(tSlice, e)
			}
			p.LL = tSlice
			if err := iprot.ReadListEnd(); err != nil {
				return err
			}
		case id == 8 && ft == thrift.MAP:
			_, _, size, err := iprot.ReadMapBegin()
			if err != nil {
				return err
			}
			tMap := make(map[int32][]string, size)
			for i := 0; i < size; i++ {
				k, err := iprot.ReadI32()
				if err != nil {
					return err
				}
				_, lsize, err := iprot.ReadListBegin()
				if err != nil {
					return err
				}
				l := make([]string, 0, lsize)
				for j := 0; j < lsize; j++ {
					s, err := iprot.ReadString()
					if err != nil {
						return err
					}
					l = append(l, s)
				}
				if err := iprot.ReadListEnd(); err != nil {
					return err
				}
				tMap[k] = l
			}
			p.MM = tMap
			if err := iprot.ReadMapEnd(); err != nil {
				return err
			}
		case id == 9 && ft == thrift.STRING:
			if p.OB, err = iprot.ReadBinary(); err != nil {
				return err
			}
		default:
			if err := iprot.Skip(ft); err != nil {
				return err
			}
		}
		if err := iprot.ReadFieldEnd(); err != nil {
			return err
		}
	}
	return iprot.ReadStructEnd()
}

func (p *tRich) Write(o thrift.TProtocol) error {
	if err := o.WriteStructBegin("tRich"); err != nil {
		return err
	}
	w := func(name string, t thrift.TType, id int16, f func() error) error {
		if err := o.WriteFieldBegin(name, t, id); err != nil {
			return err
		}
		if err := f(); err != nil {
			return err
		}
		return o.WriteFieldEnd()
	}
	steps := []func() error{
		func() error { return w("s", thrift.STRING, 1, func() error { return o.WriteString(p.S) }) },
		func() error { return w("b", thrift.STRING, 2, func() error { return o.WriteBinary(p.B) }) },
		func() error {
			return w("lb", thrift.LIST, 3, func() error {
				if err := o.WriteListBegin(thrift.STRING, len(p.LB)); err != nil {
					return err
				}
				for _, e := range p.LB {
					if err := o.WriteBinary(e); err != nil {
						return err
					}
				}
				return o.WriteListEnd()
			})
		},
		func() error {
			return w("si", thrift.SET, 4, func() error {
				if err := o.WriteSetBegin(thrift.I32, len(p.SI)); err != nil {
					return err
				}
				for _, e := range p.SI {
					if err := o.WriteI32(e); err != nil {
						return err
					}
				}
				return o.WriteSetEnd()
			})
		},
		func() error {
			return w("m", thrift.MAP, 5, func() error {
				if err := o.WriteMapBegin(thrift.STRING, thrift.STRING, len(p.M)); err != nil {
					return err
				}
				keys := make([]string, 0, len(p.M))
				for k := range p.M {
					keys = append(keys, k)
				}
				sort.Strings(keys)
				for _, k := range keys {
					if err := o.WriteString(k); err != nil {
						return err
					}
					if err := o.WriteBinary(p.M[k]); err != nil {
						return err
					}
				}
				return o.WriteMapEnd()
			})
		},
		func() error {
			if p.N == nil {
				return nil
			}
			return w("n", thrift.STRUCT, 6, func() error { return p.N.Write(o) })
		},
		func() error {
			return w("ll", thrift.LIST, 7, func() error {
				if err := o.WriteListBegin(thrift.I64, len(p.LL)); err != nil {
					return err
				}
				for _, e := range p.LL {
					if err := o.WriteI64(e); err != nil {
						return err
					}
				}
				return o.WriteListEnd()
			})
		},
		func() error {
			return w("mm", thrift.MAP, 8, func() error {
				if err := o.WriteMapBegin(thrift.I32, thrift.LIST, len(p.MM)); err != nil {
					return err
				}
				keys := make([]int, 0, len(p.MM))
				for k := range p.MM {
					keys = append(keys, int(k))
				}
				sort.Ints(keys)
				for _, k := range keys {
					if err := o.WriteI32(int32(k)); err != nil {
						return err
					}
					l := p.MM[int32(k)]
					if err := o.WriteListBegin(thrift.STRING, len(l)); err != nil {
						return err
					}
					for _, s := range l {
						if err := o.WriteString(s); err != nil {
							return err
						}
					}
					if err := o.WriteListEnd(); err != nil {
						return err
					}
				}
				return o.WriteMapEnd()
			})
		},
		func() error { return w("ob", thrift.STRING, 9, func() error { return o.WriteBinary(p.OB) }) },
	}
	for _, s := range steps {
		if err := s(); err != nil {
			return err
		}
	}
	if err := o.WriteFieldStop(); err != nil {
		return err
	}
	return o.WriteStructEnd()
}

func genTStruct(t *rapid.T, label string) *vt.TStruct {
	return &vt.TStruct{S: jsonString(t, label+".S", 40), I: extremeInt64(t, label+".I"), B: vt.Bytes(t, label+".B", 60), Ok: rapid.Bool().Draw(t, label+".ok"),
		L: rapid.SliceOfN(rapid.StringN(0, 6, 12), 0, 4).Draw(t, label+".L"), D: finiteFloat(t, label+".D"), I32: rapid.Int32().Draw(t, label+".I32")}
}

func genTRich(t *rapid.T) *tRich {
	v := &tRich{S: jsonString(t, "r.S", 30), B: vt.Bytes(t, "r.B", 60), OB: vt.Bytes(t, "r.OB", 20),
		SI: rapid.SliceOfN(rapid.Int32(), 0, 4).Draw(t, "r.SI"), LL: rapid.SliceOfN(rapid.Int64(), 0, 4).Draw(t, "r.LL")}
	n := rapid.IntRange(0, 3).Draw(t, "r.nLB")
	for i := 0; i < n; i++ {
		v.LB = append(v.LB, vt.Bytes(t, "r.LB", 20))
	}
	n = rapid.IntRange(0, 3).Draw(t, "r.nM")
	v.M = map[string][]byte{}
	for i := 0; i < n; i++ {
		v.M[rapid.StringN(0, 5, 10).Draw(t, "r.Mk")] = vt.Bytes(t, "r.Mv", 20)
	}
	if rapid.Bool().Draw(t, "r.hasN") {
		v.N = genTStruct(t, "r.N")
	}
	n = rapid.IntRange(0, 2).Draw(t, "r.nMM")
	v.MM = map[int32][]string{}
	for i := 0; i < n; i++ {
		v.MM[rapid.Int32().Draw(t, "r.MMk")] = rapid.SliceOfN(rapid.StringN(0, 5, 10), 0, 3).Draw(t, "r.MMv")
	}
	return v
}

// ---- locating the fields --------------------------------------------------------------------

// numField is one length / count / type / numeric field of an encoding.
type numField struct {
	off, n int    // the bytes in[off:off+n] hold the field
	kind   string // what it is (class label)
	cur    uint64 // its present value
	room   int    // bytes of the encoding behind the field
}

// thriftWalk parses a TBinaryProtocol (non-strict) struct encoding and returns every length,
// element-count and type byte in it. ok reports that the whole input was one well-formed struct.
func thriftWalk(in []byte) (fs []numField, ok bool) {
	pos := 0
	bad := false
	need := func(n int) bool {
		if bad || n < 0 || pos+n > len(in) {
			bad = true
			return false
		}
		return true
	}
	u32 := func(kind string) int {
		if !need(4) {
			return 0
		}
		v := binary.BigEndian.Uint32(in[pos:])
		fs = append(fs, numField{off: pos, n: 4, kind: kind, cur: uint64(v), room: len(in) - pos - 4})
		pos += 4
		if v > uint32(len(in)) {
			bad = true
			return 0
		}
		return int(v)
	}
	tbyte := func(kind string) thrift.TType {
		if !need(1) {
			return 0
		}
		b := in[pos]
		fs = append(fs, numField{off: pos, n: 1, kind: kind, cur: uint64(b), room: len(in) - pos - 1})
		pos++
		return thrift.TType(b)
	}
	var value func(tt thrift.TType, depth int)
	var strct func(depth int)
	value = func(tt thrift.TType, depth int) {
		if bad || depth > 16 {
			bad = true
			return
		}
		switch tt {
		case thrift.BOOL, thrift.BYTE:
			if need(1) {
				pos++
			}
		case thrift.I16:
			if need(2) {
				pos += 2
			}
		case thrift.I32:
			if need(4) {
				pos += 4
			}
		case thrift.I64, thrift.DOUBLE:
			if need(8) {
				pos += 8
			}
		case thrift.STRING:
			n := u32("thrift-strlen")
			if need(n) {
				pos += n
			}
		case thrift.STRUCT:
			strct(depth + 1)
		case thrift.MAP:
			kt := tbyte("thrift-ktype")
			vtp := tbyte("thrift-vtype")
			n := u32("thrift-mapsize")
			for i := 0; i < n && !bad; i++ {
				value(kt, depth+1)
				value(vtp, depth+1)
			}
		case thrift.SET:
			et := tbyte("thrift-etype")
			n := u32("thrift-setsize")
			for i := 0; i < n && !bad; i++ {
				value(et, depth+1)
			}
		case thrift.LIST:
			et := tbyte("thrift-etype")
			n := u32("thrift-listsize")
			for i := 0; i < n && !bad; i++ {
				value(et, depth+1)
			}
		default:
			bad = true
		}
	}
	strct = func(depth int) {
		for !bad {
			ft := tbyte("thrift-ftype")
			if bad || ft == thrift.STOP {
				return
			}
			if !need(2) {
				return
			}
			pos += 2
			value(ft, depth)
		}
	}
	strct(0)
	return fs, !bad && pos == len(in)
}

func uvarint(in []byte, pos int) (v uint64, n int) {
	v, n = binary.Uvarint(in[pos:])
	return
}

// pbWalk parses a protobuf message (top level) and returns its tag varints, varint values and
// the lengths of its length-delimited fields.
func pbWalk(in []byte) (fs []numField, ok bool) {
	pos := 0
	for pos < len(in) {
		tag, n := uvarint(in, pos)
		if n <= 0 {
			return fs, false
		}
		fs = append(fs, numField{off: pos, n: n, kind: "pb-tag", cur: tag, room: len(in) - pos - n})
		pos += n
		switch tag & 7 {
		case 0:
			v, n := uvarint(in, pos)
			if n <= 0 {
				return fs, false
			}
			fs = append(fs, numField{off: pos, n: n, kind: "pb-varint", cur: v, room: len(in) - pos - n})
			pos += n
		case 1:
			pos += 8
		case 5:
			pos += 4
		case 2:
			v, n := uvarint(in, pos)
			if n <= 0 {
				return fs, false
			}
			fs = append(fs, numField{off: pos, n: n, kind: "pb-len", cur: v, room: len(in) - pos - n})
			pos += n
			if v > uint64(len(in)-pos) {
				return fs, false
			}
			pos += int(v)
		default:
			return fs, false
		}
		if pos > len(in) {
			return fs, false
		}
	}
	return fs, true
}

// textWalk returns the maximal runs of decimal digits (with a leading '-' if there is one) of a
// textual encoding: the numeric tokens of json / xml / form / plain bodies.
func textWalk(in []byte) (fs []numField) {
	for i := 0; i < len(in); {
		if in[i] < '0' || in[i] > '9' {
			i++
			continue
		}
		j := i
		for j < len(in) && in[j] >= '0' && in[j] <= '9' {
			j++
		}
		s := i
		if s > 0 && in[s-1] == '-' {
			s--
		}
		fs = append(fs, numField{off: s, n: j - s, kind: "text-number", room: len(in) - j})
		i = j
	}
	return fs
}

// window32 returns the unaligned 4-byte windows whose big-endian value is a plausible length
// (1..len): the parser-free way of finding length fields, which also finds the ones a walker
// with a wrong idea of the format would miss.
func window32(in []byte) (fs []numField) {
	for i := 0; i+4 <= len(in); i++ {
		if v := binary.BigEndian.Uint32(in[i:]); v > 0 && int(v) <= len(in) {
			fs = append(fs, numField{off: i, n: 4, kind: "window-be32", cur: uint64(v), room: len(in) - i - 4})
		}
	}
	return fs
}

// ---- boundary values ------------------------------------------------------------------------

func valueClass32(v uint32, cur uint64, room int) string {
	switch {
	case v&0x80000000 != 0:
		return "negative"
	case uint64(v) == cur:
		return "same"
	case v == 0:
		return "zero"
	case int(v) > room:
		if v >= 1<<24 {
			return "huge"
		}
		return "over"
	case uint64(v) < cur:
		return "under"
	}
	return "fits"
}

// be32Value draws the replacement of a 4-byte big-endian length / count.
func be32Value(t *rapid.T, f numField) uint32 {
	cur := uint32(f.cur)
	room := uint32(f.room)
	cands := []uint32{
		0, 1, cur - 1, cur + 1, cur + 2, cur * 2, room, room + 1, room - 1,
		0x7fffffff, 0x7ffffff0, 0x40000000, 0x01000000, 0x00ffffff, 0x00010000,
		0x80000000, 0x80000001, 0xffffffff, 0xfffffffe, 0xfffffff0, 0xffff0000,
		cur | 0x80000000, -cur, ^cur, room | 0x80000000,
		cur<<24 | cur>>8, // the little-endian reading of a small length
	}
	if rapid.IntRange(0, 7).Draw(t, "lv.any") == 0 {
		return rapid.Uint32().Draw(t, "lv.u32")
	}
	return rapid.SampledFrom(cands).Draw(t, "lv.b32")
}

func putUvarint(v uint64) []byte {
	var b [binary.MaxVarintLen64]byte
	return append([]byte(nil), b[:binary.PutUvarint(b[:], v)]...)
}

// varintForm draws the replacement of a varint (a length, a scalar or a tag): boundary values in
// their minimal encoding, over-long encodings, encodings that overflow 64 bits and unterminated ones.
func varintForm(t *rapid.T, f numField) ([]byte, string) {
	cur := f.cur
	room := uint64(f.room)
	switch rapid.SampledFrom([]string{"value", "value", "value", "overlong", "overflow", "unterminated"}).Draw(t, "vf.form") {
	case "overlong":
		// the present value (or a boundary) padded with continuation bytes up to 10 bytes and beyond
		v := rapid.SampledFrom([]uint64{cur, 0, 1, room + 1}).Draw(t, "vf.olv")
		b := putUvarint(v)
		total := rapid.IntRange(len(b)+1, 12).Draw(t, "vf.oll")
		b[len(b)-1] |= 0x80
		for len(b) < total-1 {
			b = append(b, 0x80)
		}
		return append(b, 0x00), "overlong"
	case "overflow":
		// ten or more bytes whose value does not fit 64 bits
		n := rapid.IntRange(9, 12).Draw(t, "vf.ofl")
		b := bytes.Repeat([]byte{0xff}, n)
		return append(b, rapid.SampledFrom([]byte{0x01, 0x02, 0x7f}).Draw(t, "vf.oflast")), "overflow"
	case "unterminated":
		n := rapid.IntRange(1, 11).Draw(t, "vf.utl")
		return bytes.Repeat([]byte{rapid.SampledFrom([]byte{0x80, 0xff}).Draw(t, "vf.utb")}, n), "unterminated"
	}
	cands := []uint64{
		0, 1, cur - 1, cur + 1, cur * 2, room, room + 1, room - 1,
		1<<31 - 1, 1 << 31, 1<<31 + 1, 1<<32 - 1, 1 << 32, 1<<32 + 1,
		1<<63 - 1, 1<<63 - 2, 1<<63 - 16, 1<<63 - 1 - room, 1<<63 - 1 - uint64(f.off), 1 << 63, 1<<63 + 1, 1<<64 - 1, 1<<64 - 2, 1<<64 - 16,
		cur | 1<<31, cur | 1<<63, cur | 1<<32, -cur, 127, 128, 16383, 16384,
	}
	v := rapid.SampledFrom(cands).Draw(t, "vf.v")
	if rapid.IntRange(0, 7).Draw(t, "vf.any") == 0 {
		v = rapid.Uint64().Draw(t, "vf.u64")
	}
	cls := "fits"
	switch {
	case v == cur:
		cls = "same"
	case v >= 1<<63:
		cls = "negative64"
	case v >= 1<<31:
		cls = "over-int32"
	case v == 0:
		cls = "zero"
	case v > room:
		cls = "over"
	case v < cur:
		cls = "under"
	}
	return putUvarint(v), cls
}

// pbTagForm draws a replacement for a field tag: other wire types of the same field (groups and
// the two undefined ones included), field number 0, very large field numbers.
func pbTagForm(t *rapid.T, f numField) ([]byte, string) {
	if rapid.Bool().Draw(t, "tag.asvarint") {
		return varintForm(t, f)
	}
	fieldNo := f.cur >> 3
	switch rapid.IntRange(0, 2).Draw(t, "tag.kind") {
	case 0:
		wt := uint64(rapid.IntRange(0, 7).Draw(t, "tag.wt"))
		return putUvarint(fieldNo<<3 | wt), fmt.Sprintf("wiretype-%d", wt)
	case 1:
		return putUvarint(f.cur & 7), "fieldno-0"
	}
	no := rapid.SampledFrom([]uint64{1<<29 - 1, 1 << 29, 1<<32 - 1, 1<<61 - 1, 19000}).Draw(t, "tag.no")
	return putUvarint(no<<3 | f.cur&7), "fieldno-huge"
}

var textNumbers = []string{
	"", "0", "-0", "00", "-1", "1", "127", "128", "-128", "-129", "255", "256", "32767", "32768", "-32769", "65535", "65536",
	"2147483647", "2147483648", "-2147483648", "-2147483649", "4294967295", "4294967296",
	"9007199254740993", "9223372036854775807", "9223372036854775808", "-9223372036854775808", "-9223372036854775809",
	"18446744073709551615", "18446744073709551616", "340282366920938463463374607431768211456",
	"1e400", "-1e400", "1e-400", "1e38", "4e38", "1e308", "2e308", "1E5", "1.5", "1.", ".5", "-", "+1", "0x10", "0b1", "0o7", "1_000",
	"NaN", "Inf", "-Inf", "Infinity", "true", "null", "1e", "1e+", "--1", "１２３",
}

func textNumber(t *rapid.T) (string, string) {
	switch rapid.IntRange(0, 9).Draw(t, "tn.kind") {
	case 0:
		n := rapid.SampledFrom([]int{19, 20, 21, 40, 309, 310, 400, 1100, 5000}).Draw(t, "tn.digits")
		d := rapid.SampledFrom([]string{"9", "1", "0"}).Draw(t, "tn.digit")
		sign := rapid.SampledFrom([]string{"", "-"}).Draw(t, "tn.sign")
		return sign + strings.Repeat(d, n), "long-digits"
	case 1:
		e := rapid.SampledFrom([]string{"e", "E", "e-", "e+"}).Draw(t, "tn.e")
		n := rapid.SampledFrom([]int{1, 3, 5, 10, 19, 20, 400}).Draw(t, "tn.expdigits")
		return "1" + e + strings.Repeat("9", n), "long-exponent"
	}
	return rapid.SampledFrom(textNumbers).Draw(t, "tn.v"), "boundary"
}

// ---- the mutation ---------------------------------------------------------------------------

type lenEdit struct {
	off, n int
	repl   []byte
	kind   string
	class  string
}

// lenFields locates the fields of an encoding of the named codec. walked reports whether the
// format-aware parser (rather than the window search) found them and accepted the whole input.
func lenFields(codecName string, enc []byte) (fs []numField, walked bool) {
	switch codecName {
	case "thrift":
		fs, walked = thriftWalk(enc)
	case "protobuf":
		fs, walked = pbWalk(enc)
	default:
		return textWalk(enc), true
	}
	return fs, walked
}

// lenMutate overwrites one or two (seldom three) located fields of a valid encoding with
// boundary values. It returns the new input and the classes of what was done.
func lenMutate(t *rapid.T, codecName string, enc []byte) ([]byte, []string) {
	fs, _ := lenFields(codecName, enc)
	if codecName == "thrift" && rapid.IntRange(0, 5).Draw(t, "lm.window") == 0 {
		// parser-free: any window that reads as a plausible length
		fs = window32(enc)
	}
	if len(fs) == 0 {
		return append([]byte(nil), enc...), []string{"len=none"}
	}
	nEdits := rapid.SampledFrom([]int{1, 1, 1, 1, 2, 2, 3}).Draw(t, "lm.n")
	var edits []lenEdit
	used := map[int]bool{}
	for i := 0; i < nEdits; i++ {
		// length and count fields are what this class is about; type bytes and tags less often.
		// The kind is drawn first, so that the one map header of an encoding is met as often
		// as its many string lengths.
		wantLen := rapid.IntRange(0, 3).Draw(t, "lm.wantlen") != 0
		byKind := map[string][]int{}
		var kinds, anyKinds []string
		byAny := map[string][]int{}
		for k, f := range fs {
			if used[k] {
				continue
			}
			if len(byAny[f.kind]) == 0 {
				anyKinds = append(anyKinds, f.kind)
			}
			byAny[f.kind] = append(byAny[f.kind], k)
			isLen := !strings.HasSuffix(f.kind, "type") && f.kind != "pb-tag"
			if isLen == wantLen {
				if len(byKind[f.kind]) == 0 {
					kinds = append(kinds, f.kind)
				}
				byKind[f.kind] = append(byKind[f.kind], k)
			}
		}
		if len(kinds) == 0 {
			kinds, byKind = anyKinds, byAny
		}
		if len(kinds) == 0 {
			break
		}
		sort.Strings(kinds)
		pool := byKind[rapid.SampledFrom(kinds).Draw(t, "lm.kind")]
		k := rapid.SampledFrom(pool).Draw(t, "lm.field")
		used[k] = true
		f := fs[k]
		e := lenEdit{off: f.off, n: f.n, kind: f.kind}
		switch {
		case f.kind == "text-number":
			var s string
			s, e.class = textNumber(t)
			e.repl = []byte(s)
		case f.kind == "pb-tag":
			e.repl, e.class = pbTagForm(t, f)
		case strings.HasPrefix(f.kind, "pb-"):
			e.repl, e.class = varintForm(t, f)
		case f.n == 1:
			b := rapid.SampledFrom([]byte{0, 1, 2, 3, 4, 5, 6, 7, 8, 9, 10, 11, 12, 13, 14, 15, 16, 17, 0x7f, 0x80, 0xff}).Draw(t, "lm.type")
			e.repl, e.class = []byte{b}, "type"
		default:
			v := be32Value(t, f)
			e.repl = make([]byte, 4)
			binary.BigEndian.PutUint32(e.repl, v)
			e.class = valueClass32(v, f.cur, f.room)
		}
		edits = append(edits, e)
	}
	// apply from the back so that offsets of earlier fields stay valid; overlapping windows
	// (window search) simply overwrite each other
	sort.Slice(edits, func(i, j int) bool { return edits[i].off > edits[j].off })
	out := append([]byte(nil), enc...)
	var classes []string
	for _, e := range edits {
		if e.off+e.n > len(out) {
			continue
		}
		out = append(out[:e.off], append(append([]byte(nil), e.repl...), out[e.off+e.n:]...)...)
		classes = append(classes, "len="+e.kind+":"+e.class)
	}
	return out, classes
}

// ---- destinations ---------------------------------------------------------------------------

type lenGuard struct {
	pre  [4]uint64
	R    tRich
	RD   tRich // used before
	TE   codec.ThriftEmpty
	BM   benchmsg.BenchmarkMessage
	PE   codec.PbEmpty
	post [4]uint64
}

func newLenGuard() *lenGuard {
	g := &lenGuard{}
	for i := range g.pre {
		g.pre[i], g.post[i] = canary, canary
	}
	g.RD = tRich{S: "old", B: []byte("old"), LB: [][]byte{[]byte("old")}, SI: []int32{1}, M: map[string][]byte{"old": []byte("old")},
		N: &vt.TStruct{S: "old", B: []byte("old"), L: []string{"old"}}, LL: []int64{1}, MM: map[int32][]string{1: {"old"}}, OB: []byte("old")}
	return g
}

func (g *lenGuard) ok() bool {
	for i := range g.pre {
		if g.pre[i] != canary || g.post[i] != canary {
			return false
		}
	}
	return true
}

// lenDests is dests plus, for the two binary codecs, destinations with every length-prefixed
// field kind (thrift: binary, string, list, set, map, nested struct; the empty struct, which
// skips everything) and the repository's largest protobuf message.
func lenDests(g *guard, lg *lenGuard, codecName string) []interface{} {
	ds := append([]interface{}(nil), dests(g)[codecName]...)
	switch codecName {
	case "thrift":
		ds = append(ds, &lg.R, &lg.RD, &lg.TE)
	case "protobuf":
		ds = append(ds, &lg.BM, &lg.PE)
	}
	return ds
}

// lenEncoding is a valid encoding of a generated value of the named codec; for thrift and
// protobuf of one of several message types, so that fields are also met by destinations that
// declare them with another type or not at all (skip paths).
func lenEncoding(t *rapid.T, codecName string) ([]byte, string) {
	c := mustCodec(t, codecName)
	var v interface{}
	src := codecName
	switch codecName {
	case "thrift":
		if rapid.Bool().Draw(t, "le.rich") {
			v, src = genTRich(t), "tRich"
		} else {
			v, src = genTStruct(t, "le.ts"), "TStruct"
		}
	case "protobuf":
		switch rapid.IntRange(0, 4).Draw(t, "le.pb") {
		case 0:
			v, src = &ppb.Payload{Seq: rapid.Int32().Draw(t, "seq"), Mtype: rapid.Int32Range(0, 5).Draw(t, "mt"), ServiceMethod: jsonString(t, "sm", 30),
				Status: vt.Bytes(t, "st", 30), Meta: vt.Bytes(t, "me", 30), BodyCodec: rapid.Int32Range(0, 255).Draw(t, "bc"), Body: vt.Bytes(t, "bo", 200)}, "ppb.Payload"
		case 1:
			v, src = &wspb.Payload{Seq: rapid.Int32().Draw(t, "seq"), Mtype: 1, ServiceMethod: jsonString(t, "sm", 30), Meta: vt.Bytes(t, "me", 30),
				Body: vt.Bytes(t, "bo", 200), XferPipe: vt.Bytes(t, "xp", 6)}, "wspb.Payload"
		case 2:
			v, src = &secure.Encrypt{Cipherversion: jsonString(t, "cv", 10), Ciphertext: jsonString(t, "ct", 200)}, "secure.Encrypt"
		case 3:
			v, src = &expb.PbTest{A: rapid.Int32().Draw(t, "a"), B: rapid.Int32().Draw(t, "b")}, "PbTest"
		default:
			tr := true
			i32 := rapid.Int32().Draw(t, "f6")
			s := jsonString(t, "f129", 20)
			v, src = &benchmsg.BenchmarkMessage{Field1: jsonString(t, "f1", 30), Field2: rapid.Int32().Draw(t, "f2"), Field3: rapid.Int32().Draw(t, "f3"),
				Field4: jsonString(t, "f4", 30), Field5: rapid.SliceOfN(rapid.Uint64(), 0, 4).Draw(t, "f5"), Field6: &i32, Field80: &tr, Field22: rapid.Int64().Draw(t, "f22"),
				Field129: &s, Field280: rapid.Int32().Draw(t, "f280")}, "BenchmarkMessage"
		}
	case "json":
		v = genJS(t)
	case "xml":
		v = genXS(t)
	case "form":
		v = genFS(t)
	case "plain":
		switch rapid.IntRange(0, 2).Draw(t, "le.plain") {
		case 0:
			v = extremeInt64(t, "pi")
		case 1:
			v = finiteFloat(t, "pf")
		default:
			v = fmt.Sprint(rapid.Int32().Draw(t, "ps"))
		}
	}
	b, err := c.Marshal(v)
	if err != nil {
		t.Fatalf("harness: marshal valid %s (%s): %v", codecName, src, err)
	}
	return b, src
}

// ---- lengths whose end offset overflows int (defect #33 of DESIGN.md section 6, fixed in /repo) ----

// pbWrapVarint reads a varint the way the generated decoders do (shifts wrap at 64 bits).
func pbWrapVarint(in []byte, pos int) (v uint64, ok bool) {
	for shift := uint(0); shift < 64; shift += 7 {
		if pos >= len(in) {
			return 0, false
		}
		b := in[pos]
		pos++
		v |= uint64(b&0x7f) << shift
		if b < 0x80 {
			return v, true
		}
	}
	return 0, false
}

// pbHoldsOverflowLength reports whether a varint readable at any offset of in is a length whose
// addition to an offset within in (plus some slack) exceeds MaxInt64 without being negative itself.
func pbHoldsOverflowLength(in []byte) bool {
	const maxInt64 = 1<<63 - 1
	for i := range in {
		if v, ok := pbWrapVarint(in, i); ok && v <= maxInt64 && v > maxInt64-uint64(len(in))-64 {
			return true
		}
	}
	return false
}

// ---- the check ------------------------------------------------------------------------------

func TestC11LengthFields(t *testing.T) {
	rec := vt.NewRec(t, "C11", "lengthfields", "decoder input = a valid encoding of a generated value (thrift: TStruct or a struct with binary, string, list<binary>, set, map<string,binary>, map<i32,list<string>>, nested struct; protobuf: five message types; json/xml/form structs; plain scalars) in which 1-3 fields located by the harness' own parsers of the formats - thrift binary/string lengths, list/set/map counts, element/field type bytes (or any 4-byte window that reads as a plausible length); protobuf length prefixes, varint scalars and tags; the decimal tokens of the text codecs - are overwritten with boundary values (0, 1, cur+-1, bytes left +-1, 2^31-1, 2^31, 2^32-1, 0xfffffff0, cur|2^31, -cur, little-endian reading; varints 2^31, 2^32-1, 2^63, 2^64-1, over-long, overflowing and unterminated forms; other wire types and field numbers; numerals around every integer width, huge exponents, thousands of digits), decoded into every destination type between canary words, destinations with a binary field and the empty struct (skip path) included; oracle: no panic out of the codec, canaries intact, bytes of a []byte destination beyond its capacity untouched; the unmodified encoding must be accepted by the harness parser in full (harness self-check); non-trivial = at least one field was replaced by a different value; distinct by (codec, destination, input)")
	names := []string{"thrift", "thrift", "thrift", "protobuf", "protobuf", "json", "xml", "form", "plain"}
	rapid.Check(t, func(t *rapid.T) {
		vt.Init()
		name := rapid.SampledFrom(names).Draw(t, "codec")
		c := mustCodec(t, name)
		enc, src := lenEncoding(t, name)
		if _, walked := lenFields(name, enc); !walked {
			t.Fatalf("harness: the %s parser of the harness does not accept the valid encoding of a %s: %x", name, src, enc)
		}
		in, classes := lenMutate(t, name, enc)
		g, lg := newGuard(), newLenGuard()
		ds := lenDests(g, lg, name)
		di := rapid.IntRange(0, len(ds)-1).Draw(t, "dst")
		dst := ds[di]
		if name == "protobuf" && pbHoldsOverflowLength(in) {
			rec.Class("protobuf-length-overflowing-int", 1)
		}
		backing := bytes.Repeat([]byte{0xA5}, 64)
		if bp, ok := dst.(*[]byte); ok {
			*bp = backing[8:12:24]
		}
		if bp, ok := dst.(*NBytes); ok {
			*bp = NBytes(backing[8:12:24])
		}
		nt := !bytes.Equal(in, enc)
		cl := append([]string{"codec=" + name, "source=" + src, fmt.Sprintf("dest=%T", dst)}, classes...)
		rec.Case(fmt.Sprintf("%s|%d|%x", name, di, in), nt, cl...)
		if rec.WantSample() && nt {
			rec.Sample(map[string]string{"codec": name, "source": src, "dest": fmt.Sprintf("%T", dst), "valid": vt.Hex(enc), "input": vt.Hex(in), "edits": strings.Join(classes, " ")})
		}
		data := append([]byte(nil), in...)
		func() {
			defer func() {
				if p := recover(); p != nil {
					t.Fatalf("C11 violated: %s: Unmarshal into %T panicked out of the codec: %v\nvalid encoding of a %s: %x\nedits: %v\ninput: %x", name, dst, p, src, enc, classes, in)
				}
			}()
			_ = c.Unmarshal(data, dst)
		}()
		if !g.ok() || !lg.ok() {
			t.Fatalf("C11 violated: %s: Unmarshal into %T wrote outside the destination (canary changed); input %x", name, dst, in)
		}
		for i, b := range backing {
			if (i < 8 || i >= 24) && b != 0xA5 {
				t.Fatalf("C11 violated: %s: Unmarshal into %T wrote outside the destination slice's capacity at backing[%d]; input %x", name, dst, i, in)
			}
		}
	})
}
