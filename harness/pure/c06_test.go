package pure

import (
	"encoding/binary"
	"fmt"
	"runtime"
	"testing"

	"pgregory.net/rapid"

	"verifharness/vt"
)

// C06 at the body-codec level: the body of a received message is handed to a body codec; a
// body of n bytes that merely *announces* a large length or element count must not make the
// receiver allocate what it announces.

func announceInto(t *rapid.T, enc []byte) ([]byte, string) {
	in := append([]byte(nil), enc...)
	if len(in) < 4 {
		in = append(in, 0, 0, 0, 0)
	}
	off := rapid.IntRange(0, len(in)-4).Draw(t, "off")
	// half the time aim at a window that looks like a length field: its big-endian value is a
	// plausible length (non-zero, not larger than the encoding)
	if rapid.Bool().Draw(t, "aim") {
		var cands []int
		for i := 0; i+4 <= len(in); i++ {
			if v := binary.BigEndian.Uint32(in[i:]); v > 0 && int(v) <= len(in) {
				cands = append(cands, i)
			}
		}
		if len(cands) > 0 {
			off = rapid.SampledFrom(cands).Draw(t, "lenfield")
		}
	}
	switch rapid.SampledFrom([]string{"be32", "be32", "varint", "le32"}).Draw(t, "form") {
	case "be32":
		v := rapid.SampledFrom([]uint32{0x7fffffff, 0x7a000001, 1 << 30, 1 << 28, 1 << 26, 0x14000001}).Draw(t, "v")
		binary.BigEndian.PutUint32(in[off:], v)
		return in, "announce-be32"
	case "le32":
		v := rapid.SampledFrom([]uint32{0x7fffffff, 1 << 30, 1 << 28, 1 << 26}).Draw(t, "v")
		binary.LittleEndian.PutUint32(in[off:], v)
		return in, "announce-le32"
	default:
		// a protobuf-style varint of ~2^30 in place of a length
		copy(in[off:], []byte{0xff, 0xff, 0xff, 0xff})
		in = append(in[:off+4], append([]byte{0x03}, in[off+4:]...)...)
		return in, "announce-varint"
	}
}

func TestC06BodyCodecAlloc(t *testing.T) {
	rec := vt.NewRec(t, "C06", "bodycodec/alloc", "a body of n bytes (mutated valid encoding | valid encoding with a 4-byte window overwritten by a big-endian / little-endian / varint value of 2^26..2^31-1 at a generated offset, half the time aimed at a window whose value is a plausible length | random) decoded by every built-in body codec into every destination type; oracle: bytes allocated around one Unmarshal <= 32*n + 24 MiB (what is announced is >= 64 MiB) and no panic out of the codec; non-trivial = the input is derived from a valid encoding; distinct by (codec, destination, input)")
	names := []string{"json", "xml", "form", "plain", "protobuf", "thrift"}
	rapid.Check(t, func(t *rapid.T) {
		name := rapid.SampledFrom(names).Draw(t, "codec")
		c := mustCodec(t, name)
		var in []byte
		cls := rapid.SampledFrom([]string{"announce", "announce", "announce", "mutated", "random"}).Draw(t, "inputclass")
		switch cls {
		case "announce":
			in, cls = announceInto(t, validEncoding(t, name))
		case "mutated":
			in = mutate(t, validEncoding(t, name))
		default:
			in = vt.Bytes(t, "in", 300)
		}
		g := newGuard()
		ds := dests(g)[name]
		di := rapid.IntRange(0, len(ds)-1).Draw(t, "dst")
		dst := ds[di]
		rec.Case(fmt.Sprintf("%s|%d|%x", name, di, in), cls != "random", "codec="+name, "input="+cls)
		if rec.WantSample() && cls != "random" {
			rec.Sample(map[string]string{"codec": name, "dest": fmt.Sprintf("%T", dst), "input": vt.Hex(in), "class": cls})
		}
		data := append([]byte(nil), in...)
		var m0, m1 runtime.MemStats
		runtime.ReadMemStats(&m0)
		func() {
			defer func() {
				if p := recover(); p != nil {
					t.Fatalf("%s: Unmarshal into %T panicked out of the codec: %v\ninput (%s): %x", name, dst, p, cls, in)
				}
			}()
			_ = c.Unmarshal(data, dst)
		}()
		runtime.ReadMemStats(&m1)
		alloc := m1.TotalAlloc - m0.TotalAlloc
		if b := vt.AllocBound(uint32(len(in)), len(in)); alloc > b {
			t.Fatalf("%s: decoding a %d-byte body into %T allocated %d bytes (bound %d); input (%s): %x", name, len(in), dst, alloc, b, cls, in)
		}
	})
}
