package pure

import (
	"bytes"
	"fmt"
	"strings"
	"testing"

	"github.com/henrylee2cn/erpc/v6/codec"
	"github.com/henrylee2cn/erpc/v6/mixer/websocket/jsonSubProto"
	"github.com/henrylee2cn/erpc/v6/mixer/websocket/pbSubProto"
	wspb "github.com/henrylee2cn/erpc/v6/mixer/websocket/pbSubProto/pb"
	"github.com/henrylee2cn/erpc/v6/proto/jsonproto"
	"github.com/henrylee2cn/erpc/v6/proto/pbproto"
	"github.com/henrylee2cn/erpc/v6/socket"
	"github.com/henrylee2cn/erpc/v6/xfer"
	"pgregory.net/rapid"

	"verifharness/vt"
)

func genPayload(t *rapid.T, max int) []byte {
	switch rapid.IntRange(0, 5).Draw(t, "payclass") {
	case 0:
		return []byte{}
	case 1:
		return []byte{rapid.Byte().Draw(t, "b")}
	case 2: // highly compressible
		n := rapid.IntRange(1, max).Draw(t, "n")
		return bytes.Repeat([]byte{rapid.Byte().Draw(t, "rb")}, n)
	case 3: // incompressible-ish
		n := rapid.IntRange(1, max).Draw(t, "n")
		b := make([]byte, n)
		x := rapid.Uint32().Draw(t, "seed") | 1
		for i := range b {
			x ^= x << 13
			x ^= x >> 17
			x ^= x << 5
			b[i] = byte(x)
		}
		return b
	default:
		return vt.Bytes(t, "pay", max)
	}
}

func genFilterPipe(t *rapid.T) []byte {
	switch rapid.IntRange(0, 9).Draw(t, "pipeclass") {
	case 0:
		return nil
	case 1, 2:
		return rapid.SliceOfN(rapid.SampledFrom(vt.RegisteredXfer), 1, 2).Draw(t, "pipe")
	case 3, 4, 5, 6:
		return rapid.SliceOfN(rapid.SampledFrom(vt.RegisteredXfer), 2, 5).Draw(t, "pipe")
	case 7:
		return rapid.SliceOfN(rapid.SampledFrom(vt.RegisteredXfer), 6, 40).Draw(t, "pipe")
	default:
		n := rapid.SampledFrom([]int{200, 254, 255}).Draw(t, "plen")
		return rapid.SliceOfN(rapid.SampledFrom(vt.RegisteredXfer), n, n).Draw(t, "pipe")
	}
}

func distinctFilters(p []byte) int {
	m := map[byte]bool{}
	for _, b := range p {
		m[b] = true
	}
	return len(m)
}

func mkPipe(t *rapid.T, ids []byte) *xfer.XferPipe {
	p := xfer.NewXferPipe()
	if err := p.Append(ids...); err != nil {
		t.Fatalf("Append of registered ids %x failed: %v", ids, err)
	}
	return p
}

// TestC12Invert: OnUnpack(OnPack(x)) == x for every pipe and payload, and the
// id list is reconstructed from a frame alone.
func TestC12Invert(t *testing.T) {
	rec := vt.NewRec(t, "C12", "invert", "pipe over the registered filters (gzip at 3 levels, md5; repeats; length 0..255) x payload class (empty, 1 byte, compressible, incompressible, mixed); oracle OnUnpack(OnPack(x)) == x and the receiver rebuilds the same pipe from a raw-protocol frame; non-trivial = pipe length >= 2 with two different filters")
	rapid.Check(t, func(t *rapid.T) {
		vt.Init()
		ids := genFilterPipe(t)
		max := 5000
		if len(ids) > 8 {
			max = 200
		}
		pay := genPayload(t, max)
		nt := len(ids) >= 2 && distinctFilters(ids) >= 2
		rec.Case(fmt.Sprintf("%x|%x", ids, pay), nt, fmt.Sprintf("pipelen<=%d", bucket(len(ids))))
		if rec.WantSample() && nt {
			rec.Sample(map[string]string{"pipe": string(ids), "payload": vt.Hex(pay)})
		}
		p := mkPipe(t, ids)
		if !bytes.Equal(p.IDs(), ids) || p.Len() != len(ids) {
			t.Fatalf("pipe ids: got %x want %x", p.IDs(), ids)
		}
		orig := append([]byte(nil), pay...)
		packed, err := p.OnPack(append(make([]byte, 0, len(pay)), pay...))
		if err != nil {
			t.Fatalf("OnPack(%x) failed: %v", ids, err)
		}
		got, err := mkPipe(t, ids).OnUnpack(append([]byte(nil), packed...))
		if err != nil {
			t.Fatalf("OnUnpack(OnPack(x)) failed for pipe %q: %v", ids, err)
		}
		if !bytes.Equal(got, orig) {
			t.Fatalf("pipe %q does not invert: got %s want %s", ids, vt.Hex(got), vt.Hex(orig))
		}
		// the receiver learns the pipe from the frame itself
		m := vt.Msg{Seq: 1, Mtype: 1, Method: "/m", Body: orig, Pipe: ids, Codec: 's'}
		wrw := &vt.RW{}
		if err := socket.RawProtoFunc(wrw).Pack(m.Build()); err != nil {
			t.Fatalf("Pack with pipe %q: %v", ids, err)
		}
		rm := vt.NewReceiver()
		if err := socket.RawProtoFunc(&vt.RW{In: wrw.Written()}).Unpack(rm); err != nil {
			t.Fatalf("Unpack with pipe %q: %v", ids, err)
		}
		if !bytes.Equal(rm.XferPipe().IDs(), ids) || !bytes.Equal(vt.BodyBytes(rm), orig) {
			t.Fatalf("frame with pipe %q: receiver rebuilt pipe %q, body equal=%v", ids, rm.XferPipe().IDs(), bytes.Equal(vt.BodyBytes(rm), orig))
		}
	})
}

func bucket(n int) int {
	for _, b := range []int{0, 1, 2, 5, 40, 255} {
		if n <= b {
			return b
		}
	}
	return 255
}

// TestC12Unregistered: a pipe naming an unregistered filter is refused.
func TestC12Unregistered(t *testing.T) {
	rec := vt.NewRec(t, "C12", "unregistered", "pipe id lists containing at least one unregistered id at a generated position; oracle: XferPipe.Append errors, and unpacking a raw-protocol frame naming that id - or a json / protobuf / websocket-json / websocket-protobuf frame whose single pipe id was replaced by it - errors instead of passing the payload through; every case is non-trivial; distinct by id list")
	rapid.Check(t, func(t *rapid.T) {
		vt.Init()
		ids := rapid.SliceOfN(rapid.SampledFrom(vt.RegisteredXfer), 0, 4).Draw(t, "good")
		bad := vt.UnregisteredXfer(t, "bad")
		pos := rapid.IntRange(0, len(ids)).Draw(t, "pos")
		all := append(append(append([]byte(nil), ids[:pos]...), bad), ids[pos:]...)
		rec.Case(fmt.Sprintf("%x", all), true, fmt.Sprintf("pos=%d/%d", pos, len(ids)))
		if rec.WantSample() {
			rec.Sample(map[string]interface{}{"ids": all, "unregistered": bad})
		}
		if err := xfer.NewXferPipe().Append(all...); err == nil {
			t.Fatalf("Append(%x) with unregistered id %d returned no error", all, bad)
		}
		// hand-build a raw frame that names the pipe: 4B size | 1B pipe len | ids | payload
		good := vt.Msg{Seq: 1, Mtype: 1, Method: "/m", Body: []byte("hello"), Codec: 's'}
		wrw := &vt.RW{}
		if err := socket.RawProtoFunc(wrw).Pack(good.Build()); err != nil {
			t.Fatal(err)
		}
		f := wrw.Written()
		payload := f[5:] // no pipe: f[4] == 0
		frame := make([]byte, 0, len(f)+len(all))
		size := uint32(4 + 1 + len(all) + len(payload))
		frame = append(frame, byte(size>>24), byte(size>>16), byte(size>>8), byte(size), byte(len(all)))
		frame = append(frame, all...)
		frame = append(frame, payload...)
		rm := vt.NewReceiver()
		var err error
		func() {
			defer func() {
				if p := recover(); p != nil {
					err = fmt.Errorf("panic: %v", p)
				}
			}()
			err = socket.RawProtoFunc(&vt.RW{In: frame}).Unpack(rm)
		}()
		if err == nil {
			t.Fatalf("frame naming unregistered filter %d in pipe %x was accepted (body %q)", bad, all, vt.BodyBytes(rm))
		}
		// the other protocols that carry a pipe: a frame packed with the one-filter pipe [gzip]
		// whose pipe id is then replaced, in the frame, by the unregistered id
		one := vt.Msg{Seq: 7, Mtype: 1, Method: "/m", Body: []byte("payload payload payload"), Codec: 's', Pipe: []byte{vt.XGzip5}}
		for _, pr := range []struct {
			name  string
			fn    socket.ProtoFunc
			patch func(f []byte) []byte
		}{
			{"json", jsonproto.NewJSONProtoFunc(), func(f []byte) []byte { f[5] = bad; return f }},
			{"pb", pbproto.NewPbProtoFunc(), func(f []byte) []byte { f[5] = bad; return f }},
			{"ws-json", jsonSubProto.NewJSONSubProtoFunc(), func(f []byte) []byte {
				return bytes.Replace(f, []byte(fmt.Sprintf(`"xferPipe":[%d]`, vt.XGzip5)), []byte(fmt.Sprintf(`"xferPipe":[%d]`, bad)), 1)
			}},
			{"ws-pb", pbSubProto.NewPbSubProtoFunc(), func(f []byte) []byte {
				var pl wspb.Payload
				if err := codec.ProtoUnmarshal(f, &pl); err != nil {
					t.Fatalf("harness: ws-pb frame does not decode: %v", err)
				}
				pl.XferPipe = []byte{bad}
				out, _ := codec.ProtoMarshal(&pl)
				return out
			}},
		} {
			w2 := &vt.RW{}
			if err := pr.fn(w2).Pack(one.Build()); err != nil {
				t.Fatalf("%s: Pack with pipe [gzip]: %v", pr.name, err)
			}
			orig := append([]byte(nil), w2.Written()...)
			patched := pr.patch(append([]byte(nil), orig...))
			if bytes.Equal(patched, orig) {
				t.Fatalf("harness: %s frame was not patched", pr.name)
			}
			r2 := vt.NewReceiver()
			var err2 error
			func() {
				defer func() {
					if p := recover(); p != nil {
						err2 = fmt.Errorf("panic: %v", p)
					}
				}()
				err2 = pr.fn(&vt.RW{In: patched}).Unpack(r2)
			}()
			if err2 == nil {
				t.Fatalf("%s: a frame naming the unregistered filter %d was accepted (delivered body %q)", pr.name, bad, vt.BodyBytes(r2))
			}
		}
	})
}

// corruptionCheck applies one single-byte corruption to a packed payload and
// checks the integrity oracle.
func corruptionCheck(ids []byte, orig, packed []byte, pos int, mask byte) string {
	c := append([]byte(nil), packed...)
	c[pos] ^= mask
	p := xfer.NewXferPipe()
	if err := p.Append(ids...); err != nil {
		return "append: " + err.Error()
	}
	var got []byte
	var err error
	func() {
		defer func() {
			if r := recover(); r != nil {
				err = fmt.Errorf("panic: %v", r)
			}
		}()
		got, err = p.OnUnpack(c)
	}()
	if err != nil {
		return ""
	}
	if ids[0] == vt.XMd5 {
		return fmt.Sprintf("md5 is the outermost filter of pipe %q, byte %d of the packed payload was xor-ed with %#x, and unpacking reported no error", ids, pos, mask)
	}
	if !bytes.Equal(got, orig) {
		return fmt.Sprintf("pipe %q: corruption at byte %d (xor %#x) yielded a different payload without error", ids, pos, mask)
	}
	return ""
}

// truncationCheck: the packed payload cut to n bytes (n < len) is refused, or - when md5 is
// not the outermost filter - at worst yields the original payload.
func truncationCheck(ids []byte, orig, packed []byte, n int) string {
	p := xfer.NewXferPipe()
	if err := p.Append(ids...); err != nil {
		return "append: " + err.Error()
	}
	var got []byte
	var err error
	func() {
		defer func() {
			if r := recover(); r != nil {
				err = fmt.Errorf("panic: %v", r)
			}
		}()
		got, err = p.OnUnpack(append([]byte(nil), packed[:n]...))
	}()
	if err != nil {
		return ""
	}
	if ids[0] == vt.XMd5 {
		return fmt.Sprintf("md5 is the outermost filter of pipe %q, the packed payload (%d bytes) was cut to %d bytes, and unpacking reported no error", ids, len(packed), n)
	}
	if !bytes.Equal(got, orig) {
		return fmt.Sprintf("pipe %q: the packed payload (%d bytes) cut to %d bytes yielded a different payload (%d bytes) without error", ids, len(packed), n, len(got))
	}
	return ""
}

// TestC12Corruption: every single-byte corruption of a packed payload is
// detected when md5 is the outermost filter; for inner positions the result is
// an error or the original payload, never a different payload.
func TestC12Corruption(t *testing.T) {
	rec := vt.NewRec(t, "C12", "corruption", "pipes containing md5 x payload; ALL byte positions of the packed payload x xor masks {0x01,0x80,0xff} (quick) are corrupted one at a time, and the packed payload is cut to 0 / 1 / half / all-but-one bytes; oracle: md5 outermost => error; otherwise error or the original payload; every case non-trivial; distinct by (pipe,payload)")
	rapid.Check(t, func(t *rapid.T) {
		vt.Init()
		var ids []byte
		if rapid.Bool().Draw(t, "md5outer") {
			ids = append([]byte{vt.XMd5}, rapid.SliceOfN(rapid.SampledFrom(vt.RegisteredXfer), 0, 3).Draw(t, "inner")...)
		} else {
			ids = rapid.SliceOfN(rapid.SampledFrom(vt.RegisteredXfer), 1, 3).Draw(t, "outer")
			ids = append(ids, vt.XMd5)
			ids = append(ids, rapid.SliceOfN(rapid.SampledFrom(vt.RegisteredXfer), 0, 2).Draw(t, "inner")...)
		}
		pay := genPayload(t, 120)
		p := mkPipe(t, ids)
		packed, err := p.OnPack(append([]byte(nil), pay...))
		if err != nil {
			t.Fatalf("OnPack: %v", err)
		}
		rec.Case(fmt.Sprintf("%x|%x", ids, pay), true, fmt.Sprintf("md5outer=%v", ids[0] == vt.XMd5))
		if rec.WantSample() {
			rec.Sample(map[string]interface{}{"pipe": string(ids), "payload": vt.Hex(pay), "packed_len": len(packed), "corruptions": len(packed) * 3})
		}
		n := 0
		for pos := range packed {
			for _, mask := range []byte{0x01, 0x80, 0xff} {
				if d := corruptionCheck(ids, pay, packed, pos, mask); d != "" {
					t.Fatalf("%s (payload %s)", d, vt.Hex(pay))
				}
				n++
			}
		}
		rec.Class("single-byte-corruptions", n)
		// truncations: to nothing, to one byte, to half, by one byte
		for _, cut := range []int{0, 1, len(packed) / 2, len(packed) - 1} {
			if cut < 0 || cut >= len(packed) {
				continue
			}
			if d := truncationCheck(ids, pay, packed, cut); d != "" {
				t.Fatalf("%s (payload %s)", d, vt.Hex(pay))
			}
			rec.Class("truncations", 1)
		}
	})
}

// TestC12CorruptionExhaustive: thorough tier — for payloads up to 64 bytes
// every position x every one of the 255 masks, md5 outermost.
func TestC12CorruptionExhaustive(t *testing.T) {
	if !vt.Thorough() {
		t.Skip("thorough tier only")
	}
	rec := vt.NewRec(t, "C12", "corruption-exhaustive", "md5-outermost pipes {m, mg, mm, mG} x payload lengths 0..64 (fixed pattern): every byte position x all 255 xor masks — complete enumeration of single-byte corruptions for these payloads")
	vt.Init()
	for _, ids := range [][]byte{{vt.XMd5}, {vt.XMd5, vt.XGzip1}, {vt.XMd5, vt.XMd5}, {vt.XMd5, vt.XGzip5}} {
		for n := 0; n <= 64; n++ {
			pay := make([]byte, n)
			for i := range pay {
				pay[i] = byte(i*37 + n)
			}
			p := xfer.NewXferPipe()
			p.Append(ids...)
			packed, err := p.OnPack(append([]byte(nil), pay...))
			if err != nil {
				t.Fatal(err)
			}
			rec.Case(fmt.Sprintf("%x|%d", ids, n), true)
			if rec.WantSample() {
				rec.Sample(map[string]interface{}{"pipe": string(ids), "payload_len": n, "packed_len": len(packed)})
			}
			cnt := 0
			for pos := range packed {
				for mask := 1; mask < 256; mask++ {
					if d := corruptionCheck(ids, pay, packed, pos, byte(mask)); d != "" {
						t.Fatalf("%s", d)
					}
					cnt++
				}
			}
			rec.Class("single-byte-corruptions", cnt)
		}
	}
	rec.SetExhaustive()
}

// TestC12PipeReuse: a pipe object is reused (Reset / Append / AppendFrom) the way pooled
// messages reuse theirs; what it reports and what it does always follow its current filters.
func TestC12PipeReuse(t *testing.T) {
	rec := vt.NewRec(t, "C12", "pipe-reuse", "one XferPipe object driven through 2-6 steps {Reset then Append(ids), Append(more ids), AppendFrom(another pipe), Reset} over the registered filters, with IDs()/Len()/Names()/Range() read after every step (so cached views would be built) and a payload packed by the reused pipe unpacked by a fresh pipe built from the model's id list (and the other way round); oracle: the reported ids equal the model list after every step and OnUnpack(OnPack(x)) == x across the two pipes; non-trivial = two steps leave pipes of equal length and different filters; distinct by step list")
	rapid.Check(t, func(t *rapid.T) {
		vt.Init()
		p := xfer.NewXferPipe()
		var model []byte
		n := rapid.IntRange(2, 6).Draw(t, "steps")
		var hist []string
		lens := map[int]string{}
		nt := false
		for i := 0; i < n; i++ {
			ids := rapid.SliceOfN(rapid.SampledFrom(vt.RegisteredXfer), 0, 3).Draw(t, "ids")
			switch op := rapid.SampledFrom([]string{"reset+append", "reset+append", "append", "appendfrom", "reset"}).Draw(t, "op"); op {
			case "reset+append":
				p.Reset()
				if err := p.Append(ids...); err != nil {
					t.Fatalf("Append(%q): %v", ids, err)
				}
				model = append([]byte(nil), ids...)
				hist = append(hist, fmt.Sprintf("reset+append(%q)", ids))
			case "append":
				if len(model)+len(ids) > 255 {
					continue
				}
				if err := p.Append(ids...); err != nil {
					t.Fatalf("Append(%q): %v", ids, err)
				}
				model = append(model, ids...)
				hist = append(hist, fmt.Sprintf("append(%q)", ids))
			case "appendfrom":
				p.AppendFrom(mkPipe(t, ids))
				model = append(model, ids...)
				hist = append(hist, fmt.Sprintf("appendfrom(%q)", ids))
			default:
				p.Reset()
				model = nil
				hist = append(hist, "reset")
			}
			if prev, ok := lens[len(model)]; ok && prev != string(model) {
				nt = true
			}
			lens[len(model)] = string(model)
			// the views a protocol reads
			if got := p.IDs(); !bytes.Equal(got, model) {
				t.Fatalf("after %v: IDs() = %q, the pipe was built from %q", hist, got, model)
			}
			if p.Len() != len(model) || len(p.Names()) != len(model) {
				t.Fatalf("after %v: Len() = %d, Names() = %v, model has %d filters", hist, p.Len(), p.Names(), len(model))
			}
			var ranged []byte
			p.Range(func(idx int, f xfer.XferFilter) bool { ranged = append(ranged, f.ID()); return true })
			if !bytes.Equal(ranged, model) {
				t.Fatalf("after %v: Range yields %q, model %q", hist, ranged, model)
			}
			pay := genPayload(t, 300)
			packed, err := p.OnPack(append([]byte(nil), pay...))
			if err != nil {
				t.Fatalf("after %v: OnPack: %v", hist, err)
			}
			got, err := mkPipe(t, model).OnUnpack(append([]byte(nil), packed...))
			if err != nil || !bytes.Equal(got, pay) {
				t.Fatalf("after %v: a fresh pipe %q cannot undo what the reused pipe packed: err=%v equal=%v", hist, model, err, bytes.Equal(got, pay))
			}
			packed2, err := mkPipe(t, model).OnPack(append([]byte(nil), pay...))
			if err != nil {
				t.Fatalf("OnPack on a fresh pipe %q: %v", model, err)
			}
			got2, err := p.OnUnpack(append([]byte(nil), packed2...))
			if err != nil || !bytes.Equal(got2, pay) {
				t.Fatalf("after %v: the reused pipe cannot undo what a fresh pipe %q packed: err=%v equal=%v", hist, model, err, bytes.Equal(got2, pay))
			}
		}
		rec.Case(strings.Join(hist, ";"), nt, fmt.Sprintf("steps=%d", len(hist)))
		if rec.WantSample() && nt {
			rec.Sample(hist)
		}
	})
}
