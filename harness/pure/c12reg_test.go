package pure

import (
	"fmt"
	"testing"

	"github.com/henrylee2cn/erpc/v6/socket"
	"github.com/henrylee2cn/erpc/v6/xfer"
	"pgregory.net/rapid"

	"verifharness/vt"
)

// regFilter is a filter registered by the registry check: OnPack prefixes the payload with a
// tag, so a frame that was wrongly passed through it is recognisable.
type regFilter struct {
	id   byte
	name string
}

func (f *regFilter) ID() byte     { return f.id }
func (f *regFilter) Name() string { return f.name }
func (f *regFilter) OnPack(b []byte) ([]byte, error) {
	return append([]byte{f.id}, b...), nil
}
func (f *regFilter) OnUnpack(b []byte) ([]byte, error) {
	if len(b) == 0 || b[0] != f.id {
		return nil, fmt.Errorf("regFilter %d: bad tag", f.id)
	}
	return b[1:], nil
}

// the registry is process-global: the model of what this check registered lives as long as
// the process, and every case draws only from what is free at that moment
var c12RegModel = struct {
	byID   map[byte]string
	byName map[string]byte
	serial int
}{byID: map[byte]string{}, byName: map[string]byte{}}

// TestC12Registry: a filter is usable exactly when its registration succeeded. A registration
// that is refused (duplicate id or duplicate name) leaves the registry as it was, so a frame
// naming the refused filter's id is refused like any frame naming an unregistered filter.
func TestC12Registry(t *testing.T) {
	rec := vt.NewRec(t, "C12", "registry", "sequences of xfer.Reg attempts with fresh / already used ids and names (registration panics are recovered as a program registering plugins defensively does); oracle: model of the registry - Get / GetByName / XferPipe.Append / raw-protocol Unpack accept an id or name exactly when a registration of it succeeded, and a refused registration changes nothing; non-trivial = a refused registration whose id or name was fresh; distinct by operation sequence")
	rapid.Check(t, func(t *rapid.T) {
		vt.Init()
		m := &c12RegModel
		var hist []string
		nt := false
		n := rapid.IntRange(1, 4).Draw(t, "nops")
		for i := 0; i < n; i++ {
			freshID := func() (byte, bool) {
				start := rapid.IntRange(0x60, 0xf0).Draw(t, "idstart")
				for k := 0; k < 256; k++ {
					id := byte(start + k)
					if _, err := xfer.Get(id); err != nil {
						if _, mine := m.byID[id]; !mine {
							return id, true
						}
					}
				}
				return 0, false
			}
			takenID := func() (byte, bool) {
				cands := append([]byte(nil), vt.RegisteredXfer...)
				for id := range m.byID {
					cands = append(cands, id)
				}
				// deterministic order
				for a := 0; a < len(cands); a++ {
					for b := a + 1; b < len(cands); b++ {
						if cands[b] < cands[a] {
							cands[a], cands[b] = cands[b], cands[a]
						}
					}
				}
				return cands[rapid.IntRange(0, len(cands)-1).Draw(t, "takenid")], true
			}
			freshName := func() string { m.serial++; return fmt.Sprintf("c12reg-%d", m.serial) }
			takenName := func() string {
				names := []string{"gzip-1", "gzip-5", "md5"}
				for id := range vt.RegisteredXfer {
					if f, err := xfer.Get(vt.RegisteredXfer[id]); err == nil {
						names = append(names, f.Name())
					}
				}
				var mine []string
				for nm := range m.byName {
					mine = append(mine, nm)
				}
				for a := 0; a < len(mine); a++ {
					for b := a + 1; b < len(mine); b++ {
						if mine[b] < mine[a] {
							mine[a], mine[b] = mine[b], mine[a]
						}
					}
				}
				names = append(names, mine...)
				var ok []string
				for _, nm := range names {
					if _, err := xfer.GetByName(nm); err == nil {
						ok = append(ok, nm)
					}
				}
				return ok[rapid.IntRange(0, len(ok)-1).Draw(t, "takenname")]
			}
			kind := rapid.SampledFrom([]string{"fresh", "dup-id", "dup-name", "dup-name", "dup-both"}).Draw(t, "op")
			if kind == "fresh" && len(m.byID) >= 60 {
				kind = "dup-name" // keep most of the id space free
			}
			var f *regFilter
			wantOK := false
			switch kind {
			case "fresh":
				id, ok := freshID()
				if !ok {
					continue
				}
				f = &regFilter{id, freshName()}
				wantOK = true
			case "dup-id":
				id, _ := takenID()
				f = &regFilter{id, freshName()}
			case "dup-name":
				id, ok := freshID()
				if !ok {
					continue
				}
				f = &regFilter{id, takenName()}
				nt = true
			default:
				id, _ := takenID()
				f = &regFilter{id, takenName()}
			}
			before, _ := xfer.Get(f.id)
			beforeN, _ := xfer.GetByName(f.name)
			var panicked interface{}
			func() {
				defer func() { panicked = recover() }()
				xfer.Reg(f)
			}()
			hist = append(hist, fmt.Sprintf("%s(id=%#x,name=%s)->%v", kind, f.id, f.name, panicked == nil))
			if wantOK != (panicked == nil) {
				t.Fatalf("C12 violated: registration %s: accepted=%v, expected accepted=%v (history %v)", hist[len(hist)-1], panicked == nil, wantOK, hist)
			}
			if wantOK {
				m.byID[f.id] = f.name
				m.byName[f.name] = f.id
			}
			after, _ := xfer.Get(f.id)
			afterN, _ := xfer.GetByName(f.name)
			if wantOK {
				if after != xfer.XferFilter(f) || afterN != xfer.XferFilter(f) {
					t.Fatalf("C12 violated: after a successful registration Get(%#x)=%v GetByName(%q)=%v (history %v)", f.id, after, f.name, afterN, hist)
				}
			} else {
				if after != before || afterN != beforeN {
					t.Fatalf("C12 violated: a refused registration changed the registry: Get(%#x) was %v, is %v; GetByName(%q) was %v, is %v (history %v)", f.id, fdesc(before), fdesc(after), f.name, fdesc(beforeN), fdesc(afterN), hist)
				}
			}
			// an id the registry does not know is refused everywhere a pipe is built from ids
			if after == nil {
				if err := xfer.NewXferPipe().Append(f.id); err == nil {
					t.Fatalf("C12 violated: XferPipe.Append(%#x) accepted an id whose registration was refused (history %v)", f.id, hist)
				}
				good := vt.Msg{Seq: 1, Mtype: 1, Method: "/m", Body: []byte("hello"), Codec: 's'}
				wrw := &vt.RW{}
				if err := socket.RawProtoFunc(wrw).Pack(good.Build()); err != nil {
					t.Fatal(err)
				}
				w := wrw.Written()
				payload := append([]byte{f.id}, w[5:]...) // what the refused filter's OnPack would produce
				size := uint32(4 + 1 + 1 + len(payload))
				frame := append([]byte{byte(size >> 24), byte(size >> 16), byte(size >> 8), byte(size), 1, f.id}, payload...)
				rm := vt.NewReceiver()
				var err error
				func() {
					defer func() {
						if p := recover(); p != nil {
							err = fmt.Errorf("panic: %v", p)
						}
					}()
					err = socket.RawProtoFunc(&vt.RW{In: frame}).Unpack(rm)
				}()
				if err == nil {
					t.Fatalf("C12 violated: a raw frame naming filter %#x, whose registration was refused, was accepted (history %v)", f.id, hist)
				}
			}
		}
		// every registered filter of the model still resolves consistently
		for id, name := range m.byID {
			f, err := xfer.Get(id)
			g, err2 := xfer.GetByName(name)
			if err != nil || err2 != nil || f != g || f.Name() != name || f.ID() != id {
				t.Fatalf("C12 violated: registered filter (%#x,%q) resolves inconsistently: Get=%v/%v GetByName=%v/%v (history %v)", id, name, fdesc(f), err, fdesc(g), err2, hist)
			}
		}
		rec.Case(fmt.Sprint(hist), nt, fmt.Sprintf("ops=%d", len(hist)))
		if rec.WantSample() {
			rec.Sample(map[string]interface{}{"history": hist})
		}
	})
	rec.Flush()
}

func fdesc(f xfer.XferFilter) string {
	if f == nil {
		return "<none>"
	}
	return fmt.Sprintf("(%#x,%q)", f.ID(), f.Name())
}
