package pure

import (
	"bytes"
	"fmt"
	"testing"

	"github.com/henrylee2cn/erpc/v6/mixer/websocket/jsonSubProto"
	"github.com/henrylee2cn/erpc/v6/mixer/websocket/pbSubProto"
	"github.com/henrylee2cn/erpc/v6/proto/jsonproto"
	"github.com/henrylee2cn/erpc/v6/proto/pbproto"
	"github.com/henrylee2cn/erpc/v6/socket"
	"pgregory.net/rapid"

	"verifharness/vt"
)

// C12 under a configured message size limit.
//
// socket.SetMessageSizeLimit / erpc.SetReadLimit bound the FRAME ("message size upper limit of
// reading": the reader checks the size a frame announces, the writer the packed size through
// Message.SetSize). What a transfer pipe restores from a frame that both sides accept is not
// bounded by it: "for every pipe and every payload, unpacking the packed payload restores it
// exactly" holds for every configuration of the limit under which the frame itself passes.

type c12LimProto struct {
	name     string
	fn       socket.ProtoFunc
	perFrame bool // a websocket sub-protocol: one frame per reader, no status field
}

func c12LimProtos() []c12LimProto {
	return []c12LimProto{
		{"raw", socket.RawProtoFunc, false},
		{"json", jsonproto.NewJSONProtoFunc(), false},
		{"pb", pbproto.NewPbProtoFunc(), false},
		{"ws-json", jsonSubProto.NewJSONSubProtoFunc(), true},
		{"ws-pb", pbSubProto.NewPbSubProtoFunc(), true},
	}
}

func c12LimContainsGzip(ids []byte) bool {
	for _, b := range ids {
		if b != vt.XMd5 {
			return true
		}
	}
	return false
}

// genLimPipe draws a pipe; most of them contain a filter that shrinks compressible data.
func genLimPipe(t *rapid.T, label string) ([]byte, string) {
	switch rapid.IntRange(0, 9).Draw(t, label+".pipeclass") {
	case 0:
		return nil, "pipe=none"
	case 1, 2, 3:
		return []byte{rapid.SampledFrom(vt.GzipIDs).Draw(t, label+".g")}, "pipe=gzip"
	case 4:
		return rapid.SliceOfN(rapid.SampledFrom(vt.GzipIDs), 2, 3).Draw(t, label+".gg"), "pipe=gzip-repeated"
	case 5:
		return []byte{vt.XMd5, rapid.SampledFrom(vt.GzipIDs).Draw(t, label+".g")}, "pipe=md5,gzip"
	case 6:
		return []byte{rapid.SampledFrom(vt.GzipIDs).Draw(t, label+".g"), vt.XMd5}, "pipe=gzip,md5"
	case 7:
		return []byte{vt.XMd5}, "pipe=md5"
	default:
		return rapid.SliceOfN(rapid.SampledFrom(vt.RegisteredXfer), 1, 5).Draw(t, label+".mix"), "pipe=mixed"
	}
}

func c12LimNoise(seed uint32, n int, alphabet []byte) []byte {
	b := make([]byte, n)
	x := seed | 1
	for i := range b {
		x ^= x << 13
		x ^= x >> 17
		x ^= x << 5
		if alphabet != nil {
			b[i] = alphabet[int(x>>8)%len(alphabet)]
		} else {
			b[i] = byte(x >> 8)
		}
	}
	return b
}

// genLimPayload draws a payload whose size is placed relative to the nominal limit.
func genLimPayload(t *rapid.T, label string, limit int) ([]byte, string) {
	rng := func(lo, hi int) int {
		if lo < 0 {
			lo = 0
		}
		if hi < lo {
			hi = lo
		}
		return rapid.IntRange(lo, hi).Draw(t, label+".n")
	}
	pattern := func(n int) []byte {
		unit := rapid.SliceOfN(rapid.Byte(), 1, 48).Draw(t, label+".unit")
		return bytes.Repeat(unit, n/len(unit)+1)[:n]
	}
	switch rapid.IntRange(0, 11).Draw(t, label+".payclass") {
	case 0:
		return vt.Bytes(t, label+".tiny", 64), "payload=tiny"
	case 1:
		return pattern(rng(1, limit-200)), "payload=repetitive,below-limit"
	case 2, 3:
		return pattern(rng(limit-128, limit+128)), "payload=repetitive,around-limit"
	case 4, 5, 6:
		return pattern(rng(limit+1, 6*limit)), "payload=repetitive,above-limit"
	case 7:
		// exact boundaries of the restored size
		d := rapid.SampledFrom([]int{-1, 0, 1, 2}).Draw(t, label+".d")
		return bytes.Repeat([]byte{rapid.Byte().Draw(t, label+".rb")}, limit+d), "payload=run,limit+-1"
	case 8:
		// low entropy: compresses by a small factor, so the frame is somewhere around the limit
		k := rapid.IntRange(2, 6).Draw(t, label+".alpha")
		return c12LimNoise(rapid.Uint32().Draw(t, label+".seed"), rng(limit+1, 4*limit), []byte("abcdef")[:k]), "payload=low-entropy,above-limit"
	case 9:
		return c12LimNoise(rapid.Uint32().Draw(t, label+".seed"), rng(limit-300, limit+64), nil), "payload=incompressible,around-limit"
	case 10:
		return c12LimNoise(rapid.Uint32().Draw(t, label+".seed"), rng(1, limit/2), nil), "payload=incompressible,below-limit"
	default:
		// compressible head, incompressible tail
		n := rng(limit+1, 3*limit)
		tail := c12LimNoise(rapid.Uint32().Draw(t, label+".seed"), rng(0, limit/3), nil)
		return append(pattern(n), tail...), "payload=repetitive+noise,above-limit"
	}
}

func c12LimBucket(n int) string {
	for _, b := range []int{256, 4 << 10, 16 << 10, 64 << 10, 256 << 10} {
		if n <= b {
			return fmt.Sprintf("limit<=%d", b)
		}
	}
	return "limit>262144"
}

func c12LimPack(p socket.Proto, m socket.Message) (err error) {
	defer func() {
		if r := recover(); r != nil {
			err = fmt.Errorf("panic: %v", r)
		}
	}()
	return p.Pack(m)
}

func c12LimUnpack(p socket.Proto, m socket.Message) (err error) {
	defer func() {
		if r := recover(); r != nil {
			err = fmt.Errorf("panic: %v", r)
		}
	}()
	return p.Unpack(m)
}

func TestC12LimitedFrames(t *testing.T) {
	rec := vt.NewRec(t, "C12", "limited-frames", "configured message size limit x inflating pipe, protocol level: every protocol that carries a pipe (raw, json, protobuf, websocket json / protobuf sub-protocols) x 1-3 messages per stream (first one: pipe from {none, gzip at a level, gzip repeated, md5+gzip, gzip+md5, md5, mixed} x payload placed relative to the limit {tiny, repetitive below / around / above (up to 6x), run of limit-1..limit+2 bytes, low entropy above, incompressible around / below, repetitive+noise above}; the others small) x limit {absolute: 1 KiB..256 KiB generated; relative: the size of the first frame + {0,1,7,100}, i.e. the inclusive boundary}; the frame size is what the protocol itself reports for the packed message under the default limit (Message.Size on both sides), never a guess; oracle: for every message whose frame size is <= the limit, Pack under the limit succeeds and Unpack by a fresh receiver under the SAME limit succeeds and restores seq, type, method, meta, codec, pipe and payload exactly (frames above the limit are legitimately refused and are left out); non-trivial = a fitting frame with a gzip filter in the pipe whose payload alone is larger than the limit; distinct by case")
	protos := c12LimProtos()
	rapid.Check(t, func(t *rapid.T) {
		vt.Init()
		defer socket.SetMessageSizeLimit(0)
		nominal := 0
		if rapid.Bool().Draw(t, "pow2") {
			nominal = 1 << uint(rapid.IntRange(10, 18).Draw(t, "exp"))
		} else {
			nominal = rapid.IntRange(1<<10, 1<<uint(rapid.IntRange(11, 18).Draw(t, "maxexp"))).Draw(t, "limit")
		}
		mode := rapid.SampledFrom([]string{"absolute", "absolute", "relative"}).Draw(t, "mode")
		delta := 0
		if mode == "relative" {
			delta = rapid.SampledFrom([]int{0, 0, 1, 7, 100}).Draw(t, "delta")
		}
		nmsg := rapid.SampledFrom([]int{1, 1, 2, 3}).Draw(t, "msgs")
		msgs := make([]vt.Msg, nmsg)
		var classes []string
		for i := range msgs {
			m := vt.Msg{
				Seq:    vt.Seq(t, fmt.Sprintf("seq%d", i)),
				Mtype:  rapid.SampledFrom([]byte{1, 2, 3}).Draw(t, "mtype"),
				Method: "/c12/limited/" + vt.PrintableASCII(t, "method", 12),
				Codec:  's',
			}
			if rapid.Bool().Draw(t, "hasmeta") {
				m.Meta = []vt.KV{{K: "k" + vt.PrintableASCII(t, "mk", 6), V: vt.PrintableASCII(t, "mv", 20)}}
			}
			label := fmt.Sprintf("m%d", i)
			var pc, yc string
			m.Pipe, pc = genLimPipe(t, label)
			if i == 0 {
				m.Body, yc = genLimPayload(t, label, nominal)
				classes = append(classes, pc, yc)
			} else {
				m.Body = genPayload(t, 600)
			}
			if m.Body == nil {
				m.Body = []byte{}
			}
			msgs[i] = m
		}
		canon := fmt.Sprintf("%d|%s|%d", nominal, mode, delta)
		for _, m := range msgs {
			canon += "|" + m.Canon()
		}
		nt := false
		classes = append(classes, "mode="+mode, fmt.Sprintf("msgs=%d", nmsg))

		for _, pr := range protos {
			cmp := vt.CompareOpts{SkipStatus: pr.perFrame}
			// 1. the frame of every message and its size, under the default limit
			socket.SetMessageSizeLimit(0)
			sizes := make([]uint32, nmsg)
			// (as the writing and as the reading side report it: the larger one counts)
			for i, m := range msgs {
				wrw := &vt.RW{}
				out := m.Build()
				if err := c12LimPack(pr.fn(wrw), out); err != nil {
					t.Fatalf("C12 violated: %s: Pack of message %d under the default limit failed: %v", pr.name, i, err)
				}
				got := vt.NewReceiver()
				if err := c12LimUnpack(pr.fn(&vt.RW{In: wrw.Written()}), got); err != nil {
					t.Fatalf("C12 violated: %s: Unpack(Pack(m)) of message %d (pipe %q, %d payload bytes) under the default limit failed: %v", pr.name, i, m.Pipe, len(m.Body), err)
				}
				if d := m.Compare(got, cmp); d != "" {
					t.Fatalf("C12 violated: %s: message %d (pipe %q) does not round-trip under the default limit: %s", pr.name, i, m.Pipe, vt.Trunc(d))
				}
				sizes[i] = out.Size()
				if got.Size() > sizes[i] {
					sizes[i] = got.Size()
				}
			}
			// 2. the limit of this run
			limit := uint32(nominal)
			if mode == "relative" {
				limit = sizes[0] + uint32(delta)
			}
			if limit == 0 {
				limit = 1
			}
			socket.SetMessageSizeLimit(limit)
			// 3. every fitting message is packed under the limit ...
			var fit []int
			stream := &vt.RW{}
			sproto := pr.fn(stream)
			var frames [][]byte
			for i, m := range msgs {
				if sizes[i] > limit {
					rec.Class(pr.name+":frame>limit(left out)", 1)
					continue
				}
				out := m.Build()
				var frame []byte
				var err error
				if pr.perFrame {
					w := &vt.RW{}
					err = c12LimPack(pr.fn(w), out)
					frame = w.Written()
				} else {
					err = c12LimPack(sproto, out)
				}
				if err != nil {
					t.Fatalf("C12 violated: %s: message size limit %d, message %d (pipe %q, %d payload bytes) packs into a frame of size %d under the default limit, but Pack under the limit failed: %v", pr.name, limit, i, m.Pipe, len(m.Body), sizes[i], err)
				}
				if out.Size() > limit {
					t.Fatalf("harness: %s: frame size %d under the limit differs from %d under the default limit", pr.name, out.Size(), sizes[i])
				}
				fit = append(fit, i)
				frames = append(frames, frame)
				big := uint32(len(m.Body)) > limit
				if big && c12LimContainsGzip(m.Pipe) {
					nt = true
					rec.Class(pr.name+":fits,restored>limit", 1)
				} else {
					rec.Class(pr.name+":fits", 1)
				}
			}
			// ... and unpacked by a fresh receiver under the same limit
			rproto := pr.fn(&vt.RW{In: stream.Written()})
			for k, i := range fit {
				m := msgs[i]
				p := rproto
				if pr.perFrame {
					p = pr.fn(&vt.RW{In: frames[k]})
				}
				got := vt.NewReceiver()
				if err := c12LimUnpack(p, got); err != nil {
					t.Fatalf("C12 violated: %s: message size limit %d; message %d (pipe %q, payload of %d bytes) was packed under that limit into a frame of size %d, and Unpack under the same limit refused it: %v", pr.name, limit, i, m.Pipe, len(m.Body), sizes[i], err)
				}
				if d := m.Compare(got, cmp); d != "" {
					t.Fatalf("C12 violated: %s: message size limit %d; message %d (pipe %q, payload of %d bytes, frame size %d) is not restored exactly: %s", pr.name, limit, i, m.Pipe, len(m.Body), sizes[i], vt.Trunc(d))
				}
			}
			socket.SetMessageSizeLimit(0)
		}
		rec.Case(canon, nt, append(classes, c12LimBucket(nominal))...)
		if rec.WantSample() && nt {
			rec.Sample(map[string]interface{}{"nominal_limit": nominal, "mode": mode, "delta": delta, "pipe": string(msgs[0].Pipe), "payload_len": len(msgs[0].Body), "msgs": nmsg})
		}
	})
}
