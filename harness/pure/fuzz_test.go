package pure

import (
	"bytes"
	"fmt"
	"io/ioutil"
	"net/url"
	"os"
	"testing"

	"github.com/henrylee2cn/erpc/v6/codec"
	ppb "github.com/henrylee2cn/erpc/v6/proto/pbproto/pb"

	"verifharness/vt"
)

// fuzzDecode: decoding arbitrary bytes never panics out of the codec and never
// writes outside the destination (canaries), for every destination type.
func fuzzDecode(f *testing.F, name string, seeds ...string) {
	for _, s := range seeds {
		f.Add([]byte(s), uint8(0))
	}
	f.Fuzz(func(t *testing.T, data []byte, dsel uint8) {
		c, err := codec.GetByName(name)
		if err != nil {
			t.Skip()
		}
		g := newGuard()
		ds := dests(g)[name]
		dst := ds[int(dsel)%len(ds)]
		backing := bytes.Repeat([]byte{0xA5}, 64)
		if bp, ok := dst.(*[]byte); ok {
			*bp = backing[8:12:24]
		}
		in := append([]byte(nil), data...)
		if d := os.Getenv("VERIF_FUZZ_TRACE"); d != "" {
			// diagnosis of worker deaths: the input being run is on disk when the process dies
			ioutil.WriteFile(fmt.Sprintf("%s/last.%d", d, os.Getpid()), []byte(fmt.Sprintf("%d %x", dsel, data)), 0644)
		}
		func() {
			defer func() {
				if p := recover(); p != nil {
					t.Fatalf("%s: Unmarshal into %T panicked out of the codec: %v (input %x)", name, dst, p, data)
				}
			}()
			_ = c.Unmarshal(in, dst)
		}()
		if !g.ok() {
			t.Fatalf("%s: Unmarshal into %T wrote outside the destination", name, dst)
		}
		for i, b := range backing {
			if (i < 8 || i >= 24) && b != 0xA5 {
				t.Fatalf("%s: wrote outside the destination slice's capacity at %d", name, i)
			}
		}
	})
}

func FuzzDecodeJSON(f *testing.F) {
	fuzzDecode(f, "json", `{"A":1,"B":"x","C":[1,2],"E":[1,2,3]}`, `[1,2,3]`, `"s"`)
}
func FuzzDecodeXML(f *testing.F) { fuzzDecode(f, "xml", `<XS><a>1</a><b>x</b><c>1</c><c>2</c></XS>`) }
func FuzzDecodeForm(f *testing.F) {
	fuzzDecode(f, "form", url.Values{"name": {"n"}, "arr": {"1", "2", "3"}, "N": {"1", "2"}}.Encode(), "arr=1&arr=2&arr=3&arr=4", "A=%zz")
}
func FuzzDecodePlain(f *testing.F) { fuzzDecode(f, "plain", "123", "true", "1e400", "-0") }
func FuzzDecodeProtobuf(f *testing.F) {
	b, _ := codec.ProtoMarshal(&ppb.Payload{Seq: 5, ServiceMethod: "/a", Body: []byte("body")})
	fuzzDecode(f, "protobuf", string(b))
}
func FuzzDecodeThrift(f *testing.F) {
	b, _ := codec.ThriftMarshal(&vt.TStruct{S: "s", I: 9, B: []byte("b"), L: []string{"a"}})
	fuzzDecode(f, "thrift", string(b))
}
