package pure

import (
	"time"
	"io"
	"bytes"
	"context"
	"fmt"
	"runtime"
	"runtime/debug"
	"testing"

	"github.com/henrylee2cn/erpc/v6/socket"
	"github.com/henrylee2cn/erpc/v6/utils"
	"pgregory.net/rapid"

	"verifharness/vt"
)

// ---- messages ----------------------------------------------------------------------

type msgOp struct {
	Kind string
	S    string
	S2   string
	N    int32
	B    byte
	By   []byte
}

var msgOpKinds = []string{"seq", "mtype", "method", "status", "codec", "body", "newbody", "size", "metaadd", "metaset", "metadel", "metaparse", "pipe", "ctx", "unpack", "pack", "unmarshal", "rawunpack"}

func genMsgOps(t *rapid.T, label string, max int) []msgOp {
	n := rapid.IntRange(0, max).Draw(t, label+".n")
	ops := make([]msgOp, n)
	for i := range ops {
		ops[i] = msgOp{
			Kind: rapid.SampledFrom(msgOpKinds).Draw(t, label+".kind"),
			S:    rapid.StringMatching(`[a-z/]{0,8}`).Draw(t, label+".s"),
			S2:   string(vt.Bytes(t, label+".s2", 20)),
			N:    rapid.Int32().Draw(t, label+".n32"),
			B:    rapid.SampledFrom([]byte{0, 1, 2, 3, 'j', 's', 'p'}).Draw(t, label+".b"),
			By:   vt.Bytes(t, label+".by", 60),
		}
	}
	return ops
}

type ctxKey struct{}

func applyMsgOp(m socket.Message, op msgOp) {
	switch op.Kind {
	case "seq":
		m.SetSeq(op.N)
	case "mtype":
		m.SetMtype(op.B)
	case "method":
		m.SetServiceMethod(op.S)
	case "status":
		m.SetStatus(socket.NewStatus(op.N, op.S, op.S2))
	case "codec":
		m.SetBodyCodec(op.B)
	case "body":
		m.SetBody(append([]byte(nil), op.By...))
	case "newbody":
		m.SetNewBody(func(socket.Header) interface{} { return new([]byte) })
	case "size":
		m.SetSize(uint32(op.N) % 100000)
	case "metaadd":
		m.Meta().Add(op.S, op.S2)
	case "metaset":
		m.Meta().Set(op.S, op.S2)
	case "metadel":
		m.Meta().Del(op.S)
	case "metaparse":
		m.Meta().Parse(op.S + "=" + op.S + "&k=v")
	case "pipe":
		m.XferPipe().Append(vt.RegisteredXfer[int(op.B)%len(vt.RegisteredXfer)])
	case "ctx":
		socket.WithContext(context.WithValue(context.Background(), ctxKey{}, op.S))(m)
	case "unpack":
		// fill the message from a frame, like a reader does
		src := vt.Msg{Seq: op.N, Mtype: 1 + op.B%3, Method: "/" + op.S, Meta: []vt.KV{{K: "uk", V: op.S2}}, Codec: 'j', Body: op.By, HasStatus: op.B%2 == 0, Code: 7, StatMsg: op.S}
		wrw := &vt.RW{}
		if err := socket.RawProtoFunc(wrw).Pack(src.Build()); err == nil {
			// a reader always starts from a reset message
			m.Reset(socket.WithNewBody(func(socket.Header) interface{} { return new([]byte) }))
			socket.RawProtoFunc(&vt.RW{In: wrw.Written()}).Unpack(m)
		}
	case "pack":
		socket.RawProtoFunc(&vt.RW{}).Pack(m)
	case "unmarshal":
		// decode body bytes into whatever the message currently binds (nothing, on a message
		// whose user set neither a body nor a binder)
		m.UnmarshalBody(op.By)
	case "rawunpack":
		// a reader that starts from a reset message but installs no binder
		src := vt.Msg{Seq: op.N, Mtype: 1 + op.B%3, Method: "/" + op.S, Codec: 's', Body: op.By}
		wrw := &vt.RW{}
		if err := socket.RawProtoFunc(wrw).Pack(src.Build()); err == nil {
			m.Reset()
			socket.RawProtoFunc(&vt.RW{In: wrw.Written()}).Unpack(m)
		}
	}
}

func observeMsg(m socket.Message) string {
	body := "<nil>"
	switch b := m.Body().(type) {
	case []byte:
		body = fmt.Sprintf("bytes:%x", b)
	case *[]byte:
		body = fmt.Sprintf("pbytes:%x", *b)
	case nil:
	default:
		body = fmt.Sprintf("%T", b)
	}
	mb, merr := m.MarshalBody()
	cv, _ := m.Context().Value(ctxKey{}).(string)
	return fmt.Sprintf("seq=%d mtype=%d method=%q statusOK=%v status=%+v meta=%v codec=%d body=%s marshal=%x/%v pipe=%x size=%d ctxval=%q",
		m.Seq(), m.Mtype(), m.ServiceMethod(), m.StatusOK(), vt.TripleOf(m.Status()), vt.MetaPairs(m), m.BodyCodec(), body, mb, merr != nil, m.XferPipe().IDs(), m.Size(), cv)
}

func packBytes(m socket.Message) string {
	wrw := &vt.RW{}
	err := socket.RawProtoFunc(wrw).Pack(m)
	return fmt.Sprintf("%x|%v", wrw.Written(), err != nil)
}

func TestC20Message(t *testing.T) {
	rec := vt.NewRec(t, "C20", "message", "dirtying op sequence (every public setter, metadata add/set/del/parse, pipe append, context, body binder, unpack-from-frame with and without installing a binder, UnmarshalBody, pack) on a message, then Reset / PutMessage+GetMessage (or the dirtying sequence is applied as the settings of a GetMessage call whose last setting fails, followed by a plain GetMessage), then a generated next-user op sequence applied to the recycled message and to NewMessage(): all getters must agree after every step and the packed bytes must be identical; non-trivial = the dirtying sequence touched >=3 distinct field kinds; pool reuse is measured; distinct by both sequences")
	reused, total := 0, 0
	defer func() { rec.Note("message pool returned the dirtied object in %d of %d cases", reused, total) }()
	old := debug.SetGCPercent(-1)
	defer debug.SetGCPercent(old)
	rapid.Check(t, func(t *rapid.T) {
		vt.Init()
		dirty := genMsgOps(t, "dirty", 12)
		next := genMsgOps(t, "next", 6)
		how := rapid.SampledFrom([]string{"reset", "pool", "pool", "failed-get"}).Draw(t, "how")
		kinds := map[string]bool{}
		for _, o := range dirty {
			kinds[o.Kind] = true
		}
		rec.Case(fmt.Sprintf("%v|%v|%s", dirty, next, how), len(kinds) >= 3, "how="+how)
		if rec.WantSample() && len(kinds) >= 3 {
			rec.Sample(map[string]interface{}{"dirty": dirty, "next": next, "how": how})
		}
		var m socket.Message
		switch how {
		case "pool":
			m = socket.GetMessage()
		case "failed-get":
			// GetMessage applies the caller's settings to a pooled message; the last setting
			// fails (a pipe naming an unregistered filter panics, which the session methods
			// recover): whatever the earlier settings wrote must not reach the next user
			var settings []socket.MessageSetting
			for _, o := range dirty {
				o := o
				settings = append(settings, func(m socket.Message) { applyMsgOp(m, o) })
			}
			settings = append(settings, socket.WithXferPipe(vt.UnregisteredXfer(t, "badpipe")))
			func() {
				defer func() { recover() }()
				m = socket.GetMessage(settings...)
			}()
			if m != nil {
				t.Fatalf("harness: GetMessage with a setting naming an unregistered filter did not fail")
			}
		default:
			m = socket.NewMessage()
		}
		if m != nil {
			for _, o := range dirty {
				applyMsgOp(m, o)
			}
		}
		var recycled socket.Message
		if how == "failed-get" {
			recycled = socket.GetMessage()
		} else if how == "pool" {
			socket.PutMessage(m)
			recycled = socket.GetMessage()
			total++
			if recycled == m {
				reused++
			} else {
				// the pool handed out another object; the documented reset path is what PutMessage ran
				recycled = m
			}
		} else {
			recycled = m.Reset()
		}
		fresh := socket.NewMessage()
		if a, b := observeMsg(recycled), observeMsg(fresh); a != b {
			t.Fatalf("recycled message differs from a fresh one before any use:\n recycled %s\n fresh    %s", a, b)
		}
		if a, b := packBytes(recycled), packBytes(fresh); a != b {
			t.Fatalf("recycled message packs differently from a fresh one:\n recycled %s\n fresh    %s", a, b)
		}
		recycled.Reset()
		fresh.Reset()
		for i, o := range next {
			applyMsgOp(recycled, o)
			applyMsgOp(fresh, o)
			if a, b := observeMsg(recycled), observeMsg(fresh); a != b {
				t.Fatalf("after next-user op %d (%+v) the recycled message differs:\n recycled %s\n fresh    %s", i, o, a, b)
			}
		}
		if a, b := packBytes(recycled), packBytes(fresh); a != b {
			t.Fatalf("recycled message packs differently after the next user's ops:\n recycled %s\n fresh    %s", a, b)
		}
	})
}

// ---- metadata containers -------------------------------------------------------------

type argOp struct {
	Kind string
	K, V string
}

func genArgOps(t *rapid.T, label string, max int) []argOp {
	n := rapid.IntRange(0, max).Draw(t, label+".n")
	ops := make([]argOp, n)
	for i := range ops {
		ops[i] = argOp{
			Kind: rapid.SampledFrom([]string{"add", "add", "set", "del", "parse", "setkv", "copyfrom", "query"}).Draw(t, label+".kind"),
			K:    rapid.SampledFrom([]string{"a", "b", "c", "", "long-key-with-more-bytes", "k%"}).Draw(t, label+".k"),
			V:    string(vt.Bytes(t, label+".v", 40)),
		}
	}
	return ops
}

func applyArgOp(a *utils.Args, o argOp) {
	switch o.Kind {
	case "add":
		a.Add(o.K, o.V)
	case "set":
		a.Set(o.K, o.V)
	case "del":
		a.Del(o.K)
	case "parse":
		a.Parse(o.K + "=" + "x&y&z=" + o.K)
	case "setkv":
		a.SetBytesKV([]byte(o.K), []byte(o.V))
	case "copyfrom":
		src := &utils.Args{}
		src.Add("from", o.V)
		src.Add(o.K, "1")
		src.CopyTo(a)
	case "query":
		_ = a.QueryString()
	}
}

func observeArgs(a *utils.Args) string {
	var pairs []string
	a.VisitAll(func(k, v []byte) { pairs = append(pairs, fmt.Sprintf("%q=%q", k, v)) })
	return fmt.Sprintf("len=%d pairs=%v query=%q peekA=%q hasB=%v multiA=%q", a.Len(), pairs, a.QueryString(), a.Peek("a"), a.Has("b"), a.PeekMulti("a"))
}

func TestC20Args(t *testing.T) {
	rec := vt.NewRec(t, "C20", "args", "dirtying op sequence on a utils.Args (add/set/del/parse/setkv/copy/query) then Reset or ReleaseArgs+AcquireArgs, then a next-user sequence applied to it and to a fresh &Args{}: Len, ordered pairs, QueryString, Peek/Has/PeekMulti must agree after every step; non-trivial = dirtying sequence of >=3 ops; distinct by both sequences")
	old := debug.SetGCPercent(-1)
	defer debug.SetGCPercent(old)
	rapid.Check(t, func(t *rapid.T) {
		dirty := genArgOps(t, "dirty", 10)
		next := genArgOps(t, "next", 8)
		how := rapid.SampledFrom([]string{"reset", "pool"}).Draw(t, "how")
		rec.Case(fmt.Sprintf("%v|%v|%s", dirty, next, how), len(dirty) >= 3, "how="+how)
		if rec.WantSample() && len(dirty) >= 3 {
			rec.Sample(map[string]interface{}{"dirty": dirty, "next": next, "how": how})
		}
		var a *utils.Args
		if how == "pool" {
			a = utils.AcquireArgs()
		} else {
			a = &utils.Args{}
		}
		for _, o := range dirty {
			applyArgOp(a, o)
		}
		if how == "pool" {
			utils.ReleaseArgs(a)
			if b := utils.AcquireArgs(); b == a {
				rec.Class("pool-reused", 1)
			}
		} else {
			a.Reset()
		}
		fresh := &utils.Args{}
		if x, y := observeArgs(a), observeArgs(fresh); x != y {
			t.Fatalf("recycled Args differs from a fresh one before any use:\n recycled %s\n fresh    %s", x, y)
		}
		for i, o := range next {
			applyArgOp(a, o)
			applyArgOp(fresh, o)
			if x, y := observeArgs(a), observeArgs(fresh); x != y {
				t.Fatalf("after next-user op %d (%+v) the recycled Args differs:\n recycled %s\n fresh    %s", i, o, x, y)
			}
		}
	})
}

// ---- pooled sockets --------------------------------------------------------------------

func TestC20Socket(t *testing.T) {
	rec := vt.NewRec(t, "C20", "socket", "a pooled Socket (GetSocket) is dirtied (SetID, swap entries, a partial read that leaves bytes of the old connection in its buffer, optionally a protocol other than the default) and closed (returned to the pool); the next GetSocket on a new connection must report the new remote address as id, an empty swap, the requested protocol, read only the new connection's bytes, write a message to the new connection, and close that connection when it is closed in turn (the other end reads EOF); non-trivial = the pool returned the dirtied object (measured); distinct by the generated values")
	old := debug.SetGCPercent(-1)
	defer debug.SetGCPercent(old)
	rapid.Check(t, func(t *rapid.T) {
		vt.Init()
		leftover := vt.Bytes(t, "leftover", 200)
		id := rapid.StringMatching(`[a-z0-9]{0,10}`).Draw(t, "id")
		nswap := rapid.IntRange(0, 3).Draw(t, "nswap")
		readN := rapid.IntRange(0, 4).Draw(t, "readn")
		newBytes := vt.Bytes(t, "newbytes", 100)

		p1 := vt.NewPair()
		s1 := socket.GetSocket(p1.A)
		s1.SetID(id)
		for i := 0; i < nswap; i++ {
			s1.Swap().Store(fmt.Sprintf("k%d", i), i)
		}
		// old connection: deliver bytes, read only a few of them so the rest stays buffered
		p1.B.Write(append([]byte("OLDOLDOLD"), leftover...))
		buf := make([]byte, readN)
		if readN > 0 {
			s1.Read(buf)
		}
		s1.Close()

		p2 := vt.NewPair()
		s2 := socket.GetSocket(p2.A)
		reused := fmt.Sprintf("%p", s1) == fmt.Sprintf("%p", s2)
		rec.Case(fmt.Sprintf("%x|%s|%d|%d|%x", leftover, id, nswap, readN, newBytes), reused, fmt.Sprintf("reused=%v", reused))
		if rec.WantSample() && reused {
			rec.Sample(map[string]interface{}{"old_id": id, "swap_entries": nswap, "bytes_left_in_old_buffer": 9 + len(leftover) - readN, "new_bytes": vt.Hex(newBytes)})
		}
		if got, want := s2.ID(), p2.A.RemoteAddr().String(); got != want {
			t.Fatalf("recycled socket reports id %q, want the new remote address %q", got, want)
		}
		if n := s2.SwapLen(); n != 0 {
			t.Fatalf("recycled socket has %d swap entries of its previous user", n)
		}
		if s2.Swap().Len() != 0 {
			t.Fatalf("recycled socket's swap map is not empty")
		}
		p2.B.Write(newBytes)
		got := make([]byte, len(newBytes))
		if _, err := io.ReadFull(s2, got); err != nil || !bytes.Equal(got, newBytes) {
			t.Fatalf("recycled socket read %s (%v), the new connection carried %s", vt.Hex(got), err, vt.Hex(newBytes))
		}
		// the new user's connection is open: a message can be written, and Close closes this
		// connection (the other end reads what was written and then EOF, nothing else)
		m := socket.GetMessage()
		m.SetMtype(1)
		m.SetSeq(7)
		m.SetServiceMethod("/recycled")
		m.SetBodyCodec('s')
		m.SetBody("hello")
		p2.SetCapture(vt.AtoB, true)
		if err := s2.WriteMessage(m); err != nil {
			t.Fatalf("writing a message on a socket obtained from GetSocket for a new, open connection failed: %v (pool returned the previous user's object: %v)", err, reused)
		}
		socket.PutMessage(m)
		if err := s2.Close(); err != nil {
			t.Fatalf("Close of the socket: %v", err)
		}
		rest := make(chan error, 1)
		go func() {
			p2.B.SetReadDeadline(time.Now().Add(vt.LivenessBound))
			_, err := io.Copy(io.Discard, p2.B)
			rest <- err
		}()
		select {
		case err := <-rest:
			if err != nil {
				t.Fatalf("after Close of a socket obtained from GetSocket the other end of its connection does not read EOF: %v (pool returned the previous user's object: %v): Close did not close the connection", err, reused)
			}
		case <-time.After(vt.LivenessBound + time.Second):
			t.Fatalf("reading the other end of a closed socket's connection did not return")
		}
		if len(p2.Stream(vt.AtoB)) == 0 {
			t.Fatalf("the written message did not reach the connection")
		}
	})
}

// ---- pooled byte buffers -------------------------------------------------------------

// TestC20ByteBuffers: every frame is assembled in a pooled byte buffer; whatever the pool has
// learnt from earlier traffic (it re-calibrates its default and maximum sizes after tens of
// thousands of releases), an acquired buffer is empty like a fresh one.
func TestC20ByteBuffers(t *testing.T) {
	rec := vt.NewRec(t, "C20", "bytebuffers", "a generated size profile (1-3 size classes from 1 B to 64 KiB with weights) drives 50 000 acquire / write / release rounds of the process-wide byte-buffer pool per case, with garbage collections in between so that the pool has to make new buffers, and the pool's re-calibration threshold (42 000 releases of one size class) is crossed; oracle: every acquired buffer has length 0, and what is written to it is what it holds; non-trivial always; distinct by profile")
	rapid.Check(t, func(t *rapid.T) {
		nclass := rapid.IntRange(1, 3).Draw(t, "classes")
		sizes := make([]int, nclass)
		for i := range sizes {
			sizes[i] = rapid.SampledFrom([]int{1, 40, 64, 100, 128, 500, 1024, 4000, 65536}).Draw(t, "size")
		}
		gcEvery := rapid.SampledFrom([]int{997, 4999, 20011}).Draw(t, "gcevery")
		rec.Case(fmt.Sprintf("%v|%d", sizes, gcEvery), true, fmt.Sprintf("classes=%d", nclass))
		if rec.WantSample() {
			rec.Sample(map[string]interface{}{"sizes": sizes, "gc_every": gcEvery})
		}
		fill := make([]byte, 65536)
		for i := range fill {
			fill[i] = byte(i*7 + 1)
		}
		for round := 0; round < 50000; round++ {
			bb := utils.AcquireByteBuffer()
			if bb.Len() != 0 || len(bb.B) != 0 {
				t.Fatalf("C20 violated: round %d: an acquired byte buffer is not empty: length %d (first bytes %x) - a fresh buffer is empty", round, bb.Len(), bb.B[:min(len(bb.B), 16)])
			}
			n := sizes[round%nclass]
			bb.Write(fill[:n])
			if bb.Len() != n || !bytes.Equal(bb.B, fill[:n]) {
				t.Fatalf("C20 violated: round %d: after writing %d bytes into an acquired buffer it holds %d bytes", round, n, bb.Len())
			}
			// two buffers at once now and then (pack + filter output)
			if round%5 == 0 {
				b2 := utils.AcquireByteBuffer()
				if b2.Len() != 0 {
					t.Fatalf("C20 violated: round %d: a second acquired byte buffer is not empty: length %d", round, b2.Len())
				}
				b2.Write(fill[:n/2+1])
				utils.ReleaseByteBuffer(b2)
			}
			utils.ReleaseByteBuffer(bb)
			if round%gcEvery == gcEvery-1 {
				runtime.GC()
				runtime.GC()
			}
		}
	})
}
