// Package pure holds the checks that need no session: body codecs (C11),
// transfer filters (C12) and recycled objects (C20, object level).
package pure

import (
	"bytes"
	"fmt"
	"math"
	"net/url"
	"reflect"
	"strings"
	"testing"
	"unicode/utf8"

	"github.com/henrylee2cn/erpc/v6/codec"
	wspb "github.com/henrylee2cn/erpc/v6/mixer/websocket/pbSubProto/pb"
	"github.com/henrylee2cn/erpc/v6/plugin/secure"
	ppb "github.com/henrylee2cn/erpc/v6/proto/pbproto/pb"
	"github.com/henrylee2cn/erpc/v6/socket"
	expb "github.com/henrylee2cn/erpc/v6/socket/example/pb"
	"pgregory.net/rapid"

	"verifharness/vt"
)

// ---- value domains ------------------------------------------------------------

type JInner struct {
	X string
	Y []string
	Z map[string]int64
}

type JS struct {
	A int64
	B string
	C []int32
	D map[string]string
	E [3]uint16
	F float64
	G bool
	H *JInner
	I []JInner
	J uint64
	K int8
	L []byte
	M float32
}

type XInner struct {
	X string `xml:"x"`
	N int32  `xml:"n,attr"`
}

type XS struct {
	A  int64    `xml:"a"`
	B  string   `xml:"b"`
	C  []int32  `xml:"c"`
	F  float64  `xml:"f"`
	G  bool     `xml:"g"`
	In XInner   `xml:"in"`
	L  []XInner `xml:"l"`
	S  []string `xml:"s"`
	U  uint8    `xml:"u"`
}

type FInner struct {
	P string
	Q int16
}

// FS is a struct in the form codec's supported set: scalar fields, slices and
// fixed arrays of scalars, a flattened nested struct, form tags.
type FS struct {
	Name string `form:"name"`
	A    int
	B    int8
	C    int64
	D    uint
	E    uint8
	F    uint64
	G    float32
	H    float64
	I    bool
	S    []string `form:"s"`
	N    []int32
	U    []uint16
	Fl   []float64
	Bo   []bool
	Arr  [3]int32 `form:"arr"`
	SA   [2]string
	FInner
}

type (
	NStr   string
	NBytes []byte
)

func xmlValidString(t *rapid.T, label string, max int) string {
	s := vt.ValidUTF8(t, label, max)
	var b strings.Builder
	for _, r := range s {
		if r == 0x9 || r == 0xA || r >= 0x20 && r <= 0xD7FF || r >= 0xE000 && r <= 0xFFFD || r >= 0x10000 && r <= 0x10FFFF {
			if r == utf8.RuneError {
				continue
			}
			b.WriteRune(r)
		}
	}
	return b.String()
}

func jsonString(t *rapid.T, label string, max int) string {
	s := vt.ValidUTF8(t, label, max)
	return strings.ReplaceAll(s, string(utf8.RuneError), "?")
}

func extremeInt64(t *rapid.T, label string) int64 {
	if rapid.IntRange(0, 2).Draw(t, label+".x") == 0 {
		return rapid.SampledFrom([]int64{0, 1, -1, math.MaxInt64, math.MinInt64, math.MaxInt32, math.MinInt32}).Draw(t, label+".ext")
	}
	return rapid.Int64().Draw(t, label)
}

func extremeUint64(t *rapid.T, label string) uint64 {
	switch rapid.IntRange(0, 3).Draw(t, label+".x") {
	case 0:
		return rapid.SampledFrom([]uint64{0, 1, math.MaxInt64, math.MaxInt64 + 1, math.MaxUint64, math.MaxUint64 - 1, math.MaxUint32, math.MaxUint32 + 1}).Draw(t, label+".ext")
	case 1:
		// the upper half of the range, which a signed parse or a float detour cannot hold
		return 1<<63 | rapid.Uint64().Draw(t, label+".hi")
	}
	return rapid.Uint64().Draw(t, label)
}

// genUntyped generates a JSON document as the untyped Go values encoding/json decodes it to.
func genUntyped(t *rapid.T, depth int) interface{} {
	max := 5
	if depth <= 0 {
		max = 3
	}
	switch rapid.IntRange(0, max).Draw(t, "ukind") {
	case 0:
		return jsonString(t, "ustr", 30)
	case 1:
		return rapid.Bool().Draw(t, "ubool")
	case 2, 3:
		// numbers come back as float64: integers up to 2^53 and fractions
		if rapid.Bool().Draw(t, "uint") {
			return float64(rapid.Int64Range(-(1 << 53), 1<<53).Draw(t, "unum"))
		}
		return finiteFloat(t, "ufloat")
	case 4:
		m := map[string]interface{}{}
		n := rapid.IntRange(1, 3).Draw(t, "umaplen")
		for i := 0; i < n; i++ {
			m[rapid.SampledFrom([]string{"n", "a", "b", "key with space", ""}).Draw(t, "ukey")] = genUntyped(t, depth-1)
		}
		return m
	default:
		n := rapid.IntRange(1, 3).Draw(t, "uslicelen")
		l := make([]interface{}, n)
		for i := range l {
			l[i] = genUntyped(t, depth-1)
		}
		return l
	}
}

func finiteFloat(t *rapid.T, label string) float64 {
	if rapid.IntRange(0, 3).Draw(t, label+".x") == 0 {
		return rapid.SampledFrom([]float64{0, math.Copysign(0, -1), 1, -1, math.MaxFloat64, -math.MaxFloat64, math.SmallestNonzeroFloat64, 1e21, 1e-7, 0.1}).Draw(t, label+".ext")
	}
	f := rapid.Float64().Draw(t, label)
	if math.IsNaN(f) || math.IsInf(f, 0) {
		return 0
	}
	return f
}

func genJS(t *rapid.T) *JS {
	v := &JS{
		A: extremeInt64(t, "A"), B: jsonString(t, "B", 200),
		C: rapid.SliceOfN(rapid.Int32(), 0, 6).Draw(t, "C"),
		F: finiteFloat(t, "F"), G: rapid.Bool().Draw(t, "G"),
		J: extremeUint64(t, "J"), K: rapid.Int8().Draw(t, "K"),
		L: vt.Bytes(t, "L", 100), M: float32(finiteFloat(t, "M")),
	}
	if math.IsInf(float64(v.M), 0) {
		v.M = math.MaxFloat32
	}
	for i := range v.E {
		v.E[i] = rapid.Uint16().Draw(t, "E")
	}
	if rapid.Bool().Draw(t, "hasD") {
		v.D = map[string]string{}
		n := rapid.IntRange(0, 3).Draw(t, "nD")
		for i := 0; i < n; i++ {
			v.D[jsonString(t, "Dk", 10)] = jsonString(t, "Dv", 30)
		}
	}
	if rapid.Bool().Draw(t, "hasH") {
		v.H = &JInner{X: jsonString(t, "HX", 30), Y: rapid.SliceOfN(rapid.StringN(0, 5, 20), 0, 4).Draw(t, "HY")}
		for i := range v.H.Y {
			v.H.Y[i] = strings.ToValidUTF8(v.H.Y[i], "?")
			v.H.Y[i] = strings.ReplaceAll(v.H.Y[i], string(utf8.RuneError), "?")
		}
	}
	n := rapid.IntRange(0, 3).Draw(t, "nI")
	for i := 0; i < n; i++ {
		v.I = append(v.I, JInner{X: jsonString(t, "IX", 20), Z: map[string]int64{"k": extremeInt64(t, "IZ")}})
	}
	return v
}

func genXS(t *rapid.T) *XS {
	v := &XS{
		A: extremeInt64(t, "A"), B: xmlValidString(t, "B", 200),
		C: rapid.SliceOfN(rapid.Int32(), 0, 6).Draw(t, "C"),
		F: finiteFloat(t, "F"), G: rapid.Bool().Draw(t, "G"),
		In: XInner{X: xmlValidString(t, "InX", 40), N: rapid.Int32().Draw(t, "InN")},
		U:  rapid.Uint8().Draw(t, "U"),
	}
	n := rapid.IntRange(0, 3).Draw(t, "nL")
	for i := 0; i < n; i++ {
		v.L = append(v.L, XInner{X: xmlValidString(t, "LX", 20), N: rapid.Int32().Draw(t, "LN")})
	}
	n = rapid.IntRange(0, 4).Draw(t, "nS")
	for i := 0; i < n; i++ {
		v.S = append(v.S, xmlValidString(t, "S", 20))
	}
	return v
}

func anyFloat(t *rapid.T, label string) float64 {
	switch rapid.IntRange(0, 6).Draw(t, label+".x") {
	case 0:
		return math.NaN()
	case 1:
		return math.Inf(1)
	case 2:
		return math.Inf(-1)
	default:
		return finiteFloat(t, label)
	}
}

func genFS(t *rapid.T) *FS {
	v := &FS{
		Name: string(vt.Bytes(t, "Name", 100)),
		A:    int(extremeInt64(t, "A")), B: rapid.Int8().Draw(t, "B"), C: extremeInt64(t, "C"),
		D: uint(extremeUint64(t, "D")), E: rapid.Uint8().Draw(t, "E"), F: extremeUint64(t, "F"),
		G: float32(anyFloat(t, "G")), H: anyFloat(t, "H"), I: rapid.Bool().Draw(t, "I"),
		N:  rapid.SliceOfN(rapid.Int32(), 0, 5).Draw(t, "N"),
		U:  rapid.SliceOfN(rapid.Uint16(), 0, 5).Draw(t, "U"),
		Bo: rapid.SliceOfN(rapid.Bool(), 0, 4).Draw(t, "Bo"),
	}
	n := rapid.IntRange(0, 4).Draw(t, "nS")
	for i := 0; i < n; i++ {
		v.S = append(v.S, string(vt.Bytes(t, "S", 30)))
	}
	n = rapid.IntRange(0, 3).Draw(t, "nFl")
	for i := 0; i < n; i++ {
		v.Fl = append(v.Fl, anyFloat(t, "Fl"))
	}
	for i := range v.Arr {
		v.Arr[i] = rapid.Int32().Draw(t, "Arr")
	}
	for i := range v.SA {
		v.SA[i] = string(vt.Bytes(t, "SA", 20))
	}
	v.P = string(vt.Bytes(t, "P", 30))
	v.Q = rapid.Int16().Draw(t, "Q")
	return v
}

// ---- equality with stated tolerances ------------------------------------------

// eq is reflect.DeepEqual except that nil and empty slices/maps are identified
// (none of the text encodings can distinguish them) and NaN equals NaN.
func eq(a, b reflect.Value) bool {
	if a.Kind() != b.Kind() {
		return false
	}
	switch a.Kind() {
	case reflect.Ptr, reflect.Interface:
		if a.IsNil() || b.IsNil() {
			return a.IsNil() == b.IsNil()
		}
		return eq(a.Elem(), b.Elem())
	case reflect.Struct:
		for i := 0; i < a.NumField(); i++ {
			if !eq(a.Field(i), b.Field(i)) {
				return false
			}
		}
		return true
	case reflect.Slice, reflect.Array:
		if a.Len() != b.Len() {
			return false
		}
		for i := 0; i < a.Len(); i++ {
			if !eq(a.Index(i), b.Index(i)) {
				return false
			}
		}
		return true
	case reflect.Map:
		if a.Len() != b.Len() {
			return false
		}
		for _, k := range a.MapKeys() {
			bv := b.MapIndex(k)
			if !bv.IsValid() || !eq(a.MapIndex(k), bv) {
				return false
			}
		}
		return true
	case reflect.Float32, reflect.Float64:
		x, y := a.Float(), b.Float()
		if math.IsNaN(x) && math.IsNaN(y) {
			return true
		}
		return x == y && math.Signbit(x) == math.Signbit(y) || x == y && x != 0
	default:
		return reflect.DeepEqual(a.Interface(), b.Interface())
	}
}

func equalValues(a, b interface{}) bool { return eq(reflect.ValueOf(a), reflect.ValueOf(b)) }

// ---- round trip -----------------------------------------------------------------

type rtCase struct {
	codec string
	name  string
	val   interface{}        // value to marshal (pointer or plain)
	dst   func() interface{} // fresh destination
	want  func(v interface{}) interface{}
	nt    bool
}

func mustCodec(t *rapid.T, name string) codec.Codec {
	c, err := codec.GetByName(name)
	if err != nil {
		t.Fatalf("codec %s: %v", name, err)
	}
	return c
}

func scribble(b []byte) {
	for i := range b {
		b[i] = b[i]*31 + 0x5a
	}
}

// roundTrip checks Unmarshal(Marshal(v)) == v, that the decoded value does
// not alias the input buffer, and that nothing panics.
// c11API is how the codec is reached in the current case: through the Codec value, or through
// the package-level helpers that look it up by id or by name.
var c11API = "direct"

func apiMarshal(c codec.Codec, v interface{}) ([]byte, error) {
	switch c11API {
	case "byid":
		return codec.Marshal(c.ID(), v)
	case "byname":
		return codec.MarshalByName(c.Name(), v)
	}
	return c.Marshal(v)
}

func apiUnmarshal(c codec.Codec, data []byte, v interface{}) error {
	switch c11API {
	case "byid":
		return codec.Unmarshal(c.ID(), data, v)
	case "byname":
		return codec.UnmarshalByName(c.Name(), data, v)
	}
	return c.Unmarshal(data, v)
}

func roundTrip(t *rapid.T, c codec.Codec, val interface{}, dst interface{}, got func() interface{}, want interface{}) {
	var enc []byte
	var err error
	func() {
		defer func() {
			if p := recover(); p != nil {
				err = fmt.Errorf("panic in Marshal: %v", p)
			}
		}()
		enc, err = apiMarshal(c, val)
	}()
	if err != nil {
		t.Fatalf("%s: Marshal(%T) of a value in the supported domain failed: %v", c.Name(), val, err)
	}
	// an encoding handed out by Marshal belongs to the caller: marshalling other values
	// afterwards must not change it
	snapshot := append([]byte(nil), enc...)
	for _, o := range otherValues(c.Name()) {
		c.Marshal(o)
	}
	if !bytes.Equal(enc, snapshot) {
		t.Fatalf("%s: the encoding returned by Marshal(%T) changed after later Marshal calls:\n was  %s\n now  %s", c.Name(), val, vt.Trunc(string(snapshot)), vt.Trunc(string(enc)))
	}
	// the framework hands codecs slices of pooled buffers: decode from a private copy
	in := append(make([]byte, 0, len(enc)+8), enc...)
	func() {
		defer func() {
			if p := recover(); p != nil {
				err = fmt.Errorf("panic in Unmarshal: %v", p)
			}
		}()
		err = apiUnmarshal(c, in, dst)
	}()
	if err != nil {
		t.Fatalf("%s: Unmarshal(Marshal(v)) failed for %T: %v (encoding %s)", c.Name(), val, err, vt.Trunc(string(enc)))
	}
	if g := got(); !equalValues(g, want) {
		t.Fatalf("%s: round trip of %T differs:\n got  %+v\n want %+v\n encoding %s", c.Name(), val, g, want, vt.Trunc(string(enc)))
	}
	// no aliasing of the input buffer: reuse the buffer, the value must stay
	scribble(in)
	if g := got(); !equalValues(g, want) {
		t.Fatalf("%s: decoded %T aliases the decoder's input buffer: after the buffer was reused the value reads\n got  %+v\n want %+v", c.Name(), val, g, want)
	}
}

// otherValues are marshalled after the value under test to expose encodings that
// alias a buffer the codec reuses.
func otherValues(codecName string) []interface{} {
	z := strings.Repeat("Z", 300)
	switch codecName {
	case "json":
		return []interface{}{&JS{B: z}, &JS{}}
	case "xml":
		return []interface{}{&XS{B: z}, &XS{}}
	case "form":
		return []interface{}{&FS{Name: z}, url.Values{"k": {z}}}
	case "plain":
		return []interface{}{z, []byte(z), int64(-1)}
	case "protobuf":
		return []interface{}{&ppb.Payload{Body: []byte(z), ServiceMethod: z}, &ppb.Payload{}}
	case "thrift":
		return []interface{}{&vt.TStruct{S: z, B: []byte(z), L: []string{z}}, &vt.TStruct{}}
	}
	return nil
}

func TestC11RoundTrip(t *testing.T) {
	rec := vt.NewRec(t, "C11", "roundtrip", "one typed value per case, through the Codec value or through the package-level helpers by id / by name, from the codec's supported domain (json/xml/form structs with scalars at extremes, slices, fixed arrays, nested structs; plain scalars and named string/bytes decoded into fresh or previously used variables; protobuf messages decoded into fresh and into previously used destinations, thrift messages); non-trivial = has a slice/array with >=2 distinct elements, an extreme scalar or a non-alphanumeric string; distinct by printed value")
	rapid.Check(t, func(t *rapid.T) {
		kind := rapid.SampledFrom([]string{"json", "json-untyped", "xml", "form-struct", "form-values", "form-map", "plain", "protobuf", "thrift", "rawbody"}).Draw(t, "kind")
		c11API = rapid.SampledFrom([]string{"direct", "direct", "byid", "byname"}).Draw(t, "api")
		defer func() { c11API = "direct" }()
		usedBefore := rapid.Bool().Draw(t, "usedbefore") // scalar destinations may hold an earlier value
		nt := true
		var canon string
		switch kind {
		case "json":
			v := genJS(t)
			canon = fmt.Sprintf("%+v", *v)
			var d JS
			roundTrip(t, mustCodec(t, "json"), v, &d, func() interface{} { return d }, *v)
		case "json-untyped":
			// untyped destinations (interface{}, map[string]interface{}, []interface{}), as a
			// generic handler or gateway uses them: the document's values come back as the
			// types encoding/json documents (float64, string, bool, nil, map, slice)
			v := genUntyped(t, 2)
			canon = fmt.Sprintf("%#v", v)
			switch tv := v.(type) {
			case map[string]interface{}:
				if rapid.Bool().Draw(t, "mapdst") {
					var d map[string]interface{}
					roundTrip(t, mustCodec(t, "json"), tv, &d, func() interface{} { return d }, tv)
					break
				}
				var d interface{}
				roundTrip(t, mustCodec(t, "json"), tv, &d, func() interface{} { return d }, v)
			case []interface{}:
				if rapid.Bool().Draw(t, "slicedst") {
					var d []interface{}
					roundTrip(t, mustCodec(t, "json"), tv, &d, func() interface{} { return d }, tv)
					break
				}
				var d interface{}
				roundTrip(t, mustCodec(t, "json"), tv, &d, func() interface{} { return d }, v)
			default:
				var d interface{}
				roundTrip(t, mustCodec(t, "json"), v, &d, func() interface{} { return d }, v)
			}
		case "xml":
			v := genXS(t)
			canon = fmt.Sprintf("%+v", *v)
			var d XS
			roundTrip(t, mustCodec(t, "xml"), v, &d, func() interface{} { return d }, *v)
		case "form-struct":
			v := genFS(t)
			canon = fmt.Sprintf("%+v", *v)
			var d FS
			roundTrip(t, mustCodec(t, "form"), v, &d, func() interface{} { return d }, *v)
		case "form-values", "form-map":
			vals := url.Values{}
			n := rapid.IntRange(0, 4).Draw(t, "nkeys")
			for i := 0; i < n; i++ {
				k := string(vt.Bytes(t, "fk", 20))
				nv := rapid.IntRange(1, 3).Draw(t, "nvals")
				for j := 0; j < nv; j++ {
					vals.Add(k, string(vt.Bytes(t, "fv", 40)))
				}
			}
			canon = fmt.Sprintf("%v", vals)
			nt = len(vals) > 0
			if kind == "form-values" {
				var d url.Values
				roundTrip(t, mustCodec(t, "form"), vals, &d, func() interface{} { return d }, vals)
			} else {
				var d map[string][]string
				roundTrip(t, mustCodec(t, "form"), map[string][]string(vals), &d, func() interface{} { return d }, map[string][]string(vals))
			}
		case "plain":
			c := mustCodec(t, "plain")
			switch rapid.IntRange(0, 11).Draw(t, "plainkind") {
			case 0:
				v := string(vt.Bytes(t, "s", 300))
				var d string
				if usedBefore {
					d = "previous value"
				}
				roundTrip(t, c, v, &d, func() interface{} { return d }, v)
				canon = "s:" + v
			case 1:
				v := vt.Bytes(t, "b", 300)
				var d []byte
				if usedBefore {
					d = []byte("previous value")
				}
				roundTrip(t, c, v, &d, func() interface{} { return d }, v)
				canon = "b:" + string(v)
			case 2:
				v := NStr(vt.Bytes(t, "ns", 300))
				var d NStr
				if usedBefore {
					d = "previous value"
				}
				roundTrip(t, c, v, &d, func() interface{} { return d }, v)
				canon = "ns:" + string(v)
			case 3:
				v := NBytes(vt.Bytes(t, "nb", 300))
				var d NBytes
				if usedBefore {
					d = NBytes("previous value")
				}
				roundTrip(t, c, v, &d, func() interface{} { return d }, v)
				canon = "nb:" + string(v)
			case 4:
				v := rapid.Bool().Draw(t, "bool")
				var d bool
				roundTrip(t, c, v, &d, func() interface{} { return d }, v)
				canon = fmt.Sprint("bool:", v)
				nt = false
			case 5:
				v := extremeInt64(t, "i64")
				var d int64
				roundTrip(t, c, v, &d, func() interface{} { return d }, v)
				canon = fmt.Sprint("i64:", v)
			case 6:
				v := rapid.Int8().Draw(t, "i8")
				var d int8
				roundTrip(t, c, v, &d, func() interface{} { return d }, v)
				canon = fmt.Sprint("i8:", v)
			case 7:
				v := extremeUint64(t, "u64")
				var d uint64
				roundTrip(t, c, v, &d, func() interface{} { return d }, v)
				canon = fmt.Sprint("u64:", v)
			case 8:
				v := rapid.Uint16().Draw(t, "u16")
				var d uint16
				roundTrip(t, c, v, &d, func() interface{} { return d }, v)
				canon = fmt.Sprint("u16:", v)
			case 9:
				v := anyFloat(t, "f64")
				var d float64
				roundTrip(t, c, v, &d, func() interface{} { return d }, v)
				canon = fmt.Sprint("f64:", math.Float64bits(v))
			case 10:
				v := float32(anyFloat(t, "f32"))
				var d float32
				roundTrip(t, c, v, &d, func() interface{} { return d }, v)
				canon = fmt.Sprint("f32:", math.Float32bits(v))
			default:
				v := string(vt.Bytes(t, "sp", 300))
				var d string
				roundTrip(t, c, &v, &d, func() interface{} { return d }, v)
				canon = "sp:" + v
			}
		case "protobuf":
			c := mustCodec(t, "protobuf")
			// the destination may be a message that was used before (a result object kept
			// across calls): decoding resets it, as proto.Unmarshal documents
			dirty := rapid.Bool().Draw(t, "dirtydst")
			zeroOr := func(label string) int32 {
				if rapid.Bool().Draw(t, label+"-zero") {
					return 0
				}
				return rapid.Int32().Draw(t, label)
			}
			switch rapid.IntRange(0, 3).Draw(t, "pbkind") {
			case 0:
				v := &ppb.Payload{Seq: rapid.Int32().Draw(t, "seq"), Mtype: rapid.Int32().Draw(t, "mt"), ServiceMethod: jsonString(t, "sm", 50),
					Status: vt.Bytes(t, "st", 50), Meta: vt.Bytes(t, "me", 50), BodyCodec: rapid.Int32().Draw(t, "bc"), Body: vt.Bytes(t, "bo", 500)}
				var d ppb.Payload
				if dirty {
					d = ppb.Payload{Seq: 77, Mtype: 3, ServiceMethod: "/old", Status: []byte("old"), Meta: []byte("o=ld"), BodyCodec: 9, Body: []byte("old body")}
				}
				roundTrip(t, c, v, &d, func() interface{} { return pbFields(&d) }, pbFields(v))
				canon = v.String()
			case 1:
				v := &wspb.Payload{Seq: rapid.Int32().Draw(t, "seq"), ServiceMethod: jsonString(t, "sm", 50), Body: vt.Bytes(t, "bo", 500), XferPipe: vt.Bytes(t, "xp", 10)}
				var d wspb.Payload
				if dirty {
					d = wspb.Payload{Seq: 77, ServiceMethod: "/old", Body: []byte("old body"), XferPipe: []byte{1, 2}, Meta: []byte("o=ld")}
				}
				roundTrip(t, c, v, &d, func() interface{} { return []interface{}{d.Seq, d.ServiceMethod, nz(d.Body), nz(d.XferPipe)} }, []interface{}{v.Seq, v.ServiceMethod, nz(v.Body), nz(v.XferPipe)})
				canon = v.String()
			case 2:
				v := &secure.Encrypt{Ciphertext: jsonString(t, "ct", 300)}
				var d secure.Encrypt
				if dirty {
					d = secure.Encrypt{Cipherversion: "old", Ciphertext: "old"}
				}
				roundTrip(t, c, v, &d, func() interface{} { return d.Ciphertext }, v.Ciphertext)
				canon = v.String()
			default:
				v := &expb.PbTest{A: zeroOr("a"), B: zeroOr("b")}
				var d expb.PbTest
				if dirty {
					d = expb.PbTest{A: 9, B: 9}
				}
				roundTrip(t, c, v, &d, func() interface{} { return []int32{d.A, d.B} }, []int32{v.A, v.B})
				canon = v.String()
			}
		case "thrift":
			c := mustCodec(t, "thrift")
			v := &vt.TStruct{S: jsonString(t, "S", 100), I: extremeInt64(t, "I"), B: vt.Bytes(t, "B", 300), Ok: rapid.Bool().Draw(t, "ok"),
				L: rapid.SliceOfN(rapid.StringN(0, 10, 30), 0, 5).Draw(t, "L"), D: anyFloat(t, "D"), I32: rapid.Int32().Draw(t, "I32")}
			var d vt.TStruct
			var enc []byte
			enc, err := c.Marshal(v)
			if err != nil {
				t.Fatalf("thrift marshal: %v", err)
			}
			snapshot := append([]byte(nil), enc...)
			for _, o := range otherValues("thrift") {
				c.Marshal(o)
			}
			if !bytes.Equal(enc, snapshot) {
				t.Fatalf("thrift: the encoding returned by Marshal changed after later Marshal calls")
			}
			in := append([]byte(nil), enc...)
			if err := c.Unmarshal(in, &d); err != nil {
				t.Fatalf("thrift: Unmarshal(Marshal(v)) failed: %v", err)
			}
			if !v.Equal(&d) {
				t.Fatalf("thrift: round trip differs: got %v want %v", &d, v)
			}
			scribble(in)
			if !v.Equal(&d) {
				t.Fatalf("thrift: decoded value aliases the input buffer: got %v want %v", &d, v)
			}
			canon = v.String()
		case "rawbody":
			// []byte bodies bypass the codec in Message.MarshalBody/UnmarshalBody
			b := vt.Bytes(t, "raw", 2000)
			m := socket.NewMessage()
			m.SetBodyCodec(rapid.Byte().Draw(t, "codec"))
			m.SetBody(b)
			enc, err := m.MarshalBody()
			if err != nil || !bytes.Equal(enc, b) {
				t.Fatalf("raw body: MarshalBody = %x, %v; want the bytes themselves", enc, err)
			}
			in := append([]byte(nil), enc...)
			r := socket.NewMessage()
			dst := new([]byte)
			r.SetBody(dst)
			if err := r.UnmarshalBody(in); err != nil {
				t.Fatalf("raw body: UnmarshalBody: %v", err)
			}
			scribble(in)
			if !bytes.Equal(*dst, b) {
				t.Fatalf("raw body differs or aliases the input: got %x want %x", *dst, b)
			}
			canon = "raw:" + string(b)
			nt = vt.IsSpecial(b)
		}
		rec.Case(kind+"|"+canon, nt, "kind="+kind)
		if rec.WantSample() {
			rec.Sample(map[string]string{"kind": kind, "value": vt.Trunc(canon)})
		}
	})
}

func nz(b []byte) []byte {
	if b == nil {
		return []byte{}
	}
	return b
}

func pbFields(p *ppb.Payload) []interface{} {
	return []interface{}{p.Seq, p.Mtype, p.ServiceMethod, nz(p.Status), nz(p.Meta), p.BodyCodec, nz(p.Body)}
}

// ---- garbage in -----------------------------------------------------------------

type guard struct {
	pre  [4]uint64
	JS   JS
	XS   XS
	FS   FS
	Str  string
	NS   NStr
	NB   NBytes
	By   []byte
	I8   int8
	U16  uint16
	F32  float32
	Bo   bool
	UV   url.Values
	Mp   map[string][]string
	If   interface{}
	PB   ppb.Payload
	WPB  wspb.Payload
	Enc  secure.Encrypt
	PT   expb.PbTest
	TS   vt.TStruct
	post [4]uint64
}

const canary = 0xC0FFEE1234ABCDEF

func newGuard() *guard {
	g := &guard{}
	for i := range g.pre {
		g.pre[i], g.post[i] = canary, canary
	}
	return g
}

func (g *guard) ok() bool {
	for i := range g.pre {
		if g.pre[i] != canary || g.post[i] != canary {
			return false
		}
	}
	return true
}

func dests(g *guard) map[string][]interface{} {
	return map[string][]interface{}{
		"json":     {&g.JS, &g.Str, &g.If, &g.By, &g.I8, &g.Mp, &g.FS},
		"xml":      {&g.XS, &g.Str, &g.FS},
		"form":     {&g.FS, &g.UV, &g.Mp, &g.If, &g.JS},
		"plain":    {&g.Str, &g.NS, &g.NB, &g.By, &g.I8, &g.U16, &g.F32, &g.Bo},
		"protobuf": {&g.PB, &g.WPB, &g.Enc, &g.PT},
		"thrift":   {&g.TS},
	}
}

func validEncoding(t *rapid.T, name string) []byte {
	c := mustCodec(t, name)
	var v interface{}
	switch name {
	case "json":
		v = genJS(t)
	case "xml":
		v = genXS(t)
	case "form":
		v = genFS(t)
	case "plain":
		v = string(vt.Bytes(t, "pv", 50))
	case "protobuf":
		v = &ppb.Payload{Seq: 5, ServiceMethod: "/a/b", Body: vt.Bytes(t, "pb", 40), Meta: []byte("k=v")}
	case "thrift":
		v = &vt.TStruct{S: "s", I: 9, B: vt.Bytes(t, "tb", 40), L: []string{"a", "b"}}
	}
	b, err := c.Marshal(v)
	if err != nil {
		t.Fatalf("marshal valid %s: %v", name, err)
	}
	return b
}

// formOtherShape builds a valid form encoding whose shape differs from the
// destination struct: more values than a fixed array holds, wrong scalar
// kinds, repeated keys.
func formOtherShape(t *rapid.T) []byte {
	keys := []string{"name", "A", "B", "C", "D", "E", "F", "G", "H", "I", "s", "N", "U", "Fl", "Bo", "arr", "SA", "P", "Q", "zzz"}
	vals := url.Values{}
	n := rapid.IntRange(1, 6).Draw(t, "fos.n")
	for i := 0; i < n; i++ {
		k := rapid.SampledFrom(keys).Draw(t, "fos.k")
		nv := rapid.IntRange(1, 6).Draw(t, "fos.nv")
		for j := 0; j < nv; j++ {
			var v string
			switch rapid.IntRange(0, 4).Draw(t, "fos.vk") {
			case 0:
				v = fmt.Sprint(rapid.Int64().Draw(t, "fos.i"))
			case 1:
				v = ""
			case 2:
				v = "true"
			case 3:
				v = "1e400"
			default:
				v = string(vt.Bytes(t, "fos.s", 12))
			}
			vals.Add(k, v)
		}
	}
	return []byte(vals.Encode())
}

func mutate(t *rapid.T, b []byte) []byte {
	out := append([]byte(nil), b...)
	if len(out) == 0 {
		return out
	}
	switch rapid.IntRange(0, 4).Draw(t, "mut") {
	case 0:
		return out[:rapid.IntRange(0, len(out)-1).Draw(t, "trunc")]
	case 1:
		out[rapid.IntRange(0, len(out)-1).Draw(t, "pos")] = rapid.Byte().Draw(t, "byte")
	case 2:
		i := rapid.IntRange(0, len(out)-1).Draw(t, "pos")
		out[i] ^= 1 << uint(rapid.IntRange(0, 7).Draw(t, "bit"))
	case 3:
		i := rapid.IntRange(0, len(out)-1).Draw(t, "pos")
		out = append(out[:i], append([]byte{0xff, 0xff, 0xff, 0xff, 0x7f}, out[i:]...)...)
	default:
		out = append(out, out...)
	}
	return out
}

func TestC11Garbage(t *testing.T) {
	rec := vt.NewRec(t, "C11", "garbage", "decoder input = arbitrary bytes, a mutated valid encoding, a valid encoding with a located length / count / numeric field overwritten by a boundary value (see lengthfields), or a valid encoding of a different shape, decoded into every destination type between canary words; oracle: no panic out of the codec, canaries intact, bytes of a []byte destination beyond its capacity untouched; non-trivial = input is a mutated/other-shape valid encoding (gets past the first token)")
	rapid.Check(t, func(t *rapid.T) {
		name := rapid.SampledFrom([]string{"json", "xml", "form", "plain", "protobuf", "thrift"}).Draw(t, "codec")
		c := mustCodec(t, name)
		var in []byte
		cls := rapid.SampledFrom([]string{"random", "mutated", "othershape", "valid-other-codec", "lenfield"}).Draw(t, "inputclass")
		switch cls {
		case "random":
			in = vt.Bytes(t, "in", 300)
		case "lenfield":
			// structure-aware: a length / count / numeric field of a valid encoding set to a
			// boundary value (c11len_test.go has the full class with more destinations)
			in, _ = lenMutate(t, name, validEncoding(t, name))
		case "mutated":
			in = mutate(t, validEncoding(t, name))
		case "othershape":
			if name == "form" {
				in = formOtherShape(t)
			} else {
				in = mutate(t, validEncoding(t, name))
			}
		default:
			in = validEncoding(t, rapid.SampledFrom([]string{"json", "xml", "form", "plain", "protobuf", "thrift"}).Draw(t, "other"))
		}
		g := newGuard()
		ds := dests(g)[name]
		di := rapid.IntRange(0, len(ds)-1).Draw(t, "dst")
		dst := ds[di]
		// a []byte destination with spare capacity: bytes beyond cap are not ours to check,
		// bytes within cap may be used; build it inside a larger array and watch the rest
		backing := bytes.Repeat([]byte{0xA5}, 64)
		if bp, ok := dst.(*[]byte); ok {
			*bp = backing[8:12:24]
		}
		if bp, ok := dst.(*NBytes); ok {
			*bp = NBytes(backing[8:12:24])
		}
		rec.Case(fmt.Sprintf("%s|%d|%x", name, di, in), cls != "random", "codec="+name, "input="+cls)
		if rec.WantSample() && cls != "random" {
			rec.Sample(map[string]string{"codec": name, "dest": fmt.Sprintf("%T", dst), "input": vt.Trunc(string(in)), "class": cls})
		}
		data := append([]byte(nil), in...)
		func() {
			defer func() {
				if p := recover(); p != nil {
					t.Fatalf("%s: Unmarshal into %T panicked out of the codec: %v\ninput (%s): %s", name, dst, p, cls, vt.Trunc(string(in)))
				}
			}()
			_ = c.Unmarshal(data, dst)
		}()
		if !g.ok() {
			t.Fatalf("%s: Unmarshal into %T wrote outside the destination (canary changed)", name, dst)
		}
		for i, b := range backing {
			if (i < 8 || i >= 24) && b != 0xA5 {
				t.Fatalf("%s: Unmarshal into %T wrote outside the destination slice's capacity at backing[%d]", name, dst, i)
			}
		}
	})
}
