package racew

import (
	"fmt"
	"sync"
	"testing"
	"time"

	erpc "github.com/henrylee2cn/erpc/v6"
	"pgregory.net/rapid"

	"verifharness/vt"
)

// TestC14Completion: a completed call is the caller's. Whatever completed it (a reply, a
// write failure, the loss of the connection, a local close), once Done() fired or the command
// was received from the completion channel, every accessor may be read by the caller's
// goroutines while the framework goes on with its teardown. The remote end is a scripted peer,
// so that many calls are pending at the loss.
func TestC14Completion(t *testing.T) {
	rec := vt.NewRec(t, "C14", "completion", "4-40 AsyncCalls pending on one session (shared completion channel of generated capacity, or Done() per call; CountTime on or off) against a scripted remote end that answers a generated subset of them; then the connection is lost (cut / remote close / garbage frame / local Close); one consumer goroutine per call (or per channel) reads every accessor of the command (Status, StatusOK, Reply, result object, InputMeta, InputBodyCodec, CostTime, Output) the moment it is completed, and again after the session is down; oracle: the Go race detector, plus the accessor values of a completed call must not change between the two readings; non-trivial = at least one call was completed by the loss; distinct by case")
	protos := vt.StreamProtos()
	rapid.Check(t, func(t *rapid.T) {
		setupOnce.Do(func() { vt.Init() })
		n := rapid.IntRange(4, 40).Draw(t, "ncalls")
		answered := rapid.IntRange(0, n/2).Draw(t, "answered")
		how := rapid.SampledFrom([]string{"cut", "remote-close", "garbage", "local-close"}).Draw(t, "loss")
		shared := rapid.Bool().Draw(t, "sharedchan")
		capacity := rapid.SampledFrom([]int{1, 2, 64}).Draw(t, "chancap")
		countTime := rapid.Bool().Draw(t, "counttime")
		proto := rapid.SampledFrom(protos).Draw(t, "proto")

		w := vt.NewWorld()
		defer w.Close()
		cli := w.Peer(erpc.PeerConfig{CountTime: countTime})
		pair := vt.NewPair()
		sess, stat := cli.ServeConn(pair.A, proto.Fn)
		if !stat.OK() {
			t.Fatalf("harness: ServeConn: %v", stat)
		}
		raw := vt.NewRawPeer(pair, pair.B, proto.Fn)
		defer raw.Close()

		type reading struct {
			code int32
			cost time.Duration
			val  string
			ok   bool
		}
		read := func(c erpc.CallCmd) reading {
			r := reading{code: c.Status().Code(), ok: c.StatusOK(), cost: c.CostTime()}
			if m := c.InputMeta(); m != nil {
				m.VisitAll(func(k, v []byte) {})
			}
			c.InputBodyCodec()
			if c.Output() != nil {
				_ = c.Output().Seq()
			}
			if rep, _ := c.Reply(); rep != nil {
				r.val = rep.(*RArg).S
			}
			return r
		}
		var mu sync.Mutex
		first := map[erpc.CallCmd]reading{}
		var wg sync.WaitGroup
		var ch chan erpc.CallCmd
		if shared {
			ch = make(chan erpc.CallCmd, capacity)
		}
		var cmds []erpc.CallCmd
		for i := 0; i < n; i++ {
			var c erpc.CallCmd
			if shared {
				c = sess.AsyncCall("/c14/hold", &RArg{S: fmt.Sprintf("a%d", i), N: i}, new(RArg), ch)
			} else {
				c = sess.AsyncCall("/c14/hold", &RArg{S: fmt.Sprintf("a%d", i), N: i}, new(RArg), make(chan erpc.CallCmd, 1))
				wg.Add(1)
				go func(c erpc.CallCmd) {
					defer wg.Done()
					<-c.Done()
					r := read(c)
					mu.Lock()
					first[c] = r
					mu.Unlock()
				}(c)
			}
			cmds = append(cmds, c)
		}
		if shared {
			wg.Add(1)
			go func() {
				defer wg.Done()
				for i := 0; i < n; i++ {
					select {
					case c := <-ch:
						r := read(c)
						mu.Lock()
						first[c] = r
						mu.Unlock()
					case <-time.After(vt.LivenessBound):
						return
					}
				}
			}()
		}
		if !raw.WaitFrames(n) {
			t.Fatalf("harness: the scripted end received %d of %d calls", len(raw.Frames()), n)
		}
		frames := raw.Frames()
		// some replies race with the loss
		go func() {
			for i := 0; i < answered; i++ {
				f := frames[i]
				raw.Send(vt.Msg{Seq: f.Seq, Mtype: erpc.TypeReply, Method: f.Method, Codec: 'j', Body: []byte(fmt.Sprintf(`{"S":"r%d","N":%d}`, i, i))})
			}
		}()
		switch how {
		case "cut":
			pair.Cut()
		case "remote-close":
			raw.Close()
		case "garbage":
			raw.SendBytes([]byte{0xff, 0xff, 0xff, 0xf0, 0, 1, 2, 3})
			raw.Close()
		case "local-close":
			go sess.Close()
			time.Sleep(200 * time.Microsecond)
			raw.Close()
		}
		fin := make(chan struct{})
		go func() { wg.Wait(); close(fin) }()
		select {
		case <-fin:
		case <-time.After(vt.LivenessBound + 5*time.Second):
			t.Fatalf("C14 check: the pending calls were not all completed and delivered after the loss (%s) within the liveness bound - see C02", how)
		}
		vt.WaitClosed(sess.CloseNotify())
		byLoss := 0
		for _, c := range cmds {
			second := read(c)
			mu.Lock()
			f, ok := first[c]
			mu.Unlock()
			if !ok {
				continue
			}
			if !f.ok {
				byLoss++
			}
			if f != second {
				t.Fatalf("C14 violated: the accessors of a completed call changed after its completion was published: first reading %+v, later %+v (loss by %s)", f, second, how)
			}
		}
		rec.Case(fmt.Sprintf("%d|%d|%s|%v|%d|%v|%s", n, answered, how, shared, capacity, countTime, proto.Name), byLoss > 0, "loss="+how, fmt.Sprintf("shared=%v", shared))
		if rec.WantSample() && byLoss > 0 {
			rec.Sample(map[string]interface{}{"calls": n, "answered": answered, "loss": how, "shared_channel": shared, "capacity": capacity, "count_time": countTime, "proto": proto.Name, "completed_by_loss": byLoss})
		}
	})
}
